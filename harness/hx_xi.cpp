// C20 harness: XInclude processing on the REAL library.
//
//   one case per line:   <scratch-root-dir> <root-document-relative-path> [V]
//   one observation:     X <tree> E <error-names> ; L <tree> E <error-names>
//
// X = XercesDOMParser (setDoNamespaces(true), setDoXInclude(true)); L = DOMLSParser (namespaces + XMLUni::fgXercesDoXInclude).
// <tree>: canonical dump of the resulting document:
//     (E name (A qname hexvalue)* [(B resolved-base)] child* )     attributes sorted by qname; xml:base and xmlns* not listed
//     (T hex) text runs merged (adjacent text / CDATA nodes), (C hex) comment, (P target hex) processing instruction
//   (B u) is printed for an element whose getBaseURI() differs from its parent's: u is the RESOLVED base made relative to the
//   scratch root (so where exactly the implementation places xml:base attributes does not matter, only the resolved target).
//   A document type node is not dumped.  `noDoc` when the parser produced no document.
// <error-names>: sorted multiset of XMLErrs codes seen by the parser's XMLErrorReporter::error(), each prefixed W:/E:/F: by the severity the
//   reporter was called with, as numeric XMLErrs codes (tools/props/c20.py maps them to names), e.g.  F:282*1,W:10*2 ; `-` when none.
//   Exceptions escaping parse() are appended as  exc:<type>.
// With the optional third field V the messages are appended too (replay / diagnosis).
#include "hx_common.hpp"
#include <algorithm>
#include <map>
#include <xercesc/util/OutOfMemoryException.hpp>
#include <xercesc/util/XMLUni.hpp>
#include <xercesc/util/XMLUri.hpp>
#include <xercesc/framework/XMLErrorCodes.hpp>
#include <xercesc/framework/LocalFileInputSource.hpp>
#include <xercesc/parsers/XercesDOMParser.hpp>
#include <xercesc/sax/ErrorHandler.hpp>
#include <xercesc/sax/SAXParseException.hpp>
#include <xercesc/sax/SAXException.hpp>
#include <xercesc/dom/DOM.hpp>

#include <xercesc/parsers/DOMLSParserImpl.hpp>

static std::string gRoot;      // scratch root, no trailing slash
static bool gVerbose = false;

static std::string hexOf(const XMLCh* s) {
    std::vector<uint32_t> v;
    if (s) for (; *s; ++s) {
        uint32_t c = *s;
        if (c >= 0xD800 && c < 0xDC00 && s[1] >= 0xDC00 && s[1] < 0xE000) { c = 0x10000 + ((c - 0xD800) << 10) + (s[1] - 0xDC00); ++s; }
        v.push_back(c);
    }
    return hx::hexList(v);
}

static std::string relBase(const XMLCh* u) {
    if (!u) return "null";
    std::string s = hx::narrow(u);
    const char* pfx[] = { "file://", "file:" };
    for (const char* p : pfx) if (s.compare(0, strlen(p), p) == 0) { s = s.substr(strlen(p)); break; }
    while (s.size() > 1 && s[0] == '/' && s[1] == '/') s = s.substr(1);
    if (s.compare(0, gRoot.size(), gRoot) == 0 && s.size() > gRoot.size() && s[gRoot.size()] == '/') s = s.substr(gRoot.size() + 1);
    for (char& c : s) if (c == ' ' || c == '(' || c == ')') c = '_';
    return s.empty() ? "empty" : s;
}

static bool same(const XMLCh* a, const XMLCh* b) { return XMLString::equals(a, b); }

static void dump(DOMNode* n, std::string& out);

static void dumpKids(DOMNode* n, std::string& out) {
    DOMNode* c = n->getFirstChild();
    while (c) {
        short t = c->getNodeType();
        if (t == DOMNode::TEXT_NODE || t == DOMNode::CDATA_SECTION_NODE) {
            std::vector<uint32_t> v;
            while (c && (c->getNodeType() == DOMNode::TEXT_NODE || c->getNodeType() == DOMNode::CDATA_SECTION_NODE)) {
                const XMLCh* s = c->getNodeValue();
                if (s) for (; *s; ++s) {
                    uint32_t ch = *s;
                    if (ch >= 0xD800 && ch < 0xDC00 && s[1] >= 0xDC00 && s[1] < 0xE000) { ch = 0x10000 + ((ch - 0xD800) << 10) + (s[1] - 0xDC00); ++s; }
                    v.push_back(ch);
                }
                c = c->getNextSibling();
            }
            if (!v.empty()) out += " (T " + hx::hexList(v) + ")";
            continue;
        }
        if (t == DOMNode::ENTITY_REFERENCE_NODE) { dumpKids(c, out); c = c->getNextSibling(); continue; }
        dump(c, out);
        c = c->getNextSibling();
    }
}

static void dump(DOMNode* n, std::string& out) {
    switch (n->getNodeType()) {
    case DOMNode::ELEMENT_NODE: {
        out += " (E " + hx::narrow(n->getNodeName());
        std::vector<std::pair<std::string, std::string> > as;
        DOMNamedNodeMap* m = n->getAttributes();
        for (XMLSize_t i = 0; m && i < m->getLength(); i++) {
            DOMNode* a = m->item(i);
            std::string nm = hx::narrow(a->getNodeName());
            if (nm == "xml:base" || nm == "xmlns" || nm.compare(0, 6, "xmlns:") == 0) continue;
            as.push_back(std::make_pair(nm, hexOf(a->getNodeValue())));
        }
        std::sort(as.begin(), as.end());
        for (auto& a : as) out += " (A " + a.first + " " + a.second + ")";
        const XMLCh* b = n->getBaseURI();
        DOMNode* p = n->getParentNode();
        const XMLCh* pb = p ? p->getBaseURI() : 0;
        if (!same(b, pb)) out += " (B " + relBase(b) + ")";
        dumpKids(n, out);
        out += " )";
        break; }
    case DOMNode::COMMENT_NODE: out += " (C " + hexOf(n->getNodeValue()) + ")"; break;
    case DOMNode::PROCESSING_INSTRUCTION_NODE: out += " (P " + hx::narrow(n->getNodeName()) + " " + hexOf(n->getNodeValue()) + ")"; break;
    case DOMNode::DOCUMENT_TYPE_NODE: break;
    default: out += " (? " + std::to_string((int)n->getNodeType()) + ")"; break;
    }
}

static std::string dumpDoc(DOMDocument* d) {
    if (!d) return "noDoc";
    std::string out = "(D";
    dumpKids(d, out);
    out += " )";
    return out;
}

struct Errs {
    std::map<std::string, int> seen;
    std::string msgs;
    std::string str() const {
        if (seen.empty()) return "-";
        std::string s;
        for (auto& kv : seen) { if (!s.empty()) s += ","; s += kv.first + "*" + std::to_string(kv.second); }
        return s;
    }
};

// Error codes are visible only at the XMLErrorReporter level: subclass the parser and intercept error().
static void note(Errs& e, unsigned code, const XMLCh* domain, XMLErrorReporter::ErrTypes type, const XMLCh* text) {
    char sev = type == XMLErrorReporter::ErrType_Warning ? 'W' : type == XMLErrorReporter::ErrType_Error ? 'E' : type == XMLErrorReporter::ErrType_Fatal ? 'F' : '?';
    std::string nm;
    if (XMLString::equals(domain, XMLUni::fgXMLErrDomain)) nm = std::to_string(code);
    else nm = std::string("other:") + hx::narrow(domain);
    e.seen[std::string(1, sev) + ":" + nm]++;
    if (gVerbose) e.msgs += " [" + hx::narrow(text) + "]";
}

class XParser : public XercesDOMParser {
public:
    Errs errs;
    virtual void error(const unsigned int code, const XMLCh* const domain, const XMLErrorReporter::ErrTypes type,
                       const XMLCh* const text, const XMLCh* const sysId, const XMLCh* const pubId,
                       const XMLFileLoc line, const XMLFileLoc col) {
        note(errs, code, domain, type, text);
        XercesDOMParser::error(code, domain, type, text, sysId, pubId, line, col);
    }
};

struct QuietSax : public ErrorHandler {
    int w = 0, e = 0, f = 0;
    void warning(const SAXParseException&) { w++; }
    void error(const SAXParseException&) { e++; }
    void fatalError(const SAXParseException&) { f++; }
    void resetErrors() {}
};

struct LsHandler : public DOMErrorHandler {
    bool handleError(const DOMError&) { return true; }   // continue
};

class LParser : public DOMLSParserImpl {
public:
    Errs errs;
    virtual void error(const unsigned int code, const XMLCh* const domain, const XMLErrorReporter::ErrTypes type,
                       const XMLCh* const text, const XMLCh* const sysId, const XMLCh* const pubId,
                       const XMLFileLoc line, const XMLFileLoc col) {
        note(errs, code, domain, type, text);
        DOMLSParserImpl::error(code, domain, type, text, sysId, pubId, line, col);
    }
};

template <class F> static std::string guarded(F f) {
    try { f(); return ""; }
    catch (const OutOfMemoryException&) { return "exc:OutOfMemoryException"; }
    catch (const XMLException& e) { return "exc:XMLException:" + hx::narrow(e.getType()); }
    catch (const DOMException& e) { return "exc:DOMException:" + std::to_string((int)e.code); }
    catch (const SAXException&) { return "exc:SAXException"; }
    catch (...) { return "exc:FOREIGN-EXCEPTION"; }
}

static std::string runX(const std::string& path) {
    XParser p;
    QuietSax q;
    p.setErrorHandler(&q);
    p.setDoNamespaces(true);
    p.setDoXInclude(true);
    p.setCreateEntityReferenceNodes(false);
    std::string exc = guarded([&] { p.parse(path.c_str()); });
    std::string out = "X " + dumpDoc(p.getDocument()) + " E " + p.errs.str();
    if (!exc.empty()) out += "," + exc;
    if (gVerbose) out += p.errs.msgs;
    return out;
}

static std::string runL(const std::string& path) {
    // what DOMImplementationLS::createLSParser returns, subclassed only to see the numeric error codes
    LParser* p = new LParser();
    LsHandler h;
    DOMConfiguration* c = p->getDomConfig();
    c->setParameter(XMLUni::fgDOMNamespaces, true);
    c->setParameter(XMLUni::fgXercesDoXInclude, true);
    c->setParameter(XMLUni::fgDOMEntities, false);
    c->setParameter(XMLUni::fgDOMErrorHandler, &h);
    DOMDocument* d = 0;
    std::string exc = guarded([&] { d = p->parseURI(path.c_str()); });
    std::string out = "L " + dumpDoc(d) + " E " + p->errs.str();
    if (!exc.empty()) out += "," + exc;
    if (gVerbose) out += p->errs.msgs;
    p->release();
    return out;
}

int main() {
    XMLPlatformUtils::Initialize();
    std::string line;
    while (std::getline(std::cin, line)) {
        auto f = hx::split(line);
        if (f.size() < 2 || f[0].empty() || f[1].empty()) { std::cout << "bad-op" << std::endl; continue; }
        gRoot = f[0];
        while (gRoot.size() > 1 && gRoot.back() == '/') gRoot.pop_back();
        gVerbose = f.size() > 2 && f[2] == "V";
        std::string path = gRoot + "/" + f[1];
        std::string a = runX(path);
        std::string b = runL(path);
        std::cout << a << " ; " << b << std::endl;
    }
    XMLPlatformUtils::Terminate();
    return 0;
}
