// Shared helpers for the correspondence harnesses (real xerces-c, in-process).
#pragma once
#include <cstdio>
#include <cstdint>
#include <cstring>
#include <string>
#include <vector>
#include <iostream>
#include <sstream>
#include <xercesc/util/PlatformUtils.hpp>
#include <xercesc/util/XMLString.hpp>
#include <xercesc/util/XMLException.hpp>

using namespace XERCES_CPP_NAMESPACE;

namespace hx {

struct Fnv {
    uint64_t h = 1469598103934665603ULL;
    void add(const std::string& s) { for (unsigned char c : s) { h ^= c; h *= 1099511628211ULL; } }
    void addc(unsigned char c) { h ^= c; h *= 1099511628211ULL; }
};

inline int hexv(char c) {
    if (c >= '0' && c <= '9') return c - '0';
    if (c >= 'a' && c <= 'f') return c - 'a' + 10;
    if (c >= 'A' && c <= 'F') return c - 'A' + 10;
    return -1;
}
// "41.e2.82" or "-" (empty)  -> numbers (any width, '.'-separated hex)
inline std::vector<uint32_t> parseHexList(const std::string& s) {
    std::vector<uint32_t> v;
    if (s == "-" || s.empty()) return v;
    uint32_t cur = 0; bool have = false;
    for (char c : s) {
        if (c == '.') { if (have) v.push_back(cur); cur = 0; have = false; }
        else { cur = cur * 16 + hexv(c); have = true; }
    }
    if (have) v.push_back(cur);
    return v;
}
inline std::string hexList(const std::vector<uint32_t>& v) {
    if (v.empty()) return "-";
    std::string s; char b[16];
    for (size_t i = 0; i < v.size(); i++) { snprintf(b, sizeof b, i ? ".%x" : "%x", v[i]); s += b; }
    return s;
}
inline std::vector<std::string> split(const std::string& s, char sep = ' ') {
    std::vector<std::string> out; std::string cur;
    for (char c : s) { if (c == sep) { out.push_back(cur); cur.clear(); } else cur += c; }
    out.push_back(cur);
    return out;
}
inline std::string narrow(const XMLCh* s) {
    std::string r; if (!s) return r;
    for (; *s; ++s) { if (*s < 0x80) r += (char)*s; else { char b[12]; snprintf(b, sizeof b, "\\u%04x", (unsigned)*s); r += b; } }
    return r;
}
// splitmix64, same as tools/common.py and the Lean driver
struct Rng {
    uint64_t s;
    explicit Rng(uint64_t seed) : s(seed) {}
    uint64_t next() { s += 0x9E3779B97F4A7C15ULL; uint64_t z = s;
        z = (z ^ (z >> 30)) * 0xBF58476D1CE4E5B9ULL; z = (z ^ (z >> 27)) * 0x94D049BB133111EBULL; return z ^ (z >> 31); }
    uint64_t below(uint64_t n) { return n ? next() % n : 0; }
};
}
