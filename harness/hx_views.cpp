// C14 harness: the C13 history protocol (harness/hx_dom.cpp, included verbatim: same handles, same operation lines, same
// structural dump) extended with operations on live views of the REAL xerces-c DOM: NodeIterator, TreeWalker,
// getElementsByTagName lists and Ranges.  Protocol: see lean/XV/Driver/Views.lean (same lines in, same lines out).
//   hx_views [full]     digest mode (default): "<result> <fnv64 of dump # views>" ; full: "<result> | <dump> # <views>"
// View handles are numbered per kind in creation order.  After EVERY operation the observable state of every live view is
// dumped next to the structural dump: walker current node, range boundary points + collapsed flag, (lmode 1) every tag-name
// list's length and items; iterators have no non-destructive probe: what their operations return is the observation.
// Nodes created inside a range operation get handles in discovery order: pre-order with attributes from the returned
// node, then from the parentless old handles in increasing order.
#define main hx_dom_main_unused
#include "hx_dom.cpp"
#undef main
#include <xercesc/dom/DOMRangeException.hpp>

// ---------------------------------------------------------------- filters chosen by id
class IdFilter : public DOMNodeFilter {
public:
    int id;
    explicit IdFilter(int i) : id(i) {}
    virtual FilterAction acceptNode(const DOMNode* n) const {
        static const XMLCh b[] = { chLatin_b, 0 };
        bool elemB = n->getNodeType() == DOMNode::ELEMENT_NODE && XMLString::equals(n->getNodeName(), b);
        switch (id) {
            case 1: return elemB ? FILTER_SKIP : FILTER_ACCEPT;
            case 2: return elemB ? FILTER_REJECT : FILTER_ACCEPT;
            case 3: return n->getNodeType() == DOMNode::TEXT_NODE ? FILTER_ACCEPT : FILTER_SKIP;
            default: return FILTER_ACCEPT;
        }
    }
};
static IdFilter gFilters[5] = { IdFilter(0), IdFilter(1), IdFilter(2), IdFilter(3), IdFilter(4) };
static DOMNodeFilter* filterOf(long id) { return (id >= 1 && id <= 4) ? &gFilters[id] : 0; }

struct VIter { DOMNodeIterator* it; int rootH; bool detached; };
struct VWalker { DOMTreeWalker* w; int rootH; int curH; bool dead; };
struct VList { DOMNodeList* l; int rootH; };
struct VRange { DOMRange* r; bool detached; bool dead; int scH, ecH, docH; };
static std::vector<VIter> iters;
static std::vector<VWalker> walkers;
static std::vector<VList> lists;
static std::vector<VRange> ranges;
static bool lmode = false;

static std::string optN(const DOMNode* n) { return n ? "n" + hOf(n) : std::string("-"); }

// ---------------------------------------------------------------- discovery of nodes created inside a range operation
static void preA(DOMNode* n, std::vector<DOMNode*>& out, int depth) {
    if (!n || depth > 4000) return;
    out.push_back(n);
    DOMNamedNodeMap* am = n->getAttributes();
    if (am) for (XMLSize_t i = 0; i < am->getLength(); i++) preA(am->item(i), out, depth + 1);
    size_t k = 0;
    for (DOMNode* c = n->getFirstChild(); c && k < 100000; c = c->getNextSibling(), k++) preA(c, out, depth + 1);
}
static void discoverNew(DOMNode* ret) {
    std::vector<DOMNode*> roots;
    if (ret && hIdx(ret) < 0) roots.push_back(ret);
    size_t n0 = H.size();
    for (size_t h = 0; h < n0; h++) {
        if (!alive[h]) continue;
        DOMNode* n = H[h];
        if (n->getParentNode()) continue;
        if (n->getNodeType() == DOMNode::ATTRIBUTE_NODE && static_cast<DOMAttr*>(n)->getOwnerElement()) continue;
        roots.push_back(n);
    }
    std::vector<DOMNode*> all;
    for (DOMNode* r : roots) preA(r, all, 0);
    for (DOMNode* n : all) if (hIdx(n) < 0) newHandle(n);
}

// ---------------------------------------------------------------- views dump
static void refreshViewLiveness() {
    for (auto& w : walkers) if (!w.dead && (!alive[w.rootH] || !alive[w.curH])) w.dead = true;
    for (auto& r : ranges) {
        if (r.dead || r.detached) continue;
        DOMNode* sc = r.r->getStartContainer(); DOMNode* ec = r.r->getEndContainer();
        // a container is gone when the handle it had at the last dump died and the range still points at that node
        if ((r.scH >= 0 && !alive[r.scH] && sc == H[r.scH]) || (r.ecH >= 0 && !alive[r.ecH] && ec == H[r.ecH])) { r.dead = true; continue; }
        if (hIdx(sc) < 0 || hIdx(ec) < 0) { r.dead = true; continue; }
        r.scH = hIdx(sc); r.ecH = hIdx(ec);
    }
}
static std::string listAll(VList& l) {
    XMLSize_t n = l.l->getLength();
    std::string s = std::to_string((unsigned long)n) + ":";
    for (XMLSize_t i = 0; i < n; i++) { if (i) s += ","; s += optN(l.l->item(i)); }
    return s;
}
static std::string viewsDump() {
    refreshViewLiveness();
    std::vector<std::string> out;
    for (size_t k = 0; k < iters.size(); k++)
        out.push_back("I" + std::to_string(k) + "=" + (!alive[iters[k].rootH] ? "x" : iters[k].detached ? "d" : "a"));
    for (size_t k = 0; k < walkers.size(); k++)
        out.push_back("W" + std::to_string(k) + "=" + (walkers[k].dead ? std::string("x") : std::to_string(walkers[k].curH)));
    for (size_t k = 0; k < lists.size(); k++) {
        if (!alive[lists[k].rootH]) out.push_back("L" + std::to_string(k) + "=x");
        else if (lmode) out.push_back("L" + std::to_string(k) + "=" + listAll(lists[k]));
        else out.push_back("L" + std::to_string(k) + "=a");
    }
    for (size_t k = 0; k < ranges.size(); k++) {
        VRange& r = ranges[k];
        std::string s = "R" + std::to_string(k) + "=";
        if (r.detached) s += "d";
        else if (r.dead) s += "x";
        else s += hOf(r.r->getStartContainer()) + "," + std::to_string((unsigned long)r.r->getStartOffset()) + "," +
                  hOf(r.r->getEndContainer()) + "," + std::to_string((unsigned long)r.r->getEndOffset()) + "," +
                  (r.r->getCollapsed() ? "1" : "0");
        out.push_back(s);
    }
    std::string s;
    for (size_t i = 0; i < out.size(); i++) { if (i) s += " "; s += out[i]; }
    return s;
}
static void emitV(const std::string& res) {
    std::string d = dump();
    std::string all = d + " # " + viewsDump();
    if (fullMode) printf("%s | %s\n", res.c_str(), all.c_str());
    else { hx::Fnv f; f.add(all); printf("%s %llx\n", res.c_str(), (unsigned long long)f.h); }
}

// ---------------------------------------------------------------- helpers
static bool hasEntityRefBelow(DOMNode* n, int depth = 0) {
    if (!n || depth > 4000) return false;
    if (n->getNodeType() == DOMNode::ENTITY_REFERENCE_NODE) return true;
    for (DOMNode* c = n->getFirstChild(); c; c = c->getNextSibling()) if (hasEntityRefBelow(c, depth + 1)) return true;
    return false;
}
static bool isTextLike(DOMNode* n) {
    int t = n->getNodeType();
    return t == DOMNode::TEXT_NODE || t == DOMNode::CDATA_SECTION_NODE || t == DOMNode::COMMENT_NODE || t == DOMNode::PROCESSING_INSTRUCTION_NODE;
}
static XMLSize_t lenOf(DOMNode* n) {
    if (isTextLike(n)) return XMLString::stringLen(n->getNodeValue());
    XMLSize_t k = 0; for (DOMNode* c = n->getFirstChild(); c; c = c->getNextSibling()) k++; return k;
}
static DOMNode* rootOfNode(DOMNode* n) { size_t k = 0; while (n->getParentNode() && k++ < 100000) n = n->getParentNode(); return n; }
// linear position of a boundary point (the Spec's bpKey is not needed here: the library's own comparison decides usability
// on the model side too; here we only need "valid and ordered", computed from public getters)
static long weightOf(DOMNode* n, int depth = 0) {
    if (isTextLike(n)) return 2 + (long)XMLString::stringLen(n->getNodeValue());
    long w = 2; if (depth > 4000) return w;
    for (DOMNode* c = n->getFirstChild(); c; c = c->getNextSibling()) w += weightOf(c, depth + 1);
    return w;
}
static long innerPos(DOMNode* n, XMLSize_t o) {
    if (isTextLike(n)) return 1 + (long)o;
    long p = 1; XMLSize_t i = 0;
    for (DOMNode* c = n->getFirstChild(); c && i < o; c = c->getNextSibling(), i++) p += weightOf(c);
    return p;
}
static long keyOf(DOMNode* n, XMLSize_t o) {
    long p = innerPos(n, o);
    size_t guard = 0;
    for (DOMNode* x = n; x->getParentNode() && guard++ < 100000; x = x->getParentNode()) {
        DOMNode* par = x->getParentNode();
        XMLSize_t idx = 0; for (DOMNode* c = par->getFirstChild(); c && c != x; c = c->getNextSibling()) idx++;
        p += innerPos(par, idx);
    }
    return p;
}
// the range can be handed to a content operation: live containers of one tree, offsets in range, start not after end
static bool usable(VRange& r) {
    if (r.detached || r.dead) return false;
    DOMNode* sc = r.r->getStartContainer(); DOMNode* ec = r.r->getEndContainer();
    if (hIdx(sc) < 0 || hIdx(ec) < 0) return false;
    if (rootOfNode(sc) != rootOfNode(ec)) return false;
    if (r.r->getStartOffset() > lenOf(sc) || r.r->getEndOffset() > lenOf(ec)) return false;
    if (keyOf(sc, r.r->getStartOffset()) > keyOf(ec, r.r->getEndOffset())) return false;
    // DOM Range 2.2: the root container of a range is a Document, DocumentFragment or Attr
    int rt = rootOfNode(sc)->getNodeType();
    return rt == DOMNode::DOCUMENT_NODE || rt == DOMNode::DOCUMENT_FRAGMENT_NODE || rt == DOMNode::ATTRIBUTE_NODE;
}
static DOMNode* commonAnc(DOMNode* a, DOMNode* b) {
    for (DOMNode* x = a; x; x = x->getParentNode())
        for (DOMNode* y = b; y; y = y->getParentNode()) if (x == y) return x;
    return a;
}

static std::string doViewOp(const std::vector<std::string>& f, bool& handled) {
    handled = true;
    const std::string& op = f[0];
    auto num = [&](size_t i) -> long { if (i >= f.size()) return -1; char* e = 0; long v = strtol(f[i].c_str(), &e, 10); return (*e || f[i].empty()) ? -1 : v; };
    size_t n = f.size();
    // ---- NodeIterator
    if (op == "ni" && n == 4) {
        long r = num(1); if (!live(r)) return "dead";
        DOMNode* root = H[r];
        DOMDocument* doc = root->getNodeType() == DOMNode::DOCUMENT_NODE ? static_cast<DOMDocument*>(root) : root->getOwnerDocument();
        DOMNodeIterator* it = doc->createNodeIterator(root, (DOMNodeFilter::ShowType)num(2), filterOf(num(3)), true);
        iters.push_back(VIter{ it, (int)r, false });
        return "ok I" + std::to_string(iters.size() - 1);
    }
    if ((op == "nn" || op == "np" || op == "nd") && n == 2) {
        long k = num(1); if (k < 0 || k >= (long)iters.size()) return "dead";
        VIter& v = iters[k];
        if (op == "nd") { if (!v.detached) { v.it->detach(); v.detached = true; } return "ok -"; }
        if (!alive[v.rootH]) return "dead";
        if (v.detached) {          // (detach() took it out of the document's list; the object itself stays valid)
            DOMNode* r = op == "nn" ? v.it->nextNode() : v.it->previousNode();
            return "ok " + optN(r);
        }
        DOMNode* r = op == "nn" ? v.it->nextNode() : v.it->previousNode();
        return "ok " + optN(r);
    }
    // ---- TreeWalker
    if (op == "tw" && n == 4) {
        long r = num(1); if (!live(r)) return "dead";
        DOMNode* root = H[r];
        DOMDocument* doc = root->getNodeType() == DOMNode::DOCUMENT_NODE ? static_cast<DOMDocument*>(root) : root->getOwnerDocument();
        DOMTreeWalker* w = doc->createTreeWalker(root, (DOMNodeFilter::ShowType)num(2), filterOf(num(3)), true);
        walkers.push_back(VWalker{ w, (int)r, (int)r, false });
        return "ok W" + std::to_string(walkers.size() - 1);
    }
    if ((op == "wp" || op == "wf" || op == "wl" || op == "wps" || op == "wns" || op == "wpn" || op == "wnn") && n == 2) {
        long k = num(1); if (k < 0 || k >= (long)walkers.size()) return "dead";
        VWalker& v = walkers[k];
        if (v.dead || !alive[v.rootH] || !alive[v.curH]) { v.dead = true; return "dead"; }
        DOMNode* r = op == "wp" ? v.w->parentNode() : op == "wf" ? v.w->firstChild() : op == "wl" ? v.w->lastChild() :
                     op == "wps" ? v.w->previousSibling() : op == "wns" ? v.w->nextSibling() :
                     op == "wpn" ? v.w->previousNode() : v.w->nextNode();
        int c = hIdx(v.w->getCurrentNode());
        if (c >= 0) v.curH = c;
        return "ok " + optN(r);
    }
    if (op == "wsc" && n == 3) {
        long k = num(1), x = num(2); if (k < 0 || k >= (long)walkers.size()) return "dead";
        VWalker& v = walkers[k];
        if (!live(x) || v.dead || !alive[v.rootH] || !alive[v.curH]) return "dead";
        v.w->setCurrentNode(H[x]); v.curH = (int)x;
        return "ok -";
    }
    // ---- getElementsByTagName
    if (op == "gl" && n == 3) {
        long r = num(1); if (!live(r)) return "dead";
        DOMNode* root = H[r]; std::vector<XMLCh> t = toX(f[2]);
        DOMNodeList* l = 0;
        if (root->getNodeType() == DOMNode::DOCUMENT_NODE) l = static_cast<DOMDocument*>(root)->getElementsByTagName(t.data());
        else if (root->getNodeType() == DOMNode::ELEMENT_NODE) l = static_cast<DOMElement*>(root)->getElementsByTagName(t.data());
        else return "mismatch";
        lists.push_back(VList{ l, (int)r });
        return "ok L" + std::to_string(lists.size() - 1);
    }
    if ((op == "ll" || op == "lq") && n == 2) {
        long k = num(1); if (k < 0 || k >= (long)lists.size() || !alive[lists[k].rootH]) return "dead";
        if (op == "ll") return "ok #" + std::to_string((unsigned long)lists[k].l->getLength());
        return "ok #" + listAll(lists[k]);
    }
    if (op == "li" && n == 3) {
        long k = num(1); if (k < 0 || k >= (long)lists.size() || !alive[lists[k].rootH]) return "dead";
        return "ok " + optN(lists[k].l->item((XMLSize_t)strtoull(f[2].c_str(), 0, 10)));
    }
    // ---- Range
    if (op == "rc" && n == 2) {
        long d = num(1); if (!live(d)) return "dead";
        if (!isType(d, DOMNode::DOCUMENT_NODE)) return "mismatch";
        DOMRange* r = static_cast<DOMDocument*>(H[d])->createRange();
        ranges.push_back(VRange{ r, false, false, (int)d, (int)d, (int)d });
        return "ok R" + std::to_string(ranges.size() - 1);
    }
    if (op.size() >= 2 && op[0] == 'r' && op != "rm" && op != "rp" && op != "ra" && op != "rn" && op != "rnm" && op != "reset" && n >= 2) {
        long k = num(1); if (k < 0 || k >= (long)ranges.size()) return "dead";
        VRange& v = ranges[k];
        // order of the checks on both sides: operand node live? -> detached (INVALID_STATE_ERR) -> range dead? -> ...
        if (op == "rdt" && n == 2) {
            if (v.detached) return "exc INVALID_STATE_ERR";
            v.r->detach(); v.detached = true; return "ok -";
        }
        if (op == "rcb" && n == 4) {
            long o = num(3); if (o < 0 || o >= (long)ranges.size()) return "dead";
            VRange& w = ranges[o];
            DOMDocument* dv = static_cast<DOMDocument*>(H[v.docH]); DOMDocument* dw = static_cast<DOMDocument*>(H[w.docH]);
            if (dv != dw) return "exc WRONG_DOCUMENT_ERR";      // (checked by the library first, too; a detached range keeps its document)
            if (!v.detached && !w.detached && (v.dead || w.dead)) return "dead";
            short c = v.r->compareBoundaryPoints((DOMRange::CompareHow)num(2), w.r);
            return "ok #" + std::to_string((int)c);
        }
        bool hasNode = (op == "rss" || op == "rse" || op == "rsb" || op == "rsa" || op == "reb" || op == "rea" || op == "rsn" || op == "rsc" || op == "rin" || op == "rsu");
        long x = -1;
        if (hasNode) { if (n < 3) { handled = false; return ""; } x = num(2); if (!live(x)) return "dead"; }
        if (v.detached) {
            // every operation of a detached range raises INVALID_STATE_ERR: let the library say so
            if (op == "rss") v.r->setStart(H[x], 0); else if (op == "rse") v.r->setEnd(H[x], 0);
            else if (op == "rsb") v.r->setStartBefore(H[x]); else if (op == "rsa") v.r->setStartAfter(H[x]);
            else if (op == "reb") v.r->setEndBefore(H[x]); else if (op == "rea") v.r->setEndAfter(H[x]);
            else if (op == "rsn") v.r->selectNode(H[x]); else if (op == "rsc") v.r->selectNodeContents(H[x]);
            else if (op == "rco") v.r->collapse(true); else if (op == "rts") v.r->toString();
            else if (op == "rdc") v.r->deleteContents(); else if (op == "rex") v.r->extractContents();
            else if (op == "rcl") v.r->cloneContents(); else if (op == "rin") v.r->insertNode(H[x]);
            else if (op == "rsu") v.r->surroundContents(H[x]); else { handled = false; return ""; }
            return "ok ?detached-range-accepted";
        }
        if (v.dead) return "dead";
        if ((op == "rss" || op == "rse") && n == 4) {
            XMLSize_t off = (XMLSize_t)strtoull(f[3].c_str(), 0, 10);
            if (op == "rss") v.r->setStart(H[x], off); else v.r->setEnd(H[x], off);
            return "ok -";
        }
        if ((op == "rsn" || op == "rsc") && n == 3) {
            // selectNode / selectNodeContents do not look at the owner document: nodes of other documents are not exercised
            DOMDocument* rd = static_cast<DOMDocument*>(H[v.docH]);
            if (H[x] != rd && H[x]->getOwnerDocument() != rd) return "mismatch";
        }
        if ((op == "rsb" || op == "rsa" || op == "reb" || op == "rea" || op == "rsn" || op == "rsc") && n == 3) {
            if (op == "rsb") v.r->setStartBefore(H[x]); else if (op == "rsa") v.r->setStartAfter(H[x]);
            else if (op == "reb") v.r->setEndBefore(H[x]); else if (op == "rea") v.r->setEndAfter(H[x]);
            else if (op == "rsn") v.r->selectNode(H[x]); else v.r->selectNodeContents(H[x]);
            return "ok -";
        }
        if (op == "rco" && n == 3) { v.r->collapse(f[2] == "1"); return "ok -"; }
        if (op == "rts" && n == 2) {
            if (!usable(v)) return "mismatch";
            return "ok s" + hexStr(v.r->toString());
        }
        if ((op == "rdc" || op == "rex" || op == "rcl") && n == 2) {
            if (!usable(v) || hasEntityRefBelow(commonAnc(v.r->getStartContainer(), v.r->getEndContainer()))) return "mismatch";
            if (op == "rdc") { v.r->deleteContents(); return "ok -"; }
            DOMNode* fr = op == "rex" ? (DOMNode*)v.r->extractContents() : (DOMNode*)v.r->cloneContents();
            discoverNew(fr);
            return "ok " + optN(fr);
        }
        if (op == "rin" && n == 3) {
            if (!usable(v)) return "mismatch";
            int t = v.r->getStartContainer()->getNodeType();
            if (t == DOMNode::COMMENT_NODE || t == DOMNode::PROCESSING_INSTRUCTION_NODE) return "mismatch";   // not exercised
            try { v.r->insertNode(H[x]); }
            catch (...) { discoverNew(0); throw; }
            discoverNew(0);
            return "ok -";
        }
        if (op == "rsu" && n == 3) {
            if (!usable(v) || hasEntityRefBelow(commonAnc(v.r->getStartContainer(), v.r->getEndContainer()))) return "mismatch";
            int t = v.r->getStartContainer()->getNodeType();
            if (t == DOMNode::COMMENT_NODE || t == DOMNode::PROCESSING_INSTRUCTION_NODE) return "mismatch";   // not exercised
            {
                // the checks the library makes before it touches the tree are exercised; an insertion that would fail
                // afterwards (the library raises with the contents lost in an unreachable fragment) is not
                DOMNode* np = H[x];
                DOMDocument* rd = static_cast<DOMDocument*>(H[v.docH]);
                int xt = np->getNodeType();
                bool wrongDoc = np->getOwnerDocument() != rd;
                bool illegal = xt == DOMNode::DOCUMENT_NODE || xt == DOMNode::DOCUMENT_FRAGMENT_NODE || xt == DOMNode::ATTRIBUTE_NODE ||
                               xt == DOMNode::ENTITY_NODE || xt == DOMNode::NOTATION_NODE || xt == DOMNode::DOCUMENT_TYPE_NODE;
                DOMNode* rs = isTextLike(v.r->getStartContainer()) ? v.r->getStartContainer()->getParentNode() : v.r->getStartContainer();
                DOMNode* re = isTextLike(v.r->getEndContainer()) ? v.r->getEndContainer()->getParentNode() : v.r->getEndContainer();
                if (!wrongDoc && !illegal && rs == re) {
                    bool anc = false; for (DOMNode* a = v.r->getStartContainer(); a; a = a->getParentNode()) if (a == np) anc = true;
                    bool parOk = rs && (rs->getNodeType() == DOMNode::ELEMENT_NODE || rs->getNodeType() == DOMNode::DOCUMENT_FRAGMENT_NODE);
                    if (xt != DOMNode::ELEMENT_NODE || anc || !parOk) return "mismatch";
                }
            }
            try { v.r->surroundContents(H[x]); }
            catch (...) { discoverNew(0); throw; }
            discoverNew(0);
            return "ok -";
        }
    }
    handled = false;
    return "";
}

static const char* excNameV(int code) {
    if (code == DOMRangeException::BAD_BOUNDARYPOINTS_ERR) return "BAD_BOUNDARYPOINTS_ERR";
    if (code == DOMRangeException::INVALID_NODE_TYPE_ERR) return "INVALID_NODE_TYPE_ERR";
    return excName(code);
}

static void resetAll(int k) {
    // views of released documents die with them
    iters.clear(); walkers.clear(); lists.clear(); ranges.clear(); lmode = false;
    reset(k);
}

int main(int argc, char** argv) {
    fullMode = argc > 1 && std::string(argv[1]) == "full";
    long watchdogMs = 5000;
    if (const char* w = getenv("HX_DOM_WATCHDOG_MS")) watchdogMs = atol(w);
    auto arm = [&](long ms) { struct itimerval tv; tv.it_interval.tv_sec = 0; tv.it_interval.tv_usec = 0;
                              tv.it_value.tv_sec = ms / 1000; tv.it_value.tv_usec = (ms % 1000) * 1000; setitimer(ITIMER_PROF, &tv, 0); };
    XMLPlatformUtils::Initialize();
    static const XMLCh core[] = { chLatin_C, chLatin_o, chLatin_r, chLatin_e, 0 };
    gImpl = DOMImplementationRegistry::getDOMImplementation(core);
    if (!gImpl) { fprintf(stderr, "no DOM implementation\n"); return 2; }
    signal(SIGPROF, onAlarm);
    std::string line;
    while (std::getline(std::cin, line)) {
        if (line.empty()) continue;
        std::vector<std::string> f = hx::split(line);
        if (f[0] == "reset" && f.size() == 2) {
            fflush(stdout);
            arm(watchdogMs);
            resetAll(atoi(f[1].c_str()));
            emitV("ok -");
            arm(0);
            fflush(stdout);
            continue;
        }
        if (corrupted) { puts("abandoned"); continue; }
        if (f[0] == "lmode" && f.size() == 2) { lmode = f[1] == "1"; arm(watchdogMs); emitV("ok -"); arm(0); if (fullMode) fflush(stdout); continue; }
        std::string res;
        arm(watchdogMs);
        try {
            bool handled = false;
            res = doViewOp(f, handled);
            if (!handled) res = doOp(f);
        }
        catch (const DOMException& e) { res = std::string("exc ") + excNameV((int)e.code); }
        catch (const OutOfMemoryException&) { res = "exc OutOfMemoryException"; }
        catch (const XMLException&) { res = "exc XMLException"; }
        catch (...) { res = "exc FOREIGN-EXCEPTION"; }
        if (res == "bad-op") { arm(0); puts("bad-op"); fflush(stdout); continue; }
        try { emitV(res); }
        catch (const DOMException& e) { printf("%s | DUMP-EXCEPTION %s\n", res.c_str(), excNameV((int)e.code)); corrupted = true; }
        catch (...) { printf("%s | DUMP-EXCEPTION\n", res.c_str()); corrupted = true; }
        arm(0);
        if (fullMode) fflush(stdout);
    }
    return 0;
}
