// C06 namespace processing: the line protocol of `xvdriver ns` / `xvdriver nsdoc` executed on the REAL library.
//
//   S <ops>     op history on the exported ElemStack      (ops separated by ',')
//   W <ops>     op history on the exported WFElemStack
//       ops:  R e u x n   reset(emptyId, unknownId, xmlId, xmlNSId)
//             L           addLevel()          P   popTop        N   addLevel(element, readerNum) overload
//             A p id      addPrefix(p, id)    G p id   addGlobalPrefix (ElemStack only)
//             M p         mapPrefixToURI(p)  -> "id/0|1"        ('-' = empty prefix)
//       output: the observations of the M ops (and exception names), space separated
//   X <scanner> <api> <prefixes|-> <uris|-> <hex utf-8 document>
//       api: sax2p (namespace-prefixes on) | sax2 (off) | sax1 | dom
//       output: "ERR <codes> | <events>"  canonical event/tree dump (see tools/props/c06.py)
//   F15 <variant>  DOM lookups on a DOMDocument without a document element, run in a child process
#include "hx_common.hpp"
#include <algorithm>
#include <map>
#include <memory>
#include <sys/types.h>
#include <sys/wait.h>
#include <unistd.h>
#include <fcntl.h>
#include <xercesc/internal/ElemStack.hpp>
#include <xercesc/internal/XMLScanner.hpp>
#include <xercesc/framework/MemBufInputSource.hpp>
#include <xercesc/framework/XMLErrorCodes.hpp>
#include <xercesc/parsers/SAX2XMLReaderImpl.hpp>
#include <xercesc/parsers/SAXParser.hpp>
#include <xercesc/parsers/XercesDOMParser.hpp>
#include <xercesc/sax2/DefaultHandler.hpp>
#include <xercesc/sax2/Attributes.hpp>
#include <xercesc/sax/HandlerBase.hpp>
#include <xercesc/sax/AttributeList.hpp>
#include <xercesc/sax/SAXParseException.hpp>
#include <xercesc/dom/DOM.hpp>
#include <xercesc/util/EmptyStackException.hpp>
#include <xercesc/util/OutOfMemoryException.hpp>
#include <xercesc/util/XMLUni.hpp>

using namespace hx;

static std::basic_string<XMLCh> widen(const std::string& s) {
    std::basic_string<XMLCh> r;
    for (unsigned char c : s) r += (XMLCh)c;
    return r;
}
static std::string tok(const std::string& s) { return s == "-" ? std::string() : s; }

// ---------------------------------------------------------------------------------- ElemStack histories
template <class ES> struct StackOps {
    static void global(ES&, const XMLCh*, unsigned) {}
    // the addLevel overload that also records the element: addLevel(name, length, readerNum)
    static void levelWithElem(ES& s) { static const XMLCh nm[] = { 'e', 'l', 0 }; s.addLevel(nm, 2, 7); }
};
template <> struct StackOps<ElemStack> {
    static void global(ElemStack& s, const XMLCh* p, unsigned id) { s.addGlobalPrefix(p, id); }
    static void levelWithElem(ElemStack& s) { s.addLevel((XMLElementDecl*)0, 7); }
};

template <class ES, bool HASGLOBAL>
static std::string runStack(const std::string& opsText) {
    ES st;
    std::string out;
    size_t depth = 0;
    bool wasReset = false;
    auto emit = [&](const std::string& s) { if (!out.empty()) out += ' '; out += s; };
    for (const std::string& op : split(opsText, ',')) {
        std::vector<std::string> f;
        for (auto& t : split(op, ' ')) if (!t.empty()) f.push_back(t);
        if (f.empty()) continue;
        try {
            if (f[0] == "R" && f.size() == 5) {
                st.reset(atoi(f[1].c_str()), atoi(f[2].c_str()), atoi(f[3].c_str()), atoi(f[4].c_str()));
                depth = 0; wasReset = true;
            } else if (f[0] == "L") { st.addLevel(); depth++; }
            else if (f[0] == "N") { StackOps<ES>::levelWithElem(st); depth++; }
            else if (f[0] == "P") { st.popTop(); depth--; }
            else if (f[0] == "A" && f.size() == 3) {
                st.addPrefix(widen(tok(f[1])).c_str(), (unsigned)atoi(f[2].c_str()));
            } else if (f[0] == "G" && f.size() == 3 && HASGLOBAL) {
                StackOps<ES>::global(st, widen(tok(f[1])).c_str(), (unsigned)atoi(f[2].c_str()));
            } else if (f[0] == "M" && f.size() == 2) {
                // WFElemStack::mapPrefixToURI dereferences fStack[fStackTop-1] unconditionally: the scanners never
                // call it on an empty stack, and neither do we (the model prints the same guard token).
                if (!HASGLOBAL && depth == 0) { emit("guard"); continue; }
                if (!wasReset) { emit("guard"); continue; }
                bool unknown = false;
                unsigned id = st.mapPrefixToURI(widen(tok(f[1])).c_str(), unknown);
                emit(std::to_string(id) + "/" + (unknown ? "1" : "0"));
            } else { emit("bad-op"); }
        } catch (const EmptyStackException&) { emit("exc:EmptyStack"); }
        catch (const OutOfMemoryException&) { emit("exc:OutOfMemory"); }
        catch (const XMLException& e) { emit("exc:XMLException"); }
        catch (...) { emit("FOREIGN-EXCEPTION"); }
    }
    return out.empty() ? "-" : out;
}

// ---------------------------------------------------------------------------------- parse level
static const char* errName(unsigned code) {
    switch (code) {
    case XMLErrs::UnknownPrefix: return "UnknownPrefix";
    case XMLErrs::NoUseOfxmlnsAsPrefix: return "NoUseOfxmlnsAsPrefix";
    case XMLErrs::PrefixXMLNotMatchXMLURI: return "PrefixXMLNotMatchXMLURI";
    case XMLErrs::NoEmptyStrNamespace: return "NoEmptyStrNamespace";
    case XMLErrs::NoUseOfxmlnsURI: return "NoUseOfxmlnsURI";
    case XMLErrs::XMLURINotMatchXMLPrefix: return "XMLURINotMatchXMLPrefix";
    case XMLErrs::AttrAlreadyUsedInSTag: return "AttrAlreadyUsedInSTag";
    default: return 0;
    }
}
struct ErrLog {
    std::vector<std::string> v;
    void add(unsigned code, XMLErrorReporter::ErrTypes t) {
        const char* n = errName(code);
        std::string s = n ? n : ("E" + std::to_string(code));
        s += t == XMLErrorReporter::ErrType_Warning ? "/W" : t == XMLErrorReporter::ErrType_Error ? "/E" : "/F";
        if (v.size() < 6) v.push_back(s);
    }
    std::string str() const {
        if (v.empty()) return "-";
        std::string s;
        for (size_t i = 0; i < v.size(); i++) { if (i) s += ','; s += v[i]; }
        return s;
    }
};
static ErrLog gErr;

#define ERR_OVERRIDE \
    void error(const unsigned int code, const XMLCh* const, const XMLErrorReporter::ErrTypes type, const XMLCh* const, \
               const XMLCh* const, const XMLCh* const, const XMLFileLoc, const XMLFileLoc) override { gErr.add(code, type); }

// the parsers install themselves as the scanner's error reporter only while an ErrorHandler is set
static HandlerBase gDummyHandler;
struct MySax2 : SAX2XMLReaderImpl { ERR_OVERRIDE };
struct MySax1 : SAXParser { ERR_OVERRIDE };
struct MyDom : XercesDOMParser { ERR_OVERRIDE };

static std::string N(const XMLCh* s) { return s ? narrow(s) : std::string("~"); }   // "~" = null pointer

struct Sax2Dump : DefaultHandler {
    std::string out;
    void add(const std::string& s) { out += ' '; out += s; }
    void startPrefixMapping(const XMLCh* const p, const XMLCh* const u) override { add("+" + N(p) + "=" + N(u)); }
    void endPrefixMapping(const XMLCh* const p) override { add("-" + N(p)); }
    void startElement(const XMLCh* const uri, const XMLCh* const local, const XMLCh* const qn, const Attributes& a) override {
        add("<{" + N(uri) + "}" + N(local) + "|" + N(qn));
        std::vector<std::string> as;
        for (XMLSize_t i = 0; i < a.getLength(); i++)
            as.push_back("@{" + N(a.getURI(i)) + "}" + N(a.getLocalName(i)) + "|" + N(a.getQName(i)));
        std::sort(as.begin(), as.end());
        for (auto& s : as) add(s);
    }
    void endElement(const XMLCh* const uri, const XMLCh* const local, const XMLCh* const qn) override {
        add(">{" + N(uri) + "}" + N(local) + "|" + N(qn));
    }
};
struct Sax1Dump : HandlerBase {
    std::string out;
    void add(const std::string& s) { out += ' '; out += s; }
    void startElement(const XMLCh* const name, AttributeList& a) override {
        add("<" + N(name));
        std::vector<std::string> as;
        for (XMLSize_t i = 0; i < a.getLength(); i++) as.push_back("@" + N(a.getName(i)));
        std::sort(as.begin(), as.end());
        for (auto& s : as) add(s);
    }
    void endElement(const XMLCh* const name) override { add(">" + N(name)); }
};

static const XMLCh* scannerName(const std::string& s) {
    if (s == "IG") return XMLUni::fgIGXMLScanner;
    if (s == "WF") return XMLUni::fgWFXMLScanner;
    if (s == "SG") return XMLUni::fgSGXMLScanner;
    if (s == "DG") return XMLUni::fgDGXMLScanner;
    return 0;
}

// the three DOM Level 3 lookups on one node, for the listed prefixes / URIs ("~" = null result)
static std::string lookups(const DOMNode* n, const std::vector<std::string>& prefixes, const std::vector<std::string>& uris) {
    std::string r = "L";
    {   // default namespace: specified prefix null
        r += "^" + N(n->lookupNamespaceURI(0));
    }
    for (auto& p : prefixes) r += "^" + N(n->lookupNamespaceURI(widen(p).c_str()));
    r += " P";
    for (auto& u : uris) r += "^" + N(n->lookupPrefix(widen(u).c_str()));
    r += " D";
    for (auto& u : uris) r += std::string("^") + (n->isDefaultNamespace(widen(u).c_str()) ? "1" : "0");
    return r;
}

static void dumpDom(const DOMNode* n, const std::string& ctx, std::string& out,
                    const std::vector<std::string>& prefixes, const std::vector<std::string>& uris) {
    switch (n->getNodeType()) {
    case DOMNode::ELEMENT_NODE: {
        out += " <{" + N(n->getNamespaceURI()) + "}" + N(n->getPrefix()) + "|" + N(n->getLocalName()) + "|" + N(n->getNodeName());
        std::string mine = lookups(n, prefixes, uris);
        DOMNamedNodeMap* m = n->getAttributes();
        std::vector<std::string> as;
        for (XMLSize_t i = 0; m && i < m->getLength(); i++) {
            DOMNode* a = m->item(i);
            std::string s = "@{" + N(a->getNamespaceURI()) + "}" + N(a->getPrefix()) + "|" + N(a->getLocalName()) + "|" + N(a->getNodeName());
            std::string al = lookups(a, prefixes, uris);      // on the attribute node itself
            s += al == mine ? "=" : ("!" + al);
            as.push_back(s);
        }
        std::sort(as.begin(), as.end());
        for (auto& s : as) out += " " + s;
        out += " " + mine;
        for (DOMNode* c = n->getFirstChild(); c; c = c->getNextSibling()) dumpDom(c, mine, out, prefixes, uris);
        out += " >";
        break;
    }
    case DOMNode::TEXT_NODE: case DOMNode::CDATA_SECTION_NODE: case DOMNode::COMMENT_NODE:
    case DOMNode::PROCESSING_INSTRUCTION_NODE: {
        std::string l = lookups(n, prefixes, uris);
        const char* k = n->getNodeType() == DOMNode::TEXT_NODE ? "t" : n->getNodeType() == DOMNode::CDATA_SECTION_NODE ? "c"
                      : n->getNodeType() == DOMNode::COMMENT_NODE ? "k" : "p";
        out += std::string(" ") + k + (l == ctx ? "=" : ("!" + l));
        break;
    }
    default:
        out += " ?" + std::to_string((int)n->getNodeType());
    }
}

static std::map<std::string, std::unique_ptr<MySax2>> gSax2;
static std::map<std::string, std::unique_ptr<MySax1>> gSax1;
static std::map<std::string, std::unique_ptr<MyDom>> gDom;
static bool gFresh = false;     // --fresh: a new parser object for every case

static std::string runParse(const std::string& scanner, const std::string& api, const std::vector<std::string>& prefixes,
                            const std::vector<std::string>& uris, const std::vector<uint32_t>& bytes) {
    const XMLCh* sn = scannerName(scanner);
    if (!sn) return "bad-op";
    std::string data;
    for (uint32_t b : bytes) data += (char)b;
    MemBufInputSource src((const XMLByte*)data.data(), data.size(), "case.xml", false);
    gErr.v.clear();
    std::string body, exc = "";
    std::string key = scanner + "/" + api;
    try {
        if (api == "sax2p" || api == "sax2") {
            auto& p = gSax2[key];
            if (!p || gFresh) {
                p.reset(new MySax2);
                p->setProperty(XMLUni::fgXercesScannerName, (void*)sn);
                p->setFeature(XMLUni::fgSAX2CoreNameSpaces, true);
                p->setFeature(XMLUni::fgSAX2CoreNameSpacePrefixes, api == "sax2p");
                p->setFeature(XMLUni::fgSAX2CoreValidation, false);
                p->setFeature(XMLUni::fgXercesDynamic, false);
                p->setFeature(XMLUni::fgXercesSchema, false);
                p->setFeature(XMLUni::fgXercesLoadExternalDTD, false);
                p->setErrorHandler(&gDummyHandler);
            }
            Sax2Dump h;
            p->setContentHandler(&h);
            try { p->parse(src); } catch (...) { p->setContentHandler(0); body = h.out; throw; }
            p->setContentHandler(0);
            body = h.out;
        } else if (api == "sax1") {
            auto& p = gSax1[key];
            if (!p || gFresh) {
                p.reset(new MySax1);
                p->useScanner(sn);
                p->setDoNamespaces(true);
                p->setValidationScheme(SAXParser::Val_Never);
                p->setDoSchema(false);
                p->setLoadExternalDTD(false);
                p->setErrorHandler(&gDummyHandler);
            }
            Sax1Dump h;
            p->setDocumentHandler(&h);
            try { p->parse(src); } catch (...) { p->setDocumentHandler(0); body = h.out; throw; }
            p->setDocumentHandler(0);
            body = h.out;
        } else if (api == "dom") {
            auto& p = gDom[key];
            if (!p || gFresh) {
                p.reset(new MyDom);
                p->useScanner(sn);
                p->setDoNamespaces(true);
                p->setValidationScheme(XercesDOMParser::Val_Never);
                p->setDoSchema(false);
                p->setLoadExternalDTD(false);
                p->setCreateCommentNodes(true);
                p->setErrorHandler(&gDummyHandler);
            }
            p->parse(src);
            DOMDocument* d = p->getDocument();
            if (d && d->getDocumentElement() && gErr.v.empty()) {
                std::string rootL = lookups(d->getDocumentElement(), prefixes, uris);
                std::string docL = lookups(d, prefixes, uris);
                body += std::string(" doc") + (docL == rootL ? "=" : ("!" + docL));
                for (DOMNode* c = d->getFirstChild(); c; c = c->getNextSibling()) {
                    if (c->getNodeType() == DOMNode::ELEMENT_NODE) dumpDom(c, "", body, prefixes, uris);
                    else {   // prolog / epilog comments and PIs: no element ancestor -> every lookup is "unknown"
                        std::string l = lookups(c, prefixes, uris);
                        body += " top:" + l;
                    }
                }
            }
            p->resetDocumentPool();
        } else return "bad-op";
    }
    catch (const OutOfMemoryException&) { exc = " EXC:OutOfMemory"; }
    catch (const XMLException& e) { exc = " EXC:XMLException:" + narrow(e.getType()); }
    catch (const DOMException& e) { exc = " EXC:DOMException:" + std::to_string((int)e.code); }
    catch (const SAXParseException& e) { exc = " EXC:SAXParseException"; }
    catch (const SAXException& e) { exc = " EXC:SAXException"; }
    catch (...) { exc = " FOREIGN-EXCEPTION"; }
    return "ERR " + gErr.str() + exc + " |" + body;
}

// ---------------------------------------------------------------------------------- F15
static std::string runNoRoot(const std::string& variant) {
    fflush(stdout);
    pid_t pid = fork();
    if (pid < 0) return "fork-failed";
    if (pid == 0) {
        int fd = open("/dev/null", O_WRONLY);
        if (fd >= 0) { dup2(fd, 2); dup2(fd, 1); }
        static const XMLCh core[] = { 'C', 'o', 'r', 'e', 0 };
        static const XMLCh uri[] = { 'u', ':', 'a', 0 };
        static const XMLCh pfx[] = { 'p', 0 };
        DOMImplementation* impl = DOMImplementationRegistry::getDOMImplementation(core);
        DOMDocument* d = impl->createDocument();
        int rc = 0;
        if (variant == "lookupNamespaceURI") { rc = d->lookupNamespaceURI(pfx) == 0 ? 0 : 3; }
        else if (variant == "lookupNamespaceURI0") { rc = d->lookupNamespaceURI(0) == 0 ? 0 : 3; }
        else if (variant == "lookupPrefix") { rc = d->lookupPrefix(uri) == 0 ? 0 : 3; }
        else if (variant == "isDefaultNamespace") { rc = d->isDefaultNamespace(uri) ? 3 : 0; }
        else if (variant == "comment") {   // a comment child but no element
            static const XMLCh c[] = { 'c', 0 };
            d->appendChild(d->createComment(c));
            rc = d->lookupNamespaceURI(pfx) == 0 ? 0 : 3;
        }
        else rc = 4;
        _exit(rc);
    }
    int status = 0;
    waitpid(pid, &status, 0);
    if (WIFEXITED(status)) {
        int rc = WEXITSTATUS(status);
        if (rc == 0) return "ok null";
        if (rc == 3) return "ok non-null";
        if (rc == 4) return "bad-op";
        return "crash exit=" + std::to_string(rc);
    }
    if (WIFSIGNALED(status)) return "crash signal=" + std::to_string(WTERMSIG(status));
    return "crash";
}

int main(int argc, char** argv) {
    for (int i = 1; i < argc; i++) if (std::string(argv[i]) == "--fresh") gFresh = true;
    XMLPlatformUtils::Initialize();
    std::string line;
    while (std::getline(std::cin, line)) {
        if (line.empty()) continue;
        std::string out;
        try {
            if (line.size() > 2 && line[0] == 'S' && line[1] == ' ') out = runStack<ElemStack, true>(line.substr(2));
            else if (line.size() > 2 && line[0] == 'W' && line[1] == ' ') out = runStack<WFElemStack, false>(line.substr(2));
            else if (line.compare(0, 2, "X ") == 0) {
                auto f = split(line);
                if (f.size() != 6) out = "bad-op";
                else {
                    std::vector<std::string> ps, us;
                    if (f[3] != "-") ps = split(f[3], ',');
                    if (f[4] != "-") us = split(f[4], ',');
                    out = runParse(f[1], f[2], ps, us, parseHexList(f[5]));
                }
            }
            else if (line.compare(0, 4, "F15 ") == 0) out = runNoRoot(line.substr(4));
            else out = "bad-op";
        } catch (...) { out = "FOREIGN-EXCEPTION"; }
        std::cout << out << "\n";
    }
    gSax2.clear(); gSax1.clear(); gDom.clear();
    XMLPlatformUtils::Terminate();
    return 0;
}
