// C01 sanitizer-search harness: parse arbitrary bytes in-process with every parser API / scanner / validation
// scheme / feature combination.  One case per stdin line, one observation per stdout line.
//
//   <api>:<scanner>:<val>:<flags hex>:<limit> <hex of main document | -> [| <name>=<hex> ...]
//     api      sax | sax2 | dom | ls
//     scanner  ig | wf | dg | sg
//     val      never | auto | always
//     flags    bit 0 namespaces, 1 schema, 2 schema-full-checking, 3 exit-on-first-fatal OFF (= continue-after-fatal),
//              4 load-external-DTD, 6 identity-constraint checking, 7 entity-reference nodes (DOM/LS), 8 xinclude (DOM/LS),
//              9 skip-DTD-validation, 10 security manager with entity-expansion limit <limit>, 11 calculateSrcOfs,
//              12 standard-uri-conformant, 13 validate-annotations, 14 generate-synthetic-annotations,
//              15 cache-grammar-from-parse + use-cached-grammar, 17 handle-multiple-imports, 18 small input-buffer (SAX),
//              19 DOM: keep the document and walk/serialise-free traverse it after the parse
//   external entities / DTDs / schemas come only from the case line (entity resolver matches the last path
//   segment of the system id); default entity resolution is always disabled and the net accessor is removed,
//   so no file or network access happens.
//
// Reused parser ("SEQ" lines): ONE parser object is fed a sequence of documents, with an action on the result of each
//   SEQ <api>:<scanner> <act>:<val>:<flags hex>:<limit> <hex main> [| name=hex ...] ## <act>:<val>:... ## ...
//     act  n  nothing (the document stays with the parser)          p  resetDocumentPool() after this parse (DOM/LS)
//          a  adoptDocument() and release it at once (DOM/LS)        l  adoptDocument(), release after the last step (DOM/LS)
//          g<k> progressive parse abandoned: parseFirst, at most k parseNext, parseReset (SAX/SAX2/DOM; plain parse for LS)
//     every step sets all features anew on the same object (so validation scheme, namespaces, entity-reference nodes …
//     flip between documents); the observation is the list of per-step observations joined by "; ".
//
// Observation:  ok | fatal <n> | exc <documented type> | FOREIGN-EXCEPTION <type>   [+ " LEAK <n>" when the same
// case twice leaves memory-manager allocations behind after the parser is destroyed]
// A watchdog on *user CPU time* (budget linear in the input size) prints WATCHDOG-TIMEOUT to stderr and _exit(97)s.
#include "hx_common.hpp"
#include <csignal>
#include <cstdlib>
#include <map>
#include <atomic>
#include <typeinfo>
#include <exception>
#include <sys/time.h>
#include <sys/resource.h>
#include <unistd.h>
#include <cxxabi.h>
#include <xercesc/parsers/SAXParser.hpp>
#include <xercesc/parsers/XercesDOMParser.hpp>
#include <xercesc/sax2/SAX2XMLReader.hpp>
#include <xercesc/sax2/XMLReaderFactory.hpp>
#include <xercesc/sax2/DefaultHandler.hpp>
#include <xercesc/sax/HandlerBase.hpp>
#include <xercesc/sax/AttributeList.hpp>
#include <xercesc/sax/EntityResolver.hpp>
#include <xercesc/sax2/Attributes.hpp>
#include <xercesc/sax/SAXParseException.hpp>
#include <xercesc/dom/DOM.hpp>
#include <xercesc/dom/DOMLSParser.hpp>
#include <xercesc/dom/DOMLSException.hpp>
#include <xercesc/framework/MemBufInputSource.hpp>
#include <xercesc/framework/Wrapper4InputSource.hpp>
#include <xercesc/framework/MemoryManager.hpp>
#include <xercesc/util/XMLEntityResolver.hpp>
#include <xercesc/util/XMLResourceIdentifier.hpp>
#include <xercesc/util/SecurityManager.hpp>
#include <xercesc/util/OutOfMemoryException.hpp>
#include <xercesc/util/XMLUni.hpp>
#include <xercesc/util/XMLNetAccessor.hpp>

// ---------------------------------------------------------------- counting memory manager
static std::atomic<long> gLive(0);
class CountingMM : public MemoryManager {
public:
    MemoryManager* getExceptionMemoryManager() override { return this; }
    void* allocate(XMLSize_t size) override {
        void* p = ::malloc(size ? size : 1);
        if (!p) throw OutOfMemoryException();
        ++gLive; return p;
    }
    void deallocate(void* p) override { if (p) { --gLive; ::free(p); } }
};

// ---------------------------------------------------------------- watchdog (CPU time)
static void onAlarm(int) {
    static const char msg[] = "\nWATCHDOG-TIMEOUT\n";
    ssize_t r = write(2, msg, sizeof msg - 1); (void)r;
    _exit(97);
}
static void arm(double seconds) {
    struct itimerval it; memset(&it, 0, sizeof it);
    it.it_value.tv_sec = (long)seconds; it.it_value.tv_usec = (long)((seconds - (long)seconds) * 1e6);
    setitimer(ITIMER_VIRTUAL, &it, 0);
}
static void disarm() { struct itimerval it; memset(&it, 0, sizeof it); setitimer(ITIMER_VIRTUAL, &it, 0); }

// ---------------------------------------------------------------- case
static double userSeconds() {
    struct rusage ru; getrusage(RUSAGE_SELF, &ru);
    return (double)ru.ru_utime.tv_sec + (double)ru.ru_utime.tv_usec / 1e6;
}
struct Case {
    std::string api, scanner, val; unsigned long flags = 0; unsigned long limit = 0;
    std::vector<XMLByte> doc; std::map<std::string, std::vector<XMLByte> > res; bool bad = false;
};
static bool unhex(const std::string& s, std::vector<XMLByte>& out) {
    out.clear(); if (s == "-") return true;
    if (s.size() % 2) return false;
    out.reserve(s.size() / 2);
    for (size_t i = 0; i < s.size(); i += 2) { int a = hx::hexv(s[i]), b = hx::hexv(s[i + 1]); if (a < 0 || b < 0) return false; out.push_back((XMLByte)(a * 16 + b)); }
    return true;
}
static Case parseCase(const std::string& line) {
    Case c; std::vector<std::string> tok = hx::split(line, ' ');
    if (tok.size() < 2) { c.bad = true; return c; }
    std::vector<std::string> cf = hx::split(tok[0], ':');
    if (cf.size() != 5) { c.bad = true; return c; }
    c.api = cf[0]; c.scanner = cf[1]; c.val = cf[2]; c.flags = strtoul(cf[3].c_str(), 0, 16); c.limit = strtoul(cf[4].c_str(), 0, 10);
    if (!unhex(tok[1], c.doc)) c.bad = true;
    for (size_t i = 2; i < tok.size(); i++) {
        if (tok[i] == "|" || tok[i].empty()) continue;
        size_t eq = tok[i].find('=');
        if (eq == std::string::npos) { c.bad = true; break; }
        std::vector<XMLByte> b; if (!unhex(tok[i].substr(eq + 1), b)) { c.bad = true; break; }
        c.res[tok[i].substr(0, eq)] = b;
    }
    if (c.api != "sax" && c.api != "sax2" && c.api != "dom" && c.api != "ls") c.bad = true;
    if (c.scanner != "ig" && c.scanner != "wf" && c.scanner != "dg" && c.scanner != "sg") c.bad = true;
    if (c.val != "never" && c.val != "auto" && c.val != "always") c.bad = true;
    return c;
}
static const XMLCh* scannerName(const std::string& s) {
    if (s == "wf") return XMLUni::fgWFXMLScanner;
    if (s == "dg") return XMLUni::fgDGXMLScanner;
    if (s == "sg") return XMLUni::fgSGXMLScanner;
    return XMLUni::fgIGXMLScanner;
}
static bool bit(const Case& c, int b) { return (c.flags >> b) & 1; }

// ---------------------------------------------------------------- resolver and handlers
static std::string lastSegment(const XMLCh* sys) {
    std::string s = hx::narrow(sys); size_t p = s.find_last_of("/\\");
    return p == std::string::npos ? s : s.substr(p + 1);
}
struct Resolver : public XMLEntityResolver, public DOMLSResourceResolver, public EntityResolver {
    const Case* c = 0; long asked = 0;
    InputSource* resolveEntity(const XMLCh* const, const XMLCh* const systemId) override {   // SAX flavour (SAX2XMLReader)
        ++asked;
        if (!systemId) return 0;
        std::map<std::string, std::vector<XMLByte> >::const_iterator it = c->res.find(lastSegment(systemId));
        if (it == c->res.end()) return 0;
        static const XMLByte none[1] = {0};
        return new MemBufInputSource(it->second.empty() ? none : it->second.data(), it->second.size(), systemId, false);
    }
    InputSource* resolveEntity(XMLResourceIdentifier* id) override {
        ++asked;
        if (!id || !id->getSystemId()) return 0;
        std::map<std::string, std::vector<XMLByte> >::const_iterator it = c->res.find(lastSegment(id->getSystemId()));
        if (it == c->res.end()) return 0;
        static const XMLByte none[1] = {0};
        return new MemBufInputSource(it->second.empty() ? none : it->second.data(), it->second.size(), id->getSystemId(), false);
    }
    DOMLSInput* resolveResource(const XMLCh* const, const XMLCh* const, const XMLCh* const, const XMLCh* const systemId, const XMLCh* const baseURI) override {
        ++asked;
        if (!systemId) return 0;
        std::map<std::string, std::vector<XMLByte> >::const_iterator it = c->res.find(lastSegment(systemId));
        if (it == c->res.end()) return 0;
        static const XMLByte none[1] = {0};
        InputSource* src = new MemBufInputSource(it->second.empty() ? none : it->second.data(), it->second.size(), systemId, false);
        (void)baseURI;
        return new Wrapper4InputSource(src, true);
    }
};
struct Counts { long warn = 0, err = 0, fatal = 0; };
struct SaxErr : public ErrorHandler {
    Counts n;
    void warning(const SAXParseException& e) override { ++n.warn; touch(e); }
    void error(const SAXParseException& e) override { ++n.err; touch(e); }
    void fatalError(const SAXParseException& e) override { ++n.fatal; touch(e); }
    void resetErrors() override {}
    static void touch(const SAXParseException& e) {   // read everything a client would read
        volatile size_t k = XMLString::stringLen(e.getMessage()) + XMLString::stringLen(e.getSystemId()) + XMLString::stringLen(e.getPublicId())
                            + (size_t)e.getLineNumber() + (size_t)e.getColumnNumber(); (void)k;
    }
};
struct DomErr : public DOMErrorHandler {
    Counts n;
    bool handleError(const DOMError& e) override {
        volatile size_t k = XMLString::stringLen(e.getMessage()); (void)k;
        DOMLocator* l = e.getLocation(); if (l) { k += XMLString::stringLen(l->getURI()) + (size_t)l->getLineNumber(); }
        if (e.getSeverity() == DOMError::DOM_SEVERITY_WARNING) ++n.warn; else if (e.getSeverity() == DOMError::DOM_SEVERITY_ERROR) ++n.err; else ++n.fatal;
        return true;
    }
};
// content sink: touches every string the parser hands out (ASan then checks those reads)
static volatile size_t gSink = 0;
static void eat(const XMLCh* s) { if (s) { size_t k = 0; for (const XMLCh* p = s; *p; ++p) k += *p; gSink += k; } }
static void eatn(const XMLCh* s, XMLSize_t n) { size_t k = 0; for (XMLSize_t i = 0; i < n; i++) k += s[i]; gSink += k; }
struct SaxDoc : public HandlerBase {
    void startElement(const XMLCh* const name, AttributeList& a) override { eat(name); for (XMLSize_t i = 0; i < a.getLength(); i++) { eat(a.getName(i)); eat(a.getValue(i)); eat(a.getType(i)); } }
    void endElement(const XMLCh* const name) override { eat(name); }
    void characters(const XMLCh* const ch, const XMLSize_t n) override { eatn(ch, n); }
    void ignorableWhitespace(const XMLCh* const ch, const XMLSize_t n) override { eatn(ch, n); }
    void processingInstruction(const XMLCh* const t, const XMLCh* const d) override { eat(t); eat(d); }
    void notationDecl(const XMLCh* const n, const XMLCh* const p, const XMLCh* const s) override { eat(n); eat(p); eat(s); }
    void unparsedEntityDecl(const XMLCh* const n, const XMLCh* const p, const XMLCh* const s, const XMLCh* const nn) override { eat(n); eat(p); eat(s); eat(nn); }
};
struct Sax2Doc : public DefaultHandler {
    void startElement(const XMLCh* const u, const XMLCh* const l, const XMLCh* const q, const Attributes& a) override {
        eat(u); eat(l); eat(q);
        for (XMLSize_t i = 0; i < a.getLength(); i++) { eat(a.getURI(i)); eat(a.getLocalName(i)); eat(a.getQName(i)); eat(a.getValue(i)); eat(a.getType(i)); }
    }
    void endElement(const XMLCh* const u, const XMLCh* const l, const XMLCh* const q) override { eat(u); eat(l); eat(q); }
    void characters(const XMLCh* const ch, const XMLSize_t n) override { eatn(ch, n); }
    void ignorableWhitespace(const XMLCh* const ch, const XMLSize_t n) override { eatn(ch, n); }
    void processingInstruction(const XMLCh* const t, const XMLCh* const d) override { eat(t); eat(d); }
    void startPrefixMapping(const XMLCh* const p, const XMLCh* const u) override { eat(p); eat(u); }
    void comment(const XMLCh* const ch, const XMLSize_t n) override { eatn(ch, n); }
    void startEntity(const XMLCh* const n) override { eat(n); }
    void skippedEntity(const XMLCh* const n) override { eat(n); }
};
static void walk(DOMNode* n) {   // iterative traversal, no recursion on document depth
    DOMNode* cur = n;
    while (cur) {
        eat(cur->getNodeName()); eat(cur->getNodeValue());
        if (cur->getNodeType() == DOMNode::ELEMENT_NODE) {
            DOMNamedNodeMap* at = cur->getAttributes();
            if (at) for (XMLSize_t i = 0; i < at->getLength(); i++) { DOMNode* a = at->item(i); eat(a->getNodeName()); eat(a->getNodeValue()); eat(a->getNamespaceURI()); }
            eat(cur->getNamespaceURI());
        }
        if (cur->getFirstChild()) { cur = cur->getFirstChild(); continue; }
        while (cur && cur != n && !cur->getNextSibling()) cur = cur->getParentNode();
        if (!cur || cur == n) break;
        cur = cur->getNextSibling();
    }
}

// ---------------------------------------------------------------- one parse
static std::string demangled(const char* n) {
    int st = 0; char* d = abi::__cxa_demangle(n, 0, 0, &st); std::string r = (st == 0 && d) ? d : n; free(d); return r;
}
static const char SYSID[] = "file:///c01/doc.xml";

static std::string runOnce(const Case& c) {
    Counts n; std::string exc;
    Resolver res; res.c = &c;
    SecurityManager sm; if (bit(c, 10)) sm.setEntityExpansionLimit(c.limit);
    static const XMLByte none[1] = {0};
    const XMLByte* data = c.doc.empty() ? none : c.doc.data();
    try {
        try {
            if (c.api == "sax") {
                SAXParser p; SaxErr eh; SaxDoc dh;
                p.setErrorHandler(&eh); p.setDocumentHandler(&dh); p.setDTDHandler(&dh); p.setXMLEntityResolver(&res);
                p.useScanner(scannerName(c.scanner));
                p.setValidationScheme(c.val == "never" ? SAXParser::Val_Never : c.val == "auto" ? SAXParser::Val_Auto : SAXParser::Val_Always);
                p.setDoNamespaces(bit(c, 0)); p.setDoSchema(bit(c, 1)); p.setValidationSchemaFullChecking(bit(c, 2));
                p.setExitOnFirstFatalError(!bit(c, 3)); p.setLoadExternalDTD(bit(c, 4)); p.setIdentityConstraintChecking(bit(c, 6));
                p.setSkipDTDValidation(bit(c, 9)); if (bit(c, 10)) p.setSecurityManager(&sm);
                p.setCalculateSrcOfs(bit(c, 11)); p.setStandardUriConformant(bit(c, 12)); p.setValidateAnnotations(bit(c, 13));
                p.setGenerateSyntheticAnnotations(bit(c, 14)); p.cacheGrammarFromParse(bit(c, 15)); p.useCachedGrammarInParse(bit(c, 15));
                p.setHandleMultipleImports(bit(c, 17)); if (bit(c, 18)) p.setInputBufferSize(64);
                p.setDisableDefaultEntityResolution(true);
                MemBufInputSource src(data, c.doc.size(), SYSID, false);
                try { p.parse(src); } catch (...) { n = eh.n; throw; }
                n = eh.n;
            } else if (c.api == "sax2") {
                SAX2XMLReader* p = XMLReaderFactory::createXMLReader();
                struct Del { SAX2XMLReader* p; ~Del() { delete p; } } del = {p};
                SaxErr eh; Sax2Doc dh;
                p->setProperty(XMLUni::fgXercesScannerName, (void*)scannerName(c.scanner));
                p->setErrorHandler(&eh); p->setContentHandler(&dh); p->setLexicalHandler(&dh); p->setDTDHandler(&dh); p->setEntityResolver((EntityResolver*)&res);
                p->setFeature(XMLUni::fgSAX2CoreValidation, c.val != "never"); p->setFeature(XMLUni::fgXercesDynamic, c.val == "auto");
                p->setFeature(XMLUni::fgSAX2CoreNameSpaces, bit(c, 0)); p->setFeature(XMLUni::fgSAX2CoreNameSpacePrefixes, bit(c, 11));
                p->setFeature(XMLUni::fgXercesSchema, bit(c, 1)); p->setFeature(XMLUni::fgXercesSchemaFullChecking, bit(c, 2));
                p->setFeature(XMLUni::fgXercesContinueAfterFatalError, bit(c, 3)); p->setFeature(XMLUni::fgXercesLoadExternalDTD, bit(c, 4));
                p->setFeature(XMLUni::fgXercesIdentityConstraintChecking, bit(c, 6)); p->setFeature(XMLUni::fgXercesSkipDTDValidation, bit(c, 9));
                if (bit(c, 10)) p->setProperty(XMLUni::fgXercesSecurityManager, &sm);
                p->setFeature(XMLUni::fgXercesCalculateSrcOfs, bit(c, 11)); p->setFeature(XMLUni::fgXercesStandardUriConformant, bit(c, 12));
                p->setFeature(XMLUni::fgXercesValidateAnnotations, bit(c, 13)); p->setFeature(XMLUni::fgXercesGenerateSyntheticAnnotations, bit(c, 14));
                p->setFeature(XMLUni::fgXercesCacheGrammarFromParse, bit(c, 15)); p->setFeature(XMLUni::fgXercesUseCachedGrammarInParse, bit(c, 15));
                p->setFeature(XMLUni::fgXercesHandleMultipleImports, bit(c, 17));
                p->setFeature(XMLUni::fgXercesDisableDefaultEntityResolution, true);
                MemBufInputSource src(data, c.doc.size(), SYSID, false);
                try { p->parse(src); } catch (...) { n = eh.n; throw; }
                n = eh.n;
            } else if (c.api == "dom") {
                XercesDOMParser p; SaxErr eh;
                p.setErrorHandler(&eh); p.setXMLEntityResolver(&res);
                p.useScanner(scannerName(c.scanner));
                p.setValidationScheme(c.val == "never" ? XercesDOMParser::Val_Never : c.val == "auto" ? XercesDOMParser::Val_Auto : XercesDOMParser::Val_Always);
                p.setDoNamespaces(bit(c, 0)); p.setDoSchema(bit(c, 1)); p.setValidationSchemaFullChecking(bit(c, 2));
                p.setExitOnFirstFatalError(!bit(c, 3)); p.setLoadExternalDTD(bit(c, 4)); p.setIdentityConstraintChecking(bit(c, 6));
                p.setCreateEntityReferenceNodes(bit(c, 7)); p.setDoXInclude(bit(c, 8));
                p.setSkipDTDValidation(bit(c, 9)); if (bit(c, 10)) p.setSecurityManager(&sm);
                p.setCalculateSrcOfs(bit(c, 11)); p.setStandardUriConformant(bit(c, 12)); p.setValidateAnnotations(bit(c, 13));
                p.setGenerateSyntheticAnnotations(bit(c, 14)); p.cacheGrammarFromParse(bit(c, 15)); p.useCachedGrammarInParse(bit(c, 15));
                p.setHandleMultipleImports(bit(c, 17)); p.setCreateSchemaInfo(bit(c, 13));
                p.setDisableDefaultEntityResolution(true);
                MemBufInputSource src(data, c.doc.size(), SYSID, false);
                try { p.parse(src); } catch (...) { n = eh.n; throw; }
                n = eh.n;
                if (bit(c, 19) && p.getDocument()) walk(p.getDocument());
            } else {
                static const XMLCh ls[] = {chLatin_L, chLatin_S, chNull};
                DOMImplementationLS* impl = (DOMImplementationLS*)DOMImplementationRegistry::getDOMImplementation(ls);
                DOMLSParser* p = impl->createLSParser(DOMImplementationLS::MODE_SYNCHRONOUS, 0);
                struct Rel { DOMLSParser* p; ~Rel() { p->release(); } } rel = {p};
                DomErr eh; DOMConfiguration* cf = p->getDomConfig();
                cf->setParameter(XMLUni::fgXercesScannerName, (void*)scannerName(c.scanner));
                cf->setParameter(XMLUni::fgDOMErrorHandler, &eh); cf->setParameter(XMLUni::fgDOMResourceResolver, (DOMLSResourceResolver*)&res);
                cf->setParameter(XMLUni::fgDOMValidate, c.val == "always"); cf->setParameter(XMLUni::fgDOMValidateIfSchema, c.val == "auto");
                cf->setParameter(XMLUni::fgDOMNamespaces, bit(c, 0)); cf->setParameter(XMLUni::fgXercesSchema, bit(c, 1));
                cf->setParameter(XMLUni::fgXercesSchemaFullChecking, bit(c, 2)); cf->setParameter(XMLUni::fgXercesContinueAfterFatalError, bit(c, 3));
                cf->setParameter(XMLUni::fgXercesLoadExternalDTD, bit(c, 4)); cf->setParameter(XMLUni::fgXercesIdentityConstraintChecking, bit(c, 6));
                cf->setParameter(XMLUni::fgDOMEntities, bit(c, 7)); cf->setParameter(XMLUni::fgXercesDoXInclude, bit(c, 8));
                cf->setParameter(XMLUni::fgXercesSkipDTDValidation, bit(c, 9)); if (bit(c, 10)) cf->setParameter(XMLUni::fgXercesSecurityManager, &sm);
                cf->setParameter(XMLUni::fgXercesCalculateSrcOfs, bit(c, 11)); cf->setParameter(XMLUni::fgXercesStandardUriConformant, bit(c, 12));
                cf->setParameter(XMLUni::fgXercesValidateAnnotations, bit(c, 13)); cf->setParameter(XMLUni::fgXercesGenerateSyntheticAnnotations, bit(c, 14));
                cf->setParameter(XMLUni::fgXercesCacheGrammarFromParse, bit(c, 15)); cf->setParameter(XMLUni::fgXercesUseCachedGrammarInParse, bit(c, 15));
                cf->setParameter(XMLUni::fgXercesHandleMultipleImports, bit(c, 17));
                cf->setParameter(XMLUni::fgXercesDisableDefaultEntityResolution, true);
                MemBufInputSource* src = new MemBufInputSource(data, c.doc.size(), SYSID, false);
                Wrapper4InputSource in(src, true);
                DOMDocument* d = 0;
                try { d = p->parse(&in); } catch (...) { n = eh.n; throw; }
                n = eh.n;
                if (bit(c, 19) && d) walk(d);
            }
        }
        catch (const OutOfMemoryException&) { exc = "exc OutOfMemoryException"; }
        catch (const XMLException& e) { exc = "exc XMLException:" + hx::narrow(e.getType()); }
        catch (const DOMLSException& e) { exc = "exc DOMLSException:" + std::to_string((int)e.code); }
        catch (const DOMException& e) { exc = "exc DOMException:" + std::to_string((int)e.code); }
        catch (const SAXParseException&) { exc = "exc SAXParseException"; }
        catch (const SAXException&) { exc = "exc SAXException"; }
        catch (const std::exception& e) { exc = "FOREIGN-EXCEPTION " + demangled(typeid(e).name()); }
    }
    catch (...) {
        std::type_info* t = abi::__cxa_current_exception_type();
        exc = "FOREIGN-EXCEPTION " + (t ? demangled(t->name()) : std::string("unknown"));
    }
    if (!exc.empty()) return exc;
    if (n.fatal) return "fatal " + std::to_string(n.fatal);
    return "ok";
}

// ---------------------------------------------------------------- reused parser: one object, several documents
static void cfgSax(SAXParser& p, const Case& c, SecurityManager& sm) {
    p.setValidationScheme(c.val == "never" ? SAXParser::Val_Never : c.val == "auto" ? SAXParser::Val_Auto : SAXParser::Val_Always);
    p.setDoNamespaces(bit(c, 0)); p.setDoSchema(bit(c, 1)); p.setValidationSchemaFullChecking(bit(c, 2));
    p.setExitOnFirstFatalError(!bit(c, 3)); p.setLoadExternalDTD(bit(c, 4)); p.setIdentityConstraintChecking(bit(c, 6));
    p.setSkipDTDValidation(bit(c, 9)); p.setSecurityManager(bit(c, 10) ? &sm : 0);
    p.setCalculateSrcOfs(bit(c, 11)); p.setStandardUriConformant(bit(c, 12)); p.setValidateAnnotations(bit(c, 13));
    p.setGenerateSyntheticAnnotations(bit(c, 14)); p.cacheGrammarFromParse(bit(c, 15)); p.useCachedGrammarInParse(bit(c, 15));
    p.setHandleMultipleImports(bit(c, 17));
    p.setDisableDefaultEntityResolution(true);
}
static void cfgSax2(SAX2XMLReader* p, const Case& c, SecurityManager& sm) {
    p->setFeature(XMLUni::fgSAX2CoreValidation, c.val != "never"); p->setFeature(XMLUni::fgXercesDynamic, c.val == "auto");
    p->setFeature(XMLUni::fgSAX2CoreNameSpaces, bit(c, 0)); p->setFeature(XMLUni::fgSAX2CoreNameSpacePrefixes, bit(c, 11));
    p->setFeature(XMLUni::fgXercesSchema, bit(c, 1)); p->setFeature(XMLUni::fgXercesSchemaFullChecking, bit(c, 2));
    p->setFeature(XMLUni::fgXercesContinueAfterFatalError, bit(c, 3)); p->setFeature(XMLUni::fgXercesLoadExternalDTD, bit(c, 4));
    p->setFeature(XMLUni::fgXercesIdentityConstraintChecking, bit(c, 6)); p->setFeature(XMLUni::fgXercesSkipDTDValidation, bit(c, 9));
    p->setProperty(XMLUni::fgXercesSecurityManager, bit(c, 10) ? &sm : 0);
    p->setFeature(XMLUni::fgXercesCalculateSrcOfs, bit(c, 11)); p->setFeature(XMLUni::fgXercesStandardUriConformant, bit(c, 12));
    p->setFeature(XMLUni::fgXercesValidateAnnotations, bit(c, 13)); p->setFeature(XMLUni::fgXercesGenerateSyntheticAnnotations, bit(c, 14));
    p->setFeature(XMLUni::fgXercesCacheGrammarFromParse, bit(c, 15)); p->setFeature(XMLUni::fgXercesUseCachedGrammarInParse, bit(c, 15));
    p->setFeature(XMLUni::fgXercesHandleMultipleImports, bit(c, 17));
    p->setFeature(XMLUni::fgXercesDisableDefaultEntityResolution, true);
}
static void cfgDom(XercesDOMParser& p, const Case& c, SecurityManager& sm) {
    p.setValidationScheme(c.val == "never" ? XercesDOMParser::Val_Never : c.val == "auto" ? XercesDOMParser::Val_Auto : XercesDOMParser::Val_Always);
    p.setDoNamespaces(bit(c, 0)); p.setDoSchema(bit(c, 1)); p.setValidationSchemaFullChecking(bit(c, 2));
    p.setExitOnFirstFatalError(!bit(c, 3)); p.setLoadExternalDTD(bit(c, 4)); p.setIdentityConstraintChecking(bit(c, 6));
    p.setCreateEntityReferenceNodes(bit(c, 7)); p.setDoXInclude(bit(c, 8));
    p.setSkipDTDValidation(bit(c, 9)); p.setSecurityManager(bit(c, 10) ? &sm : 0);
    p.setCalculateSrcOfs(bit(c, 11)); p.setStandardUriConformant(bit(c, 12)); p.setValidateAnnotations(bit(c, 13));
    p.setGenerateSyntheticAnnotations(bit(c, 14)); p.cacheGrammarFromParse(bit(c, 15)); p.useCachedGrammarInParse(bit(c, 15));
    p.setHandleMultipleImports(bit(c, 17)); p.setCreateSchemaInfo(bit(c, 13));
    p.setDisableDefaultEntityResolution(true);
}
static void cfgLs(DOMConfiguration* cf, const Case& c, SecurityManager& sm, bool adopt) {
    cf->setParameter(XMLUni::fgDOMValidate, c.val == "always"); cf->setParameter(XMLUni::fgDOMValidateIfSchema, c.val == "auto");
    cf->setParameter(XMLUni::fgDOMNamespaces, bit(c, 0)); cf->setParameter(XMLUni::fgXercesSchema, bit(c, 1));
    cf->setParameter(XMLUni::fgXercesSchemaFullChecking, bit(c, 2)); cf->setParameter(XMLUni::fgXercesContinueAfterFatalError, bit(c, 3));
    cf->setParameter(XMLUni::fgXercesLoadExternalDTD, bit(c, 4)); cf->setParameter(XMLUni::fgXercesIdentityConstraintChecking, bit(c, 6));
    cf->setParameter(XMLUni::fgDOMEntities, bit(c, 7)); cf->setParameter(XMLUni::fgXercesDoXInclude, bit(c, 8));
    cf->setParameter(XMLUni::fgXercesSkipDTDValidation, bit(c, 9)); cf->setParameter(XMLUni::fgXercesSecurityManager, bit(c, 10) ? (void*)&sm : (void*)0);
    cf->setParameter(XMLUni::fgXercesCalculateSrcOfs, bit(c, 11)); cf->setParameter(XMLUni::fgXercesStandardUriConformant, bit(c, 12));
    cf->setParameter(XMLUni::fgXercesValidateAnnotations, bit(c, 13)); cf->setParameter(XMLUni::fgXercesGenerateSyntheticAnnotations, bit(c, 14));
    cf->setParameter(XMLUni::fgXercesCacheGrammarFromParse, bit(c, 15)); cf->setParameter(XMLUni::fgXercesUseCachedGrammarInParse, bit(c, 15));
    cf->setParameter(XMLUni::fgXercesHandleMultipleImports, bit(c, 17));
    cf->setParameter(XMLUni::fgXercesDisableDefaultEntityResolution, true);
    cf->setParameter(XMLUni::fgXercesUserAdoptsDOMDocument, adopt);
}

struct Step { char act = 'n'; long k = 0; Case c; };
struct Seq { std::string api, scanner; std::vector<Step> steps; bool bad = false; size_t total = 0, refs = 0; };

static Seq parseSeq(const std::string& line) {
    Seq q; size_t sp = line.find(' ', 4);
    if (line.compare(0, 4, "SEQ ") != 0 || sp == std::string::npos) { q.bad = true; return q; }
    std::vector<std::string> hd = hx::split(line.substr(4, sp - 4), ':');
    if (hd.size() != 2) { q.bad = true; return q; }
    q.api = hd[0]; q.scanner = hd[1];
    std::string rest = line.substr(sp + 1);
    size_t pos = 0;
    while (pos <= rest.size()) {
        size_t e = rest.find(" ## ", pos);
        std::string st = rest.substr(pos, e == std::string::npos ? std::string::npos : e - pos);
        size_t colon = st.find(':');
        if (colon == std::string::npos || colon == 0) { q.bad = true; break; }
        Step s; s.act = st[0]; s.k = colon > 1 ? strtol(st.substr(1, colon - 1).c_str(), 0, 10) : 0;
        if (!strchr("npalg", s.act)) { q.bad = true; break; }
        s.c = parseCase(q.api + ":" + q.scanner + ":" + st.substr(colon + 1));
        if (s.c.bad) { q.bad = true; break; }
        q.total += s.c.doc.size(); for (XMLByte b : s.c.doc) if (b == '&' || b == '%') ++q.refs;
        for (auto& kv : s.c.res) { q.total += kv.second.size(); for (XMLByte b : kv.second) if (b == '&' || b == '%') ++q.refs; }
        q.steps.push_back(s);
        if (e == std::string::npos) break;
        pos = e + 4;
    }
    if (q.steps.empty()) q.bad = true;
    return q;
}

template <class F> static std::string guarded(Counts& n, const Counts& before, F body) {
    std::string exc;
    try {
        try { body(); }
        catch (const OutOfMemoryException&) { exc = "exc OutOfMemoryException"; }
        catch (const XMLException& e) { exc = "exc XMLException:" + hx::narrow(e.getType()); }
        catch (const DOMLSException& e) { exc = "exc DOMLSException:" + std::to_string((int)e.code); }
        catch (const DOMException& e) { exc = "exc DOMException:" + std::to_string((int)e.code); }
        catch (const SAXParseException&) { exc = "exc SAXParseException"; }
        catch (const SAXException&) { exc = "exc SAXException"; }
        catch (const std::exception& e) { exc = "FOREIGN-EXCEPTION " + demangled(typeid(e).name()); }
    }
    catch (...) {
        std::type_info* t = abi::__cxa_current_exception_type();
        exc = "FOREIGN-EXCEPTION " + (t ? demangled(t->name()) : std::string("unknown"));
    }
    if (!exc.empty()) return exc;
    if (n.fatal != before.fatal) return "fatal " + std::to_string(n.fatal - before.fatal);
    return "ok";
}

static std::string runSeq(const Seq& q) {
    std::string out;
    Resolver res; SecurityManager sm;
    static const XMLByte none[1] = {0};
    std::vector<DOMDocument*> later;                       // adopted documents released after the last step
    auto add = [&out](const std::string& o) { out += (out.empty() ? "" : "; ") + o; };
    if (q.api == "sax") {
        SAXParser p; SaxErr eh; SaxDoc dh;
        p.setErrorHandler(&eh); p.setDocumentHandler(&dh); p.setDTDHandler(&dh); p.setXMLEntityResolver(&res);
        p.useScanner(scannerName(q.scanner));
        for (const Step& s : q.steps) {
            const Case& c = s.c; res.c = &c; Counts b4 = eh.n;
            add(guarded(eh.n, b4, [&] {
                if (bit(c, 10)) sm.setEntityExpansionLimit(c.limit);
                cfgSax(p, c, sm);
                MemBufInputSource src(c.doc.empty() ? none : c.doc.data(), c.doc.size(), SYSID, false);
                if (s.act == 'g') {
                    XMLPScanToken tok;
                    struct R { SAXParser& p; XMLPScanToken& t; ~R() { try { p.parseReset(t); } catch (...) {} } } r = {p, tok};
                    if (p.parseFirst(src, tok)) for (long k = 0; k < s.k && p.parseNext(tok); k++) {}
                } else p.parse(src);
            }));
        }
    } else if (q.api == "sax2") {
        SAX2XMLReader* p = XMLReaderFactory::createXMLReader();
        struct Del { SAX2XMLReader* p; ~Del() { delete p; } } del = {p};
        SaxErr eh; Sax2Doc dh;
        p->setProperty(XMLUni::fgXercesScannerName, (void*)scannerName(q.scanner));
        p->setErrorHandler(&eh); p->setContentHandler(&dh); p->setLexicalHandler(&dh); p->setDTDHandler(&dh); p->setEntityResolver((EntityResolver*)&res);
        for (const Step& s : q.steps) {
            const Case& c = s.c; res.c = &c; Counts b4 = eh.n;
            add(guarded(eh.n, b4, [&] {
                if (bit(c, 10)) sm.setEntityExpansionLimit(c.limit);
                cfgSax2(p, c, sm);
                MemBufInputSource src(c.doc.empty() ? none : c.doc.data(), c.doc.size(), SYSID, false);
                if (s.act == 'g') {
                    XMLPScanToken tok;
                    struct R { SAX2XMLReader* p; XMLPScanToken& t; ~R() { try { p->parseReset(t); } catch (...) {} } } r = {p, tok};
                    if (p->parseFirst(src, tok)) for (long k = 0; k < s.k && p->parseNext(tok); k++) {}
                } else p->parse(src);
            }));
        }
    } else if (q.api == "dom") {
        {
            XercesDOMParser p; SaxErr eh;
            p.setErrorHandler(&eh); p.setXMLEntityResolver(&res);
            p.useScanner(scannerName(q.scanner));
            for (const Step& s : q.steps) {
                const Case& c = s.c; res.c = &c; Counts b4 = eh.n;
                add(guarded(eh.n, b4, [&] {
                    if (bit(c, 10)) sm.setEntityExpansionLimit(c.limit);
                    cfgDom(p, c, sm);
                    MemBufInputSource src(c.doc.empty() ? none : c.doc.data(), c.doc.size(), SYSID, false);
                    if (s.act == 'g') {
                        XMLPScanToken tok;
                        struct R { XercesDOMParser& p; XMLPScanToken& t; ~R() { try { p.parseReset(t); } catch (...) {} } } r = {p, tok};
                        if (p.parseFirst(src, tok)) for (long k = 0; k < s.k && p.parseNext(tok); k++) {}
                        if (bit(c, 19) && p.getDocument()) walk(p.getDocument());
                    } else {
                        struct After { XercesDOMParser& p; const Step& s; std::vector<DOMDocument*>& later; bool w;
                            ~After() {                    // the action is applied whether or not the parse threw
                                try {
                                    if (w && p.getDocument()) walk(p.getDocument());
                                    if (s.act == 'p') p.resetDocumentPool();
                                    else if (s.act == 'a') { DOMDocument* d = p.adoptDocument(); if (d) d->release(); }
                                    else if (s.act == 'l') { DOMDocument* d = p.adoptDocument(); if (d) later.push_back(d); }
                                } catch (...) {}
                            } } after = {p, s, later, bit(c, 19)};
                        p.parse(src);
                    }
                }));
            }
            if (q.steps.size() % 2 == 0) { for (DOMDocument* d : later) { walk(d); d->release(); } later.clear(); }
        }
        for (DOMDocument* d : later) { walk(d); d->release(); }     // adopted documents outlive the parser
    } else {
        static const XMLCh ls[] = {chLatin_L, chLatin_S, chNull};
        DOMImplementationLS* impl = (DOMImplementationLS*)DOMImplementationRegistry::getDOMImplementation(ls);
        {
            DOMLSParser* p = impl->createLSParser(DOMImplementationLS::MODE_SYNCHRONOUS, 0);
            struct Rel { DOMLSParser* p; ~Rel() { p->release(); } } rel = {p};
            DomErr eh; DOMConfiguration* cf = p->getDomConfig();
            cf->setParameter(XMLUni::fgXercesScannerName, (void*)scannerName(q.scanner));
            cf->setParameter(XMLUni::fgDOMErrorHandler, &eh); cf->setParameter(XMLUni::fgDOMResourceResolver, (DOMLSResourceResolver*)&res);
            for (const Step& s : q.steps) {
                const Case& c = s.c; res.c = &c; Counts b4 = eh.n;
                add(guarded(eh.n, b4, [&] {
                    if (bit(c, 10)) sm.setEntityExpansionLimit(c.limit);
                    bool adopt = s.act == 'a' || s.act == 'l';
                    cfgLs(cf, c, sm, adopt);
                    MemBufInputSource* src = new MemBufInputSource(c.doc.empty() ? none : c.doc.data(), c.doc.size(), SYSID, false);
                    Wrapper4InputSource in(src, true);
                    DOMDocument* d = 0;
                    struct After { DOMLSParser* p; const Step& s; ~After() { try { if (s.act == 'p') p->resetDocumentPool(); } catch (...) {} } } after = {p, s};
                    d = p->parse(&in);
                    if (bit(c, 19) && d) walk(d);
                    if (d && s.act == 'a') d->release();
                    else if (d && s.act == 'l') later.push_back(d);
                }));
            }
            if (q.steps.size() % 2 == 0) { for (DOMDocument* d : later) { walk(d); d->release(); } later.clear(); }
        }
        for (DOMDocument* d : later) { walk(d); d->release(); }
    }
    return out;
}

int main() {
    CountingMM* mm = new CountingMM();
    XMLPlatformUtils::Initialize(XMLUni::fgXercescDefaultLocale, 0, 0, mm);
    delete XMLPlatformUtils::fgNetAccessor; XMLPlatformUtils::fgNetAccessor = 0;   // no network, whatever the input says
    struct sigaction sa; memset(&sa, 0, sizeof sa); sa.sa_handler = onAlarm; sigaction(SIGVTALRM, &sa, 0);
    const char* sc = getenv("HX_TIME_SCALE"); double scale = sc ? atof(sc) : 1.0;
    {   // warm-up: lazy global initialisations must not be mistaken for leaks
        Case w = parseCase("dom:ig:auto:3:0 3c3f786d6c2076657273696f6e3d22312e30223f3e3c613e783c2f613e");
        for (int i = 0; i < 2; i++) { runOnce(w); w.api = i ? "sax2" : "ls"; runOnce(w); w.api = "sax"; runOnce(w); }
    }
    // Load calibration: user CPU time itself inflates when the machine is oversubscribed (the ASan allocator maps and
    // unmaps the ~160 KB XMLReader of every entity reference). A fixed reference parse (150 entity references) is timed
    // at start and every 100 cases; budgets are multiplied by measured / nominal (never below 1, at most 4), so the
    // watchdog measures the work of the case, not the load of the machine.
    Case ref = parseCase("sax:ig:never:1:0 " + std::string("3c21444f43545950452061205b3c21454e54495459206520227622203e5d3e3c613e") + [] { std::string r; for (int i = 0; i < 150; i++) r += "26653b"; return r; }() + "3c2f613e");
    const double kRefNominal = 0.10;          // user seconds of the reference on this build with the machine otherwise idle
    double loadFactor = 1.0;
    auto calibrate = [&]() { double best = 1e9; for (int i = 0; i < 3; i++) { double t0 = userSeconds(); runOnce(ref); double d = userSeconds() - t0; if (d < best) best = d; } double f = best / kRefNominal; /* minimum of three: spikes are not load */ loadFactor = f < 1.0 ? 1.0 : (f > 4.0 ? 4.0 : f); };
    std::string line; size_t caseNo = 0;
    while (std::getline(std::cin, line)) {
        if (caseNo % 100 == 0) { calibrate(); scale = (sc ? atof(sc) : 1.0) * loadFactor; fprintf(stderr, "#L %.2f\n", loadFactor); }
        fprintf(stderr, "#C %zu\n", caseNo++); fflush(stderr);     // lets the checker attribute sanitizer text to a case
        if (line.compare(0, 4, "SEQ ") == 0) {
            Seq q = parseSeq(line);
            if (q.bad) { std::cout << "bad-op" << std::endl; continue; }
            arm(scale * (8.0 * q.steps.size() + (double)q.total / 3000.0 + 0.010 * (double)q.refs));
            long before = gLive.load();
            std::string out = runSeq(q);
            if (gLive.load() != before) {
                before = gLive.load();
                runSeq(q);
                long d2 = gLive.load() - before;
                if (d2 != 0) out += " LEAK " + std::to_string(d2);
            }
            disarm();
            std::cout << out << std::endl;
            continue;
        }
        Case c = parseCase(line);
        if (c.bad) { std::cout << "bad-op" << std::endl; continue; }
        size_t total = c.doc.size(), refs = 0;
        for (XMLByte b : c.doc) if (b == '&' || b == '%') ++refs;
        for (auto& kv : c.res) { total += kv.second.size(); for (XMLByte b : kv.second) if (b == '&' || b == '%') ++refs; }
        // budget in user-CPU seconds, linear in the input: 8 s + 1 s per 3 KB + 10 ms per reference character
        // (every entity reference builds an XMLReader of ~160 KB, which the ASan allocator makes expensive)
        arm(scale * (8.0 + (double)total / 3000.0 + 0.010 * (double)refs));
        long before = gLive.load();
        std::string out = runOnce(c);
        long delta = gLive.load() - before;
        if (delta != 0) {
            before = gLive.load();
            std::string out2 = runOnce(c);
            long d2 = gLive.load() - before;
            if (d2 != 0) out += " LEAK " + std::to_string(d2);
        }
        disarm();
        std::cout << out << std::endl;
    }
    XMLPlatformUtils::Terminate();
    return 0;
}
