import XV.Driver.Util
import XV.Driver.Utf8
import XV.Driver.Regex
import XV.Driver.Codec
import XV.Driver.Ns
import XV.Driver.Dt
import XV.Driver.Identity
import XV.Driver.ContentModel
import XV.Driver.DtdValid
import XV.Driver.Trace
import XV.Driver.Ext
import XV.Driver.Uri
import XV.Driver.XInclude
import XV.Driver.Ledger
import XV.Driver.Dom
import XV.Driver.XmlWf
import XV.Driver.Facet
import XV.Driver.Ser
import XV.Driver.Formatter
import XV.Driver.Safety
import XV.Driver.Particle
import XV.Driver.XsdValid
import XV.Driver.Reader
import XV.Driver.Hist
import XV.Driver.Infoset
import XV.Driver.Views
open XV.Driver

def main (args : List String) : IO UInt32 := do
  let stdin ← IO.getStdin
  let stdout ← IO.getStdout
  match args with
  | ["utf8"] => lineLoop stdin stdout XV.Driver.Utf8.handle; return 0
  | ["regex"] => lineLoop stdin stdout XV.Driver.Regex.handle; return 0
  | ["cm"] => lineLoop stdin stdout XV.Driver.ContentModel.handle; return 0
  | ["cmspec"] => lineLoop stdin stdout XV.Driver.ContentModel.handleSpec; return 0
  | ["dtdspec"] => lineLoop stdin stdout XV.Driver.DtdValid.handle; return 0
  | ["codec"] => lineLoop stdin stdout XV.Driver.Codec.handle; return 0
  | ["ns"] => lineLoop stdin stdout XV.Driver.Ns.handle; return 0
  | ["nsspec"] => lineLoop stdin stdout XV.Driver.Ns.handleSpec; return 0
  | ["nsmodel"] => lineLoop stdin stdout XV.Driver.Ns.handleModel; return 0
  | ["dt"] => lineLoop stdin stdout XV.Driver.Dt.handle; return 0
  | ["dtspec"] => lineLoop stdin stdout XV.Driver.Dt.handleSpec; return 0
  | ["ic"] => lineLoop stdin stdout XV.Driver.Identity.handle; return 0
  | ["trace"] => lineLoop stdin stdout XV.Driver.Trace.handle; return 0
  | ["pool"] => lineLoop stdin stdout XV.Driver.Trace.handlePool; return 0
  | ["extgate"] => lineLoop stdin stdout XV.Driver.Ext.handle; return 0
  | ["uri"] => lineLoop stdin stdout XV.Driver.Uri.handle; return 0
  | ["xinclude"] => lineLoop stdin stdout XV.Driver.XInclude.handle; return 0
  | ["ledger"] => lineLoop stdin stdout XV.Driver.Ledger.handle; return 0
  | ["lifecycle"] => lineLoop stdin stdout XV.Driver.Ledger.handleL; return 0
  | ["arena"] => lineLoop stdin stdout XV.Driver.Ledger.handleA; return 0
  | ["arenaspec"] => lineLoop stdin stdout XV.Driver.Ledger.handleASpec; return 0
  | ["dom"] => lineLoopS stdin stdout (XV.Model.Dom.init 0) (XV.Driver.Dom.handle 0); return 0
  | ["domfull"] => lineLoopS stdin stdout (XV.Model.Dom.init 0) (XV.Driver.Dom.handle 1); return 0
  | ["domgen"] => XV.Driver.Dom.loopFlush stdin stdout 2 (XV.Model.Dom.init 0); return 0
  | ["xmlwf"] => lineLoop stdin stdout XV.Driver.XmlWf.handle; return 0
  | ["xmlchar"] => for l in XV.Driver.XmlWf.dumpTables do stdout.putStrLn l
                   return 0
  | ["facet"] => lineLoop stdin stdout XV.Driver.Facet.handle; return 0
  | ["facetspec"] => lineLoop stdin stdout XV.Driver.Facet.handleSpec; return 0
  | ["ser"] => lineLoop stdin stdout XV.Driver.Ser.handle; return 0
  | ["fmt"] => lineLoop stdin stdout XV.Driver.Formatter.handle; return 0
  | ["safety"] => lineLoop stdin stdout XV.Driver.Safety.handle; return 0
  | ["xsdcm"] => lineLoop stdin stdout XV.Driver.Particle.handle; return 0
  | ["xsdcmspec"] => lineLoop stdin stdout XV.Driver.Particle.handleSpec; return 0
  | ["xsdsg"] => lineLoop stdin stdout XV.Driver.Particle.handleSubst; return 0
  | ["xsd"] => lineLoopS stdin stdout (none : Option XV.Spec.XsdValid.Schema) XV.Driver.XsdValid.handle; return 0
  | ["reader"] => lineLoop stdin stdout XV.Driver.Reader.handle; return 0
  | ["hist"] => lineLoop stdin stdout XV.Driver.Hist.handle; return 0
  | ["infoset"] => lineLoop stdin stdout XV.Driver.Infoset.handle; return 0
  | ["infonorm"] => lineLoop stdin stdout XV.Driver.Infoset.handleNorm; return 0
  | ["views"] => lineLoopS stdin stdout (XV.Driver.Views.fresh XV.Driver.Views.cfgCode 0) (XV.Driver.Views.handle 0); return 0
  | ["viewsfull"] => lineLoopS stdin stdout (XV.Driver.Views.fresh XV.Driver.Views.cfgCode 0) (XV.Driver.Views.handle 1); return 0
  | ["viewsgen"] => XV.Driver.Views.loopFlush stdin stdout 2 (XV.Driver.Views.fresh XV.Driver.Views.cfgCode 0); return 0
  | ["viewsspec"] => lineLoopS stdin stdout (XV.Driver.Views.fresh XV.Driver.Views.cfgSpec 0) (XV.Driver.Views.handle 0); return 0
  | ["viewsspecfull"] => lineLoopS stdin stdout (XV.Driver.Views.fresh XV.Driver.Views.cfgSpec 0) (XV.Driver.Views.handle 1); return 0
  | ["utf8spec"] => lineLoop stdin stdout XV.Driver.Utf8.handleSpec; return 0
  | _ => IO.eprintln "usage: xvdriver <area>"; return 2
