import XV.Gen.Utf8Tables
import XV.Spec.Utf8
import XV.Model.Utf8
import XV.Props.C05
import XV.Props.C11
import XV.Props.C07
import XV.Props.C06
