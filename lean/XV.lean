import XV.Gen.Utf8Tables
import XV.Spec.Utf8
import XV.Model.Utf8
