import XV.Props.C10
