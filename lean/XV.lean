import XV.Props.C10
import XV.Props.C17
import XV.Props.C19
import XV.Props.C20
