import XV.Props.C10
import XV.Props.C17
import XV.Props.C19
import XV.Props.C20
import XV.Props.C18
import XV.Props.C13
import XV.Props.C02
import XV.Props.C09
