import XV.Props.C09
