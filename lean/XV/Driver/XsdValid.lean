/- C08 driver, document tier (`xvdriver xsd`): the executable Spec `XV.Spec.XsdValid.violations` on the abstract
   description of a schema (components) and of instance documents.  Stateful: an `S` line sets the schema for
   the following `I` lines.

   S NT <n> {T <id> <base|-> <e|r> <abstract> <block>}            type definitions (derivation data; simple types too)
     NC <n> {C <id> <nameNs> <nameLocal|-> <content> <nuses> {<ns> <name> <r|o|p> <vc>} <wild|->}
     ND <n> {D <ns> <name> <global> <type> <vc> <substNs|-> <substName|-> <abstract> <block> <nillable>}
     NL <n> {L d<k> | L w<nsc><pc>}                               leaves of the content models
     NN <n> {N <ns> <local> <typeid>}                             global type names
     NG <n> {G <ns> <name> <vc>}                                  global attribute declarations
       <block>   = three 0/1 chars: substitution extension restriction
       <vc>      = n | d<value> | f<value>
       <wild>    = <nsc><pc>     <nsc> = a | o<nsdigit> | l<nsdigits>     <pc> = s | l | k
       <content> = E | S | O<particle> | M<particle>
       <particle>= occ? term ; occ = {min,max|u} ; term = L<k>; | s<p><p> | c<p><p> | a[<k>:<0|1>,…] | z
     -> "ok" | "bad-schema"
   I <elem>    <elem> = E <eid> <ns> <name> <nattrs> {<ns> <name> <value>} <xsiType: - | ns:local> <nil: - | 0 | 1>
                        <text: - | value> <nchildren> <elem>…
     -> "valid <info>…" | "invalid <class>,<class>…"       info = eid:ns:name:type:text|-:attr;attr…   attr = ns:name=value[!]
-/
import XV.Driver.Util
import XV.Spec.XsdValid
namespace XV.Driver.XsdValid
open XV.Driver XV.Spec.Particle XV.Spec.XsdValid

abbrev P := StateT (List String) Option

def tok : P String := do
  match (← get) with
  | [] => failure
  | t :: ts => set ts; pure t

def nat : P Nat := do
  match (← tok).toNat? with
  | some n => pure n
  | none => failure

def expect (s : String) : P Unit := do
  if (← tok) == s then pure () else failure

def bit (c : Char) : Bool := c == '1'

def flag : P Bool := do pure ((← tok) == "1")

def blockSet : P BlockSet := do
  match (← tok).toList with
  | [a, b, c] => pure ⟨bit a, bit b, bit c⟩
  | _ => failure

def vcOf (s : String) : Option ValueConstraint :=
  match s.toList with
  | ['n'] => some .none
  | 'd' :: r => (String.ofList r).toNat?.map .default
  | 'f' :: r => (String.ofList r).toNat?.map .fixed
  | _ => none

def vc : P ValueConstraint := do
  match vcOf (← tok) with
  | some v => pure v
  | none => failure

def digit (c : Char) : Option Nat := if '0' ≤ c ∧ c ≤ '9' then some (c.toNat - '0'.toNat) else none

def pcOf (c : Char) : Option ProcessContents :=
  if c == 's' then some .strict else if c == 'l' then some .lax else if c == 'k' then some .skip else none

def wildOf (cs : List Char) : Option (NsConstraint × ProcessContents) :=
  match cs.reverse with
  | p :: r =>
    match pcOf p, r.reverse with
    | some pc, ['a'] => some (.any, pc)
    | some pc, ['o', d] => (digit d).map (fun n => (.other n, pc))
    | some pc, 'l' :: ds => (ds.mapM digit).map (fun ns => (.list ns, pc))
    | _, _ => none
  | [] => none

def repeatP {α : Type} (n : Nat) (p : P α) : P (List α) := do
  let mut acc := []
  for _ in [0:n] do
    acc := (← p) :: acc
  pure acc.reverse

/-! particles over leaf indices -/

def parseNat (cs : List Char) : Option (Nat × List Char) :=
  let ds := cs.takeWhile Char.isDigit
  if ds.isEmpty then none else (String.ofList ds).toNat?.map (fun n => (n, cs.drop ds.length))

def parseOcc (cs : List Char) : Option (Nat × Option Nat × List Char) :=
  match cs with
  | '{' :: r =>
    match parseNat r with
    | some (mn, ',' :: r2) =>
      match r2 with
      | 'u' :: '}' :: r3 => some (mn, none, r3)
      | _ =>
        match parseNat r2 with
        | some (mx, '}' :: r3) => some (mn, some mx, r3)
        | _ => none
    | _ => none
  | _ => some (1, some 1, cs)

def parseMembers : Nat → List Char → Option (List (Nat × Bool) × List Char)
  | 0, _ => none
  | fuel + 1, cs =>
    match cs with
    | ']' :: r => some ([], r)
    | ',' :: r => parseMembers fuel r
    | _ =>
      match parseNat cs with
      | some (k, ':' :: o :: r) =>
        match parseMembers fuel r with
        | some (ms, r2) => some ((k, o == '1') :: ms, r2)
        | none => none
      | _ => none

def parseP : Nat → List Char → Option (Particle Nat × List Char)
  | 0, _ => none
  | fuel + 1, cs =>
    match parseOcc cs with
    | none => none
    | some (mn, mx, rest) =>
      let wrap (p : Particle Nat) : Particle Nat := if mn == 1 && mx == some 1 then p else .rep mn mx p
      match rest with
      | 'z' :: r => some (wrap .eps, r)
      | 'L' :: r =>
        match parseNat r with
        | some (k, ';' :: r2) => some (wrap (.leaf k), r2)
        | _ => none
      | 'a' :: '[' :: r =>
        match parseMembers (r.length + 1) r with
        | some (ms, r2) => some (wrap (.all ms), r2)
        | none => none
      | c :: r =>
        if c == 's' || c == 'c' then
          match parseP fuel r with
          | some (x, r1) =>
            match parseP fuel r1 with
            | some (y, r2) => some (wrap (if c == 's' then .seq x y else .choice x y), r2)
            | none => none
          | none => none
        else none
      | [] => none

def particleOf (cs : List Char) : Option (Particle Nat) :=
  match parseP (cs.length + 1) cs with
  | some (p, []) => some p
  | _ => none

def content : P Content := do
  match (← tok).toList with
  | ['E'] => pure .empty
  | ['S'] => pure .simple
  | 'O' :: r => match particleOf r with | some p => pure (.elementOnly p) | none => failure
  | 'M' :: r => match particleOf r with | some p => pure (.mixed p) | none => failure
  | _ => failure

def optNat : P (Option Nat) := do
  let t ← tok
  if t == "-" then pure none else match t.toNat? with | some n => pure (some n) | none => failure

def typeDef : P TypeDef := do
  expect "T"
  let id ← nat
  let base ← optNat
  let m ← tok
  let abs ← flag
  let blk ← blockSet
  pure { name := id, base := base, derivedBy := if m == "e" then .extension else .restriction, block := blk, abstract := abs }

def attrUse : P AttrUse := do
  let ns ← nat
  let nm ← nat
  let u ← tok
  let v ← vc
  pure { name := ⟨ns, nm⟩, use := if u == "r" then .required else if u == "p" then .prohibited else .optional, vc := v }

def complexType : P ComplexType := do
  expect "C"
  let id ← nat
  let nns ← nat
  let nl ← optNat
  let c ← content
  let nu ← nat
  let uses ← repeatP nu attrUse
  let w ← tok
  let wc ← if w == "-" then pure none else
    match wildOf w.toList with
    | some (c, pc) => pure (some (⟨c, pc⟩ : AttrWildcard))
    | none => failure
  pure { id := id, name := nl.map (fun l => ⟨nns, l⟩), content := c, uses := uses, wildcard := wc }

def declP : P (Decl × Option ElemDecl) := do
  expect "D"
  let ns ← nat
  let nm ← nat
  let g ← flag
  let ty ← nat
  let v ← vc
  let sns ← optNat
  let snm ← optNat
  let abs ← flag
  let blk ← blockSet
  let nil ← flag
  let d : Decl := { name := ⟨ns, nm⟩, global := g, type := ty, vc := v }
  let subst := match sns, snm with | some a, some b => some (⟨a, b⟩ : QName) | _, _ => none
  let ge : Option ElemDecl := if g then some { name := ⟨ns, nm⟩, type := ty, subst := subst, abstract := abs, block := blk, nillable := nil } else none
  pure (d, ge)

def leafP : P LeafRef := do
  expect "L"
  match (← tok).toList with
  | 'd' :: r => match (String.ofList r).toNat? with | some k => pure (.decl k) | none => failure
  | 'w' :: r => match wildOf r with | some (c, pc) => pure (.wild c pc) | none => failure
  | _ => failure

def schemaP : P Schema := do
  expect "NT"; let types ← repeatP (← nat) typeDef
  expect "NC"; let cts ← repeatP (← nat) complexType
  expect "ND"; let ds ← repeatP (← nat) declP
  expect "NL"; let ls ← repeatP (← nat) leafP
  expect "NN"; let ns ← repeatP (← nat) (do expect "N"; let a ← nat; let b ← nat; let t ← nat; pure ((⟨a, b⟩ : QName), t))
  expect "NG"; let gs ← repeatP (← nat) (do expect "G"; let a ← nat; let b ← nat; let v ← vc; pure ({ name := ⟨a, b⟩, vc := v } : AttrDecl))
  pure { env := { elems := ds.filterMap (·.2), types := types }, ctypes := cts, decls := ds.map (·.1), leaves := ls,
         typeNames := ns, gattrs := gs }

def elemP : Nat → P Elem
  | 0 => failure
  | fuel + 1 => do
    expect "E"
    let eid ← nat
    let ns ← nat
    let nm ← nat
    let na ← nat
    let attrs ← repeatP na (do let a ← nat; let b ← nat; let v ← nat; pure ((⟨a, b⟩, v) : Attr))
    let xt ← tok
    let xsiType ← if xt == "-" then pure none else
      match xt.splitOn ":" with
      | [a, b] => match a.toNat?, b.toNat? with
        | some x, some y => pure (some (⟨x, y⟩ : QName))
        | _, _ => failure
      | _ => failure
    let nl ← tok
    let nil := if nl == "-" then none else some (nl == "1")
    let text ← optNat
    let nc ← nat
    let kids ← repeatP nc (elemP fuel)
    pure (.mk eid ⟨ns, nm⟩ attrs xsiType nil text kids)

def showAttr (a : Attr × Bool) : String :=
  s!"{a.1.1.ns}:{a.1.1.name}={a.1.2}" ++ (if a.2 then "!" else "")

def showInfo (i : Info) : String :=
  let t := match i.text with | some v => toString v | none => "-"
  s!"{i.eid}:{i.name.ns}:{i.name.name}:{i.type}:{t}:" ++ ";".intercalate (i.attrs.map showAttr)

def handle (st : Option Schema) (line : String) : Option Schema × String :=
  match words line with
  | "S" :: rest =>
    match (schemaP.run rest) with
    | some (s, []) => (some s, "ok")
    | _ => (st, "bad-schema")
  | "I" :: rest =>
    match st with
    | none => (st, "no-schema")
    | some S =>
      match ((elemP (rest.length + 1)).run rest) with
      | some (e, []) =>
        let (vs, infos) := violations S e
        if vs.isEmpty then (st, "valid " ++ " ".intercalate (infos.map showInfo))
        else (st, "invalid " ++ ",".intercalate vs)
      | _ => (st, "bad-op")
  | _ => (st, "bad-op")

end XV.Driver.XsdValid
