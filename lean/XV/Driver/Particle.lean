/- C08 driver, content-model tier: schema particles (model side `xsdcm`, spec side `xsdcmspec`).

   spec syntax (one token, prefix notation; see harness/hx_xsd.cpp):
     particle := occ? term          occ := '{' min ',' (max | 'u') '}'      (absent = {1,1})
     term := ('e'|'f'|'g'|'h') digit                 element leaf; letter = namespace (e urn:a, f urn:b, g none, h urn:c)
           | 'w' 'a' pc | 'w' 'o' ns pc | 'w' 'n' ns pc      wildcard ##any / ##other(ns) / one namespace;  ns ∈ a b c g,  pc ∈ s l k
           | ('s'|'c'|'a') particle particle          Sequence / Choice / All group node with two children
           | ('S'|'C'|'L') particle                   Sequence / Choice / All group node with a single child
   V <spec> <syms|->            one child sequence  -> "<route> ok" | "<route> fail"
   A <spec> <alphabet> <maxlen> all sequences over the alphabet of length ≤ maxlen, DFS pre-order
                                -> "<route> <one char per sequence: '.' accepted, '!' rejected>"
   spec side: same lines -> '1' / '0' per sequence (`pMatch` on the declared particle).
-/
import XV.Driver.Util
import XV.Spec.Particle
import XV.Model.Particle
import XV.Model.ParticleDfa
namespace XV.Driver.Particle
open XV.Driver XV.Spec.Particle XV.Model.Particle

def digitOf (c : Char) : Option Nat :=
  if '0' ≤ c ∧ c ≤ '9' then some (c.toNat - '0'.toNat) else none

/-- namespace ids of the Spec: 0 absent, 1 urn:a, 2 urn:b, 3 urn:c -/
def nsOfLetter (c : Char) : Option Nat :=
  if c == 'e' then some 1 else if c == 'f' then some 2 else if c == 'g' then some 0 else if c == 'h' then some 3 else none

def nsOfCode (c : Char) : Option Nat :=
  if c == 'a' then some 1 else if c == 'b' then some 2 else if c == 'c' then some 3 else if c == 'g' then some 0 else none

def pcOf (c : Char) : Option ProcessContents :=
  if c == 's' then some .strict else if c == 'l' then some .lax else if c == 'k' then some .skip else none

/-- local names "e3", "f0", …: letter and digit -/
def symOf (l : Char) (d : Nat) : Option QName :=
  (nsOfLetter l).map (fun ns => ⟨ns, l.toNat * 16 + d⟩)

def parseNat (cs : List Char) : Option (Nat × List Char) :=
  let ds := cs.takeWhile Char.isDigit
  if ds.isEmpty then none else (String.ofList ds).toNat?.map (fun n => (n, cs.drop ds.length))

/-- `{min,max}` prefix -/
def parseOcc (cs : List Char) : Option (Nat × Option Nat × List Char) :=
  match cs with
  | '{' :: r =>
    match parseNat r with
    | some (mn, ',' :: r2) =>
      match r2 with
      | 'u' :: '}' :: r3 => some (mn, none, r3)
      | _ =>
        match parseNat r2 with
        | some (mx, '}' :: r3) => some (mn, some mx, r3)
        | _ => none
    | _ => none
  | _ => some (1, some 1, cs)

def groupOf (c : Char) : Option GroupType :=
  if c == 's' || c == 'S' then some .Sequence else if c == 'c' || c == 'C' then some .Choice
  else if c == 'a' || c == 'L' then some .All else none

/-- prefix-notation parser; fuel = remaining length + 1 -/
def parseS : Nat → List Char → Option (SNode Leaf × List Char)
  | 0, _ => none
  | fuel + 1, cs =>
    match parseOcc cs with
    | none => none
    | some (mn, mx, rest) =>
      match rest with
      | 'w' :: 'a' :: p :: r => (pcOf p).map (fun pc => (.leaf (.wild .any pc) mn mx, r))
      | 'w' :: 'o' :: n :: p :: r =>
        match nsOfCode n, pcOf p with
        | some ns, some pc => some (.leaf (.wild (.other ns) pc) mn mx, r)
        | _, _ => none
      | 'w' :: 'n' :: n :: p :: r =>
        match nsOfCode n, pcOf p with
        | some ns, some pc => some (.leaf (.wild (.list [ns]) pc) mn mx, r)
        | _, _ => none
      | c :: r =>
        if c == 's' || c == 'c' || c == 'a' then
          match groupOf c, parseS fuel r with
          | some t, some (x, r1) =>
            match parseS fuel r1 with
            | some (y, r2) => some (.group2 t x y mn mx, r2)
            | none => none
          | _, _ => none
        else if c == 'S' || c == 'C' || c == 'L' then
          match groupOf c, parseS fuel r with
          | some t, some (x, r1) => some (.group1 t x mn mx, r1)
          | _, _ => none
        else
          match r with
          | d :: r1 =>
            match digitOf d, nsOfLetter c with
            | some dn, some ns => some (.leaf (.elem ⟨ns, c.toNat * 16 + dn⟩) mn mx, r1)
            | _, _ => none
          | [] => none
      | [] => none

def parseSpec (s : String) : Option (SNode Leaf) :=
  let cs := s.toList
  match parseS (cs.length + 1) cs with
  | some (n, []) => some n
  | _ => none

def parseSym (s : String) : Option QName :=
  match s.toList with
  | [l, d] => (digitOf d).bind (symOf l)
  | _ => none

def parseSyms (s : String) : Option (List QName) :=
  if s == "-" then some [] else (s.splitOn ",").mapM parseSym

/-- no substitution groups in this tier -/
def noSubst : QName → QName → Bool := fun _ _ => false

def accepts (x : QName) (l : Leaf) : Bool := l.matches noSubst x

/-! ### model side: `makeContentModel` routing + the code-shaped pieces -/

def isElemLeaf : XNode Leaf → Bool
  | .leaf (.elem _) => true
  | _ => false

def isAllNode : XNode Leaf → Bool
  | .bin .All _ _ => true
  | _ => false

/-- which content-model class `ComplexTypeInfo::makeContentModel` (Children, not mixed) creates -/
def routeOf : XNode Leaf → String
  | .leaf (.wild _ _) => "dfa"
  | .leaf (.elem _) => "simple"
  | .bin .All _ _ => "all"
  | .bin _ x y => if isElemLeaf x && isElemLeaf y then "simple" else "dfa"
  | .unary _ x => if isElemLeaf x then "simple" else if isAllNode x then "all" else "dfa"
  | .loopRep _ _ _ _ => "dfa"

/-- the `All` node the constructor receives, and whether `fHasOptionalContent` is set: the node's minOccurs
    is what TraverseSchema left on it -/
def allRoot (s : SNode Leaf) (x : XNode Leaf) : XNode Leaf × Bool :=
  let minZero := match s with
    | .group2 .All _ _ mn _ => mn == 0
    | .group1 .All _ mn _ => mn == 0
    | _ => false
  match x with
  | .unary _ y => (y, minZero)
  | _ => (x, minZero)

/-- all-model children are element names; children of the instance are compared by (uri, local part) -/
def leafName : Leaf → QName
  | .elem q => q
  | .wild _ _ => ⟨99, 99⟩

def mapX (f : Leaf → QName) : XNode Leaf → XNode QName
  | .leaf a => .leaf (f a)
  | .unary t x => .unary t (mapX f x)
  | .bin t x y => .bin t (mapX f x) (mapX f y)
  | .loopRep o mn mx x => .loopRep o mn mx (mapX f x)

def xLeaves : XNode Leaf → List Leaf
  | .leaf a => [a]
  | .unary _ x => xLeaves x
  | .bin _ x y => xLeaves x ++ xLeaves y
  | .loopRep _ _ _ x => xLeaves x

def mapXN (f : Leaf → Nat) : XNode Leaf → XNode Nat
  | .leaf a => .leaf (f a)
  | .unary t x => .unary t (mapXN f x)
  | .bin t x y => .bin t (mapXN f x) (mapXN f y)
  | .loopRep o mn mx x => .loopRep o mn mx (mapXN f x)

/-- prepared validator of the model side -/
def prepare (s : SNode Leaf) : String × (List QName → Bool) :=
  let x := makeTree s
  let route := routeOf x
  if route == "all" then
    let (root, minZero) := allRoot s x
    match mkAllModel (mapX leafName root) minZero with
    | none => ("exc:RuntimeException", fun _ => false)
    | some m => (route, fun w => (allValidate m w).isNone)
  else if route == "dfa" then
    -- DFAContentModel with counting states, on leaf ids (equal leaf term = equal id, as the element map merges them)
    let tbl := (xLeaves x).eraseDups
    let xn := mapXN (fun l => (tbl.findIdx? (fun t => t == l)).getD 0) x
    match XV.Model.ParticleDfa.buildCDFA xn with
    | none => ("exc:dfa-fuel", fun _ => false)
    | some c =>
      let acc : QName → Nat → Bool := fun q a => match tbl[a]? with | some l => accepts q l | none => false
      (route, fun w => XV.Model.ParticleDfa.validate c acc w == .ok)
  else
    -- SimpleContentModel route: the tree `convertContentSpecTree` produced, read as a particle
    (route, fun w => pMatch (fun x l => accepts x l) x.toParticle w)

def enumGo (alpha : List QName) : Nat → List QName → Array (List QName) → Array (List QName)
  | 0, pre, acc => acc.push pre.reverse
  | left + 1, pre, acc =>
    alpha.foldl (fun acc s => enumGo alpha left (s :: pre) acc) (acc.push pre.reverse)

def handle (line : String) : String :=
  match words line with
  | ["V", sp, syms] =>
    match parseSpec sp, parseSyms syms with
    | some s, some w =>
      let (route, f) := prepare s
      s!"{route} {if f w then "ok" else "fail"}"
    | _, _ => "bad-op"
  | ["A", sp, al, ml] =>
    match parseSpec sp, parseSyms al, ml.toNat? with
    | some s, some alpha, some maxlen =>
      let (route, f) := prepare s
      let cs := ((enumGo alpha maxlen [] #[]).toList).map (fun w => if f w then '.' else '!')
      s!"{route} {String.ofList cs}"
    | _, _, _ => "bad-op"
  | _ => "bad-op"

/-! ### spec side -/

def specGo (alpha : List QName) : Nat → Particle Leaf → Array Char → Array Char
  | 0, p, acc => acc.push (if p.nullable then '1' else '0')
  | left + 1, p, acc =>
    alpha.foldl (fun acc s => specGo alpha left (p.deriv (fun l => accepts s l)) acc)
      (acc.push (if p.nullable then '1' else '0'))

def handleSpec (line : String) : String :=
  match words line with
  | ["V", sp, syms] =>
    match parseSpec sp, parseSyms syms with
    | some s, some w => if pMatch (fun x l => accepts x l) s.toParticle w then "1" else "0"
    | _, _ => "bad-op"
  | ["A", sp, al, ml] =>
    match parseSpec sp, parseSyms al, ml.toNat? with
    | some s, some alpha, some maxlen => String.ofList (specGo alpha maxlen s.toParticle #[]).toList
    | _, _, _ => "bad-op"
  | _ => "bad-op"

/-! ### substitution groups (`xsdsg`): SubstitutionGroupComparator::isEquivalentTo on declared components

   Q <nT> <type>*nT <nE> <elem>*nE
     <type> := <base index|->:<e|r>:<xy>          derivation method of the type, block = extension restriction (0/1)
     <elem> := <ns>:<type index>:<head index|->:<xyz>   block = substitution extension restriction (0/1)
   type `i` has name `i`, element `k` has the name ⟨ns, k⟩ (harness: local name "q<k>" in urn:a / urn:b)
   -> "<model bits> <spec bits>": for every ordered pair (d, c) of elements, row-major in d:
      model = `isEquivalentTo E d c` (code-shaped), spec = `d = c ∨ substitutable E d c` (§3.3.6) -/

def bit (s : String) (i : Nat) : Option Bool :=
  match s.toList[i]? with
  | some '1' => some true
  | some '0' => some false
  | _ => none

def optIdx (s : String) : Option (Option Nat) :=
  if s == "-" then some none else s.toNat?.map some

def parseTypeTok (i : Nat) (s : String) : Option TypeDef :=
  match s.splitOn ":" with
  | [b, m, blk] =>
    match optIdx b, bit blk 0, bit blk 1 with
    | some base, some be, some br =>
      if blk.length != 2 then none
      else if m == "e" then some { name := i, base := base, derivedBy := .extension, block := { extension := be, restriction := br } }
      else if m == "r" then some { name := i, base := base, derivedBy := .restriction, block := { extension := be, restriction := br } }
      else none
    | _, _, _ => none
  | _ => none

def parseElemTok (k : Nat) (s : String) : Option (ElemDecl × Option Nat) :=
  match s.splitOn ":" with
  | [ns, ty, hd, blk] =>
    match ns.toNat?, ty.toNat?, optIdx hd, bit blk 0, bit blk 1, bit blk 2 with
    | some n, some t, some h, some bs, some be, some br =>
      if blk.length != 3 then none
      else some ({ name := ⟨n, k⟩, type := t, block := { substitution := bs, extension := be, restriction := br } }, h)
    | _, _, _, _, _, _ => none
  | _ => none

def parseAll {α : Type} (f : Nat → String → Option α) : Nat → List String → Option (List α)
  | _, [] => some []
  | i, s :: r =>
    match f i s, parseAll f (i + 1) r with
    | some a, some l => some (a :: l)
    | _, _ => none

def parseSubstEnv (ws : List String) : Option SubstEnv :=
  match ws with
  | nt :: rest =>
    match nt.toNat? with
    | none => none
    | some nT =>
      match parseAll parseTypeTok 0 (rest.take nT), rest.drop nT with
      | some types, ne :: rest2 =>
        match ne.toNat? with
        | none => none
        | some nE =>
          if types.length != nT || rest2.length != nE then none else
          match parseAll parseElemTok 0 rest2 with
          | none => none
          | some es =>
            let names := es.map (fun p => p.1.name)
            some { types := types,
                   elems := es.map (fun p => { p.1 with subst := match p.2 with | none => none | some h => names[h]? }) }
      | _, _ => none
  | [] => none

def handleSubst (line : String) : String :=
  match words line with
  | "Q" :: ws =>
    match parseSubstEnv ws with
    | none => "bad-op"
    | some E =>
      let names := E.elems.map (·.name)
      let pairs := names.flatMap (fun d => names.map (fun c => (d, c)))
      let m := pairs.map (fun p => if isEquivalentTo E p.1 p.2 then '1' else '0')
      let s := pairs.map (fun p => if decide (p.1 = p.2) || substitutable E p.1 p.2 then '1' else '0')
      s!"{String.ofList m} {String.ofList s}"
  | _ => "bad-op"

end XV.Driver.Particle
