import XV.Driver.Util
import XV.Model.Decimal
import XV.Spec.Decimal
import XV.Model.DateTime
import XV.Spec.DateTime
import XV.Spec.Duration
import XV.Spec.Ws
import XV.Model.Facets
import XV.Spec.Facets
/-! C09 facet tier: `xvdriver facet` (model: inheritFacet / inspectFacetBase / boundsCheck …) and `xvdriver facetspec`
(Spec: conjunction of all steps).  One line: `FA <type-expression> <value>` -> `load=ok|err v=V|I`.

Type expressions (no blanks; values are '.'-separated hex XMLCh units, `-` = empty):
  T ::= A(kind;step/step/…)      restriction chain over a built-in: decimal integer double date dateTime string token
      | L(T;step/step/…)         list of T, then restriction steps with length facets
      | U(T|T|…)                 union
  step ::= `-` | facet=value,facet=value…   facets: maxI maxE minI minE td fd len minL maxL enum (enum value: v:v:…)
-/
namespace XV.Driver.Facet
open XV.Driver XV.Spec.Facets

/-- split at `sep` outside parentheses -/
def splitTop (s : String) (sep : Char) : List String :=
  let rec go (cs : List Char) (depth : Nat) (cur : List Char) (acc : List String) : List String :=
    match cs with
    | [] => (String.ofList cur.reverse :: acc).reverse
    | c :: r =>
      if c == '(' then go r (depth + 1) (c :: cur) acc
      else if c == ')' then go r (depth - 1) (c :: cur) acc
      else if c == sep && depth == 0 then go r depth [] (String.ofList cur.reverse :: acc)
      else go r depth (c :: cur) acc
  go s.toList 0 [] []

inductive TExpr
  | atomic (kind : String) (steps : List (List (String × String)))
  | list (item : TExpr) (steps : List (List (String × String)))
  | union (members : List TExpr)
  deriving Inhabited

def parseSteps (s : String) : List (List (String × String)) :=
  if s.isEmpty then [] else
  (s.splitOn "/").map (fun st =>
    if st == "-" then [] else
    (st.splitOn ",").filterMap (fun kv => match kv.splitOn "=" with
      | [k, v] => some (k, v)
      | _ => none))

partial def parseT (s : String) : Option TExpr :=
  if s.length < 3 then none else
  let cs := s.toList
  let body := String.ofList ((cs.drop 2).take (cs.length - 3))
  if s.startsWith "A(" then
    match splitTop body ';' with
    | [k, st] => some (.atomic k (parseSteps st))
    | [k] => some (.atomic k [])
    | _ => none
  else if s.startsWith "L(" then
    match splitTop body ';' with
    | [it, st] => (parseT it).map (fun t => .list t (parseSteps st))
    | [it] => (parseT it).map (fun t => .list t [])
    | _ => none
  else if s.startsWith "U(" then
    ((splitTop body '|').mapM parseT).map .union
  else none

def facetVal (st : List (String × String)) (k : String) : Option String := (st.find? (·.1 == k)).map (·.2)

def natOfStr (s : String) : Option Nat := s.toNat?

/-- build a `Step V` from the textual step with a value parser; `none` if a value does not parse -/
def mkStep {V : Type} (pv : List Nat → Option V) (st : List (String × String)) : Option (Step V) := do
  let pb (k : String) : Option (Option V) :=
    match facetVal st k with
    | none => some none
    | some h => match parseHexList h with
      | some u => (pv u).map some
      | none => none
  let pn (k : String) : Option (Option Nat) :=
    match facetVal st k with
    | none => some none
    | some h => (natOfStr h).map some
  let maxI ← pb "maxI"; let maxE ← pb "maxE"; let minI ← pb "minI"; let minE ← pb "minE"
  let td ← pn "td"; let fd ← pn "fd"; let ln ← pn "len"; let mn ← pn "minL"; let mx ← pn "maxL"
  let en ← match facetVal st "enum" with
    | none => some none
    | some h => ((h.splitOn ":").mapM (fun x => (parseHexList x).bind pv)).map some
  pure { maxIncl := maxI, maxExcl := maxE, minIncl := minI, minExcl := minE, totalDigits := td, fractionDigits := fd,
         length := ln, minLength := mn, maxLength := mx, enumeration := en }

/-! ### value spaces -/

def toChars (l : List Nat) : List Char := l.map Char.ofNat

/-- number of decimal digits of a natural (0 has none, as in XMLBigDecimal) -/
def numDigits (n : Nat) : Nat := if n == 0 then 0 else (Nat.toDigits 10 n).length

/-- Spec digit counts of m·10^-k: strip trailing zeros of the fraction, then E2-44 -/
partial def specDigits (v : Int × Nat) : Nat × Nat :=
  if v.2 > 0 && v.1 % 10 == 0 then specDigits (v.1 / 10, v.2 - 1)
  else (max (numDigits v.1.natAbs) v.2, v.2)

def decCmpI (a b : Int × Nat) : Int := XV.Spec.Decimal.ordInt (XV.Spec.Decimal.cmpSpec a b)

/-- Spec: lexical form -> value, per numeric kind (double: the decimal-literal subset only) -/
def specNum (kind : String) (u : List Nat) : Option (Int × Nat) :=
  let c := toChars u
  if kind == "integer" then (if XV.Spec.Decimal.isIntegerLex c then some (XV.Spec.Decimal.val c) else none)
  else (if XV.Spec.Decimal.isDecimalLex c then some (XV.Spec.Decimal.val c) else none)

def dtKind (kind : String) : XV.Spec.DateTime.Kind := if kind == "date" then .date else .dateTime

def specDate (kind : String) (u : List Nat) : Option XV.Spec.DateTime.Raw :=
  match XV.Spec.DateTime.parse (dtKind kind) u with
  | some r => if XV.Spec.DateTime.valid r then some r else none
  | none => none

def dateCmp (kind : String) (a b : XV.Spec.DateTime.Raw) : Int :=
  match XV.Spec.DateTime.specOrder (dtKind kind) a b with
  | .lt => -1 | .eq => 0 | .gt => 1 | .indeterminate => 2

def durCmp (a b : XV.Spec.Duration.Dur) : Int :=
  match XV.Spec.Duration.durOrder a b with
  | .lt => -1 | .eq => 0 | .gt => 1 | .indeterminate => 2

def strCmp (a b : List Nat) : Int := if a == b then 0 else 1

/-- decidable version of `stepOk` -/
def stepOkB {V : Type} (cmp : V → V → Int) (dg : V → Nat × Nat) (len : V → Nat) (s : Step V) (v : V) : Bool :=
  (match s.maxIncl with | some m => cmp v m == -1 || cmp v m == 0 | none => true) &&
  (match s.maxExcl with | some m => cmp v m == -1 | none => true) &&
  (match s.minIncl with | some m => cmp v m == 1 || cmp v m == 0 | none => true) &&
  (match s.minExcl with | some m => cmp v m == 1 | none => true) &&
  (match s.totalDigits with | some n => decide ((dg v).1 ≤ n) | none => true) &&
  (match s.fractionDigits with | some n => decide ((dg v).2 ≤ n) | none => true) &&
  (match s.length with | some n => len v == n | none => true) &&
  (match s.minLength with | some n => decide (n ≤ len v) | none => true) &&
  (match s.maxLength with | some n => decide (len v ≤ n) | none => true) &&
  (match s.enumeration with | some es => es.any (fun e => cmp v e == 0) | none => true)

def wsCollapse (u : List Nat) : List Nat := XV.Spec.Ws.collapseSpec u

/-- (schema loads, value accepted) -/
abbrev Verdict := Bool × Bool

/-- Spec: §4.1.2 conjunction of all steps; a chain whose bound values are not in the base's lexical space does not load -/
partial def specEval (t : TExpr) (u : List Nat) : Verdict :=
  match t with
  | .atomic kind steps =>
    if kind == "decimal" || kind == "integer" || kind == "double" then
      match steps.mapM (mkStep (specNum kind)) with
      | none => (false, false)
      | some ss =>
        match specNum kind (wsCollapse u) with
        | none => (true, false)
        | some v => (true, ss.all (fun s => stepOkB decCmpI specDigits (fun _ => 0) s v))
    else if kind == "date" || kind == "dateTime" then
      match steps.mapM (mkStep (specDate kind)) with
      | none => (false, false)
      | some ss =>
        match specDate kind (wsCollapse u) with
        | none => (true, false)
        | some v => (true, ss.all (fun s => stepOkB (dateCmp kind) (fun _ => (0, 0)) (fun _ => 0) s v))
    else if kind == "duration" then
      match steps.mapM (mkStep XV.Spec.Duration.parse) with
      | none => (false, false)
      | some ss =>
        match XV.Spec.Duration.parse (wsCollapse u) with
        | none => (true, false)
        | some v => (true, ss.all (fun s => stepOkB durCmp (fun _ => (0, 0)) (fun _ => 0) s v))
    else
      let norm : List Nat → List Nat := if kind == "token" then wsCollapse else id
      match steps.mapM (mkStep (fun x => some (norm x))) with
      | none => (false, false)
      | some ss => (true, ss.all (fun s => stepOkB strCmp (fun _ => (0, 0)) List.length s (norm u)))
  | .list item steps =>
    let toks := XV.Spec.Ws.tokens (XV.Spec.Ws.replaceSpec u)
    match steps.mapM (mkStep (fun (_ : List Nat) => some toks)) with
    | none => (false, false)
    | some ss =>
      let itemLoads := (specEval item []).1
      (itemLoads, toks.all (fun tk => (specEval item tk).2) &&
        ss.all (fun s => stepOkB (fun _ _ => 1) (fun _ => (0, 0)) List.length s toks))
  | .union members =>
    (members.all (fun m => (specEval m []).1), members.any (fun m => (specEval m u).2))

/-- Model: facets in force by `inheritFacet`, derivation checks by `inspectFacet` / `inspectFacetBase`, value by
`checkNumeric` / `checkString` (numeric kinds: XMLBigDecimal values; date kinds and list / union: as the Spec) -/
partial def modelEval (t : TExpr) (u : List Nat) : Verdict :=
  open XV.Model.Facets in
  match t with
  | .atomic kind steps =>
    if kind == "decimal" || kind == "integer" || kind == "double" then
      let pv (x : List Nat) : Option XV.Model.Decimal.BigDecimal :=
        if kind == "integer" && !XV.Spec.Decimal.isIntegerLex (toChars x) then none else
        match XV.Model.Decimal.parseDecimal (toChars x) with
        | .ok d => some d
        | .error _ => none
      let cmp := XV.Model.Decimal.toCompare
      let dg (d : XV.Model.Decimal.BigDecimal) : Nat × Nat := (d.totalDigits, d.scale)
      match steps.mapM (mkStep pv) with
      | none => (false, false)
      | some ss =>
        let ok := validFrom cmp dg {} ss
        match pv (wsCollapse u) with
        | none => (ok, false)
        | some v => (ok, checkNumeric cmp dg (effective {} ss) v)
    else if kind == "date" || kind == "dateTime" then
      -- derivation checks by the model (compare = §3.2.7.4 order, INDETERMINATE = 2); the value as the Spec
      match steps.mapM (mkStep (specDate kind)) with
      | none => (false, false)
      | some ss => (validFrom (dateCmp kind) (fun _ => (0, 0)) {} ss, (specEval t u).2)
    else if kind == "duration" then
      match steps.mapM (mkStep XV.Spec.Duration.parse) with
      | none => (false, false)
      | some ss => (validFrom durCmp (fun _ => (0, 0)) {} ss, (specEval t u).2)
    else
      let norm : List Nat → List Nat := if kind == "token" then wsCollapse else id
      match steps.mapM (mkStep (fun x => some (norm x))) with
      | none => (false, false)
      | some ss =>
        (validFromS strCmp List.length {} ss, checkString strCmp List.length (effectiveS {} ss) (norm u))
  | .list item steps =>
    let toks := XV.Spec.Ws.tokens (XV.Spec.Ws.replaceSpec u)
    match steps.mapM (mkStep (fun (_ : List Nat) => some toks)) with
    | none => (false, false)
    | some ss =>
      let f := effectiveS {} ss
      ((modelEval item []).1 && validFromS (fun _ _ => 1) List.length {} ss,
       listCheck (fun tk => (modelEval item tk).2) f toks)
  | .union members =>
    (members.all (fun m => (modelEval m []).1), (unionCheck (members.map (fun m s => (modelEval m s).2)) u).isSome)

def showV (v : Verdict) : String := s!"load={if v.1 then "ok" else "err"} v={if v.2 then "V" else "I"}"

def handleWith (ev : TExpr → List Nat → Verdict) (line : String) : String :=
  match words line with
  | ["FA", t, v] => match parseT t, parseHexList v with
      | some te, some u => showV (ev te u)
      | _, _ => "bad-op"
  | _ => "bad-op"

def handle (line : String) : String := handleWith modelEval line
def handleSpec (line : String) : String := handleWith specEval line

end XV.Driver.Facet
