import XV.Driver.Util
import XV.Model.ParserState
/-!
C15 model driver.  Line protocol (same case lines as harness/hx_hist.cpp):

  P <op>;…     XMLGrammarPoolImpl ops        -> the model's observation of every op + final registry
  R <op>;…     GrammarResolver ops           -> same
  M <kind> <cfg0> <op>;…                     -> for every op of a parser history what the MODEL can say:
        the stored configuration after the op (format of the harness' `V` read-back), the pool lock, the list of
        operations that contributed to the grammar pool (`poolOf`, symbolic: indices of caching scans / loadGrammar
        calls still represented in the pool), whether a token is accepted, which document adoptDocument returns.
-/
namespace XV.Driver.Hist
open XV.Driver XV.Model.GrammarPool XV.Model.ParserState

/-! ### pool / resolver -/
def showGram (g : Option Gram) : String := match g with | some g => toString g.id | none => "-"

def showKeys (t : List Gram) : String :=
  let ks := t.map (fun g => (g.key, g.id))
  let ks := ks.toArray.qsort (fun a b => a.1 < b.1) |>.toList
  "{" ++ " ".intercalate (ks.map fun p => "k" ++ toString p.1 ++ "=" ++ toString p.2) ++ "}"

/-- string keys "k<n>" sort lexicographically in the harness: reproduce that order -/
def showKeysLex (t : List Gram) : String :=
  let ks := t.map (fun g => ("k" ++ toString g.key ++ "=" ++ toString g.id))
  let ks := ks.toArray.qsort (fun a b => a < b) |>.toList
  "{" ++ " ".intercalate ks ++ "}"

/-- id returned by getURIStringPool()->addOrFind -/
def uriId (p : Pool) (s : Nat) : Nat :=
  match p.strings.idxOf? s with
  | some i => i + 1
  | none =>
    if p.locked then
      match (p.syncStrings.getD []).idxOf? s with
      | some i => p.strings.length + i + 1
      | none => 0
    else 0

def poolStep (p : Pool) (f : List String) : Option (Pool × String) :=
  match f with
  | ["c", k, s, id] => do
      let k ← k.toNat?; let id ← id.toNat?
      let (p', ok) := cacheGrammar p (some ⟨k, s == "1", id⟩)
      some (p', if ok then "1" else "0")
  | ["c0"] => some ((cacheGrammar p none).1, "0")
  | ["r", k] => do let k ← k.toNat?; some (p, showGram (retrieveGrammar p k))
  | ["o", k] => do
      let k ← k.toNat?; let (p', g) := orphanGrammar p k
      -- RefHashTableOf::orphanKey throws NoSuchElementException for a key that is not in the table
      some (p', if g.isNone && !p.locked then "exc:NoSuchElementException" else showGram g)
  | ["x"] => let (p', ok) := clear p; some (p', if ok then "1" else "0")
  | ["l"] => some (lockPool p, "ok")
  | ["u"] => some (unlockPool p, "ok")
  | ["m"] => let (p', ch) := getXSModel p; some (p', (if ch then "1" else "0") ++ (if p'.hasXSModel then "m" else "n"))
  | ["a", s] => do let s ← s.toNat?; let p' := addOrFindURI p s; some (p', toString (uriId p' s))
  | ["e"] => some (p, showKeysLex p.registry ++ "u" ++ toString (uriCount p))
  | _ => none

def handlePool (ops : String) : String :=
  let r := (ops.splitOn ";").foldl (fun acc op =>
    if op.isEmpty then acc else
    acc.bind fun (p, outs) => (poolStep p (op.splitOn ":")).map fun (p', o) => (p', outs ++ [o])) (some (({} : Pool), ([] : List String)))
  match r with
  | some (p, outs) => " ".intercalate (outs ++ [showKeysLex p.registry])
  | none => "bad-op"

def resStep (r : Resolver) (f : List String) : Option (Resolver × String) :=
  match f with
  | ["get", k] => do let k ← k.toNat?; let (r', g) := getGrammar r k; some (r', showGram g)
  | ["put", k, s, id] => do let k ← k.toNat?; let id ← id.toNat?; some (putGrammar r ⟨k, s == "1", id⟩, "ok")
  | ["reset"] => some (reset r, "ok")
  | ["resetCached"] => some (resetCachedGrammar r, "ok")
  | ["cacheAll"] => some (cacheGrammars r, "ok")
  | ["setCache", v] => some (cacheGrammarFromParse r (v == "1"), "ok")
  | ["setUse", v] => some (useCachedGrammarInParse r (v == "1"), "ok")
  | ["orphan", k] => do
      let k ← k.toNat?
      -- with fCacheGrammar the pool is asked first and throws for an unknown key (the bucket fallback is reached only
      -- when the pool is locked); without it RefHashTableOf::orphanKey on the bucket throws the same way
      if r.cacheGrammar && !r.pool.locked && (retrieveGrammar r.pool k).isNone then some (r, "exc:NoSuchElementException")
      else if !r.cacheGrammar && (tblGet r.bucket k).isNone then some (r, "exc:NoSuchElementException")
      else if r.cacheGrammar && r.pool.locked && (tblGet r.bucket k).isNone then some (r, "-")
      else let (r', g) := resolverOrphan r k; some (r', showGram g)
  | "pool" :: rest => (poolStep r.pool rest).map fun (p', o) => ({ r with pool := p' }, o)
  | _ => none

def handleRes (ops : String) : String :=
  let r := (ops.splitOn ";").foldl (fun acc op =>
    if op.isEmpty then acc else
    acc.bind fun (r, outs) => (resStep r (op.splitOn ":")).map fun (r', o) => (r', outs ++ [o])) (some (({} : Resolver), ([] : List String)))
  match r with
  | some (r, outs) => " ".intercalate (outs ++ ["b" ++ showKeysLex r.bucket, "p" ++ showKeysLex r.pool.registry])
  | none => "bad-op"

/-! ### parser histories -/
def feats : List String := ["ns", "val", "dyn", "vis", "schema", "full", "idc", "ldtd", "lsch", "cont", "vfatal", "cache", "use", "icd",
  "skip", "multi", "nodtd", "nsp", "ent", "ws", "cmt", "sinfo", "sec"]
def kVal : Key := 1
def kDyn : Key := 2
def kVis : Key := 3
def kNs : Key := 0
def kSchema : Key := 4
def kScanner : Key := 30
def kXsl : Key := 31
def kXnl : Key := 32
def kSec : Key := 22           -- entity-expansion limit of the installed SecurityManager (0 = none installed)
def kSecL : Key := 34          -- pseudo key: setEntityExpansionLimit on the SecurityManager that is installed (if any)
def kScheme : Key := 33        -- effective validation scheme 0 never / 1 always / 2 auto (sax2, ls: derived)

def featKey (n : String) : Option Key := feats.idxOf? n

/-- which features a parser kind has (in the order of the harness' read-back) -/
def kindFeats : String → List String
  | "sax" => ["ns", "val", "schema", "full", "idc", "ldtd", "lsch", "cont", "vfatal", "cache", "use", "icd", "skip", "multi", "nodtd", "sec"]
  | "sax2" => ["ns", "val", "dyn", "schema", "full", "idc", "ldtd", "lsch", "cont", "vfatal", "cache", "use", "icd", "skip", "multi", "nodtd", "nsp", "sec"]
  | "dom" => ["ns", "val", "schema", "full", "idc", "ldtd", "lsch", "cont", "vfatal", "cache", "use", "icd", "skip", "multi", "nodtd", "ent", "ws", "cmt", "sinfo", "sec"]
  | "ls" => ["ns", "val", "vis", "schema", "full", "idc", "ldtd", "lsch", "cont", "vfatal", "cache", "use", "icd", "skip", "multi", "nodtd", "ent", "ws", "cmt", "sinfo", "sec"]
  | _ => []

/-- setFeature / setProperty as the API documents it (last writer wins, plus the documented couplings):
  * cacheGrammarFromParse(true) also switches useCachedGrammarInParse on; useCachedGrammarInParse(false) is ignored
    while grammars are being cached;
  * SAX2: the scheme is never / always / auto from the `validation` and `dynamic` features;
  * DOMLSParser: "validate"=true selects `always` unless a scheme is already active, =false selects `never`;
    "validate-if-schema"=true selects `auto`, =false `never`; both read back from the scheme. -/
def setterFor (kind : String) (k : Key) (v : Val) (c : Config) : Config :=
  let b : Val := if v != 0 then 1 else 0
  if k == kCache then (if v != 0 then upd (upd c kCache 1) kUse 1 else upd c kCache 0)
  else if k == kUse then (if v != 0 || c kCache == 0 then upd c kUse b else c)
  else if kind == "sax2" && (k == kVal || k == kDyn) then
    let c1 := upd c k b
    upd c1 kScheme (if c1 kVal != 0 then (if c1 kDyn != 0 then 2 else 1) else 0)
  else if kind == "ls" && k == kVal then
    let s := if v != 0 then (if c kScheme == 0 then 1 else c kScheme) else 0
    upd (upd (upd c kScheme s) kVal (if s != 0 then 1 else 0)) kVis (if s == 2 then 1 else 0)
  else if kind == "ls" && k == kVis then
    let s := if v != 0 then 2 else 0
    upd (upd (upd c kScheme s) kVal (if s != 0 then 1 else 0)) kVis (if s == 2 then 1 else 0)
  else if k == kVal then upd (upd c kVal v) kScheme v
  else if k == kScanner || k == kXsl || k == kXnl || k == kSec then upd c k v
  else if k == kSecL then (if c kSec != 0 then upd c kSec v else c)
  else upd c k b

/-- SGXMLScanner::scanReset forces namespaces and schema processing on (constants: harmless, see ResetComplete) -/
def resetCfgFor (c : Config) : Config :=
  if c kScanner == 3 then upd (upd c kNs 1) kSchema 1 else c

/-- the symbolic world: a scan offers exactly one grammar to the resolver, named after the operation that ran it -/
def symWorld (kind : String) (cfg0 : Config) : World where
  PerParse := Unit
  Outcome := Unit
  cfg0 := cfg0
  setter := setterFor kind
  resetCfg := resetCfgFor
  init := ()
  reset := fun _ _ => ()
  -- a document is passed as 2 * (index of the operation) + (1 if the implementation reported that parseFirst succeeded)
  scan := fun _ _ _ d _ => ((), (), [⟨d / 2, false, d / 2⟩], d % 2 == 1)
  next := fun _ _ _ => ((), (), [])
  abandon := id
  load := fun _ _ _ _ _ => ((), true)

def showCfg (kind : String) (c : Config) : String :=
  " ".intercalate ((kindFeats kind).map fun n => n ++ "=" ++ toString (c ((featKey n).getD 99)))

def parseCfg0 (s : String) : Config :=
  (s.splitOn ",").foldl (fun c kv =>
    match kv.splitOn "=" with
    | [k, v] => match featKey k, v.toNat? with
      | some k, some v => upd c k v
      | _, _ => c
    | _ => c) (fun _ => 0)

def parseOp (idx : Nat) (op : String) : Option Op :=
  let rest := (op.drop 1).toString
  if op.startsWith "F" then
    match rest.splitOn "=" with
    | [n, v] => do let k ← featKey n; let v ← v.toNat?; some (.set k v)
    | _ => none
  else if op.startsWith "S" then rest.toNat?.map fun s => .set kScanner s
  else if op.startsWith "XS" then ((op.drop 2).toString.toNat?).map fun s => .set kXsl s
  else if op.startsWith "XN" then ((op.drop 2).toString.toNat?).map fun s => .set kXnl s
  else if op.startsWith "MI" then ((op.drop 2).toString.toNat?).map fun n => .set kSec n
  else if op.startsWith "ML" then ((op.drop 2).toString.toNat?).map fun n => .set kSecL n
  else if op == "M0" then some (.set kSec 0)
  else if op == "V" then some (.set 99 0)          -- read-back: no effect (key 99 is not a feature)
  else if op.startsWith "P" then some (.parse (2 * idx + 1))
  else if op.startsWith "E" then some (.parseThrow (2 * idx + 1) 0)
  else if op.startsWith "QF" then some (.parseFirst (2 * idx + 1))
  else if op.startsWith "Qf" then some (.parseFirst (2 * idx))          -- parseFirst that the implementation reported as failed
  else if op.startsWith "QN" then ((op.drop 2).toString.toNat?).map .parseNext
  else if op.startsWith "Q!" then ((op.drop 2).toString.toNat?).map .parseNext
  else if op.startsWith "QR" then ((op.drop 2).toString.toNat?).map .parseReset
  else if op.startsWith "G" then
    match rest.splitOn "." with
    | [_, c] => some (.loadGrammar ⟨idx, false, idx⟩ (c == "1"))
    | _ => none
  else if op == "RD" then some .resetDocPool
  else if op == "RG" then some .resetGrammarPool
  else if op == "A" then some .adopt
  else if op == "L" then some .lock
  else if op == "U" then some .unlock
  else none

/-- `S<n>` replaces the scanner object as well as recording its name -/
def stepOp {w : World} (p : Parser w) (op : Op) : Parser w :=
  match op with
  | .set k _ => if k == kScanner then step false (step false p op) .useScanner else step false p op
  | _ => step false p op

def showObs {w : World} (p : Parser w) : String :=
  match lastObs p with
  | .rejected => "rejected"
  | .outcome _ => "accepted"
  | .first _ _ => "first"
  | .loaded _ => "loaded"
  | .doc (some d) => "doc" ++ toString d
  | .doc none => "docnone"
  | .none => "-"

def handleHist (kind : String) (cfg0 : String) (ops : String) : String :=
  let w := symWorld kind (parseCfg0 cfg0)
  let opl := (ops.splitOn ";").filter (· ≠ "")
  let r := opl.foldl (fun acc op =>
    acc.bind fun (p, outs, idx) =>
      (parseOp idx op).map fun o =>
        let p' : Parser w := stepOp p o
        let line := showCfg kind p'.cfg ++ " | L" ++ (if p'.res.pool.locked then "1" else "0") ++ " | " ++
          ".".intercalate (p'.res.pool.registry.map fun g => toString g.id) ++ " | " ++ showObs p' ++ " | t" ++ toString p'.tokens.length
        (p', outs ++ [line], idx + 1)) (some (fresh w, ([] : List String), 0))
  match r with
  | some (_, outs, _) => " ;; ".intercalate outs
  | none => "bad-op"

def handle (line : String) : String :=
  match line.splitOn " " with
  | ["P", ops] => handlePool ops
  | ["R", ops] => handleRes ops
  | ["M", kind, cfg0, ops] => handleHist kind cfg0 ops
  | _ => "bad-op"

end XV.Driver.Hist
