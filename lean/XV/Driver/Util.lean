/- Line-protocol helpers for the model driver (no Mathlib; compiled into `xvdriver`). -/
namespace XV.Driver

def hexDigit (c : Char) : Option Nat :=
  if '0' ≤ c ∧ c ≤ '9' then some (c.toNat - '0'.toNat)
  else if 'a' ≤ c ∧ c ≤ 'f' then some (c.toNat - 'a'.toNat + 10)
  else if 'A' ≤ c ∧ c ≤ 'F' then some (c.toNat - 'A'.toNat + 10)
  else none

def parseHex (s : String) : Option Nat :=
  if s.isEmpty then none else
  s.foldl (fun acc c => match acc, hexDigit c with
    | some a, some d => some (a * 16 + d)
    | _, _ => none) (some 0)

/-- "41.e2.82" or "-" -/
def parseHexList (s : String) : Option (List Nat) :=
  if s == "-" || s.isEmpty then some [] else
  (s.splitOn ".").mapM parseHex

def hexStr (n : Nat) : String := String.ofList (Nat.toDigits 16 n)

def hexList (l : List Nat) : String :=
  if l.isEmpty then "-" else ".".intercalate (l.map hexStr)

def words (line : String) : List String :=
  (line.trimAscii.toString.splitOn " ").filter (· ≠ "")

partial def lineLoop (h : IO.FS.Stream) (out : IO.FS.Stream) (f : String → String) : IO Unit := do
  let line ← h.getLine
  if line.isEmpty then return ()
  let l := line.trimAscii.toString
  if l.isEmpty then lineLoop h out f else
  out.putStrLn (f l)
  lineLoop h out f

partial def lineLoopS {σ : Type} (h : IO.FS.Stream) (out : IO.FS.Stream) (st : σ)
    (f : σ → String → σ × String) : IO Unit := do
  let line ← h.getLine
  if line.isEmpty then return ()
  let l := line.trimAscii.toString
  if l.isEmpty then lineLoopS h out st f else
  let (st', o) := f st l
  out.putStrLn o
  lineLoopS h out st' f

end XV.Driver
