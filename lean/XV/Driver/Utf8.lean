import XV.Driver.Util
import XV.Model.Utf8
import XV.Spec.Utf8
namespace XV.Driver.Utf8
open XV.Driver XV.Model.Utf8

def showRes : Res → String
  | .ok c s e => s!"ok {hexList c} {hexList s} {e}"
  | .exc e => s!"exc {e.name}"

def showTo : ToRes → String
  | .ok b e => s!"ok {hexList b} {e}"
  | .exc e => s!"exc {e.name}"

def handle (line : String) : String :=
  match words line with
  | ["F", m, bs] => match m.toNat?, parseHexList bs with
      | some m, some bs => showRes (transcodeFrom bs m)
      | _, _ => "bad-op"
  | ["T", m, thr, us] => match m.toNat?, parseHexList us with
      | some m, some us => showTo (transcodeTo us m (thr == "1"))
      | _, _ => "bad-op"
  | ["C", cp] => match parseHex cp with
      | some c => if c ≤ 0x10FFFF then "1" else "0"
      | none => "bad-op"
  | _ => "bad-op"

/-- spec oracle: `S <hex bytes>` -> `<scalars> done|illformed k|truncated k` -/
def handleSpec (line : String) : String :=
  match words line with
  | ["S", bs] => match parseHexList bs with
      | some bs =>
        let (ss, st) := XV.Spec.Utf8.decodeAll bs
        let u := XV.Spec.Utf8.utf16All ss
        match st with
        | .done => s!"{hexList u} done"
        | .illformed k => s!"{hexList u} illformed {k}"
        | .truncated k => s!"{hexList u} truncated {k}"
      | none => "bad-op"
  | ["E", ss] => match parseHexList ss with   -- scalars -> utf8 bytes | utf16 units
      | some ss => s!"{hexList (XV.Spec.Utf8.encodeAll ss)} {hexList (XV.Spec.Utf8.utf16All ss)}"
      | none => "bad-op"
  | _ => "bad-op"

end XV.Driver.Utf8
