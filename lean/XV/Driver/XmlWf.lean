/- Driver of the XML reference processor.
   `xmlwf` : one document per line as hex bytes (UTF-8) -> `ok ok` | `ok nsfatal:<why>` | `fatal:<why>` | `unsupported:<why>`
   `xmlchar`: prints the generated tables and the spec classes for all 65536 code units. -/
import XV.Driver.Util
import XV.Spec.Utf8
import XV.Spec.Xml
import XV.Model.XmlChar
namespace XV.Driver.XmlWf
open XV.Driver XV.Spec.Xml XV.Spec.XmlChar

def us (s : String) : String := s.map (fun c => if c == ' ' then '_' else c)

/-- §2.11 end-of-line handling (1.1: also NEL, CR NEL, LS) -/
def eol (v11 : Bool) : Bool → List Char → List Char
  | _, [] => []
  | prevCR, c :: t =>
    if c.toNat = 0xD then '\n' :: eol v11 true t
    else if prevCR && (c.toNat = 0xA || (v11 && c.toNat = 0x85)) then eol v11 false t
    else if v11 && (c.toNat = 0x85 || c.toNat = 0x2028) then '\n' :: eol v11 false t
    else c :: eol v11 false t

/-- version declared by the text (1.1 only if a syntactically correct XMLDecl says so) -/
def sniff11 (s : Str) : Bool :=
  match startsWithDecl s with
  | none => false
  | some r =>
    match parseXmlDecl r with
    | .ok (d, _) => d.ver == .v11
    | .error _ => false

def supportedEncoding (d : Doc) : Bool :=
  match d.decl with
  | some x =>
    match x.encoding with
    | some (_, e) => e.map lower == ['u', 't', 'f', '-', '8']
    | none => true
  | none => true

mutual
def firstBad (v : Version) : Node → Option String
  | .leaf (.cref r) => if semCharRef v r then none else some "character reference to an illegal character"
  | .leaf (.pi t _ _) => if piTargetOk t then none else some "PI target xml"
  | .leaf _ => none
  | .empty t => badTag v t
  | .elem t kids en _ =>
    match badTag v t with
    | some w => some w
    | none =>
      if t.name != en then some "WFC Element Type Match" else
      if !noCdataEnd kids then some "]]> in character data" else firstBadL v kids
def firstBadL (v : Version) : List Node → Option String
  | [] => none
  | n :: ns => match firstBad v n with | some w => some w | none => firstBadL v ns
def badTag (v : Version) (t : Tag) : Option String :=
  if !noDup (t.atts.map (·.name)) then some "WFC Unique Att Spec"
  else if t.atts.any (fun a => a.val.any (fun p => p == .ch '<')) then some "WFC No < in Attribute Values"
  else if !t.atts.all (fun a => a.val.all (semPiece v)) then some "character reference to an illegal character (attribute)"
  else none
end

/-- which constraint of `semDocBool` fails (for reporting only) -/
def explain (d : Doc) : String :=
  if !semLegal d then "illegal character" else
  let misc := d.pre ++ (match d.doctype with | none => [] | some (_, m) => m) ++ d.post
  if !misc.all isMisc then "character data or reference outside the root element" else
  if !misc.all (semLeaf d.version) then "PI target xml outside the root element" else
  match firstBad d.version d.root with
  | some w => w
  | none => "well-formedness constraint violated"

def verdict (bytes : List Nat) : String :=
  let (scalars, st) := XV.Spec.Utf8.decodeAll bytes
  match st with
  | .done =>
    let cs : Str := scalars.map Char.ofNat
    let cs := match cs with | c :: t => if c.toNat = 0xFEFF then t else cs | [] => cs
    let v11 := sniff11 cs
    -- 1.1: NEL/LS inside the XML declaration are errors (§2.11); they are not normalised there because the
    -- declaration is recognised first on the raw text
    let cs' := if v11 then eol true false cs else cs
    match parse cs' with
    | .error (.fatal w) =>
      if w == "well-formedness constraint violated" then
        match parseSyn cs' with
        | .ok d => "fatal:" ++ us (explain d)
        | .error _ => "fatal:" ++ us w
      else "fatal:" ++ us w
    | .error (.unsupported w) => "unsupported:" ++ us w
    | .ok d =>
      if !supportedEncoding d then "unsupported:encoding" else
      match nsDoc d with
      | .ok _ => "ok ok"
      | .error (.fatal w) => "ok nsfatal:" ++ us w
      | .error (.unsupported w) => "ok unsupported:" ++ us w
  | .illformed k => s!"fatal:encoding_illformed_at_{k}"
  | .truncated k => s!"fatal:encoding_truncated_at_{k}"

def handle (line : String) : String :=
  match words line with
  | [bs] => match parseHexList bs with
      | some b => verdict b
      | none => "bad-op"
  | _ => "bad-op"

def hex2 (n : Nat) : String :=
  let d := Nat.toDigits 16 n
  String.ofList (if d.length < 2 then '0' :: d else d)

def specByte (v : Version) (maskOf : CharClass → Nat) (c : Nat) : Nat :=
  CharClass.all.foldl (fun acc k => if specClass v k c then acc ||| maskOf k else acc) 0

open XV.Gen.CharTables in
def maskOf : CharClass → Nat
  | .ncName => gNCNameCharMask | .firstName => gFirstNameCharMask | .name => gNameCharMask
  | .plainContent => gPlainContentCharMask | .specialStartTag => gSpecialStartTagCharMask
  | .control => gControlCharMask | .xmlChar => gXMLCharMask | .whitespace => gWhitespaceCharMask

def dumpTables : List String :=
  let row (f : Nat → Nat) : String := String.join ((List.range 65536).map (fun c => hex2 (f c)))
  [ "gen10 " ++ row XV.Model.XmlChar.tbl10, "gen11 " ++ row XV.Model.XmlChar.tbl11,
    "spec10 " ++ row (specByte .v10 maskOf), "spec11 " ++ row (specByte .v11 maskOf) ]

end XV.Driver.XmlWf
