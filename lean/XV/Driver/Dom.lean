/-
Line protocol of the C13 correspondence (model side).  One history = `reset <ndocs>` followed by op lines;
every input line yields one output line: `<result> <digest>` (digest mode) or `<result> | <dump>` (full mode),
where <dump> is the canonical structural dump of every live handle (same text as harness/hx_dom.cpp prints from
the public getters of the real DOM) and <digest> its FNV-1a-64.

ops (handles decimal, strings as '.'-separated hex code units, "-" = empty; `ref` "-" = null):
  ce d name | ct d data | cc d data | cd d data | cp d target data | ca d name | cf d | cr d name
  ap p n | ib p n ref | rm p c | rp p n old
  sa e name val | ra e name | sn e a | rn e a | sv a val
  ss t off cnt | da t data | di t off data | dd t off cnt | dr t off cnt data | ds t data | sp t off
  cl n deep | im d n deep | ad d n | nz n | rnm d n name
-/
import XV.Driver.Util
import XV.Model.Dom
namespace XV.Driver.Dom
open XV.Driver XV.Model.Dom

def fnv (s : String) : UInt64 :=
  s.toUTF8.foldl (fun h b => (h ^^^ b.toUInt64) * 1099511628211) 1469598103934665603

def hex64 (h : UInt64) : String := String.ofList (Nat.toDigits 16 h.toNat)

def optH : Option NodeId → String
  | none => "-"
  | some i => toString i

def listH (l : List NodeId) : String :=
  if l.isEmpty then "-" else ",".intercalate (l.map toString)

/-- getNodeValue() -/
def valueOf (s : Store) (r : NodeRec) : Option (List Nat) :=
  match r.kind with
  | .text | .cdata | .comment | .pi => some r.data
  | .attr => some ((r.children.map fun c => match s.get c with
      | some rc => if rc.kind == .text then rc.data else []
      | none => []).flatten)
  | _ => none

def entry (s : Store) (i : NodeId) (r : NodeRec) : String :=
  let v := match valueOf s r with
    | none => "~"
    | some l => hexList l
  let nm := match r.nodeName with
    | 0x23 :: _ => "#"
    | l => hexList l
  let base := s!"{i}:{r.kind.code}:{nm}:{v}:{optH r.parent}:{listH r.children}:{listH r.attrs}:{optH (ownerDocOf r)}:{optH r.ownerElem}"
  if r.kind == .document then
    base ++ ":de=" ++ optH (r.children.find? (isKind s .element))
  else base

def dump (s : Store) : String :=
  let rec go (i : Nat) (l : List (Option NodeRec)) (acc : List String) : List String :=
    match l with
    | [] => acc.reverse
    | none :: rest => go (i + 1) rest acc
    | some r :: rest => go (i + 1) rest (entry s i r :: acc)
  ";".intercalate (go 0 s.nodes.toList [])

def showRes : Result → String
  | .ok .null => "ok -"
  | .ok (.node i) => s!"ok n{i}"
  | .ok (.str l) => s!"ok s{hexList l}"
  | .exc e => s!"exc {e.name}"
  | .dead => "dead"
  | .mismatch => "mismatch"

def pNat (s : String) : Option Nat := s.toNat?
def pRef (s : String) : Option (Option Nat) := if s == "-" then some none else s.toNat?.map some
def pBool (s : String) : Option Bool := if s == "1" then some true else if s == "0" then some false else none

def parseOp (ws : List String) : Option Op :=
  match ws with
  | ["ce", d, n] => do pure (.createElement (← pNat d) (← parseHexList n))
  | ["ct", d, x] => do pure (.createText (← pNat d) (← parseHexList x))
  | ["cc", d, x] => do pure (.createComment (← pNat d) (← parseHexList x))
  | ["cd", d, x] => do pure (.createCDATA (← pNat d) (← parseHexList x))
  | ["cp", d, t, x] => do pure (.createPI (← pNat d) (← parseHexList t) (← parseHexList x))
  | ["ca", d, n] => do pure (.createAttribute (← pNat d) (← parseHexList n))
  | ["cf", d] => do pure (.createFragment (← pNat d))
  | ["cr", d, n] => do pure (.createEntityRef (← pNat d) (← parseHexList n))
  | ["ap", p, n] => do pure (.appendChild (← pNat p) (← pNat n))
  | ["ib", p, n, r] => do pure (.insertBefore (← pNat p) (← pNat n) (← pRef r))
  | ["rm", p, c] => do pure (.removeChild (← pNat p) (← pNat c))
  | ["rp", p, n, o] => do pure (.replaceChild (← pNat p) (← pNat n) (← pNat o))
  | ["sa", e, n, v] => do pure (.setAttribute (← pNat e) (← parseHexList n) (← parseHexList v))
  | ["ra", e, n] => do pure (.removeAttribute (← pNat e) (← parseHexList n))
  | ["sn", e, a] => do pure (.setAttributeNode (← pNat e) (← pNat a))
  | ["rn", e, a] => do pure (.removeAttributeNode (← pNat e) (← pNat a))
  | ["sv", a, v] => do pure (.setValue (← pNat a) (← parseHexList v))
  | ["ss", t, o, c] => do pure (.substringData (← pNat t) (← pNat o) (← pNat c))
  | ["da", t, x] => do pure (.appendData (← pNat t) (← parseHexList x))
  | ["di", t, o, x] => do pure (.insertData (← pNat t) (← pNat o) (← parseHexList x))
  | ["dd", t, o, c] => do pure (.deleteData (← pNat t) (← pNat o) (← pNat c))
  | ["dr", t, o, c, x] => do pure (.replaceData (← pNat t) (← pNat o) (← pNat c) (← parseHexList x))
  | ["ds", t, x] => do pure (.setData (← pNat t) (← parseHexList x))
  | ["sp", t, o] => do pure (.splitText (← pNat t) (← pNat o))
  | ["cl", n, d] => do pure (.cloneNode (← pNat n) (← pBool d))
  | ["im", d, n, dp] => do pure (.importNode (← pNat d) (← pNat n) (← pBool dp))
  | ["ad", d, n] => do pure (.adoptNode (← pNat d) (← pNat n))
  | ["nz", n] => do pure (.normalize (← pNat n))
  | ["rnm", d, n, nm] => do pure (.renameNode (← pNat d) (← pNat n) (← parseHexList nm))
  | _ => none

/-- mode 0: digest, 1: full dump, 2: both (`<result> <digest> | <dump>`, used by the generator as oracle) -/
def out (mode : Nat) (s : Store) (res : String) : String :=
  let d := dump s
  if mode == 1 then res ++ " | " ++ d
  else if mode == 2 then res ++ " " ++ hex64 (fnv d) ++ " | " ++ d
  else res ++ " " ++ hex64 (fnv d)

def handle (full : Nat) (s : Store) (line : String) : Store × String :=
  match words line with
  | ["reset", k] => match k.toNat? with
    | some k => let s' := init k; (s', out full s' "ok -")
    | none => (s, "bad-op")
  | ws => match parseOp ws with
    | some op => let (s', r) := step s op; (s', out full s' (showRes r))
    | none => (s, "bad-op")

/-- like `lineLoopS` but flushing after every line (interactive use by tools/props/c13.py) -/
partial def loopFlush (h : IO.FS.Stream) (o : IO.FS.Stream) (mode : Nat) (st : Store) : IO Unit := do
  let line ← h.getLine
  if line.isEmpty then return ()
  let l := line.trimAscii.toString
  if l.isEmpty then loopFlush h o mode st else
  let (st', r) := handle mode st l
  o.putStrLn r
  o.flush
  loopFlush h o mode st'

end XV.Driver.Dom
