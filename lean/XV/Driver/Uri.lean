/-
Line protocol of the URI-resolution models (C19, RFC 2396 §5.2).  No Mathlib; compiled into `xvdriver uri`.

  <op> <base> <rel>          op ∈ { L, L0, I, I0, S }

A URI / URL is a tuple of six comma-separated fields (no spaces):

  scheme,authority,abs,segs,query,fragment

  scheme, authority, query, fragment :  `~` undefined  |  `-` defined and empty  |  hex code points `68.74.74.70`
  abs                                 :  `1` the path starts with a slash  |  `0`
  segs                                :  `~` no segment (empty path)  |  segments separated by `/`, each one
                                         `-` (empty segment) or hex code points;   "/b/c/" is abs `1` with the three segments 62, 63 and `-`

  e.g.  http://a/b/c/d;p?q   =  68.74.74.70,61,1,62/63/64.3b.70,71,~
        ../g#s               =  ~,~,0,2e.2e/67,~,73

Answers:
  L  b r   XMLURL model after the fixes  (XV.Model.Uri.setURL on `ofUri b`, `ofUri r`):  a tuple (proto,host,…) or `none`
  L0 b r   XMLURL model, the code as it is (setURLAsIs)
  I  b r   XMLUri model after the fixes  (xmlUriResolve):  a tuple or `none`
  I0 b r   XMLUri model, the code as it is (xmlUriResolveAsIs)
  S  b r   the Spec (XV.Spec.Uri.resolve):  `<tuple> <u><i>`  with u = 1 iff (b, r) ∈ urlDomain, i = 1 iff ∈ uriDomain
  anything unparsable: `bad-op`
-/
import XV.Driver.Util
import XV.Model.Uri
namespace XV.Driver.Uri
open XV.Driver XV.Spec.Uri XV.Model.Uri

def decStr (s : String) : Option String :=
  (parseHexList s).map (fun l => String.ofList (l.map Char.ofNat))

def decOpt (s : String) : Option (Option String) :=
  if s == "~" then some none else (decStr s).map some

def decSegs (s : String) : Option (List String) :=
  if s == "~" then some [] else (s.splitOn "/").mapM decStr

def decUri (s : String) : Option Uri :=
  match s.splitOn "," with
  | [sc, au, ab, sg, q, f] => do
    let sc ← decOpt sc; let au ← decOpt au
    let ab ← (if ab == "1" then some true else if ab == "0" then some false else none)
    let sg ← decSegs sg; let q ← decOpt q; let f ← decOpt f
    some ⟨sc, au, ab, sg, q, f⟩
  | _ => none

def encStr (s : String) : String := hexList (s.toList.map Char.toNat)

def encOpt : Option String → String
  | none => "~"
  | some s => encStr s

def encSegs (l : List String) : String :=
  if l.isEmpty then "~" else "/".intercalate (l.map encStr)

def encFields (sc au : Option String) (ab : Bool) (sg : List String) (q f : Option String) : String :=
  ",".intercalate [encOpt sc, encOpt au, (if ab then "1" else "0"), encSegs sg, encOpt q, encOpt f]

def encUri (u : Uri) : String := encFields u.scheme u.authority u.absPath u.segs u.query u.fragment
def encURL (u : URL) : String := encFields u.proto u.host u.absPath u.segs u.query u.fragment

def bit (b : Bool) : String := if b then "1" else "0"

def handle (line : String) : String :=
  match words line with
  | [op, b, r] =>
    match decUri b, decUri r with
    | some b, some r =>
      match op with
      | "L" => match setURL (ofUri b) (ofUri r) with | some u => encURL u | none => "none"
      | "L0" => match setURLAsIs (ofUri b) (ofUri r) with | some u => encURL u | none => "none"
      | "I" => match xmlUriResolve b r with | some u => encUri u | none => "none"
      | "I0" => match xmlUriResolveAsIs b r with | some u => encUri u | none => "none"
      | "S" => encUri (resolve b r) ++ " " ++ bit (urlDomain b r) ++ bit (uriDomain b r)
      | _ => "bad-op"
    | _, _ => "bad-op"
  | _ => "bad-op"

end XV.Driver.Uri
