import XV.Driver.Util
import XV.Model.ByteCodec
import XV.Model.Recognizer
import XV.Model.CodecStream
import XV.Spec.Ascii
namespace XV.Driver.Codec
open XV.Driver XV.Model.ByteCodec XV.Gen.ByteTables

def showC (isFrom : Bool) : CRes → String
  | .ok o s e => if isFrom then s!"ok {hexList o} {hexList s} {e}" else s!"ok {hexList o} {e}"
  | .exc n => s!"exc {n}"

def tableOf (enc : String) : Option Table :=
  match enc with
  | "windows-1252" => some tblWin1252
  | "IBM037" => some tblEbcdic037
  | "IBM1047" => some tblIbm1047
  | "IBM1140" => some tblIbm1140
  | _ => none

def fromRes (enc : String) (bs : List Nat) (m : Nat) : Option CRes :=
  match enc with
  | "ISO-8859-1" => some (latin1From bs m)
  | "US-ASCII" => some (asciiFrom bs m)
  | "UTF-16LE" => some (utf16From false bs m)
  | "UTF-16BE" => some (utf16From true bs m)
  | "UCS-4LE" => some (ucs4From false bs m)
  | "UCS-4BE" => some (ucs4From true bs m)
  | _ => (tableOf enc).map fun t => match transcodeFrom t bs m with
      | .ok o e => .ok o (List.replicate e 1) e
      | .unrepresentable => .exc "Trans_Unrepresentable"

def toRes (enc : String) (us : List Nat) (m : Nat) (thr : Bool) : Option CRes :=
  match enc with
  | "ISO-8859-1" => some (latin1To us m thr)
  | "US-ASCII" => some (asciiTo us m thr)
  | "UTF-16LE" => some (utf16To false us m)
  | "UTF-16BE" => some (utf16To true us m)
  | "UCS-4LE" => some (ucs4To false us m)
  | "UCS-4BE" => some (ucs4To true us m)
  | _ => (tableOf enc).map fun t => match transcodeTo t us m thr with
      | .ok o e => .ok o [] e
      | .unrepresentable => .exc "Trans_Unrepresentable"

def showS : XV.Model.CodecStream.SRes → String
  | .done o => s!"done {hexList o}"
  | .exc o p n => s!"exc {n} {hexList o} {p}"
  | .stalled o p => s!"stalled {hexList o} {p}"

def known (enc : String) : Bool :=
  enc ∈ ["ISO-8859-1", "US-ASCII", "UTF-16LE", "UTF-16BE", "UCS-4LE", "UCS-4BE"] || (tableOf enc).isSome

def handle (line : String) : String :=
  match words line with
  | ["GS", enc, blk, m, bs] => match blk.toNat?, m.toNat?, parseHexList bs with
      | some blk, some m, some bs =>
        if known enc then
          showS (XV.Model.CodecStream.decodeStream (fun s k => (fromRes enc s k).getD (.exc "bad-op")) blk m bs)
        else "bad-op"
      | _, _, _ => "bad-op"
  | ["SA", bs] => match parseHexList bs with
      | some bs => match XV.Spec.Ascii.decode bs with
          | (cs, none) => s!"{hexList cs} legal"
          | (cs, some off) => s!"{hexList cs} illegal {off}"
      | none => "bad-op"
  | ["GF", enc, m, bs] => match m.toNat?, parseHexList bs with
      | some m, some bs => match fromRes enc bs m with
          | some r => showC true r
          | none => "bad-op"
      | _, _ => "bad-op"
  | ["GT", enc, m, thr, us] => match m.toNat?, parseHexList us with
      | some m, some us => match toRes enc us m (thr == "1") with
          | some r => showC false r
          | none => "bad-op"
      | _, _ => "bad-op"
  | ["P", bs] => match parseHexList bs with
      | some bs => (XV.Model.Recognizer.basicEncodingProbe bs).name
      | none => "bad-op"
  | ["GC", enc, cp] => match parseHex cp with
      | some c => match enc with
          | "ISO-8859-1" => if c < 256 then "1" else "0"
          | "US-ASCII" => if XV.Model.CodecStream.asciiCan c then "1" else "0"
          | "UTF-16LE" | "UTF-16BE" | "UCS-4LE" | "UCS-4BE" => "1"
          | _ => match tableOf enc with
              | some t => if canTranscodeTo t c then "1" else "0"
              | none => "bad-op"
      | none => "bad-op"
  | _ => "bad-op"

end XV.Driver.Codec
