/- Model driver for C16 (XSerializeEngine).  Line protocol (shared with harness/hx_ser.cpp):

  E <bufSize> <asis 0|1> <tok>*      typed values written by a fresh engine, engine destroyed, stream read back
        tok:  p:<ty>:<hex>   r:<hexbytes>   s:<units>|N   S:<buflen>:<units>|N   b:<bytes>|N   B:<buflen>:<bytes>|N
        ->    ok <len> <fnv64> <head> > <tok>*      |  ... > exc <name>
  G <bufSize> <root> <node>*          object graph over the two harness classes HxA / HxB
        node: <id>:1:<int>:<units>|N:<pA>:<pB>      (HxA: int, XMLCh string, HxA*, HxB*)
              <id>:2:<byte>:<pB>:<pA>:<size>:<pA>   (HxB: XMLByte, HxB*, HxA*, XMLSize_t, HxA*)
        ->    ok <len> <fnv64> > <root'> <node'>*   restored graph, objects numbered in creation order
  H <storerLevel> <loaderLevel> <locked 0|1>      grammar-pool header written with one level, read with the other
  K                                               constants the harness reads back (sizes, tags, level)
-/
import XV.Driver.Util
import XV.Model.SerEngine
namespace XV.Driver.Ser
open XV.Driver XV.Model.SerEngine XV.Gen.SerConsts

def fnv64 (bs : List Nat) : Nat :=
  bs.foldl (fun h b => ((h ^^^ b) * 1099511628211) % 18446744073709551616) 14695981039346656037

def tyOf (s : String) : Option Ty := Ty.all.find? (fun t => t.name == s)

def optList (s : String) : Option (Option (List Nat)) :=
  if s == "N" then some none else (parseHexList s).map some

def parseTok (t : String) : Option Val :=
  match t.splitOn ":" with
  | ["p", ty, v] => do let ty ← tyOf ty; let v ← parseHex v; some (.prim ty v)
  | ["r", bs] => do let bs ← parseHexList bs; some (.raw bs)
  | ["s", us] => do let us ← optList us; some (.str us)
  | ["b", us] => do let us ← optList us; some (.bstr us)
  | ["S", bl, us] => do
      let us ← optList us; let bl ← parseHex bl
      some (.strL (us.map fun u => (u, bl)))
  | ["B", bl, us] => do
      let us ← optList us; let bl ← parseHex bl
      some (.bstrL (us.map fun u => (u, bl)))
  | _ => none

def showOpt : Option (List Nat) → String
  | none => "N"
  | some l => hexList l

def showVal : Val → String
  | .prim t v => s!"p:{t.name}:{hexStr v}"
  | .raw bs => s!"r:{hexList bs}"
  | .str s => s!"s:{showOpt s}"
  | .bstr s => s!"b:{showOpt s}"
  | .strL none => "S:0:N"
  | .strL (some (u, bl)) => s!"S:{hexStr bl}:{hexList u}"
  | .bstrL none => "B:0:N"
  | .bstrL (some (u, bl)) => s!"B:{hexStr bl}:{hexList u}"

/-- read back with either the repaired or the as-is chunk loop (only `raw`/strings differ) -/
def getStrAsIs (l : LBuf) (withLen : Bool) (unit : Nat) : Except Err (Option (List Nat × Nat) × LBuf) := do
  let (bufferLen, l1) ← l.getUL
  if bufferLen == noDataFollowed then .ok (none, l1) else
  if withLen then do
    let (dataLen, l2) ← l1.getUL
    if dataLen ≥ bufferLen then .error .overrun else
    let (bs, l3) ← l2.getRawAsIs (dataLen * unit)
    .ok (some (bs, bufferLen), l3)
  else do
    let (bs, l3) ← l1.getRawAsIs (bufferLen * unit)
    .ok (some (bs, bufferLen + 1), l3)

def getValAsIs (l : LBuf) : Shape → Except Err (Val × LBuf)
  | .prim t => do let (v, l1) ← l.getPrim t.r; .ok (.prim t v, l1)
  | .raw n => do let (bs, l1) ← l.getRawAsIs n; .ok (.raw bs, l1)
  | .str => do
      let (r, l1) ← getStrAsIs l false sz_xmlch
      .ok (.str (r.map fun p => bytesToUnits (p.1.length / sz_xmlch) p.1), l1)
  | .strL => do
      let (r, l1) ← getStrAsIs l true sz_xmlch
      .ok (.strL (r.map fun p => (bytesToUnits (p.1.length / sz_xmlch) p.1, p.2)), l1)
  | .bstr => do
      let (r, l1) ← getStrAsIs l false sz_byte
      .ok (.bstr (r.map fun p => p.1), l1)
  | .bstrL => do
      let (r, l1) ← getStrAsIs l true sz_byte
      .ok (.bstrL (r.map fun p => p), l1)

/-- read as many values as possible; stop at the first exception -/
def readBack (asis : Bool) : LBuf → List Shape → List String → List String
  | _, [], acc => acc.reverse
  | l, sh :: shs, acc =>
    match (if asis then getValAsIs l sh else l.getVal sh) with
    | .ok (v, l1) => readBack asis l1 shs (showVal v :: acc)
    | .error e => (s!"exc {e.name}" :: acc).reverse

def handleE (bufSize : Nat) (asis : Bool) (toks : List String) : String :=
  match toks.mapM parseTok with
  | none => "bad-op"
  | some vs =>
    let stream := storeVals 0 bufSize vs
    let head := hexList (stream.take 48)
    let pre := s!"ok {stream.length} {hexStr (fnv64 stream)} {head} >"
    match LBuf.init 0 bufSize stream with
    | .error e => s!"{pre} exc {e.name}"
    | .ok l => " ".intercalate (pre :: readBack asis l (vs.map Val.shape) [])

-- ---------------------------------------------------------------- graphs
def nameA : List Nat := "HxA".toList.map Char.toNat
def nameB : List Nat := "HxB".toList.map Char.toNat

def hxSchema : Schema := fun c =>
  if c == 1 then ⟨nameA, [.val (.prim .int), .val .str, .ptr 1, .ptr 2]⟩
  else ⟨nameB, [.val (.prim .byte), .ptr 2, .ptr 1, .val (.prim .size), .ptr 1]⟩

def parseNode (t : String) : Option (Nat × Node) :=
  match t.splitOn ":" with
  | [id, "1", i, s, pa, pb] => do
      let id ← parseHex id; let i ← parseHex i; let s ← optList s; let pa ← parseHex pa; let pb ← parseHex pb
      some (id, ⟨1, [.val (.prim .int i), .val (.str s), .ptr pa, .ptr pb]⟩)
  | [id, "2", b, pb, pa, z, pa2] => do
      let id ← parseHex id; let b ← parseHex b; let pb ← parseHex pb; let pa ← parseHex pa
      let z ← parseHex z; let pa2 ← parseHex pa2
      some (id, ⟨2, [.val (.prim .byte b), .ptr pb, .ptr pa, .val (.prim .size z), .ptr pa2]⟩)
  | _ => none

/-- rank of pool index among the object entries (creation order, 1-based); 0 stays 0 -/
def rankOf (pool : List LEntry) (idx : Nat) : Nat :=
  if idx == 0 then 0 else
  ((pool.take idx).filter (fun e => match e with | LEntry.obj _ => true | _ => false)).length

def showFld (pool : List LEntry) : Fld → String
  | .val (.prim _ v) => hexStr v
  | .val (.str s) => showOpt s
  | .val _ => "?"
  | .ptr p => hexStr (rankOf pool p)

def showGraph (pool : List LEntry) (tr : List (Nat × Fld)) : String :=
  let root := match tr with
    | (0, .ptr p) :: _ => hexStr (rankOf pool p)
    | _ => "?"
  let isObj (i : Nat) : Bool := match pool[i - 1]? with | some (LEntry.obj _) => true | _ => false
  let idxs := (List.range (pool.length + 1)).filter (fun i => decide (i > 0) && isObj i)
  let nodes := idxs.map fun i =>
    let c := match pool[i - 1]? with | some (LEntry.obj c) => c | _ => 0
    let fs := (tr.filter (fun x => x.1 == i)).map (fun x => showFld pool x.2)
    ":".intercalate (hexStr (rankOf pool i) :: toString c :: fs)
  " ".intercalate (root :: nodes)

def handleG (bufSize root : Nat) (toks : List String) : String :=
  match toks.mapM parseNode with
  | none => "bad-op"
  | some heap =>
    let rootCls := match heapLookup heap root with | some n => n.cls | none => 1
    let fuel := 8 * heap.length + 16
    match storeRun hxSchema heap fuel [(0, 0, .ptr root)] (Store.init 0 bufSize) [] [] with
    | none => "model-fuel-or-dangling"
    | some (s, _, _) =>
      let stream := s.b.finish
      let pre := s!"ok {stream.length} {hexStr (fnv64 stream)} >"
      match Load.init 0 bufSize stream with
      | .error e => s!"{pre} exc {e.name}"
      | .ok l =>
        match loadRun hxSchema fuel [(0, .ptr rootCls)] l [] with
        | .error e => s!"{pre} exc {e.name}"
        | .ok (l', tr) => s!"{pre} {showGraph l'.pool tr}"

def handleH (sl ll : Nat) (locked : Bool) : String :=
  let stream := (storeHeader (SBuf.init 0 defaultBufSize) sl locked).finish
  match LBuf.init 0 defaultBufSize stream with
  | .error e => s!"exc {e.name}"
  | .ok l => match loadHeader l ll with
    | .error e => s!"exc {e.name}"
    | .ok (lk, _) => s!"ok {if lk then 1 else 0}"

def constants : String :=
  let sz := " ".intercalate (Ty.all.map fun t => s!"{t.name}={t.w.xfer}")
  s!"level={serializationLevel} buf={defaultBufSize} null={fgNullObjectTag} newclass={hexStr fgNewClassTag} tmpl={hexStr fgTemplateObjTag} mask={hexStr fgClassMask} objid={sz_objectId} {sz}"

def handle (line : String) : String :=
  match words line with
  | "E" :: b :: asis :: toks => match b.toNat? with
      | some b => if b == 0 then "bad-op" else handleE b (asis == "1") toks
      | none => "bad-op"
  | "G" :: b :: root :: toks => match b.toNat?, parseHex root with
      | some b, some r => if b == 0 then "bad-op" else handleG b r toks
      | _, _ => "bad-op"
  | ["H", sl, ll, lk] => match sl.toNat?, ll.toNat? with
      | some sl, some ll => handleH sl ll (lk == "1")
      | _, _ => "bad-op"
  | ["K"] => constants
  | _ => "bad-op"

end XV.Driver.Ser
