import XV.Driver.Util
import XV.Model.RangeTok
import XV.Spec.Regex
namespace XV.Driver.Regex
open XV.Driver XV.Model.RangeTok XV.Spec.Regex

/-! ### range-token histories:  `H a,0,61,7a;m,0,1;s,0,2;c,3,0;n,1 | 41.7a.100`  -/

def parseInt (s : String) : Option Int :=
  if s.startsWith "-" then (parseHex (s.drop 1).toString).map (fun n => - (Int.ofNat n))
  else (parseHex s).map Int.ofNat

def showInt (i : Int) : String := if i < 0 then "-" ++ hexStr i.natAbs else hexStr i.natAbs

def showRanges (rs : R) : String :=
  if rs.isEmpty then "-" else ",".intercalate (rs.map fun p => showInt p.1 ++ "-" ++ showInt p.2)

def getTok (st : Array Tok) (k : Nat) : Tok := st.getD k {}

def applyOp (st : Array Tok) (op : String) : Option (Array Tok) :=
  match op.splitOn "," with
  | ["a", k, s, e] => do
      let k ← k.toNat?; let s ← parseInt s; let e ← parseInt e
      some (st.setIfInBounds k (addRange (getTok st k) s e))
  | ["m", k, j] => do
      let k ← k.toNat?; let j ← j.toNat?
      let (t, o) := mergeRanges (getTok st k) (getTok st j)
      some ((st.setIfInBounds j o).setIfInBounds k t)
  | ["s", k, j] => do
      let k ← k.toNat?; let j ← j.toNat?
      let (t, o) := subtractRanges (getTok st k) (getTok st j)
      some ((st.setIfInBounds j o).setIfInBounds k t)
  | ["i", k, j] => do
      let k ← k.toNat?; let j ← j.toNat?
      let (t, o) := intersectRanges (getTok st k) (getTok st j)
      some ((st.setIfInBounds j o).setIfInBounds k t)
  | ["c", k, j] => do
      let k ← k.toNat?; let j ← j.toNat?
      let (t, o) := complementRanges (getTok st j)
      some ((st.setIfInBounds j o).setIfInBounds k t)
  | ["n", k] => do
      let k ← k.toNat?
      some (st.setIfInBounds k (doCompact (doSort (getTok st k))))
  | _ => none

def handleHist (line : String) : String :=
  match (line.splitOn " | ") with
  | [l, qs] =>
    match words l with
    | ["H", ops] =>
      let st0 : Array Tok := #[{}, {}, {}, {}]
      let r := (ops.splitOn ";").foldl (fun acc op => acc.bind (fun st => applyOp st op)) (some st0)
      match r, (words qs).mapM parseInt with
      | some st, some qs =>
        let dumps := st.toList.map (fun t => showRanges t.ranges)
        let ms := st.toList.map (fun t => String.ofList (qs.map fun q => if matchCh false t.ranges q then '1' else '0'))
        " ".intercalate dumps ++ " | " ++ " ".intercalate ms
      | _, _ => "bad-op"
    | _ => "bad-op"
  | _ => "bad-op"

/-! ### regex matching: `M <rpn> <hex string>` -/

def parseRanges (s : String) : Option Ranges :=
  if s.isEmpty then some [] else
  (s.splitOn ".").mapM (fun p => match p.splitOn "-" with
    | [a, b] => do let a ← parseHex a; let b ← parseHex b; some (Int.ofNat a, Int.ofNat b)
    | _ => none)

def plus (r : Re) : Re := .cat r (.star r)

def rpnStep (stk : List Re) (tok : String) : Option (List Re) :=
  if tok.startsWith "c:" then (parseRanges (tok.drop 2).toString).map (fun rs => Re.cls rs false :: stk)
  else if tok.startsWith "n:" then (parseRanges (tok.drop 2).toString).map (fun rs => Re.cls rs true :: stk)
  else if tok.startsWith "r:" then
    match (tok.drop 2).toString.splitOn ":", stk with
    | [n, m], a :: rest => do
        let n ← n.toNat?
        let m ← if m.isEmpty then some none else m.toNat?.map some
        some (rep a n m :: rest)
    | _, _ => none
  else match tok, stk with
    | "e", _ => some (Re.eps :: stk)
    | "0", _ => some (Re.empty :: stk)
    | ".", b :: a :: rest => some (Re.cat a b :: rest)
    | "|", b :: a :: rest => some (Re.alt a b :: rest)
    | "*", a :: rest => some (Re.star a :: rest)
    | "?", a :: rest => some (opt a :: rest)
    | "+", a :: rest => some (plus a :: rest)
    | _, _ => none

def parseRpn (s : String) : Option Re :=
  match (s.splitOn ",").foldl (fun acc t => acc.bind (fun st => rpnStep st t)) (some []) with
  | some [r] => some r
  | _ => none

def handleMatch (line : String) : String :=
  match words line with
  | ["M", rpn, str] =>
    match parseRpn rpn, parseHexList str with
    | some r, some cs => if fastMatch r (cs.map Int.ofNat) then "1" else "0"
    | _, _ => "bad-op"
  | _ => "bad-op"

def handle (line : String) : String :=
  if line.startsWith "H" then handleHist line else handleMatch line

end XV.Driver.Regex
