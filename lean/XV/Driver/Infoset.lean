/- Driver of the C03 Spec.
   `infoset`: one document per line, `[<keys|*>] <hex bytes (UTF-8)>` ->
        `ok` | `okns` (namespace constraints violated: judged with namespaces off only), then TAB-separated `key=dump`
        for every adapter view, in the dump format of harness/hx_info.cpp; or `fatal:<why>` / `unsupported:<why>`.
   `infonorm`: direct cases for the code-shaped normalisers (model vs spec on the same input), see `handleNorm`. -/
import XV.Driver.Util
import XV.Driver.XmlWf
import XV.Spec.Utf8
import XV.Spec.Infoset
import XV.Model.Normalize
namespace XV.Driver.Infoset
open XV.Driver XV.Spec.Xml XV.Spec.XmlChar XV.Spec.Infoset

def escChar (c : Char) : String :=
  let n := c.toNat
  if n ≥ 0x21 && n ≤ 0x7E && c != '%' && c != ':' && c != '@' && c != '=' && c != '~' then c.toString
  else "%" ++ hexStr n ++ ";"

def esc (s : Str) : String := String.join (s.map escChar)

def escO : Option Str → String
  | none => "~"
  | some s => esc s

def ltStr : Str → Str → Bool
  | [], [] => false
  | [], _ :: _ => true
  | _ :: _, [] => false
  | a :: s, b :: t => if a.toNat < b.toNat then true else if b.toNat < a.toNat then false else ltStr s t

def insertBy {α : Type} (key : α → Str) (x : α) : List α → List α
  | [] => [x]
  | y :: ys => if ltStr (key x) (key y) then x :: y :: ys else y :: insertBy key x ys

def sortBy {α : Type} (key : α → Str) (l : List α) : List α := l.foldl (fun acc x => insertBy key x acc) []

def lineS (l : Nat) : String := "@" ++ toString l

/-! SAX1 -/
def dumpSax1 (es : List Sax1Ev) : String :=
  String.join (es.map fun e =>
    match e with
    | .startDocument => ""
    | .endDocument => " ED"
    | .startElement n as l =>
      " <" ++ esc n ++ lineS l ++
        String.join ((sortBy (fun a => a.1) as).map fun a => " @" ++ esc a.1 ++ "=" ++ esc a.2.2 ++ ":" ++ esc a.2.1)
    | .endElement n => " >" ++ esc n
    | .characters s => " T:" ++ esc s
    | .ignorableWhitespace s => " W:" ++ esc s
    | .pi t d l => " P:" ++ esc t ++ ":" ++ esc d ++ lineS l
    | .notationDecl n p s => " NT:" ++ esc n ++ ":" ++ escO p ++ ":" ++ escO s
    | .unparsedEntityDecl n p s nn => " UE:" ++ esc n ++ ":" ++ escO p ++ ":" ++ esc s ++ ":" ++ esc nn)

/-! SAX2 -/
def dumpSax2 (es : List Sax2Ev) : String :=
  String.join (es.map fun e =>
    match e with
    | .startDocument => ""
    | .endDocument => " ED"
    | .startElement n as l =>
      " <" ++ esc n.qname ++ lineS l ++
        String.join ((sortBy (fun a => a.1.qname) as).map fun a => " @" ++ esc a.1.qname ++ "=" ++ esc a.2.2 ++ ":" ++ esc a.2.1)
    | .endElement n => " >" ++ esc n.qname
    | .characters s => " T:" ++ esc s
    | .ignorableWhitespace s => " W:" ++ esc s
    | .pi t d l => " P:" ++ esc t ++ ":" ++ esc d ++ lineS l
    | .notationDecl n p s => " NT:" ++ esc n ++ ":" ++ escO p ++ ":" ++ escO s
    | .unparsedEntityDecl n p s nn => " UE:" ++ esc n ++ ":" ++ escO p ++ ":" ++ esc s ++ ":" ++ esc nn
    | .comment s l => " K:" ++ esc s ++ lineS l
    | .startCDATA => " ["
    | .endCDATA => " ]"
    | .startDTD n p s => " DT:" ++ esc n ++ ":" ++ escO p ++ ":" ++ escO s
    | .endDTD => " /DT"
    | .startEntity n => " &" ++ esc n
    | .endEntity n => " ;" ++ esc n
    | .internalEntityDecl n v => " IE:" ++ esc n ++ ":" ++ esc v
    | .externalEntityDecl n p s => " XE:" ++ esc n ++ ":" ++ escO p ++ ":" ++ esc s)

/-! DOM: what a tree walk can see (no line numbers; the DOCTYPE shows its entity and notation maps) -/
def domDecls (es : List Event) : String :=
  let ents := es.filterMap fun e =>
    match e with
    | .entityDecl n (.internal _) => some (n, " DE:" ++ esc n ++ ":~:~:~")
    | .entityDecl n (.external_ p s) => some (n, " DE:" ++ esc n ++ ":" ++ escO p ++ ":" ++ esc s ++ ":~")
    | .entityDecl n (.unparsed p s nn) => some (n, " DE:" ++ esc n ++ ":" ++ escO p ++ ":" ++ esc s ++ ":" ++ esc nn)
    | _ => none
  let nots := es.filterMap fun e =>
    match e with
    | .notationDecl n p s => some (n, " DN:" ++ esc n ++ ":" ++ escO p ++ ":" ++ escO s)
    | _ => none
  String.join ((sortBy (·.1) ents).map (·.2)) ++ String.join ((sortBy (·.1) nots).map (·.2))

/-- events of the DOCTYPE (after its open event) and the rest after `endDoctype` -/
def splitDoctype : List Event → List Event × List Event
  | [] => ([], [])
  | .endDoctype :: r => ([], r)
  | e :: r => (e :: (splitDoctype r).1, (splitDoctype r).2)

def dumpDomEvents (v : Bool) : Nat → List Event → List String
  | 0, _ => []
  | _, [] => []
  | fuel + 1, e :: es =>
    match e with
    | .doctype n p s =>
      (" DT:" ++ esc n ++ ":" ++ escO p ++ ":" ++ escO s ++ domDecls (splitDoctype es).1 ++ " /DT") ::
        dumpDomEvents v fuel (splitDoctype es).2
    | .startElement n as _ =>
      (" <" ++ esc n ++
        String.join ((sortBy (fun a => a.name) as).map fun a =>
          " @" ++ esc a.name ++ "=" ++ esc a.value ++ ":" ++ esc a.type ++ (if a.specified then ":S" else ":D"))) ::
        dumpDomEvents v fuel es
    | .endElement n => (" >" ++ esc n) :: dumpDomEvents v fuel es
    | .characters s => (" T:" ++ esc s) :: dumpDomEvents v fuel es
    | .ignorableWhitespace s => (" W:" ++ esc s) :: dumpDomEvents v fuel es
    | .startCDATA => " [" :: dumpDomEvents v fuel es
    | .endCDATA => " ]" :: dumpDomEvents v fuel es
    | .comment s _ => (" K:" ++ esc s) :: dumpDomEvents v fuel es
    | .pi t d _ => (" P:" ++ esc t ++ ":" ++ esc d) :: dumpDomEvents v fuel es
    | .startEntity n => (" &" ++ esc n) :: dumpDomEvents v fuel es
    | .endEntity n => (" ;" ++ esc n) :: dumpDomEvents v fuel es
    | _ => dumpDomEvents v fuel es

/-- `v`: validating (only then does the DOM know the declared attribute types; the Python side drops the type field
    of the attribute tokens for `v = false`) -/
def dumpDom (v : Bool) (es : List Event) : String :=
  let x := match es.find? (fun e => match e with | .xmlDecl _ _ _ => true | _ => false) with
    | some (.xmlDecl ver enc sa) =>
      -- the version that governs processing: 1.1 if declared so, else 1.0 (every other 1.x is processed as 1.0)
      " X:" ++ (if ver == ['1', '.', '1'] then "1.1" else "1.0") ++ ":" ++ escO enc ++ ":" ++ (if sa == some true then "1" else "0")
    | _ => " X:1.0:~:0"
  x ++ String.join (dumpDomEvents v (es.length + 1) es)

/-! the fixed filters of the harness -/
def startsWithB (n : Str) : Bool := n.head? == some 'b'

def filterOf : Nat → Option Filter
  | 1 => some ⟨fun n => if startsWithB n then .reject else .accept, .accept, .accept, .accept, .accept⟩
  | 2 => some ⟨fun n => if startsWithB n then .skip else .accept, .accept, .accept, .accept, .accept⟩
  | 3 => some ⟨fun _ => .accept, .accept, .reject, .reject, .reject⟩
  | 4 => some ⟨fun _ => .accept, .reject, .accept, .accept, .accept⟩
  | _ => none

/-- the DOM view for the options e (entity-reference nodes), w (ignorable white space kept), f (filter), v (validating) -/
def domView (full : List Event) (e w : Bool) (f : Nat) (v : Bool) : List Event :=
  let es := if v then full else nonValidating full
  let es := if w then es else dropIgnorable es
  let es := if e then es else inlineEntities es
  match filterOf f with
  | none => es
  | some flt => mergeChars (domWalk (lsFilterDoc flt (buildDom es)))

def views (d : Doc) : List (String × (Unit → String)) :=
  let full := infoset d
  let nv := nonValidating full
  let b (x : Bool) := if x then "1" else "0"
  [("sax1/v0", fun _ => dumpSax1 (toSAX1 nv)), ("sax1/v1", fun _ => dumpSax1 (toSAX1 full)),
   ("sax2/v0", fun _ => dumpSax2 (toSAX2 false nv)), ("sax2/v1", fun _ => dumpSax2 (toSAX2 false full))] ++
  ([false, true].flatMap fun v => [true, false].flatMap fun e => [true, false].flatMap fun w =>
    if !v && !w then [] else
    [0, 1, 2, 3, 4].map fun f =>
      ("dom/e" ++ b e ++ "w" ++ b w ++ "f" ++ toString f ++ "v" ++ b v, fun _ => dumpDom v (domView full e w f v)))

def render1 (want : List String) (bytes : List Nat) : String :=
  let (scalars, st) := XV.Spec.Utf8.decodeAll bytes
  match st with
  | .done =>
    let cs : Str := scalars.map Char.ofNat
    let cs := match cs with | c :: t => if c.toNat = 0xFEFF then t else cs | [] => cs
    let v11 := XmlWf.sniff11 cs
    -- 1.1: the document entity is line-end normalised before it is parsed (NEL/LS may stand where S is required);
    -- `infoset` normalises again, which changes nothing (`eol_idempotent`)
    let cs' := if v11 then XmlWf.eol true false cs else cs
    match parse cs' with
    | .error (.fatal w) => "fatal:" ++ XmlWf.us w
    | .error (.unsupported w) => "unsupported:" ++ XmlWf.us w
    | .ok d =>
      if !XmlWf.supportedEncoding d then "unsupported:encoding" else
      let head := match nsDoc d with
        | .ok _ => "ok"
        | .error _ => "okns"
      head ++ String.join (((views d).filter fun kv => want.isEmpty || want.contains kv.1).map fun kv =>
        "\t" ++ kv.1 ++ "=" ++ kv.2 ())
  | .illformed k => s!"fatal:encoding_illformed_at_{k}"
  | .truncated k => s!"fatal:encoding_truncated_at_{k}"

def handle (line : String) : String :=
  match words line with
  | [bs] => match parseHexList bs with
      | some b => render1 [] b
      | none => "bad-op"
  | [keys, bs] => match parseHexList bs with
      | some b => render1 (if keys == "*" then [] else keys.splitOn ",") b
      | none => "bad-op"
  | _ => "bad-op"

/-! direct cases for the normalisers:
      `E <nel> <sizes|-> <hex chars>`    reader: chunk sizes of the refills, then the characters
            -> `<model> <spec> <modelLines> <specLines>` (hex lists / numbers)
      `A <fixed> <nel> <type> <hex raw value with ffff markers>`
            -> `<normalizeAttValue model> <spec attNorm of the decoded tokens> <normalizeAttRawValue model>` -/
open XV.Model.Normalize in
def handleNorm (line : String) : String :=
  let hexs (s : List Char) : String := hexList (s.map Char.toNat)
  match words line with
  | ["E", nel, sizes, cs] =>
    match parseHexList cs, (if sizes == "-" then some [] else (sizes.splitOn ",").mapM String.toNat?) with
    | some c, some szs =>
      let s : List Char := c.map Char.ofNat
      let rec chunk (k : Nat) (s : List Char) (szs : List Nat) : List (List Char) :=
        match k, szs with
        | 0, _ => [s]
        | _, [] => if s.isEmpty then [] else [s]
        | k + 1, z :: zs => if s.isEmpty then [] else s.take (max z 1) :: chunk k (s.drop (max z 1)) zs
      let chunks := chunk (s.length + 1) s szs
      let (buf, more) := match chunks with | [] => (([] : List Char), ([] : List (List Char))) | b :: m => (b, m)
      let nl := nel == "1"
      let fuel := readFuel buf more
      hexs (readChars nl fuel buf more) ++ " " ++ hexs (eol nl s) ++ " " ++
        toString (countLines nl fuel buf more 1) ++ " " ++ toString (lineOf nl s)
    | _, _ => "bad-op"
  | ["A", fixed, nel, ty, cs] =>
    match parseHexList cs, ty.toNat? with
    | some c, some t =>
      let raw : List Char := c.map Char.ofNat
      let rec decode (k : Nat) (s : List Char) : List VTok :=
        match k, s with
        | 0, _ => []
        | _, [] => []
        | k + 1, x :: r =>
          if x == cEsc then
            match r with
            | [] => []
            | e :: r' => .ref e :: decode k r'
          else .lit x :: decode k r
      let fx := fixed == "1"
      let nl := nel == "1"
      hexs (normalizeAttValue fx nl t raw) ++ " " ++ hexs (attNorm (isCDataBranch t) (decode raw.length raw)) ++ " " ++
        hexs (normalizeAttRawValue nl raw)
    | _, _ => "bad-op"
  | _ => "bad-op"

end XV.Driver.Infoset
