/- C07 driver, document tier (Spec side only): abstract document -> verdict of `validDoc` + reported content.

   X <doctype> <standalone 0|1|2> <hasExt 0|1> <ndecls> {EL <name> <spec> <origin> <natts> {<aname> <type> <dflt> <origin>}}   origin: 0 internal subset, 1 external subset, 2 via PE referenced in the internal subset
     <nents> {<ename> <origin>} <unparsed val> <elem>                         (standalone: 0 absent, 1 "no", 2 "yes")
   elem := E <name> <text01> <ws01> <refs val> <nattrs> {<aname> <val> <padded01>} <nchildren> {elem}
   type := C | I | R | RS | N | NS | Y (ENTITY) | YS (ENTITIES) | G:<t.t.t>           dflt := REQ | IMP | FIX:<val> | DEF:<val>
   val  := t.t.t (decimal ids) | -                        <spec> as in XV.Driver.ContentModel (E, A, M012, N, K…)
   ->  "valid dump=<…>"  |  "invalid:<class,…> dump=<…>"  |  "notwf:<class,…> dump=-"
   dump format = harness/hx_cm.cpp dumpDom: per element in document order "<eN,aK=v1 v2[!]…|n>" sorted by attribute
-/
import XV.Driver.Util
import XV.Driver.ContentModel
import XV.Spec.DtdValid
namespace XV.Driver.DtdValid
open XV.Driver XV.Spec.ContentModel XV.Spec.DtdValid

def parseVal (s : String) : Option (List Nat) :=
  if s == "-" then some [] else (s.splitOn ".").mapM (·.toNat?)

def parseType (s : String) : Option AttType :=
  match s with
  | "C" => some .cdata | "I" => some .id | "R" => some .idref | "RS" => some .idrefs
  | "N" => some .nmtoken | "NS" => some .nmtokens
  | "Y" => some .entity | "YS" => some .entities
  | _ => if s.startsWith "G:" then (parseVal (s.drop 2).toString).map .enum else none

def parseDflt (s : String) : Option Dflt :=
  match s with
  | "REQ" => some .required | "IMP" => some .implied
  | _ => if s.startsWith "FIX:" then (parseVal (s.drop 4).toString).map .fixed
         else if s.startsWith "DEF:" then (parseVal (s.drop 4).toString).map .dflt else none

def parseAtts : Nat → List String → Option (List AttDef × List String)
  | 0, ts => some ([], ts)
  | n + 1, an :: ty :: df :: ex :: ts =>
    match an.toNat?, parseType ty, parseDflt df, parseAtts n ts with
    | some a, some t, some d, some (rest, ts') => some (⟨a, t, d, ex == "1", ex == "2"⟩ :: rest, ts')
    | _, _, _, _ => none
  | _, _ => none

def parseDecls : Nat → List String → Option (List ElemDecl × List String)
  | 0, ts => some ([], ts)
  | n + 1, "EL" :: nm :: sp :: ex :: na :: ts =>
    match nm.toNat?, XV.Driver.ContentModel.parseSpec sp, na.toNat? with
    | some name, some (spec, _), some natts =>
      match parseAtts natts ts with
      | some (atts, ts1) =>
        match parseDecls n ts1 with
        | some (rest, ts2) => some (⟨name, spec, atts, ex == "1", ex == "2"⟩ :: rest, ts2)
        | none => none
      | none => none
    | _, _, _ => none
  | _, _ => none

def parseAttrs : Nat → List String → Option (List Attr × List String)
  | 0, ts => some ([], ts)
  | n + 1, an :: v :: pd :: ts =>
    match an.toNat?, parseVal v, parseAttrs n ts with
    | some a, some val, some (rest, ts') => some (⟨a, val, pd == "1"⟩ :: rest, ts')
    | _, _, _ => none
  | _, _ => none

def parseEnts : Nat → List String → Option (List EntDecl × List String)
  | 0, ts => some ([], ts)
  | n + 1, nm :: ex :: ts =>
    match nm.toNat?, parseEnts n ts with
    | some a, some (rest, ts') => some (⟨a, ex == "1", ex == "2"⟩ :: rest, ts')
    | _, _ => none
  | _, _ => none

mutual
  def parseElem : Nat → List String → Option (Elem × List String)
    | 0, _ => none
    | fuel + 1, "E" :: nm :: tx :: wsf :: rf :: na :: ts =>
      match nm.toNat?, na.toNat?, parseVal rf with
      | some name, some nattrs, some refs =>
        match parseAttrs nattrs ts with
        | some (attrs, nc :: ts1) =>
          match nc.toNat? with
          | some nchildren =>
            match parseElems fuel nchildren ts1 with
            | some (cs, ts2) => some (.mk name ⟨tx == "1", wsf == "1", refs⟩ attrs cs, ts2)
            | none => none
          | none => none
        | _ => none
      | _, _, _ => none
    | _, _ => none
  def parseElems : Nat → Nat → List String → Option (List Elem × List String)
    | _, 0, ts => some ([], ts)
    | 0, _, _ => none
    | fuel + 1, n + 1, ts =>
      match parseElem fuel ts with
      | some (e, ts1) =>
        match parseElems fuel n ts1 with
        | some (rest, ts2) => some (e :: rest, ts2)
        | none => none
      | none => none
end

def parseDoc (ws : List String) : Option Doc :=
  match ws with
  | "X" :: dt :: sa :: he :: nd :: ts =>
    match dt.toNat?, nd.toNat? with
    | some doctype, some ndecls =>
      match parseDecls ndecls ts with
      | some (decls, ne :: ts1) =>
        match ne.toNat? with
        | some nents =>
          match parseEnts nents ts1 with
          | some (ents, up :: ts2) =>
            match parseVal up, parseElem (ts2.length + 1) ts2 with
            | some unparsed, some (root, []) =>
              some { doctype := doctype, decls := decls, root := root, standalone := sa == "2",
                     hasExt := he == "1", ents := ents, unparsed := unparsed }
            | _, _ => none
          | some (_, []) => none
          | none => none
        | none => none
      | _ => none
    | _, _ => none
  | _ => none

def tokStr (t : Nat) : String := if isNameTok t then s!"v{t}" else s!"9z{t}"

def insertSorted (x : Nat × List Nat × Bool × Bool) :
    List (Nat × List Nat × Bool × Bool) → List (Nat × List Nat × Bool × Bool)
  | [] => [x]
  | y :: ys => if x.1 ≤ y.1 then x :: y :: ys else y :: insertSorted x ys

def valStr (v : List Nat) (rawPadded : Bool) : String :=
  if rawPadded then " " ++ "  ".intercalate (v.map tokStr) ++ " " else " ".intercalate (v.map tokStr)

def showDump (r : List (Nat × List (Nat × List Nat × Bool × Bool) × Nat)) : String :=
  let s := String.join (r.map (fun (n, as, txt) =>
    let sorted := as.foldr insertSorted []
    s!"<e{n}" ++ String.join (sorted.map (fun (a, v, d, rp) =>
      s!",a{a}=" ++ valStr v rp ++ (if d then "!" else ""))) ++ s!"|{txt}>"))
  if s.isEmpty then "-" else s

def dedupStr : List String → List String → List String
  | [], acc => acc
  | x :: xs, acc => if acc.contains x then dedupStr xs acc else dedupStr xs (acc ++ [x])

def handle (line : String) : String :=
  match parseDoc (words line) with
  | none => "bad-op"
  | some d =>
    let wf := dedupStr (wfViolations d) []
    if !wf.isEmpty then "notwf:" ++ ",".intercalate wf ++ " dump=-" else
    let v := dedupStr (violations d) []
    let verdict := if validDoc d then "valid" else "invalid:" ++ ",".intercalate v
    s!"{verdict} dump={showDump (reportedAttrs d)}"

end XV.Driver.DtdValid
