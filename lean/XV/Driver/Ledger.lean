/-
C18 driver areas (compiled into `xvdriver`; imports Model/Spec/Gen only):
  ledger     `<anything> | <trace>`            -> verdict of the verified monitor on the trace
  lifecycle  `L <op> ...`                      -> what the Initialize/Terminate machine predicts the harness observes
  arena      `A <i>.<m>.<s> <w|n> <ops>`       -> what the arena model predicts (raw blocks, regions, release, deleteHeap order)
  arenaspec  `<i>.<m>.<s> B=.. R=.. X=..`      -> Spec verdict (`regionsOk`) on what the real arena returned
-/
import XV.Driver.Util
import XV.Model.Ledger
import XV.Model.DomHeapGen
import XV.Spec.Arena
namespace XV.Driver.Ledger
open XV.Driver XV.Spec.Ledger XV.Model.Ledger

/-! ### ledger -/

def parseNats (s : String) : Option (List Nat) := (s.splitOn ".").mapM String.toNat?

/-- events, and markers as (number of events before the marker, text) -/
def parseTrace (toks : List String) : Option (List Event × List (Nat × String)) :=
  let rec go (ts : List String) (n : Nat) (evs : List Event) (ms : List (Nat × String)) :
      Option (List Event × List (Nat × String)) :=
    match ts with
    | [] => some (evs.reverse, ms.reverse)
    | t :: rest =>
      if t.startsWith "#" then go rest n evs ((n, (t.drop 1).toString) :: ms)
      else if t.startsWith "+" then
        match parseNats (t.drop 1).toString with
        | some [m, p, sz] => go rest (n + 1) (Event.alloc m p sz :: evs) ms
        | _ => none
      else if t.startsWith "-" then
        match parseNats (t.drop 1).toString with
        | some [m, p] => go rest (n + 1) (Event.free m p :: evs) ms
        | _ => none
      else none
  go toks 0 [] []

def lastMark (ms : List (Nat × String)) (idx : Nat) : String :=
  match (ms.filter (fun m => m.1 ≤ idx)).getLast? with
  | some m => m.2
  | none => "-"

def showEvent : Event → String
  | .alloc m p n => s!"+{m}.{p}.{n}"
  | .free m p => s!"-{m}.{p}"

/-- where and how big the still-live block `p` was allocated: (index of the allocation, size, manager) -/
def allocOf (evs : List Event) (p : Nat) : Option (Nat × Nat × Nat) :=
  let rec go (es : List Event) (i : Nat) (best : Option (Nat × Nat × Nat)) : Option (Nat × Nat × Nat) :=
    match es with
    | [] => best
    | .alloc m q n :: rest => go rest (i + 1) (if q == p then some (i, n, m) else best)
    | _ :: rest => go rest (i + 1) best
  go evs 0 none

def handle (line : String) : String :=
  let tr := match line.splitOn " | " with
    | [_, t] => t
    | [t] => t
    | _ => ""
  match parseTrace (words tr) with
  | none => "bad-trace"
  | some (evs, ms) =>
    match monitor evs with
    | .ok () => s!"ok events={evs.length} allocs={countAllocs evs}"
    | .error v =>
      match v.kind with
      | .leak ids =>
        let det := (ids.take 6).map fun p =>
          match allocOf evs p with
          | some (i, n, m) => s!"{p}:mgr{m}:{n}bytes:@{i}:after-{lastMark ms i}"
          | none => s!"{p}"
        s!"VIOL kind=leak idx={v.index} n={ids.length} blocks={",".intercalate det}"
      | k =>
        let ks := match k with
          | .foreignFree => "foreign-free"
          | .doubleFree => "double-free"
          | .wrongManager o => s!"wrong-manager owner={o}"
          | .dupAlloc o => s!"dup-alloc owner={o}"
          | .leak _ => "leak"
        let ev := match evs[v.index]? with | some e => showEvent e | none => "?"
        s!"VIOL kind={ks} idx={v.index} event={ev} after-{lastMark ms v.index}"

/-! ### lifecycle -/
section
open XV.Model.Lifecycle XV.Model.DomHeapGen

def parseArg (s : String) : Option (Option Nat) :=
  if s == "-" || s.isEmpty then some none
  else if s.startsWith "u" then (s.drop 1).toString.toNat?.map some else none

def parseLOp (s : String) : Option (Option Op) :=   -- some none = W
  if s == "T" then some (some .term)
  else if s == "W" then some none
  else match s.splitOn ":" with
    -- optional trailing `:<locale>:<nlsHome>` fields do not touch the modelled statics
    | "I" :: a :: _ => (parseArg a).map fun x => some (.init x)
    | "H" :: n :: a :: _ =>
      match parseNats n, parseArg a with
      | some [i, m, ms], some x => some (some (.initHeap ⟨i, m, ms⟩ x))
      | _, _ => none
    | _ => none

def who (s : St) : String :=
  match s.mgr with
  | none => "0"
  | some (.user u) => s!"u{u}"
  | some (.dflt _) => "d"

def handleL (line : String) : String :=
  match words line with
  | "L" :: ops0 =>
    let ops := ops0.filter (fun o => !o.startsWith "D:")   -- `D:i.m.s` = start from the process defaults (= genDefaults)
    let rec go (ops : List String) (s : St) (acc : String) : Option (St × String) :=
      match ops with
      | [] => some (s, acc)
      | o :: rest =>
        match parseLOp o with
        | none => none
        | some none =>
          let w := if s.mgr.isNone then "W:down " else s!"W:bs={s.heap.initial} "
          go rest s (acc ++ w ++ s!"m={who s} ")
        | some (some op) =>
          let s' := step genCfg s op
          go rest s' (acc ++ s!"m={who s'} ")
    match go ops { heap := genDefaults } "" with
    | none => "bad-op"
    | some (s, acc) =>
      let users := s.deleted.filterMap fun m => match m with | .user u => some s!"u{u}," | _ => none
      let del := if users.isEmpty then "-" else String.join users
      acc ++ s!"end={if s.flag == 0 then "down" else "up"} del={del}"
  | _ => "bad-op"
end

/-! ### arena -/
section
open XV.Model.Arena XV.Model.DomHeapGen XV.Spec.Arena

def base (k : Nat) : Nat := (k + 1) * 4294967296

def joinC (l : List String) : String := if l.isEmpty then "-" else String.join (l.map (· ++ ","))

structure AObs where
  a : Arena
  nraw : Nat := 0
  sizes : List Nat := []      -- raw block sizes, reversed
  ptrs : List Nat := []       -- returned pointers, reversed
  R : List String := []
  X : List String := []

def doAlloc (P : Params) (o : AObs) (n : Nat) (record : Bool) : AObs :=
  let nb := base o.nraw
  let tk := takes genConsts P o.a n nb
  let (a', p) := allocate genConsts P o.a n nb
  let o := match tk with
    | some b => { o with nraw := o.nraw + 1, sizes := b.size :: o.sizes }
    | none => o
  let o := { o with a := a' }
  if record then
    let r := if p < 4294967296 then s!"x:{if p == 0 then "null" else "?"}:{n}" else s!"{p / 4294967296 - 1}:{p % 4294967296}:{n}"
    { o with ptrs := p :: o.ptrs, R := r :: o.R }
  else o

def handleA (line : String) : String :=
  match words line with
  | ["A", ps, _, ops] =>
    match parseNats ps with
    | some [i, m, s] =>
      let P : Params := ⟨i, m, s⟩
      let o0 := doAlloc P { a := init P } XV.Gen.DomHeap.ctorFirstAlloc false
      let step (o : Option AObs) (op : String) : Option AObs :=
        match o with
        | none => none
        | some o =>
          if op.isEmpty then some o else
          match (op.drop 1).toString.toNat? with
          | none => none
          | some v =>
            if op.startsWith "a" then some (doAlloc P o v true)
            else if op.startsWith "r" then
              match o.ptrs.reverse[v]? with
              | none => some o
              | some p =>
                let a' := release genConsts o.a p
                if a'.singles.length < o.a.singles.length then
                  some { o with a := a', X := s!"{p / 4294967296 - 1}" :: o.X }
                else some { o with a := a' }
            else if op.startsWith "s" then some { o with a := setBlockSize P o.a v }
            else none
      match (ops.splitOn ",").foldl step (some o0) with
      | none => "bad-op"
      | some o =>
        let d := (deleteHeap o.a).1.map fun b => s!"{b.start / 4294967296 - 1}"
        s!"B={joinC (o.sizes.reverse.map toString)} R={joinC o.R.reverse} X={joinC o.X.reverse} D={joinC d}"
    | _ => "bad-op"
  | _ => "bad-op"

def field (ws : List String) (k : String) : Option (List String) :=
  match ws.find? (·.startsWith (k ++ "=")) with
  | none => none
  | some w =>
    let v := (w.drop (k.length + 1)).toString
    if v == "-" then some [] else some ((v.splitOn ",").filter (· ≠ ""))

/-- Spec verdict on an observation of the real arena: raw block `k` is placed at `base k`. -/
def handleASpec (line : String) : String :=
  let ws := words line
  match field ws "B", field ws "R", field ws "X" with
  | some bs, some rs, some xs =>
    match bs.mapM String.toNat?, xs.mapM String.toNat? with
    | some sizes, some rel =>
      let blocks : List (Nat × Block) := sizes.zipIdx.map fun (sz, k) => (k, (base k, sz))
      let owned := (blocks.filter fun b => !rel.contains b.1).map (·.2)
      let regs : Option (List (Option Region)) := rs.mapM fun r =>
        match r.splitOn ":" with
        | [b, off, n] =>
          match n.toNat? with
          | none => none
          | some n =>
            if b == "x" then some (some (0, n))      -- not inside any block the arena was given
            else match b.toNat?, off.toNat? with
              | some b, some off => if rel.contains b then some none else some (some (base b + off, n))
              | _, _ => none
        | _ => none
      match regs with
      | none => "bad-obs"
      | some regs =>
        let live := regs.filterMap id
        if regionsOk XV.Gen.DomHeap.sizeOfHeader owned live then s!"ok regions={live.length} blocks={owned.length}" else "bad"
    | _, _ => "bad-obs"
  | _, _, _ => "bad-obs"
end

end XV.Driver.Ledger
