/- Line protocol for C06 (see harness/hx_ns.cpp and tools/props/c06.py).
   `xvdriver ns`     : `S <ops>` / `W <ops>`  op histories on the ElemStack / WFElemStack models
   `xvdriver nsspec` : `D <api> <v11> <prefixes|-> <uris|-> <tree…>`  what the Spec expects a parser to report
   `xvdriver nsmodel`: same line, computed through the code-shaped models (ElemStack resolution, SAX2 prefix stack,
                       DOM lookup algorithms) -/
import XV.Driver.Util
import XV.Model.ElemStack
import XV.Model.Sax2Prefix
import XV.Model.DomLookup
import XV.Spec.Namespace
namespace XV.Driver.Ns
open XV.Driver XV.Model.ElemStack XV.Spec.Namespace

def tok (s : String) : String := if s == "-" then "" else s

structure StackRun (σ : Type) where
  st : σ
  wasReset : Bool := false
  out : Array String := #[]

def splitOps (s : String) : List (List String) :=
  (s.splitOn ",").map (fun o => (o.splitOn " ").filter (· ≠ "")) |>.filter (· ≠ [])

def runES (ops : List (List String)) : String :=
  let r := ops.foldl (init := ({ st := ({} : ElemStack) } : StackRun ElemStack)) fun r op =>
    match op with
    | ["R", e, u, x, n] => { r with st := reset r.st e.toNat! u.toNat! x.toNat! n.toNat!, wasReset := true }
    | ["L"] => { r with st := addLevel r.st }
    | ["N"] => { r with st := addLevel r.st }     -- addLevel(toSet, readerNum): same namespace behaviour
    | ["P"] => match popTop r.st with
        | some s => { r with st := s }
        | none => { r with out := r.out.push "exc:EmptyStack" }
    | ["A", p, id] => match addPrefix r.st (tok p) id.toNat! with
        | some s => { r with st := s }
        | none => { r with out := r.out.push "exc:EmptyStack" }
    | ["G", p, id] => { r with st := addGlobalPrefix r.st (tok p) id.toNat! }
    | ["M", p] =>
        if !r.wasReset then { r with out := r.out.push "guard" } else
        let (id, unk) := mapPrefixToURI r.st (tok p)
        { r with out := r.out.push s!"{id}/{if unk then 1 else 0}" }
    | _ => { r with out := r.out.push "bad-op" }
  if r.out.isEmpty then "-" else " ".intercalate r.out.toList

def runWF (ops : List (List String)) : String :=
  let r := ops.foldl (init := ({ st := ({} : WFElemStack) } : StackRun WFElemStack)) fun r op =>
    match op with
    | ["R", e, u, x, n] => { r with st := WF.reset r.st e.toNat! u.toNat! x.toNat! n.toNat!, wasReset := true }
    | ["L"] => { r with st := WF.addLevel r.st }
    | ["N"] => { r with st := WF.addLevel r.st }  -- addLevel(toSet, toSetLen, readerNum): same namespace behaviour
    | ["P"] => match WF.popTop r.st with
        | some s => { r with st := s }
        | none => { r with out := r.out.push "exc:EmptyStack" }
    | ["A", p, id] => match WF.addPrefix r.st (tok p) id.toNat! with
        | some s => { r with st := s }
        | none => { r with out := r.out.push "exc:EmptyStack" }
    | ["M", p] =>
        if !r.wasReset then { r with out := r.out.push "guard" } else
        match WF.mapPrefixToURI r.st (tok p) with
        | none => { r with out := r.out.push "guard" }
        | some (id, unk) => { r with out := r.out.push s!"{id}/{if unk then 1 else 0}" }
    | _ => { r with out := r.out.push "bad-op" }
  if r.out.isEmpty then "-" else " ".intercalate r.out.toList

def handle (line : String) : String :=
  if line.startsWith "S " then runES (splitOps (line.drop 2).toString)
  else if line.startsWith "W " then runWF (splitOps (line.drop 2).toString)
  else "bad-op"

-- ------------------------------------------------------------------------------------------ documents
/-- tree tokens:  node := E pre loc nitems item* nkids node* | T | K | P | C ;  item := d pre uri | a pre loc -/
partial def parseItems : Nat → List String → Option (List Item × List String)
  | 0, ts => some ([], ts)
  | n + 1, "d" :: p :: u :: ts => do
      let (r, ts') ← parseItems n ts
      pure (.decl ⟨tok p, tok u⟩ :: r, ts')
  | n + 1, "a" :: p :: l :: ts => do
      let (r, ts') ← parseItems n ts
      pure (.attr (tok p) l :: r, ts')
  | _, _ => none

mutual
  partial def parseNode : List String → Option (Node × List String)
    | "T" :: ts => some (.text, ts)
    | "K" :: ts => some (.comment, ts)
    | "P" :: ts => some (.pi, ts)
    | "C" :: ts => some (.cdata, ts)
    | "E" :: p :: l :: n :: ts => do
        let (items, ts1) ← parseItems n.toNat! ts
        match ts1 with
        | k :: ts2 =>
          let (kids, ts3) ← parseNodes k.toNat! ts2
          pure (.elem ⟨tok p, l, items⟩ kids, ts3)
        | [] => none
    | _ => none
  partial def parseNodes : Nat → List String → Option (List Node × List String)
    | 0, ts => some ([], ts)
    | n + 1, ts => do
        let (x, ts1) ← parseNode ts
        let (r, ts2) ← parseNodes n ts1
        pure (x :: r, ts2)
end

def listArg (s : String) : List String := if s == "-" then [] else s.splitOn ","

def isElem : Node → Bool
  | .elem _ _ => true
  | _ => false

/-- lookups on a node without element ancestor (prolog / epilog comments and PIs): everything is unknown -/
def topMisc (qp qu : List String) : String :=
  "top:L^" ++ "^".intercalate ("~" :: qp.map (fun _ => "~")) ++ " P" ++ String.join (qu.map (fun _ => "^~")) ++
  " D" ++ String.join (qu.map (fun _ => "^0"))

def specDoc (api : String) (v11 : Bool) (qp qu : List String) (tops : List Node) : String :=
  let roots := tops.filter isElem
  match roots with
  | [root] =>
    match api with
    | "err" =>
        let es := nodeErrors v11 [] root
        if es.isEmpty then "ok" else "err:" ++ ",".intercalate (es.map (·.name)).eraseDups
    | "sax2p" => " ".intercalate (showEvs (sax2Events true [] root))
    | "sax2" => " ".intercalate (showEvs (sax2Events false [] root))
    | "sax1" => " ".intercalate (sax1Events root)
    | "dom" =>
        " ".intercalate ("doc=" :: (tops.map (fun n => if isElem n then domDump [] qp qu n else [topMisc qp qu])).flatten)
    | _ => "bad-op"
  | _ => "bad-op"

open XV.Model.Sax2Prefix XV.Model.DomLookup in
def modelDoc (api : String) (v11 : Bool) (qp qu : List String) (tops : List Node) : String :=
  let roots := tops.filter isElem
  match roots with
  | [root] =>
    match api with
    | "err" => if (XV.Model.DomLookup.scanErrors v11 root) then "err" else "ok"
    | "sax2p" => " ".intercalate (XV.Model.Sax2Prefix.showEvents (XV.Model.Sax2Prefix.parseDoc true v11 root))
    | "sax2" => " ".intercalate (XV.Model.Sax2Prefix.showEvents (XV.Model.Sax2Prefix.parseDoc false v11 root))
    | "sax1" => " ".intercalate (sax1Events root)
    | "dom" =>
        " ".intercalate ("doc=" :: (tops.map (fun n =>
          if isElem n then XV.Model.DomLookup.dumpParsed qp qu v11 n else [topMisc qp qu])).flatten)
    | _ => "bad-op"
  | _ => "bad-op"

def handleDoc (f : String → Bool → List String → List String → List Node → String) (line : String) : String :=
  match words line with
  | "D" :: api :: v :: qp :: qu :: n :: rest =>
      match parseNodes n.toNat! rest with
      | some (tops, []) => f api (v == "1") (listArg qp) (listArg qu) tops
      | _ => "bad-op"
  | _ => "bad-op"

def handleSpec : String → String := handleDoc specDoc
def handleModel : String → String := handleDoc modelDoc

end XV.Driver.Ns
