import XV.Driver.Util
import XV.Model.Formatter
import XV.Model.Cdata
import XV.Model.Serializer
import XV.Model.NsFixup
import XV.Spec.Escaping
import XV.Spec.Unescape
namespace XV.Driver.Formatter
open XV.Driver XV.Model.Formatter XV.Model.Cdata

def showOut : Out → String
  | .ok l => s!"ok {hexList l}"
  | .error (.exc n) => s!"exc {n}"
  | .error .hang => "hang"

def escOf : String → Option EscapeFlags
  | "0" => some .NoEscapes | "1" => some .StdEscapes | "2" => some .AttrEscapes | "3" => some .CharEscapes
  | _ => none
def unrepOf : String → Option UnRepFlags
  | "0" => some .UnRep_Fail | "1" => some .UnRep_CharRef | "2" => some .UnRep_Replace
  | _ => none

/-! ### build scripts (the subset without namespaces) -> Model.Serializer trees -/
open XV.Model.Serializer in
structure Frame where
  name : List Nat
  attrs : List (List Nat × List Nat)
  kids : List XV.Model.Serializer.Node     -- reversed

def lexLt : List Nat → List Nat → Bool
  | [], [] => false
  | [], _ :: _ => true
  | _ :: _, [] => false
  | a :: x, b :: y => if a < b then true else if b < a then false else lexLt x y

/-- DOMAttrMapImpl keeps the attributes sorted by name (XMLString::compareString); same name = replace -/
def insertAttr (n v : List Nat) : List (List Nat × List Nat) → List (List Nat × List Nat)
  | [] => [(n, v)]
  | (m, w) :: t => if n = m then (n, v) :: t else if lexLt n m then (n, v) :: (m, w) :: t else (m, w) :: insertAttr n v t

structure BState where
  stack : List Frame := []
  pre : List XV.Model.Serializer.Node := []
  post : List XV.Model.Serializer.Node := []
  root : Option XV.Model.Serializer.Node := none

def closeTop (st : BState) : BState :=
  match st.stack with
  | [] => st
  | [f] => { st with stack := [], root := some (.elem f.name f.attrs f.kids.reverse) }
  | f :: g :: rest => { st with stack := { g with kids := .elem f.name f.attrs f.kids.reverse :: g.kids } :: rest }

def addKid (st : BState) (n : XV.Model.Serializer.Node) : BState :=
  match st.stack with
  | [] => st
  | f :: rest => { st with stack := { f with kids := n :: f.kids } :: rest }

def hexOrNull (s : String) : Option (Option (List Nat)) :=
  if s == "~" then some none else (parseHexList s).map some

def stepOp (st : BState) (op : String) : Option BState :=
  match op.splitOn "," with
  | ["E", "~", n] => (parseHexList n).map fun n => { st with stack := ⟨n, [], []⟩ :: st.stack }
  | ["L", n] => (parseHexList n).map fun n => { st with stack := ⟨n, [], []⟩ :: st.stack }
  | ["U"] => some (if st.stack.length > 1 then closeTop st else st)
  | ["A", "~", n, v] | ["B", n, v] =>
    match parseHexList n, hexOrNull v, st.stack with
    | some n, some v, f :: rest => some { st with stack := { f with attrs := insertAttr n (v.getD []) f.attrs } :: rest }
    | _, _, _ => none
  | ["T", v] => (hexOrNull v).map fun v => addKid st (.text (v.getD []))
  | ["C", v] => (hexOrNull v).map fun v => addKid st (.cdata (v.getD []))
  | ["M", v] => (hexOrNull v).map fun v => addKid st (.comment (v.getD []))
  | ["P", t, d] => match parseHexList t, hexOrNull d with
    | some t, some d => some (addKid st (.pi t (d.getD [])))
    | _, _ => none
  | ["m", v] => (hexOrNull v).map fun v => { st with pre := st.pre ++ [.comment (v.getD [])] }
  | ["p", t, d] => match parseHexList t, hexOrNull d with
    | some t, some d => some { st with post := st.post ++ [.pi t (d.getD [])] }
    | _, _ => none
  | _ => none

def buildTree (script : String) : Option (List XV.Model.Serializer.Node) :=
  let st := (script.splitOn ";").foldl (fun acc op => acc.bind (fun st => if op.isEmpty then some st else stepOp st op)) (some {})
  st.bind fun st =>
    let rec closeAll : Nat → BState → BState
      | 0, s => s
      | n + 1, s => if s.stack.isEmpty then s else closeAll n (closeTop s)
    let s := closeAll (st.stack.length + 1) st
    s.root.map fun r => s.pre ++ [r] ++ s.post

def encNameOf (enc : String) : List Nat := enc.toList.map Char.toNat

/-! ### construction recipes -> Model.NsFixup trees (namespace fix-up) -/
structure NFrame where
  pfx : List Nat
  uri : List Nat
  attrs : List XV.Model.NsFixup.Attr
  kids : List XV.Model.NsFixup.Elem      -- reversed

def splitQName (q : List Nat) : List Nat × List Nat :=
  match q.span (· ≠ 58) with
  | (a, _ :: b) => (a, b)
  | (a, []) => ([], a)

def insertNsAttr (a : XV.Model.NsFixup.Attr) : List XV.Model.NsFixup.Attr → List XV.Model.NsFixup.Attr
  | [] => [a]
  | b :: t => if a.qname = b.qname then a :: t else if lexLt a.qname b.qname then a :: b :: t else b :: insertNsAttr a t

def nfClose : List NFrame → List NFrame
  | f :: g :: rest => { g with kids := .mk f.pfx f.uri f.attrs f.kids.reverse :: g.kids } :: rest
  | st => st

/-- none = the recipe is outside the model (an element without namespace, DOM level 1 nodes) -/
def nfStep (st : List NFrame) (op : String) : Option (List NFrame) :=
  match op.splitOn "," with
  | ["E", ns, q] => match hexOrNull ns, parseHexList q with
    | some (some u), some q => if u.isEmpty then none else some (⟨(splitQName q).1, u, [], []⟩ :: st)
    | _, _ => none
  | ["L", _] => none
  | ["U"] => some (if st.length > 1 then nfClose st else st)
  | ["A", ns, q, _] => match hexOrNull ns, parseHexList q, st with
    | some u, some q, f :: rest =>
      let a : XV.Model.NsFixup.Attr := ⟨if u.isSome then (splitQName q).1 else [], u.getD [], q⟩
      some ({ f with attrs := insertNsAttr a f.attrs } :: rest)
    | _, _, _ => none
  | ["B", q, _] => match parseHexList q, st with
    | some q, f :: rest => some ({ f with attrs := insertNsAttr ⟨[], [], q⟩ f.attrs } :: rest)
    | _, _ => none
  | _ => some st

def nfBuild (script : String) : Option XV.Model.NsFixup.Elem :=
  let st := (script.splitOn ";").foldl (fun acc op => acc.bind (fun st => if op.isEmpty then some st else nfStep st op)) (some [])
  st.bind fun st =>
    let rec closeAll : Nat → List NFrame → List NFrame
      | 0, s => s
      | n + 1, s => if s.length > 1 then closeAll n (nfClose s) else s
    match closeAll st.length st with
    | [f] => some (.mk f.pfx f.uri f.attrs f.kids.reverse)
    | _ => none

def strOf (l : List Nat) : String := String.ofList (l.map Char.ofNat)

def insertSorted (x : String) : List String → List String
  | [] => [x]
  | y :: t => if x < y then x :: y :: t else y :: insertSorted x t

/-- same text as the harness prints after `y=` -/
def declSig (ds : List (List XV.Model.NsFixup.Use)) : String :=
  String.join (ds.map fun d =>
    "|E" ++ String.join (((d.map fun x => strOf x.1 ++ "=" ++ strOf x.2).foldl (fun acc x => insertSorted x acc) []).map ("," ++ ·)))

/-- model side:
  FB <enc> <xml11 0|1> <fix 0|1> <esc 0-3> <unrep 0-2> <units>   formatBuf
  CD <enc> <mode a|f|n> <units>                                   procCdataSection as is / fixed / no split
  NF <script>                                                     namespace declarations per element (NsFixup)
spec side:
  ES <enc> <xml11> <fx> <esc 0-3> <units>                         reference escaping (Spec.Escaping.escUnits)
  RD <xml11 0|1> <attr 0|1> <units>                               readChars -/
def handle (line : String) : String :=
  match words line with
  | ["FB", enc, v, fx, e, u, us] =>
    match coderOf enc, escOf e, unrepOf u, parseHexList us with
    | some cd, some esc, some unrep, some s =>
      -- fx: 1 = repaired inEscapeList (NEL/LSEP), 2 = repaired handleUnEscapedChars (no progress => Trans_BadSrcSeq)
      let fxn := fx.toNat?.getD 0
      match formatBuf cd ⟨v == "1", fxn % 2 == 1⟩ esc unrep s with
      | .error .hang => if fxn / 2 % 2 == 1 then "exc Trans_BadSrcSeq" else "hang"
      | r => showOut r
    | _, _, _, _ => "bad-op"
  | ["CD", enc, mode, us] =>
    match coderOf enc, parseHexList us with
    | some cd, some s =>
      if mode == "a" then showOut (procCdataSection cd s)
      else if mode == "f" then showOut (procCdataFixed cd s)
      else showOut (cdataNoSplit cd s)
    | _, _ => "bad-op"
  | ["TS", enc, v, feat, script] =>
    match coderOf enc, feat.toNat?, buildTree script with
    | some cd, some ft, some kids =>
      -- bits 64 / 128 / 256 / 512: repaired CDATA branch / well-formedness checks / inEscapeList / handleUnEscapedChars
      let f : XV.Model.Serializer.Features := { splitCdata := ft % 2 == 1, xmlDecl := ft / 2 % 2 == 1, bom := ft / 8 % 2 == 1,
                                                cdataFix := ft / 64 % 2 == 1, wfFix := ft / 128 % 2 == 1 }
      let e : XV.Model.Serializer.Env := { cd := cd, cfg := ⟨v == "1", ft / 256 % 2 == 1⟩, encName := encNameOf enc, feat := f }
      let bom : List Nat := if f.bom && (enc == "UTF-8" || enc == "UTF-16") then [0xFEFF] else []
      match XV.Model.Serializer.document e false kids with
      | .ok l => showOut (.ok (bom ++ l))
      | .error .hang => if ft / 512 % 2 == 1 then "exc Trans_BadSrcSeq" else "hang"
      | r => showOut r
    | _, _, _ => "bad-op"
  | ["ES", enc, v, fx, e, us] =>
    -- Spec: the reference escaping the bytes must encode (XV.Spec.Escaping.escUnits)
    match coderOf enc, escOf e, parseHexList us with
    | some cd, some esc, some s => s!"ok {hexList (XV.Spec.Escaping.escUnits cd ⟨v == "1", (fx.toNat?.getD 0) % 2 == 1⟩ esc s)}"
    | _, _, _ => "bad-op"
  | ["NF", script] =>
    -- the xmlns declarations the fix-up writes on every element of an API-built tree (XV.Model.NsFixup)
    match nfBuild script with
    | some e => "ok " ++ declSig (XV.Model.NsFixup.declsTree 64 [] e)
    | none => "unsupported"
  | ["RD", v, a, us] =>
    match parseHexList us with
    | some s => match XV.Spec.Unescape.readChars (v == "1") (a == "1") s (.norm false 0) with
      | some r => s!"some {hexList r}"
      | none => "none"
    | none => "bad-op"
  | _ => "bad-op"

end XV.Driver.Formatter
