import XV.Driver.Util
import XV.Gen.SafetyConsts
import XV.Model.Growth
import XV.Model.CharRef
import XV.Model.MsgFormat
import XV.Model.ReaderStack
import XV.Model.DomHeap
/-! `xvdriver safety`: the C01 models on the line protocol of `harness/hx_safety.cpp`. -/
namespace XV.Driver.Safety
open XV.Driver XV.Gen.Safety

def opsOf (s : String) : List String := if s == "-" || s.isEmpty then [] else s.splitOn ","

def numAfter (s : String) : Option Nat := (s.drop 1).toString.toNat?

/-! XMLBuffer -/
open XV.Model.Growth in
def xbOp (reply : Reply) (o : String) : Option XOp :=
  if o == "c" then some (.appendCh reply)
  else if o == "r" then some .reset
  else if o == "g" then some .getRaw
  else if o.startsWith "n" then (numAfter o).map (fun k => .appendN k reply)
  else if o.startsWith "s" then (numAfter o).map (fun k => if k = 0 then .reset else .set k reply)
  else none

open XV.Model.Growth in
def handleXB (cap full h ops : String) : String :=
  match cap.toNat?, full.toNat? with
  | some cap, some full =>
    -- H1: handler empties the buffer and claims success; H0: it refuses and leaves the index alone
    let reply : Reply := if h == "H1" then (true, 0) else (false, 1000000000)
    match (opsOf ops).mapM (xbOp reply) with
    | some l =>
      let b0 := if full = 0 then XBuf.new cap else XBuf.newFull cap full
      let okAll := (xrun b0 l).all (fun a => decide a.ok)
      match xfinal b0 l with
      | some b => if okAll then s!"len {b.index}" else s!"len {b.index} MODEL-OUT-OF-BOUNDS"
      | none => "exc"
    | none => "bad-op"
  | _, _ => "bad-op"

/-! ElemStack / WFElemStack: the observable is the depth; the model also says whether every access was in bounds -/
open XV.Model.Growth in
def handleStack (q : Quarter) (ops : String) : String :=
  let step (acc : Option (QVec × Bool)) (o : String) : Option (QVec × Bool) :=
    acc.bind fun (v, ok) =>
      if o == "p" then let r := qstep q v .push; some (r.1, ok && r.2.all (fun a => decide a.ok))
      else if o == "q" then some ((qstep q v .pop).1, ok)
      else if o == "r" then some ((qstep q v .clear).1, ok)
      else if o.startsWith "x" || o.startsWith "c" then some (v, ok)
      else none
  match (opsOf ops).foldl step (some (QVec.init q, true)) with
  | some (v, ok) => if ok then s!"len {v.count}" else s!"len {v.count} MODEL-OUT-OF-BOUNDS"
  | none => "bad-op"

open XV.Model.Growth in
def vOp (o : String) : Option VOp :=
  if o == "a" then some .add
  else if o == "x" then some .removeAll
  else if o.startsWith "i" then (numAfter o).map .insertAt
  else if o.startsWith "d" then (numAfter o).map .removeAt
  else if o.startsWith "e" then (numAfter o).map .ensure
  else none

open XV.Model.Growth in
def handleVec (ens : QVec → Nat → QVec × List Access) (ops : String) : String :=
  match (opsOf ops).mapM vOp with
  | some l =>
    let ok := (vrun ens ⟨0, 0⟩ l).all (fun a => decide a.ok)
    let v := vfinal ens ⟨0, 0⟩ l
    if ok then s!"len {v.count}" else s!"len {v.count} MODEL-OUT-OF-BOUNDS"
  | none => "bad-op"

open XV.Model.Growth in
def dOp (o : String) : Option DOp :=
  if o == "r" then some .reset
  else if o == "g" then some .getRaw
  else if o.startsWith "a" then (numAfter o).map .append
  else if o.startsWith "s" then (numAfter o).map .set
  else none

open XV.Model.Growth in
def handleDB (cap ops : String) : String :=
  match cap.toNat?, (opsOf ops).mapM dOp with
  | some cap, some l =>
    let ok := (drun (DBuf.new cap) l).all (fun a => decide a.ok)
    let b := dfinal (DBuf.new cap) l
    s!"len {b.index} cap {b.cap}" ++ (if ok then "" else " MODEL-OUT-OF-BOUNDS")
  | _, _ => "bad-op"

/-! replaceTokens -/
open XV.Model.MsgFormat in
def handleTK (maxChars src l0 l1 l2 l3 : String) : String :=
  match maxChars.toNat?, parseHexList src, l0.toNat?, l1.toNat?, l2.toNat?, l3.toNat? with
  | some m, some s, some a, some b, some c, some d =>
    let rep : Nat → Nat := fun k => if k = 0 then a else if k = 1 then b else if k = 2 then c else d
    let out := replaceTokens replaceTokensBraceGuarded m rep (loadMsg s m)
    s!"out {out}" ++ (if out + 1 ≤ m + 1 then "" else " MODEL-OUT-OF-BOUNDS")
  | _, _, _, _, _, _ => "bad-op"

/-! character references -/
open XV.Model.CharRef in
def showOut : Out → String
  | .single c => s!"single {hexStr c}"
  | .pair h l => s!"pair {hexStr h} {hexStr l}"
  | .invalid => "invalid"

open XV.Model.CharRef in
def handleCR (site radix digits : String) : String :=
  match radix.toNat?, parseHexList digits with
  | some r, some ds =>
    if ds.any (fun d => d ≥ r) || ds.isEmpty then "bad-op" else
    -- content / attribute values: XMLScanner::scanCharRef; entity values / attribute defaults: DTDScanner::scanCharRef
    if site == "c" || site == "a" then
      showOut (charRef xmlScannerGuard r xmlScannerPairLo xmlScannerPairHi xmlScannerSingleMax xmlScannerSurr ds)
    else if site == "d" || site == "t" then
      showOut (charRef dtdScannerGuard r dtdScannerPairLo dtdScannerPairHi dtdScannerSingleMax dtdScannerSurr ds)
    else "bad-op"
  | _, _ => "bad-op"

/-! ReaderMgr -/
open XV.Model.ReaderStack in
structure RMState where
  s : St
  chars : List (Nat × Bool)      -- reader number ↦ still has characters
  out : List String

open XV.Model.ReaderStack in
def hasChars (m : List (Nat × Bool)) (r : Nat) : Bool := (m.lookup r).getD false

open XV.Model.ReaderStack in
def setChars (m : List (Nat × Bool)) (r : Nat) (b : Bool) : List (Nat × Bool) := (r, b) :: m.filter (fun p => p.1 != r)

open XV.Model.ReaderStack in
def obsTail (s : St) : String :=
  let depth := (curList s).length + s.stack.length
  s!"/{depth}/" ++ (match s.cur with | some d => toString d.reader | none => "-")

open XV.Model.ReaderStack in
def rmOp (st : RMState) (o : String) : Option RMState :=
  if o.startsWith "P" then
    match (o.drop 1).toString.splitOn ":" with
    | [nm, ad, ch] =>
      let name : Option Nat := if nm == "-" then none else nm.toNat?
      if nm != "-" && name.isNone then none else
      let adopt := ad == "1" && name.isSome
      let r := st.s.next
      let s' := push st.s name adopt
      let ok := !(isRecursive name st.s.stack)
      some { s := s', chars := setChars st.chars r (ch == "1"), out := st.out ++ [(if ok then "1" else "0") ++ obsTail s'] }
    | _ => none
  else if o.startsWith "O" then
    match st.s.cur with
    | none => some { st with out := st.out ++ ["-" ++ obsTail st.s] }
    | some cur =>
      let t := o == "O1"
      let chars := setChars st.chars cur.reader false           -- the harness drains the current reader first
      let fl := st.s.stack.map (fun d => hasChars chars d.reader)
      let s' := pop st.s t fl
      let obs :=
        if st.s.stack.isEmpty then "0"
        else if cur.entName.isSome && t then "E"
        else match s'.cur with
          | some c => if hasChars chars c.reader then "1" else "0"
          | none => "0"
      some { s := s', chars := chars, out := st.out ++ [obs ++ obsTail s'] }
  else if o.startsWith "C" then
    match st.s.cur, numAfter o with
    | none, some _ => some { st with out := st.out ++ ["-" ++ obsTail st.s] }
    | some _, some n =>
      let s' := cleanBackTo st.s n
      let found := match s'.cur with | some c => c.reader == n | none => false
      some { st with s := s', out := st.out ++ [(if found then "k" else "x") ++ obsTail s'] }
    | _, none => none
  else if o == "R" then
    let s' := reset st.s
    some { st with s := s', out := st.out ++ ["r" ++ obsTail s'] }
  else none

open XV.Model.ReaderStack in
def handleRM (ops : String) : String :=
  match (opsOf ops).foldl (fun acc o => acc.bind (fun st => rmOp st o)) (some ⟨St.init, [], []⟩) with
  | some st =>
    let fin := destroy st.s
    -- ledger verdict of the model itself: everything created was deleted exactly once
    let objs := fin.created.eraseDups
    let bal := objs.all (fun o => fin.deleted.count o == 1) && fin.deleted.all (fun o => fin.created.count o == 1)
    ";".intercalate st.out ++ " leak " ++ (if bal then "0" else "MODEL-UNBALANCED")
  | none => "bad-op"

/-! facts read off the regenerated constants (each is the hypothesis of a theorem in XV.Props.C01) -/
def facts : String :=
  let b (x : Bool) := if x then "1" else "0"
  s!"dtdCharRefGuarded={b (dtdScannerGuard == some 0x10FFFF)} xmlCharRefGuarded={b (xmlScannerGuard == some 0x10FFFF)} " ++
  s!"bomLoopSafe={b (decide (ucs4BomLoopShift ≤ ucs4BomLoopSlack))} domAllocClamped={b (!domAllocateBlockUnclamped || domAllocateRoutesMisfit)} " ++
  s!"braceGuarded={b replaceTokensBraceGuarded} rawBufSize={rawBufSize} domMaxSub={domMaxSub} domInitialHeap={domInitialHeap}"

open XV.Model.Growth in
def handle (line : String) : String :=
  match words line with
  | ["XB", cap, full, h, ops] => handleXB cap full h ops
  | ["ES", ops] => handleStack elemStack ops
  | ["WS", ops] => handleStack wfElemStack ops
  | ["VV", ops] => handleVec (vvEnsure valueVectorNum valueVectorDen) ops
  | ["RV", ops] => handleVec (rvEnsure refVectorHalfDiv) ops
  | ["RT", _] => "ok"
  | ["DB", cap, ops] => handleDB cap ops
  | ["TK", m, s, a, b, c, d] => handleTK m s a b c d
  | ["CR", site, radix, ds] => handleCR site radix ds
  | ["RM", ops] => handleRM ops
  | ["DH", _] => "ok"
  | ["facts"] => facts
  | _ => "bad-op"

end XV.Driver.Safety
