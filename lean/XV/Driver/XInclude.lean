/- C20 driver: a file map on one line -> what the model and the Spec say about the root document.

   line := <root-uri> <nfiles> file*
   file := X <uri> <hex source text | -> <nnodes> node*  |  T <uri> <hex characters>
   node := E <name> <nattrs> {<attr-name> <hex value>} <base> <nkids> node*
         | L <t|c|p> <pi target | -> <hex>
         | I <href> <d|x|t> <encoding | -> <base> <hasFallback 0|1> <nfallbackkids> node*
         | B <h|x|p|m|c> <nattrs> {<attr-name> <hex value>} <base> <nkids> node*
         | F <base> <nkids> node*
   base := - | r:<ref>             uri / ref: segments joined with `/`      hex: `61.62` or `-`
   ->  "M <tree> E <sev:code,...> ; S <tree> E <class,...> ; C <0|1>{ ; Q <quirk-sets> <tree> E <sev:code,...>}"
   M = XV.Model.XInclude.process, S = XV.Spec.XInclude.substitute (skipped, `- E -`, when the map is cyclic),
   C = XV.Spec.XInclude.cyclicB.  Q = XV.Model.XIncludeAsIs.processQ for the quirk sets (e = eagerRoot, o = ownBaseBug,
   r = rawHistory) whose observation differs from M; identical observations are grouped.   <tree> has the format of harness/hx_xi.cpp (text runs merged, attributes sorted,
   `(B u)` where the resolved base differs from the parent's).
-/
import XV.Driver.Util
import XV.Spec.XInclude
import XV.Model.XInclude
import XV.Model.XIncludeAsIs
namespace XV.Driver.XInclude
open XV.Driver XV.Spec.XInclude XV.Model.XInclude XV.Model.XIncludeAsIs

def parseRef (s : String) : List String := s.splitOn "/"

def parseBase (s : String) : Option Base :=
  if s == "-" then some .inherit
  else if s.startsWith "r:" then some (.rel (parseRef (s.drop 2).toString))
  else none

def parseAttrs : Nat → List String → Option (List (String × String) × List String)
  | 0, ts => some ([], ts)
  | n + 1, k :: v :: ts =>
    match parseHexList v, parseAttrs n ts with
    | some cs, some (rest, ts') => some ((k, String.ofList (cs.map Char.ofNat)) :: rest, ts')
    | _, _ => none
  | _, _ => none

mutual
partial def parseNode : List String → Option (Node × List String)
  | "E" :: name :: na :: ts =>
    match na.toNat? with
    | some n =>
      match parseAttrs n ts with
      | some (attrs, b :: nk :: ts1) =>
        match parseBase b, nk.toNat? with
        | some base, some k =>
          match parseNodes k ts1 with
          | some (kids, ts2) => some (.elem name attrs base kids, ts2)
          | none => none
        | _, _ => none
      | _ => none
    | none => none
  | "L" :: k :: tg :: hx :: ts =>
    match parseHexList hx with
    | some cs =>
      let kind := if k == "t" then some LeafKind.text else if k == "c" then some .comment else if k == "p" then some .pi else none
      kind.map fun kd => (.leaf kd (if tg == "-" then "" else tg) cs, ts)
    | none => none
  | "I" :: href :: p :: enc :: b :: hf :: nk :: ts =>
    let parse := if p == "d" then some Parse.dflt else if p == "x" then some .xml else if p == "t" then some .text else none
    match parse, parseBase b, nk.toNat? with
    | some pm, some base, some k =>
      match parseNodes k ts with
      | some (kids, ts2) => some (.incl (parseRef href) pm (if enc == "-" then none else some enc) base (hf == "1") kids, ts2)
      | none => none
    | _, _, _ => none
  | "B" :: kd :: na :: ts =>
    let kind := if kd == "h" then some BadKind.noHref else if kd == "x" then some .xpointer else if kd == "p" then some .badParse
                else if kd == "m" then some .multiFallback else if kd == "c" then some .disallowedChild else none
    match kind, na.toNat? with
    | some bk, some n =>
      match parseAttrs n ts with
      | some (attrs, b :: nk :: ts1) =>
        match parseBase b, nk.toNat? with
        | some base, some k =>
          match parseNodes k ts1 with
          | some (kids, ts2) => some (.bad bk attrs base kids, ts2)
          | none => none
        | _, _ => none
      | _ => none
    | _, _ => none
  | "F" :: b :: nk :: ts =>
    match parseBase b, nk.toNat? with
    | some base, some k =>
      match parseNodes k ts with
      | some (kids, ts2) => some (.fallback base kids, ts2)
      | none => none
    | _, _ => none
  | _ => none
partial def parseNodes : Nat → List String → Option (List Node × List String)
  | 0, ts => some ([], ts)
  | n + 1, ts =>
    match parseNode ts with
    | some (x, ts1) =>
      match parseNodes n ts1 with
      | some (xs, ts2) => some (x :: xs, ts2)
      | none => none
    | none => none
end

partial def parseFiles : Nat → List String → Option (FS × List String)
  | 0, ts => some ([], ts)
  | n + 1, "X" :: u :: src :: nn :: ts =>
    match parseHexList src, nn.toNat? with
    | some s, some k =>
      match parseNodes k ts with
      | some (doc, ts1) =>
        match parseFiles n ts1 with
        | some (rest, ts2) => some ((parseRef u, File.xml doc s) :: rest, ts2)
        | none => none
      | none => none
    | _, _ => none
  | n + 1, "T" :: u :: hx :: ts =>
    match parseHexList hx, parseFiles n ts with
    | some cs, some (rest, ts2) => some ((parseRef u, File.text cs) :: rest, ts2)
    | _, _ => none
  | _, _ => none

/-! ### canonical dump (format of harness/hx_xi.cpp) -/

def hexOfString (s : String) : String := hexList (s.toList.map Char.toNat)

def showUri (u : URI) : String :=
  let s := "/".intercalate u
  if s.isEmpty then "empty" else s

def insertAttr (x : String × String) : List (String × String) → List (String × String)
  | [] => [x]
  | y :: ys => if x.1 < y.1 then x :: y :: ys else y :: insertAttr x ys

def sortAttrs (l : List (String × String)) : List (String × String) := l.foldr insertAttr []

def showAttrs (l : List (String × String)) : String :=
  String.join ((sortAttrs l).map fun (k, v) => " (A " ++ k ++ " " ++ hexOfString v ++ ")")

def baseOf (pb : URI) : Base → URI
  | .abs u => u
  | b => resolveBase pb b

def showBase (pb : URI) (b : URI) : String := if b = pb then "" else " (B " ++ showUri b ++ ")"

def inclAttrs (href : Ref) (parse : Parse) (enc : Option String) : List (String × String) :=
  [("href", "/".intercalate href)] ++
  (match parse with | .dflt => [] | .xml => [("parse", "xml")] | .text => [("parse", "text")]) ++
  (match enc with | some e => [("encoding", e)] | none => [])

mutual
/-- `pend`: text collected from the preceding siblings and not yet printed -/
partial def dumpKids (pb : URI) : List Node → List Nat → String
  | [], pend => if pend.isEmpty then "" else " (T " ++ hexList pend ++ ")"
  | .leaf .text _ cs :: ns, pend => dumpKids pb ns (pend ++ cs)
  | n :: ns, pend =>
    (if pend.isEmpty then "" else " (T " ++ hexList pend ++ ")") ++ dumpNode pb n ++ dumpKids pb ns []
partial def dumpNode (pb : URI) : Node → String
  | .elem name attrs b kids =>
    let eb := baseOf pb b
    " (E " ++ name ++ showAttrs attrs ++ showBase pb eb ++ dumpKids eb kids [] ++ " )"
  | .leaf .text _ cs => if cs.isEmpty then "" else " (T " ++ hexList cs ++ ")"
  | .leaf .comment _ cs => " (C " ++ hexList cs ++ ")"
  | .leaf .pi t cs => " (P " ++ t ++ " " ++ hexList cs ++ ")"
  | .incl href parse enc b hasFb fb =>
    let eb := baseOf pb b
    " (E xi:include" ++ showAttrs (inclAttrs href parse enc) ++ showBase pb eb ++
      (if hasFb then " (E xi:fallback" ++ dumpKids eb fb [] ++ " )" else "") ++ " )"
  | .bad _ attrs b kids =>
    let eb := baseOf pb b
    " (E xi:include" ++ showAttrs attrs ++ showBase pb eb ++ dumpKids eb kids [] ++ " )"
  | .fallback b kids =>
    let eb := baseOf pb b
    " (E xi:fallback" ++ showBase pb eb ++ dumpKids eb kids [] ++ " )"
end

def dumpDoc (root : URI) (nodes : List Node) : String := "(D" ++ dumpKids root nodes [] ++ " )"

def showErrs (l : List Nat) : String :=
  if l.isEmpty then "-" else ",".intercalate (l.map fun c => String.singleton (severity c) ++ ":" ++ toString c)

def showClass : ErrClass → String
  | .circular => "circular" | .noFallback => "noFallback" | .invalid => "invalid" | .fuel => "fuel"

def showClasses (l : List ErrClass) : String :=
  if l.isEmpty then "-" else ",".intercalate (l.map showClass)

def handle (line : String) : String :=
  match words line with
  | r :: nf :: ts =>
    match nf.toNat? with
    | some n =>
      match parseFiles n ts with
      | some (fs, []) =>
        let root := parseRef r
        let m := process fs root
        let cyc := cyclicB fs root
        let sp := if cyc then "- E -" else
          let s := substitute fs root
          dumpDoc root s.nodes ++ " E " ++ showClasses s.errs
        let mobs := dumpDoc root m.nodes ++ " E " ++ showErrs m.errs
        -- the as-is variants (XV.Model.XIncludeAsIs) whose observation differs from the model's, grouped
        let combos : List (String × Quirks) :=
          [("e--", ⟨true, false, false⟩), ("-o-", ⟨false, true, false⟩), ("--r", ⟨false, false, true⟩),
           ("eo-", ⟨true, true, false⟩), ("e-r", ⟨true, false, true⟩), ("-or", ⟨false, true, true⟩), ("eor", ⟨true, true, true⟩)]
        let obs := combos.map fun (nm, q) =>
          let r := processQ q fs root
          (nm, dumpDoc root r.nodes ++ " E " ++ showErrs r.errs)
        let distinct := obs.foldl (fun acc (nm, o) =>
          if o == mobs then acc
          else match acc.find? (·.2 == o) with
            | some _ => acc.map fun (ns, o') => if o' == o then (ns ++ "," ++ nm, o') else (ns, o')
            | none => acc ++ [(nm, o)]) ([] : List (String × String))
        "M " ++ mobs ++ " ; S " ++ sp ++ " ; C " ++ (if cyc then "1" else "0") ++
          String.join (distinct.map fun (ns, o) => " ; Q " ++ ns ++ " " ++ o)
      | _ => "bad-op"
    | none => "bad-op"
  | _ => "bad-op"

end XV.Driver.XInclude
