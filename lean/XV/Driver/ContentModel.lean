/- C07 driver: content-model line protocol (model side and spec side).

   spec syntax (one token):  E | A | M<digits> | N | K<cm>
     M012  = (#PCDATA|e0|e1|e2)*    M = (#PCDATA)    N = (#PCDATA)*
     <cm>  = <digit> | s<cm><cm> | c<cm><cm> | ?<cm> | *<cm> | +<cm>      (Polish notation, names are one digit)
   V <spec> <digits|->            one child sequence      -> "<route> ok" | "<route> fail <i>" | "<route> exc <name>"
   A <spec> <nsyms> <maxlen>      all sequences over 0..nsyms-1 of length ≤ maxlen in DFS pre-order
                                  -> "<route> <one char per sequence: '.' ok, digit = failing index, 'x' exception>"
   spec side (`cmspec`): same lines -> "1"/"0" per sequence (derivMatch).
-/
import XV.Driver.Util
import XV.Spec.ContentModel
import XV.Model.ContentModel
namespace XV.Driver.ContentModel
open XV.Driver XV.Spec.ContentModel XV.Model.ContentModel

def digitOf (c : Char) : Option Nat :=
  if '0' ≤ c ∧ c ≤ '9' then some (c.toNat - '0'.toNat) else none

/-- Polish-notation parser; fuel = remaining length + 1 -/
def parseCM : Nat → List Char → Option (CM × List Char)
  | 0, _ => none
  | _, [] => none
  | fuel + 1, c :: rest =>
    match digitOf c with
    | some d => some (.leaf d, rest)
    | none =>
      if c == 's' || c == 'c' then
        match parseCM fuel rest with
        | some (a, r1) =>
          match parseCM fuel r1 with
          | some (b, r2) => some (if c == 's' then .seq a b else .choice a b, r2)
          | none => none
        | none => none
      else if c == '?' || c == '*' || c == '+' then
        match parseCM fuel rest with
        | some (a, r1) => some (if c == '?' then .opt a else if c == '*' then .star a else .plus a, r1)
        | none => none
      else none

/-- returns the spec and the `star` flag of `(#PCDATA)*` -/
def parseSpec (s : String) : Option (Spec × Bool) :=
  match s.toList with
  | ['E'] => some (.empty, false)
  | ['A'] => some (.any, false)
  | ['N'] => some (.mixed [], true)
  | 'M' :: ds => (ds.mapM digitOf).map (fun ns => (.mixed ns, false))
  | 'K' :: cs =>
    match parseCM (cs.length + 1) cs with
    | some (c, []) => some (.children c, false)
    | _ => none
  | _ => none

def parseIds (s : String) : Option (List Nat) :=
  if s == "-" then some [] else s.toList.mapM digitOf

/-- what the harness reports as the route: which branch of checkContent / which model class -/
def routeName (d : ElemDecl) : String :=
  match d.modelType with
  | .Empty => "empty"
  | .Any => "any"
  | _ => match makeContentModel d with
    | .ok (.simple _) => "simple"
    | .ok (.mixed _) => "mixed"
    | .ok (.dfa _) => "dfa"
    | .error e => "exc:" ++ e

def showRes : Res → String
  | .ok => "ok"
  | .fail i => s!"fail {i}"
  | .exc e => s!"exc {e}"

def resChar : Res → Char
  | .ok => '.'
  | .fail i => if i < 10 then Char.ofNat ('0'.toNat + i) else '#'
  | .exc _ => 'x'

/-- a prepared validator: everything that does not depend on the children is computed once -/
def prepare (d : ElemDecl) : List Nat → Res :=
  match d.modelType with
  | .Empty | .Any => checkContent d
  | _ =>
    match makeContentModel d with
    | .error e => fun _ => .exc e
    | .ok (.dfa n) =>
      match buildDFA n with
      | some dfa => dfaValidate dfa
      | none => fun _ => .exc "dfa-fuel"
    | .ok m => m.validate

/-- all sequences over `0..nsyms-1` of length ≤ maxlen in DFS pre-order (prefix first) -/
def enumGo (nsyms : Nat) : Nat → List Nat → Array (List Nat) → Array (List Nat)
  | 0, pre, acc => acc.push pre.reverse
  | left + 1, pre, acc =>
    (List.range nsyms).foldl (fun acc s => enumGo nsyms left (s :: pre) acc) (acc.push pre.reverse)

def enumSeqs (nsyms maxlen : Nat) : List (List Nat) := (enumGo nsyms maxlen [] #[]).toList

def handle (line : String) : String :=
  match words line with
  | ["V", sp, ids] =>
    match parseSpec sp, parseIds ids with
    | some (s, star), some w =>
      let d := declOf s star
      s!"{routeName d} {showRes (checkContent d w)}"
    | _, _ => "bad-op"
  | ["A", sp, ns, ml] =>
    match parseSpec sp, ns.toNat?, ml.toNat? with
    | some (s, star), some nsyms, some maxlen =>
      let d := declOf s star
      let f := prepare d
      let cs := (enumSeqs nsyms maxlen).map (fun w => resChar (f w))
      s!"{routeName d} {String.ofList cs}"
    | _, _, _ => "bad-op"
  | _ => "bad-op"

/-- DFS over the derivative trie: one derivative per edge -/
def specGo (nsyms : Nat) : Nat → Re → Array Char → Array Char
  | 0, r, acc => acc.push (if r.nullable then '1' else '0')
  | left + 1, r, acc =>
    (List.range nsyms).foldl (fun acc s => specGo nsyms left (r.deriv s) acc)
      (acc.push (if r.nullable then '1' else '0'))

def specEnum (nsyms maxlen : Nat) (r : Re) : List Char := (specGo nsyms maxlen r #[]).toList

def handleSpec (line : String) : String :=
  match words line with
  | ["V", sp, ids] =>
    match parseSpec sp, parseIds ids with
    | some (s, _), some w => if derivMatch s w then "1" else "0"
    | _, _ => "bad-op"
  | ["A", sp, ns, ml] =>
    match parseSpec sp, ns.toNat?, ml.toNat? with
    | some (s, _), some nsyms, some maxlen =>
      -- `derivMatch s w = (s.toRe.derivs w).nullable`; the DFS shares the derivative of the common prefix
      String.ofList (specEnum nsyms maxlen s.toRe)
    | _, _, _ => "bad-op"
  | _ => "bad-op"

end XV.Driver.ContentModel
