/-
C19 driver (`xvdriver extgate`): one case line in, one canonical observation line out.  All string fields are
'.'-separated hex code units ("-" = empty string), so the separators below never occur inside a field.

  G <cfg> <main system id> <main key> <supply> <resources>
      cfg        sc=IG|WF|DG|SG,dd=0|1,ld=0|1,vs=N|A|Y,ls=0|1,ds=0|1,ns=0|1,res=none|xml|sax     (plain text)
      supply     -  |  lit>bufId>key;…            the resolver answers system id `lit` with a source (bufId, content key)
      resources  key=content;key=content          content:
                   D(doctype|body)   T(dtditems)   E(body)   S(doctype|tns|xsitems|body)   U
                   doctype   -  |  sys^pub^dtditems     (sys = ~ : no external subset)
                   dtditems  g:name:sys:pub , p:name:sys:pub , r:name , q:name:hex(dtditems)   ("-" = none; q = internal PE)
                   body      e:name , l:ns>loc>ns>loc , n:loc
                   xsitems   i:ns:loc , c:loc , d:loc
    -> O:<main> R:<type>|<systemId>|<baseURI>|<publicId>|<namespace> O:<path> N:<url> … = ok | fatal:<why>
  X <countSpecial 0|1> <limit|-> <table> <doc>
      table      name=items;…   ("-" = empty)      items: c<hex> s<hex> r<name>, comma separated ("-" = empty)
      doc        C:items/A:items/…                 C = element content, A = any other site
    -> ok|fatal:<why> se=<n> n=<chars> h=<fnv> pushes=<n> count=<n>

The default-resolution function handed to the model (`World.defaultSource`) is a string-level rendering of
XMLURL::setURL / LocalFileInputSource / weavePaths for the shapes the generators produce (see XV.Model.Uri for the
component-level model and its theorems).
-/
import XV.Driver.Util
import XV.Model.ExtGate
import XV.Model.Entity
namespace XV.Driver.Ext
open XV.Driver XV.Spec.ExtGate XV.Model.ExtGate

/-! ### strings -/

def unhex (s : String) : Option String :=
  (parseHexList s).map (fun l => String.ofList (l.map Char.ofNat))

def splitOn1 (s : String) (sep : String) : List String := if s.isEmpty then [] else s.splitOn sep

/-! ### default resolution on strings (XMLURL::setURL + weavePaths, LocalFileInputSource) -/

def schemeOf (s : String) : Option String :=
  -- XMLURL::parse: text up to the first ':' or '/', a ':' first means protocol
  let cs := s.toList
  let pre := cs.takeWhile (fun c => c != ':' && c != '/')
  if pre.length < cs.length && cs.getD pre.length ' ' == ':' && pre.length > 1 then
    let p := String.ofList pre
    if p == "file" || p == "http" || p == "https" || p == "ftp" then some p else none
  else none

/-- removeDotSlash + removeDotDotSlash on a '/'-separated path (segment level, as the code is: a trailing "." / ".."
    stays) -/
def weaveSegs (segs : List String) : List String :=
  let rec dropDots : List String → List String
    | [] => []
    | [s] => [s]
    | s :: rest => if s == "." then dropDots rest else s :: dropDots rest
  let rec go (doneRev : List String) : List String → List String
    | [] => doneRev.reverse
    | [s] => (s :: doneRev).reverse
    | s :: rest =>
      if s == ".." then
        match doneRev with
        | p :: ds => if p != ".." && p != "" then go ds rest else go (s :: doneRev) rest
        | [] => go (s :: doneRev) rest
      else go (s :: doneRev) rest
  match segs with
  | [] => []
  | first :: rest => first :: go [] (dropDots rest)     -- `first` is the empty string before the leading '/'

def weavePath (basePath rel : String) : String :=
  -- all of the base up to its last '/', then the relative part
  let bs := basePath.splitOn "/"
  let dir := bs.dropLast
  "/".intercalate (weaveSegs (dir ++ rel.splitOn "/"))

def pctDecode (s : String) : String :=
  let rec go : List Char → List Char
    | '%' :: a :: b :: rest =>
      match hexDigit a, hexDigit b with
      | some x, some y => Char.ofNat (x * 16 + y) :: go rest
      | _, _ => '%' :: go (a :: b :: rest)
    | c :: rest => c :: go rest
    | [] => []
  String.ofList (go s.toList)

/-- split "scheme://authority/path" -/
def splitUrl (s : String) : String × String × String :=
  match schemeOf s with
  | none => ("", "", s)
  | some p =>
    let rest := (s.drop (p.length + 1)).toString
    if rest.startsWith "//" then
      let r2 := (rest.drop 2).toString
      let auth := String.ofList (r2.toList.takeWhile (· != '/'))
      let path := (r2.drop auth.length).toString
      (p, auth, if path.isEmpty then "/" else path)
    else (p, "", rest)

def targetOfUrl (scheme auth path : String) : Target × Source :=
  let url := scheme ++ "://" ++ auth ++ path
  if scheme == "file" then (.file (pctDecode path), { sysId := url, key := pctDecode path })
  else (.net url, { sysId := url, key := url })

/-- remove "." and "seg/.." everywhere: the identity of a file for the content table -/
def canonKey (p : String) : String :=
  let rec go (doneRev : List String) : List String → List String
    | [] => doneRev.reverse
    | s :: rest =>
      if s == "." then go doneRev rest
      else if s == ".." then go doneRev.tail rest
      else go (s :: doneRev) rest
  match p.splitOn "/" with
  | [] => p
  | first :: rest => "/".intercalate (first :: go [] rest)

def defaultSource (base sysId : String) : Target × Source :=
  match schemeOf sysId with
  | some _ =>
    let (p, a, path) := splitUrl sysId
    let (t, s) := targetOfUrl p a path
    (t, { s with key := canonKey s.key })
  | none =>
    match schemeOf base with
    | some _ =>
      let (p, a, bpath) := splitUrl base
      let path := if sysId.startsWith "/" then sysId else weavePath bpath sysId
      let (t, s) := targetOfUrl p a path
      (t, { s with key := canonKey s.key })
    | none =>
      -- XMLURL::setURL fails (base has no protocol): LocalFileInputSource(base, sysId)
      let path := if sysId.startsWith "/" then sysId else weavePath base sysId
      (.file path, { sysId := path, key := canonKey path })

/-! ### parsing the case line -/

def parseCfg (s : String) : Option Cfg :=
  (s.splitOn ",").foldlM (fun (c : Cfg) kv =>
    match kv.splitOn "=" with
    | ["sc", v] => (match v with | "IG" => some Scanner.IG | "WF" => some .WF | "DG" => some .DG | "SG" => some .SG | _ => none).map
        (fun x => { c with scanner := x })
    | ["dd", v] => some { c with disableDefault := v == "1" }
    | ["ld", v] => some { c with loadExternalDTD := v == "1" }
    | ["vs", v] => (match v with | "N" => some ValScheme.never | "A" => some .auto | "Y" => some .always | _ => none).map
        (fun x => { c with valScheme := x })
    | ["ls", v] => some { c with loadSchema := v == "1" }
    | ["ds", v] => some { c with doSchema := v == "1" }
    | ["ns", v] => some { c with doNamespaces := v == "1" }
    | ["res", v] => (match v with | "none" => some ResolverKind.none | "xml" => some .xml | "sax" => some .sax | _ => none).map
        (fun x => { c with resolver := x })
    | ["api", _] => some c
    | ["sp", _] => some c      -- position of the scanner switch in the configuration history: the effective policy is the
    | ["pre", _] => some c     -- last value set, whatever the switches (XV.Props.C19.policy_survives_scanner_switch)
    | ["sm", _] => some c
    | _ => none) ({} : Cfg)

partial def parseDtdItems (s : String) : Option (List DtdItem) :=
  if s == "-" then some [] else
  (s.splitOn ",").mapM (fun it =>
    match it.splitOn ":" with
    | ["g", n, sy, p] => do some (.declGE (← unhex n) (← unhex sy) (← unhex p))
    | ["p", n, sy, p] => do some (.declPE (← unhex n) (← unhex sy) (← unhex p))
    | ["r", n] => do some (.refPE (← unhex n))
    | ["q", n, inner] => do some (.declIntPE (← unhex n) (← parseDtdItems (← unhex inner)))   -- inner = hex of an encoded item list
    | _ => none)

def parsePairs : List String → Option (List (String × String))
  | [] => some []
  | a :: b :: rest => do
    let a ← unhex a; let b ← unhex b
    let r ← parsePairs rest
    some ((a, b) :: r)
  | _ => none

def parseBody (s : String) : Option (List BodyItem) :=
  if s == "-" then some [] else
  (s.splitOn ",").mapM (fun it =>
    match it.splitOn ":" with
    | ["e", n] => do some (.refGE (← unhex n))
    | ["l", ps] => (parsePairs (ps.splitOn ">")).map .schemaLoc
    | ["n", l] => do some (.noNsLoc (← unhex l))
    | _ => none)

def parseXs (s : String) : Option (List XsItem) :=
  if s == "-" then some [] else
  (s.splitOn ",").mapM (fun it =>
    match it.splitOn ":" with
    | ["i", ns, l] => do some (.imp (← unhex ns) (← unhex l))
    | ["c", l] => do some (.inc (← unhex l))
    | ["d", l] => do some (.redef (← unhex l))
    | _ => none)

def parseDoctype (s : String) : Option (Option Doctype) :=
  if s == "-" then some none else
  match s.splitOn "^" with
  | [sys, pub, items] => do
    let items ← parseDtdItems items
    let ext ← if sys == "~" then some none else do some (some ((← unhex sys), (← unhex pub)))
    some (some { extId := ext, intSubset := items })
  | _ => none

def parseContent (s : String) : Option Content :=
  if s == "U" then some .unreachable else
  if s.length < 3 then none else
  let inner := ((s.drop 2).dropEnd 1).toString
  let parts := inner.splitOn "|"
  match s.front, parts with
  | 'D', [dt, body] => do some (.doc (← parseDoctype dt) (← parseBody body))
  | 'T', [items] => do some (.dtd (← parseDtdItems items))
  | 'E', [body] => do some (.ent (← parseBody body))
  | 'S', [dt, tns, xs, body] => do some (.schema (← parseDoctype dt) (← unhex tns) (← parseXs xs) (← parseBody body))
  | _, _ => none

def parseResources (s : String) : Option (List (String × Content)) :=
  if s == "-" then some [] else
  (s.splitOn ";").mapM (fun r =>
    match r.splitOn "=" with
    | [k, c] => do some ((← unhex k), (← parseContent c))
    | _ => none)

def parseSupply (s : String) : Option (List (String × Source)) :=
  if s == "-" then some [] else
  (s.splitOn ";").mapM (fun r =>
    match r.splitOn ">" with
    | [lit, buf, key] => do some ((← unhex lit), { sysId := (← unhex buf), key := (← unhex key) })
    | _ => none)

def lookupStr {α} (l : List (String × α)) (k : String) : Option α :=
  (l.find? (·.1 == k)).map (·.2)

/-! ### printing -/

def typeLetter : RType → String
  | .schemaGrammar => "G" | .schemaImport => "I" | .schemaInclude => "C" | .schemaRedefine => "D" | .externalEntity => "E"

def showEvent (cfg : Cfg) : Event → String
  | .resolve r =>
    if cfg.resolver == .sax then "R:S|" ++ r.systemId ++ "||" ++ r.publicId ++ "|"
    else "R:" ++ typeLetter r.type ++ "|" ++ r.systemId ++ "|" ++ r.baseURI ++ "|" ++ r.publicId ++ "|" ++ r.ns
  | .openFile p => "O:" ++ p
  | .netAccess u => "N:" ++ u

def handleGate (f : List String) : String :=
  match f with
  | [_, cfgS, mainSys, mainKey, supply, resources] =>
    match parseCfg cfgS, unhex mainSys, unhex mainKey, parseSupply supply, parseResources resources with
    | some cfg, some mainSys, some mainKey, some sup, some res =>
      let w : World := {
        answer := fun r => lookupStr sup r.systemId
        defaultSource := defaultSource
        content := fun k => lookupStr res k }
      let st := parse w cfg 4000 mainSys mainKey
      -- the document itself: XMLScanner::scanDocument(systemId) → URLInputSource / LocalFileInputSource
      let mainT := (defaultSource "" mainSys).1
      let evs := showEvent cfg mainT.event :: (trace st).map (showEvent cfg)
      " ".intercalate evs ++ " = " ++ (match st.fatal with | some why => "fatal:" ++ why | none => "ok")
    | _, _, _, _, _ => "bad-op"
  | _ => "bad-op"

/-! ### entity expansion -/

open XV.Spec.Entity XV.Model.Entity in
def parseItems (s : String) : Option Text :=
  if s == "-" then some [] else
  (s.splitOn ",").mapM (fun it =>
    let body := (it.drop 1).toString
    match it.front with
    | 'c' => (parseHex body).map Item.ch
    | 's' => (parseHex body).map Item.special
    | 'r' => body.toNat?.map Item.ref
    | _ => none)

open XV.Spec.Entity XV.Model.Entity in
def parseTable (s : String) : Option Table :=
  if s == "-" then some [] else
  (s.splitOn ";").mapM (fun e =>
    match e.splitOn "=" with
    | [n, items] => do some ((← n.toNat?), (← parseItems items))
    | _ => none)

open XV.Spec.Entity XV.Model.Entity in
def parseDoc (s : String) : Option Doc :=
  if s == "-" then some [] else
  (s.splitOn "/").mapM (fun seg =>
    match seg.splitOn ":" with
    | ["C", items] => (parseItems items).map (fun t => (true, t))
    | ["A", items] => (parseItems items).map (fun t => (false, t))
    | _ => none)

def fnv (cs : List Nat) : UInt64 :=
  cs.foldl (fun (h : UInt64) c =>
    let h1 := (h ^^^ (UInt64.ofNat (c % 256))) * 1099511628211
    (h1 ^^^ (UInt64.ofNat ((c / 256) % 256))) * 1099511628211) 1469598103934665603

def hex16 (v : UInt64) : String :=
  let d := Nat.toDigits 16 v.toNat
  String.ofList (List.replicate (16 - d.length) '0' ++ d)

/-- UTF-16 code units of the delivered characters -/
def utf16 (cs : List Nat) : List Nat :=
  cs.flatMap (fun c => if c ≥ 0x10000 then [0xD800 + (c - 0x10000) / 1024, 0xDC00 + (c - 0x10000) % 1024] else [c])

open XV.Spec.Entity XV.Model.Entity in
def handleExpand (f : List String) : String :=
  match f with
  | [_, cs, lim, tbl, doc] =>
    let limit : Option (Option Nat) := if lim == "-" then some none else lim.toNat?.map some
    match limit, parseTable tbl, parseDoc doc with
    | some limit, some tbl, some doc =>
      let r := run { limit := limit, countSpecial := cs == "1" } tbl doc
      let out := utf16 r.outRev.reverse
      let verdict := match r.err with
        | none => "ok"
        | some (.notFound _) => "fatal:notfound"
        | some (.recursive _) => "fatal:recursive"
        | some .limit => "fatal:limit"
        | some .depth => "fatal:depth"
      verdict ++ " se=" ++ toString r.se ++ " n=" ++ toString out.length ++ " h=" ++ hex16 (fnv out) ++
        " pushes=" ++ toString r.pushes ++ " count=" ++ toString r.count
    | _, _, _ => "bad-op"
  | _ => "bad-op"

/-- `P <cfg>`: the Spec's switch table for this configuration (the judge of tools/props/c19.py) -/
def handlePerm (f : List String) : String :=
  match f with
  | [_, cfgS] =>
    match parseCfg cfgS with
    | some cfg =>
      let sites : List (String × Site) := [("extSubset", .extSubset), ("paramEntity", .paramEntity), ("generalEntity", .generalEntity),
        ("schemaLocation", .schemaLocation), ("noNsSchemaLocation", .noNsSchemaLocation), ("xsImport", .xsImport),
        ("xsInclude", .xsInclude), ("xsRedefine", .xsRedefine)]
      let ctxs : List (String × Ctx) := [("I", .instance), ("S", .schemaDoc)]
      " ".intercalate (ctxs.flatMap fun (cn, c) => sites.map fun (sn, s) =>
        cn ++ "." ++ sn ++ "=" ++ (if mayFetch cfg c s then "1" else "0") ++ (if mayOpen cfg c s then "1" else "0"))
    | none => "bad-op"
  | _ => "bad-op"

def handle (line : String) : String :=
  let f := words line
  match f.head? with
  | some "G" => handleGate f
  | some "P" => handlePerm f
  | some "X" => handleExpand f
  | _ => "bad-op"

end XV.Driver.Ext
