/-
Line protocol of the reader model (same cases as harness/hx_reader.cpp, mode R):

  R enc=<utf8|latin1|ascii|utf16le|utf16be|auto> nel=<0|1> ext=<0|1> pe=<0|1> lw=<n> ops=<script>
    part=<full|kN|lA,B,..|cA,B,..|pSEED,MAX> set=<K:name|-> v=<0|1> data=<rle hex>

ops (cycled until a `g` reports end of input or an exception escapes):
  g getNextChar   p peekNextChar   s skippedSpace   < skippedChar('<')   x skippedChar('x')
  n getNextCharIfNot('<')   k skippedString("<!--")   K peekString("]]>")   e skippedString("&#x")
Observation: ctor result, number of ops, a 64-bit FNV-style hash of the observations (per op: op code,
result, line, column and source offset after the op, mixed as five words; text form only with v=1), how it ended, final position, and the first /
last delivered characters.
-/
import XV.Driver.Util
import XV.Model.Reader
namespace XV.Driver.Reader
open XV.Driver XV.Model.Reader XV.Model.Utf8

/-! splitmix64, as in tools/common.py and harness/hx_common.hpp -/
def smNext (s : UInt64) : UInt64 × UInt64 :=
  let s := s + 0x9E3779B97F4A7C15
  let z := s
  let z := (z ^^^ (z >>> 30)) * 0xBF58476D1CE4E5B9
  let z := (z ^^^ (z >>> 27)) * 0x94D049BB133111EB
  (s, z ^^^ (z >>> 31))

def fnvStr (h : UInt64) (s : String) : UInt64 :=
  s.foldl (fun h c => (h ^^^ c.toNat.toUInt64) * 1099511628211) h

def fnvInit : UInt64 := 1469598103934665603

/-- "3c61.41*16380.c3a9*2" -> bytes -/
def parseRle (s : String) : Option (List Nat) :=
  if s == "-" || s.isEmpty then some [] else do
    let toks := s.splitOn "."
    let parts ← toks.mapM fun t => do
      let (hx, cnt) ← match t.splitOn "*" with
        | [h] => some (h, 1)
        | [h, c] => c.toNat?.map (fun c => (h, c))
        | _ => none
      let cs := hx.toList
      if cs.length % 2 != 0 then none
      let rec bytes : List Char → Option (List Nat)
        | a :: b :: rest => do
            let x ← hexDigit a; let y ← hexDigit b
            let r ← bytes rest
            some ((x * 16 + y) :: r)
        | [] => some []
        | _ => none
      let bs ← bytes cs
      some ((List.replicate cnt bs).flatten)
    some parts.flatten

def parseNatList (s : String) : Option (List Nat) :=
  (s.splitOn ",").mapM (·.toNat?)

/-- cut `bs` into chunks of the given sizes (sizes ≥ 1); what is left after the list goes in one chunk -/
partial def cutList (bs : Array Nat) (pos : Nat) (sizes : List Nat) (acc : Array (List Nat)) : Array (List Nat) :=
  if pos ≥ bs.size then acc else
  match sizes with
  | [] => acc.push (bs.extract pos bs.size).toList
  | k :: ks =>
    let k := max k 1
    cutList bs (pos + k) ks (acc.push (bs.extract pos (pos + k)).toList)

partial def cutFixed (bs : Array Nat) (pos k : Nat) (acc : Array (List Nat)) : Array (List Nat) :=
  if pos ≥ bs.size then acc else cutFixed bs (pos + k) k (acc.push (bs.extract pos (pos + k)).toList)

partial def cutCyclic (bs : Array Nat) (pos : Nat) (sizes : Array Nat) (i : Nat) (acc : Array (List Nat)) : Array (List Nat) :=
  if pos ≥ bs.size then acc else
  let k := max (sizes.getD (i % sizes.size) 1) 1
  cutCyclic bs (pos + k) sizes (i + 1) (acc.push (bs.extract pos (pos + k)).toList)

partial def cutRandom (bs : Array Nat) (pos : Nat) (st : UInt64) (mx : Nat) (acc : Array (List Nat)) : Array (List Nat) :=
  if pos ≥ bs.size then acc else
  let (st, v) := smNext st
  let k := 1 + v.toNat % mx
  cutRandom bs (pos + k) st mx (acc.push (bs.extract pos (pos + k)).toList)

def partition (spec : String) (bs : List Nat) : Option (List (List Nat)) :=
  let a := bs.toArray
  if spec == "full" then some (if bs.isEmpty then [] else [bs])
  else if spec.startsWith "k" then
    (spec.drop 1).toString.toNat?.bind fun k => if k == 0 then none else some (cutFixed a 0 k #[]).toList
  else if spec.startsWith "l" then
    (parseNatList (spec.drop 1).toString).map fun ks => (cutList a 0 ks #[]).toList
  else if spec.startsWith "c" then
    (parseNatList (spec.drop 1).toString).bind fun ks =>
      if ks.isEmpty then none else some (cutCyclic a 0 ks.toArray 0 #[]).toList
  else if spec.startsWith "p" then
    match parseNatList (spec.drop 1).toString with
    | some [seed, mx] => if mx == 0 then none else some (cutRandom a 0 seed.toUInt64 mx #[]).toList
    | _ => none
  else none

def encOf (s : String) : Option Enc :=
  match s with
  | "utf8" => some .utf8 | "latin1" => some .latin1 | "ascii" => some .ascii
  | "utf16le" => some .utf16le | "utf16be" => some .utf16be | _ => none

def encNameOf (s : String) : Option EncName :=
  if s == "utf16" then some .utf16 else (encOf s).map .named

def field (kv : List (String × String)) (k : String) : Option String :=
  (kv.find? (·.1 == k)).map (·.2)

structure Run where
  r : Reader
  h : UInt64 := fnvInit
  nops : Nat := 0
  nchars : Nat := 0
  head : Array Nat := #[]
  tail : Array Nat := #[]      -- last ≤ 8 delivered
  trace : Array String := #[]
  ending : Option String := none

def lt : List Nat := [0x3C, 0x21, 0x2D, 0x2D]      -- "<!--"
def cdEnd : List Nat := [0x5D, 0x5D, 0x3E]         -- "]]>"
def charRef : List Nat := [0x26, 0x23, 0x78]       -- "&#x"

/-- FNV-style mixing of one 64-bit word (same on the harness side) -/
@[inline] def mix (h x : UInt64) : UInt64 := (h ^^^ x) * 1099511628211

/-- value recorded for "no character" (end of input / refused) -/
def noChar : Nat := 0xFFFFFFFF

/-- One observation: operation code, its result, and line / column / source offset after it (the offset is left
out for PE readers).  Hashed as five 64-bit words; the text form is only built for `v=1` replays. -/
def pushTok (st : Run) (verbose : Bool) (opc : Char) (val : Nat) (r : Reader) : Run :=
  let ofs : UInt64 := if r.pe then 0xFFFFFFFFFFFFFFFF else r.srcOfs.toUInt64
  let h := mix (mix (mix (mix (mix st.h opc.toNat.toUInt64) val.toUInt64) r.line.toUInt64) r.col.toUInt64) ofs
  { st with r := r, h := h, nops := st.nops + 1,
            trace := if verbose then
                st.trace.push (let v := if val == noChar then "E" else hexStr val
                               if r.pe then s!"{opc}{v}@{r.line}:{r.col}:-," else s!"{opc}{v}@{r.line}:{r.col}:{r.srcOfs},")
              else st.trace }

def noteChar (st : Run) (c : Nat) : Run :=
  { st with nchars := st.nchars + 1,
            head := if st.head.size < 12 then st.head.push c else st.head,
            tail := if st.tail.size < 8 then st.tail.push c else st.tail.set! (st.nchars % 8) c }   -- ring of the last 8

/-- the last ≤ 8 delivered characters, oldest first -/
def tailList (st : Run) : List Nat :=
  if st.nchars ≤ 8 then st.tail.toList
  else let k := st.nchars % 8; (st.tail.extract k 8).toList ++ (st.tail.extract 0 k).toList

def finish (st : Run) (e : String) : Run := { st with ending := some e }

/-- one op; `none` ending = continue -/
def stepOp (st : Run) (verbose : Bool) (op : Char) : Run :=
  let bres (tag : Char) (res : BRes) : Run :=
    match res with
    | .ok b r => pushTok st verbose tag (if b then 1 else 0) r
    | .exc e r => finish { st with r := r } ("exc " ++ e.name)
    | .fuelOut => finish st "fuelOut"
  match op with
  | 'g' => match getNextChar st.r with
      | .char c r => noteChar (pushTok st verbose 'g' c r) c
      | .eof r => finish (pushTok st verbose 'g' noChar r) "eof"
      | .exc e r => finish { st with r := r } ("exc " ++ e.name)
      | .fuelOut => finish st "fuelOut"
  | 'p' => match peekNextChar st.r with
      | .char c r => pushTok st verbose 'p' c r
      | .eof r => pushTok st verbose 'p' noChar r
      | .exc e r => finish { st with r := r } ("exc " ++ e.name)
      | .fuelOut => finish st "fuelOut"
  | 'n' => match getNextCharIfNot st.r 0x3C with
      | .char c r => noteChar (pushTok st verbose 'n' c r) c
      | .eof r => pushTok st verbose 'n' noChar r
      | .exc e r => finish { st with r := r } ("exc " ++ e.name)
      | .fuelOut => finish st "fuelOut"
  | 's' => bres 's' (skippedSpace st.r)
  | '<' => bres '<' (skippedChar st.r 0x3C)
  | 'x' => bres 'x' (skippedChar st.r 0x78)
  | 'k' => bres 'k' (skippedString st.r lt)
  | 'K' => bres 'K' (peekString st.r cdEnd)
  | 'e' => bres 'e' (skippedString st.r charRef)
  | _ => finish st "bad-op"

partial def runOps (st : Run) (verbose : Bool) (ops : Array Char) (i cap : Nat)
    (setAt : Option (Nat × EncName)) : Run :=
  if st.ending.isSome then st
  else if st.nops ≥ cap then finish st "cap"
  else
    let st := match setAt with
      | some (k, nm) =>
        if st.nops == k && k > 0 then
          let (b, r) := setEncoding st.r nm
          { st with r := r, h := mix (mix st.h 0x53) (if b then 1 else 0) }
        else st
      | none => st
    runOps (stepOp st verbose (ops.getD (i % ops.size) 'g')) verbose ops (i + 1) cap setAt

def showRun (ctor : String) (st : Run) (verbose : Bool) : String :=
  let base := s!"ctor={ctor} n={st.nops} h={hexStr st.h.toNat} end={(st.ending.getD "?").replace " " "_"} " ++
    s!"line={st.r.line} col={st.r.col} ofs={if !st.r.pe && st.ending == some "eof" then toString st.r.srcOfs else "-"} chars={st.nchars} head={hexList st.head.toList} tail={hexList (tailList st)}"
  if verbose then base ++ " trace=" ++ String.join st.trace.toList else base

def handle (line : String) : String :=
  match words line with
  | "R" :: rest =>
    let kv := rest.filterMap fun w => match w.splitOn "=" with
      | [k, v] => some (k, v) | _ => none
    let get := field kv
    match get "enc", get "nel", get "ext", get "pe", (get "lw").bind (·.toNat?), get "ops",
          get "part", get "data" with
    | some enc, some nel, some ext, some pe, some lw, some ops, some part, some data =>
      match parseRle data with
      | none => "bad-op"
      | some bs =>
        match partition part bs with
        | none => "bad-op"
        | some stream =>
          let verbose := get "v" == some "1"
          let cfg := stdCfg lw
          let setAt : Option (Nat × EncName) := (get "set").bind fun s => match s.splitOn ":" with
            | [k, nm] => do let k ← k.toNat?; let nm ← encNameOf nm; some (k, nm)
            | _ => none
          let mk : Option MkRes :=
            if enc == "auto" then some (mkAuto cfg (nel == "1") (ext == "1") (pe == "1") stream)
            else (encOf enc).map fun e => .ok (mkForced cfg e (nel == "1") (ext == "1") (pe == "1") stream)
          match mk with
          | none => "bad-op"
          | some .couldNotDecodeFirstLine => "ctor=exc_Reader_CouldNotDecodeFirstLine"
          | some (.unmodelled f) => s!"ctor=unmodelled_{repr f}"
          | some (.ok r) =>
            let (r, pre) := match setAt with
              | some (0, nm) => let (b, r) := setEncoding r nm; (r, mix (mix fnvInit 0x53) (if b then 1 else 0))
              | _ => (r, fnvInit)
            let opsA := ops.toList.toArray
            if opsA.isEmpty || !(opsA.contains 'g') then "bad-op" else
            let st : Run := { r := r, h := pre }
            -- every cycle of the script holds a `g`, which consumes a character or ends the run: this bound is never
            -- reached by a terminating reader (`end=cap` = a reader that does not advance)
            let st := runOps st verbose opsA 0 (opsA.size * (bs.length + 16)) setAt
            showRun "ok" st verbose
    | _, _, _, _, _, _, _, _ => "bad-op"
  | _ => "bad-op"

end XV.Driver.Reader
