/-
C17 driver: runs the VERIFIED trace checkers (XV.Spec.Trace.checkTrace / checkInitOnce) on traces recorded from
the real library, and the synchronized-string-pool model on recorded operation histories.

`xvdriver trace`, one trace per line:
    T <res>=<mutex> ... | <site>=<mutex> ... | <event> ...
  events:  a.<t>.<m>  acquire      r.<t>.<m>  release     R.<t>.<res> read    W.<t>.<res> write
           b.<t>.<site> initBegin   e.<t>.<site> initEnd            (all numbers decimal)
  a resource / site without an entry is guarded by mutex 0, which no thread ever holds.
  answer: `ok <n>` | `violation <kind> k=<index> t=<thread> x=<mutex or site>`

`xvdriver pool`, one history per line (operations in linearization order):
    P <const strings, comma separated or -> | <op> ...
  ops: A:<str> addOrFind   G:<str> getId   V:<id> getValueForId   X:<str> exists(str)   I:<id> exists(id)   C count
  answer: one result per op: `i<n>` id/count, `s<str>`, `ill` (IllegalArgumentException), `b0`/`b1`
-/
import XV.Driver.Util
import XV.Spec.Trace
import XV.Model.SyncPool
namespace XV.Driver.Trace
open XV.Driver XV.Spec.Trace

def parsePair (s : String) : Option (Nat × Nat) :=
  match s.splitOn "=" with
  | [a, b] => match a.toNat?, b.toNat? with
    | some a, some b => some (a, b)
    | _, _ => none
  | _ => none

def parseEvent (s : String) : Option Event :=
  match s.splitOn "." with
  | [k, t, x] => match t.toNat?, x.toNat? with
    | some t, some x =>
      if k == "a" then some (.acq t x) else if k == "r" then some (.rel t x)
      else if k == "R" then some (.acc t x false) else if k == "W" then some (.acc t x true)
      else if k == "b" then some (.initBegin t x) else if k == "e" then some (.initEnd t x) else none
    | _, _ => none
  | _ => none

def lookupGuard (tbl : List (Nat × Nat)) (r : Nat) : Nat :=
  match tbl.lookup r with
  | some m => m
  | none => 0

def showViolation : Violation → String
  | .releaseNotHeld k t m => s!"violation release-not-held k={k} t={t} x={m}"
  | .acquireHeld k t m => s!"violation acquire-of-held-mutex k={k} t={t} x={m}"
  | .unguarded k t m => s!"violation access-without-guard k={k} t={t} x={m}"
  | .secondInit k t s => s!"violation second-initialisation k={k} t={t} x={s}"

def handle (line : String) : String :=
  match line.splitOn "|" with
  | [hd, sd, ev] =>
    match words hd with
    | "T" :: gs =>
      match gs.mapM parsePair, (words sd).mapM parsePair, (words ev).mapM parseEvent with
      | some g, some sg, some tr =>
        match checkTrace (lookupGuard g) (lookupGuard sg) tr with
        | .error v => showViolation v
        | .ok () => match checkInitOnce tr with
          | .error v => showViolation v
          | .ok () => s!"ok {tr.length}"
      | _, _, _ => "bad-op"
    | _ => "bad-op"
  | _ => "bad-op"

open XV.Model.SyncPool in
def parseOp (s : String) : Option Op :=
  if s == "C" then some .count else
  match s.splitOn ":" with
  | k :: rest =>
    let arg := ":".intercalate rest
    if rest.isEmpty then none
    else if k == "A" then some (.addOrFind arg) else if k == "G" then some (.getId arg)
    else if k == "X" then some (.existsStr arg)
    else if k == "V" then arg.toNat?.map .valueForId else if k == "I" then arg.toNat?.map .existsId else none
  | _ => none

open XV.Model.SyncPool in
def showRes : Res → String
  | .id n => s!"i{n}"
  | .str s => s!"s{s}"
  | .illegalId => "ill"
  | .bool b => if b then "b1" else "b0"

open XV.Model.SyncPool in
def handlePool (line : String) : String :=
  match line.splitOn "|" with
  | [hd, ops] =>
    match words hd with
    | ["P", cs] =>
      let c : List String := if cs == "-" then [] else cs.splitOn ","
      match (words ops).mapM parseOp with
      | some ops => " ".intercalate ((runAtomic ⟨⟨c⟩, ⟨[]⟩⟩ ops).2.map showRes)
      | none => "bad-op"
    | _ => "bad-op"
  | _ => "bad-op"

end XV.Driver.Trace
