import XV.Driver.Util
import XV.Model.Decimal
import XV.Spec.Decimal
import XV.Model.Codec
import XV.Spec.Codec
import XV.Model.Ws
import XV.Spec.Ws
import XV.Model.DateTime
import XV.Spec.DateTime
import XV.Model.Duration
import XV.Spec.Duration
/-! Line protocol of the C09 model driver (`xvdriver dt`) and of the Spec oracle (`xvdriver dtspec`).
Same case lines as harness/hx_dt.cpp. -/
namespace XV.Driver.Dt
open XV.Driver

def toChars (l : List Nat) : List Char := l.map Char.ofNat
def ofChars (l : List Char) : List Nat := l.map Char.toNat
def hexC (l : List Char) : String := hexList (ofChars l)

def optHex : Option (List Nat) → String
  | some l => hexList l
  | none => "null"

open XV.Model.Decimal in
def showDec : Except Exc BigDecimal → String
  | .ok d => s!"ok {d.sign} {hexC d.intVal} {d.totalDigits} {d.scale}"
  | .error e => s!"exc {e.name}"

def confOf (s : String) : XV.Model.Codec.Conformance := if s == "S" then .schema else .rfc2045

def kindOf (s : String) : Option XV.Spec.DateTime.Kind :=
  match s with
  | "dateTime" => some .dateTime | "date" => some .date | "time" => some .time | "gYearMonth" => some .gYearMonth
  | "gYear" => some .gYear | "gMonthDay" => some .gMonthDay | "gDay" => some .gDay | "gMonth" => some .gMonth
  | _ => none

def ordStr : Ordering → String
  | .lt => "-1" | .eq => "0" | .gt => "1"

/-- model of the code (with the minimal repairs) -/
def handle (line : String) : String :=
  match words line with
  | ["D", s] => match parseHexList s with
      | some u => showDec (XV.Model.Decimal.parseDecimal (toChars u))
      | none => "bad-op"
  | ["DO", s] => match parseHexList s with        -- the parser as it stands (defect witness)
      | some u => showDec (XV.Model.Decimal.parseDecimalOrig (toChars u))
      | none => "bad-op"
  | ["DC", s] => match parseHexList s with
      | some u => match XV.Model.Decimal.canonical (toChars u) with
        | some c => s!"can {hexC c}"
        | none => "null"
      | none => "bad-op"
  | ["DK", a, b] => match parseHexList a, parseHexList b with
      | some x, some y =>
        match XV.Model.Decimal.parseDecimal (toChars x), XV.Model.Decimal.parseDecimal (toChars y) with
        | .ok l, .ok r => s!"cmp {XV.Model.Decimal.toCompare l r}"
        | .error e, _ => s!"exc {e.name}"
        | _, .error e => s!"exc {e.name}"
      | _, _ => "bad-op"
  | ["I", s] => match parseHexList s with
      | some u => match XV.Model.Decimal.parseBigInteger (toChars u) with
        | .ok (sg, m) => s!"ok {sg} {hexC m}"
        | .error e => s!"exc {e.name}"
      | none => "bad-op"
  | ["IC", s] => match parseHexList s with
      | some u => match XV.Model.Decimal.canonicalInt (toChars u) with
        | some c => s!"can {hexC c}"
        | none => "null"
      | none => "bad-op"
  | ["IK", a, b] => match parseHexList a, parseHexList b with
      | some x, some y =>
        match XV.Model.Decimal.parseBigInteger (toChars x), XV.Model.Decimal.parseBigInteger (toChars y) with
        | .ok l, .ok r => s!"cmp {XV.Model.Decimal.compareValuesInt l r}"
        | .error e, _ => s!"exc {e.name}"
        | _, .error e => s!"exc {e.name}"
      | _, _ => "bad-op"
  | ["H", s] => match parseHexList s with
      | some u =>
        let ok := XV.Model.Codec.isArrayByteHex u
        let len := match XV.Model.Codec.hexDataLength u with | some n => toString n | none => "-1"
        let can := optHex (XV.Model.Codec.hexCanonical u)
        let dec := if ok then optHex (XV.Model.Codec.hexDecode u) else "null"
        s!"hex {if ok then "1" else "0"} {len} {can} {dec}"
      | none => "bad-op"
  | ["HD", s] => match parseHexList s with
      | some u => match XV.Model.Codec.hexDecode u with
        | some b => s!"dec {hexList b}"
        | none => "null"
      | none => "bad-op"
  | ["B", c, s] => match parseHexList s with
      | some u => match XV.Model.Codec.decodeX true (confOf c) u with
        | some (b, can) => s!"b64 {hexList b} {hexList can}"
        | none => "null"
      | none => "bad-op"
  | ["BX", c, s] => match parseHexList s with     -- as it stands: narrowing XMLCh -> XMLByte
      | some u => match XV.Model.Codec.decodeX false (confOf c) u with
        | some (b, can) => s!"b64 {hexList b} {hexList can}"
        | none => "null"
      | none => "bad-op"
  | ["BB", c, s] => match parseHexList s with
      | some u => match XV.Model.Codec.decode (confOf c) (XV.Model.Codec.cstr u) with
        | some (b, _) => s!"b64 {hexList b}"
        | none => "null"
      | none => "bad-op"
  | ["W", m, s] => match parseHexList s with
      | some u =>
        if m == "r" then s!"ws {hexList (XV.Model.Ws.replaceWS u)}"
        else if m == "c" then s!"ws {hexList (XV.Model.Ws.collapseWS u)}"
        else "bad-op"
      | none => "bad-op"
  | ["BO", s] => match parseHexList s with        -- BooleanDatatypeValidator: valid?, canonical
      | some u => match XV.Model.Ws.boolCanonical u with
        | some c => s!"bool {hexList c}"
        | none => "null"
      | none => "bad-op"
  | ["DT", "duration", s] => match parseHexList s with      -- repaired parseDuration
      | some u => match XV.Model.Duration.parseDuration true u with
        | some d => s!"ok {d.year} {d.month} {d.day} {d.hour} {d.minute} {d.second}"
        | none => "exc"
      | none => "bad-op"
  | ["DTO", "duration", s] => match parseHexList s with     -- as it stands
      | some u => match XV.Model.Duration.parseDuration false u with
        | some d => s!"ok {d.year} {d.month} {d.day} {d.hour} {d.minute} {d.second}"
        | none => "exc"
      | none => "bad-op"
  | ["DTK", "duration", a, b] => match parseHexList a, parseHexList b with
      | some x, some y =>
        match XV.Model.Duration.parseDuration true x, XV.Model.Duration.parseDuration true y with
        | some l, some r => s!"cmp {XV.Model.Duration.compareDur l r true}"
        | _, _ => "exc"
      | _, _ => "bad-op"
  | ["DT", k, s] => match kindOf k, parseHexList s with   -- repaired model (24:00:00 rolled over)
      | some k, some u => match XV.Model.DateTime.parseK true k u with
        | some d => s!"ok {d.year} {d.month} {d.day} {d.hour} {d.minute} {d.second}"
        | none => "exc"
      | _, _ => "bad-op"
  | ["DTO", k, s] => match kindOf k, parseHexList s with  -- the code as it stands
      | some k, some u => match XV.Model.DateTime.parseK false k u with
        | some d => s!"ok {d.year} {d.month} {d.day} {d.hour} {d.minute} {d.second}"
        | none => "exc"
      | _, _ => "bad-op"
  | ["DTK", k, a, b] => match kindOf k, parseHexList a, parseHexList b with
      | some k, some x, some y =>
        match XV.Model.DateTime.parseK true k x, XV.Model.DateTime.parseK true k y with
        | some l, some r => s!"cmp {XV.Model.DateTime.compare true l r}"
        | _, _ => "exc"
      | _, _, _ => "bad-op"
  | ["DTKO", k, a, b] => match kindOf k, parseHexList a, parseHexList b with
      | some k, some x, some y =>
        match XV.Model.DateTime.parseK false k x, XV.Model.DateTime.parseK false k y with
        | some l, some r => s!"cmp {XV.Model.DateTime.compare false l r}"
        | _, _ => "exc"
      | _, _, _ => "bad-op"
  | ["BE", s] => match parseHexList s with
      | some u => match XV.Model.Codec.encode u with
        | some e => s!"enc {hexList e}"
        | none => "null"
      | none => "bad-op"
  | _ => "bad-op"

/-- Spec oracle: judges observations independently of the model.
  `SD <s>`       decimal:  `lex 0|1 [val <mantissa> <scale>]`   (on the trimmed string)
  `SI <s>`       integer:  `lex 0|1 [val <int>]`
  `SK <s> <s>`   order of two decimal lexical forms: `-1|0|1|na`
  `SC <s>`       is canonical decimal form: `0|1`
  `SH <s>`       hexBinary: `lex 0|1 [val <bytes>]`
  `SB <s>`       base64Binary (E2-54, already collapsed): `lex 0|1`
  `SE <bytes>`   canonical hex and base64 of an octet string: `<hex> <b64>`
  `SW <r|c> <s>` whiteSpace replace / collapse: `<s>`
  `SBo <s>`      boolean: `lex 0|1 [val <b> can <s>]`
  `ST <kind> <s>` date/time: `lex 0|1 [val <seconds> <fraction digits> <zoned>]`
  `STK <kind> <s> <s>` §3.2.7.4 order: `-1|0|1|2|na` -/
def handleSpec (line : String) : String :=
  open XV.Spec.Decimal in
  match words line with
  | ["SD", s] => match parseHexList s with
      | some u =>
        let t := trimWs (toChars u)
        if isDecimalLex t then let v := val t; s!"lex 1 val {v.1} {v.2}" else "lex 0"
      | none => "bad-op"
  | ["SI", s] => match parseHexList s with
      | some u =>
        let t := trimWs (toChars u)
        if isIntegerLex t then s!"lex 1 val {intVal t}" else "lex 0"
      | none => "bad-op"
  | ["SK", a, b] => match parseHexList a, parseHexList b with
      | some x, some y =>
        let tx := trimWs (toChars x); let ty := trimWs (toChars y)
        if isDecimalLex tx && isDecimalLex ty then ordStr (cmpSpec (val tx) (val ty)) else "na"
      | _, _ => "bad-op"
  | ["SC", s] => match parseHexList s with
      | some u => if isCanonicalDecimal (toChars u) then "1" else "0"
      | none => "bad-op"
  | ["SH", s] => match parseHexList s with
      | some u => if XV.Spec.Codec.isHexLex u then s!"lex 1 val {optHex (XV.Spec.Codec.hexValue u)}" else "lex 0"
      | none => "bad-op"
  | ["SB", s] => match parseHexList s with
      | some u => if XV.Spec.Codec.isBase64Lex u then "lex 1" else "lex 0"
      | none => "bad-op"
  | ["SW", m, s] => match parseHexList s with     -- whiteSpace facet: r = replace, c = collapse
      | some u =>
        if m == "r" then hexList (XV.Spec.Ws.replaceSpec u) else hexList (XV.Spec.Ws.collapseSpec u)
      | none => "bad-op"
  | ["SBo", s] => match parseHexList s with       -- boolean: lexical? value
      | some u => match XV.Spec.Ws.boolLex u with
        | some b => s!"lex 1 val {b} can {hexList (XV.Spec.Ws.boolCanon b)}"
        | none => "lex 0"
      | none => "bad-op"
  | ["ST", "duration", s] => match parseHexList s with      -- duration: lexical? months seconds fraction
      | some u => match XV.Spec.Duration.parse u with
        | some d =>
          let fr := (d.frac.reverse.dropWhile (· == 0)).reverse
          s!"lex 1 val {XV.Spec.Duration.monthsOf d} {XV.Spec.Duration.secondsOf d} {hexList fr}"
        | none => "lex 0"
      | none => "bad-op"
  | ["STK", "duration", a, b] => match parseHexList a, parseHexList b with
      | some x, some y =>
        match XV.Spec.Duration.parse x, XV.Spec.Duration.parse y with
        | some l, some r => match XV.Spec.Duration.durOrder l r with
          | .lt => "-1" | .eq => "0" | .gt => "1" | .indeterminate => "2"
        | _, _ => "na"
      | _, _ => "bad-op"
  | ["ST", k, s] => match kindOf k, parseHexList s with   -- date/time: lexical+valid? instant, fraction digits, zoned
      | some k, some u => match XV.Spec.DateTime.parse k u with
        | some r =>
          if XV.Spec.DateTime.valid r then
            let fr := (r.frac.reverse.dropWhile (· == 0)).reverse
            s!"lex 1 val {XV.Spec.DateTime.instant k r} {hexList fr} {if XV.Spec.DateTime.zoned r.tz then 1 else 0}"
          else "lex 0 fields"
        | none => "lex 0"
      | _, _ => "bad-op"
  | ["STK", k, a, b] => match kindOf k, parseHexList a, parseHexList b with
      | some k, some x, some y =>
        match XV.Spec.DateTime.parse k x, XV.Spec.DateTime.parse k y with
        | some l, some r =>
          if XV.Spec.DateTime.valid l && XV.Spec.DateTime.valid r then
            match XV.Spec.DateTime.specOrder k l r with
            | .lt => "-1" | .eq => "0" | .gt => "1" | .indeterminate => "2"
          else "na"
        | _, _ => "na"
      | _, _, _ => "bad-op"
  | ["SE", s] => match parseHexList s with
      | some u => s!"{hexList (XV.Spec.Codec.hexEncode u)} {hexList (XV.Spec.Codec.b64Encode u)}"
      | none => "bad-op"
  | _ => "bad-op"

end XV.Driver.Dt
