/- C10 driver: identity constraints.  One case line in, one observation line out.

   I <nIC> {<u|k|r> <id> <ns>.<loc> <refer|-> <xpath> <nFields> {<xpath>}} T <node>
       -> "spec=valid|invalid:<id>:<XMLValid name>,…  model=<code*count,…|->"
          spec  = XV.Spec.Identity.icCheck (the judge), sorted, without repetitions
          model = XV.Model.Identity.icRun (code-shaped handler), multiset of XMLValid codes, ascending
   X <xpath> T <node>
       -> "m=<per element in document order: fMatched of every location path joined by '/'>.…  v=<matched() calls>
           | hits=<Spec: elements / attributes the xpath selects from the root of the tree as context>"
          a matched() call / a hit is "<element id>" or the attribute's value (the generator makes it "<id>@<ns>:<loc>")
   node  := E <ns>.<loc> <flags: 1 nillable, 2 nil> <nattrs> {<ns>.<loc> <val>} <val|-> <nkids> {node}
   val   := <s|t|i|d|D|Q>:<hex code points, '.'-separated, may be empty>[:<ns>]
   xpath := path{+path}   path := step{/step}   step := S | D | C<test> | A<test>   test := * | N<ns> | Q<ns>.<loc>
-/
import XV.Driver.Util
import XV.Spec.Identity
import XV.Model.Identity
namespace XV.Driver.Identity
open XV.Driver XV.Spec.Identity XV.Model.Identity

def parseQName (s : String) : Option QName :=
  match s.splitOn "." with
  | [a, b] => match a.toNat?, b.toNat? with
              | some x, some y => some ⟨x, y⟩
              | _, _ => none
  | _ => none

def parseTest (s : String) : Option NameTest :=
  if s == "*" then some .any
  else if s.startsWith "N" then ((s.drop 1).toString.toNat?).map .ns
  else if s.startsWith "Q" then (parseQName (s.drop 1).toString).map .name
  else none

def parseStep (s : String) : Option Step :=
  if s == "S" then some .self
  else if s == "D" then some .desc
  else if s.startsWith "C" then (parseTest (s.drop 1).toString).map .child
  else if s.startsWith "A" then (parseTest (s.drop 1).toString).map .attr
  else none

def parseXPath (s : String) : Option XPath :=
  (s.splitOn "+").mapM fun p => (p.splitOn "/").mapM parseStep

def parseTy (s : String) : Option Ty :=
  match s with
  | "s" => some .string | "t" => some .token | "i" => some .integer | "d" => some .decimal
  | "D" => some .date | "Q" => some .qname | _ => none

def parseTV (s : String) : Option TV :=
  match s.splitOn ":" with
  | [t, h] => match parseTy t, parseHexList h with
              | some ty, some l => some { ty := ty, lex := l }
              | _, _ => none
  | [t, h, n] => match parseTy t, parseHexList h, n.toNat? with
                 | some ty, some l, some ns => some { ty := ty, lex := l, ns := ns }
                 | _, _, _ => none
  | _ => none

def parseAttrs : Nat → List String → Option (List (QName × TV) × List String)
  | 0, ts => some ([], ts)
  | n + 1, a :: v :: ts =>
    match parseQName a, parseTV v, parseAttrs n ts with
    | some q, some tv, some (rest, ts') => some ((q, tv) :: rest, ts')
    | _, _, _ => none
  | _, _ => none

mutual
/-- ids are assigned in document order from `next` -/
partial def parseNode (next : Nat) : List String → Option (Node × Nat × List String)
  | "E" :: nm :: fl :: na :: ts =>
    match parseQName nm, fl.toNat?, na.toNat? with
    | some q, some flags, some nattrs =>
      match parseAttrs nattrs ts with
      | some (attrs, tx :: nk :: ts1) =>
        let text := if tx == "-" then some none else (parseTV tx).map some
        match text, nk.toNat? with
        | some text, some nkids =>
          match parseKids nkids (next + 1) ts1 with
          | some (kids, next', ts2) =>
            some (.mk next q (flags % 2 == 1) (flags / 2 % 2 == 1) attrs text kids, next', ts2)
          | none => none
        | _, _ => none
      | _ => none
    | _, _, _ => none
  | _ => none
partial def parseKids : Nat → Nat → List String → Option (List Node × Nat × List String)
  | 0, next, ts => some ([], next, ts)
  | n + 1, next, ts =>
    match parseNode next ts with
    | some (k, next1, ts1) =>
      match parseKids n next1 ts1 with
      | some (ks, next2, ts2) => some (k :: ks, next2, ts2)
      | none => none
    | none => none
end

def parseXPaths : Nat → List String → Option (List XPath × List String)
  | 0, ts => some ([], ts)
  | n + 1, x :: ts =>
    match parseXPath x, parseXPaths n ts with
    | some xp, some (rest, ts') => some (xp :: rest, ts')
    | _, _ => none
  | _, _ => none

def parseICs : Nat → List String → Option (List IC × List String)
  | 0, ts => some ([], ts)
  | n + 1, k :: id :: sc :: rf :: sel :: nf :: ts =>
    match id.toNat?, parseQName sc, parseXPath sel, nf.toNat? with
    | some i, some scope, some selx, some nfields =>
      let kind : Option Kind :=
        if k == "u" then some .unique else if k == "k" then some .key
        else if k == "r" then (rf.toNat?).map .keyref else none
      match kind, parseXPaths nfields ts with
      | some kd, some (fields, ts1) =>
        match parseICs n ts1 with
        | some (rest, ts2) => some ({ id := i, kind := kd, scope := scope, sel := selx, fields := fields } :: rest, ts2)
        | none => none
      | _, _ => none
    | _, _, _, _ => none
  | _, _ => none

def codeName (c : Nat) : String :=
  match XV.Gen.ValidityCodes.codes.find? fun p => p.2 == c with
  | some p => p.1
  | none => s!"code{c}"

def insertSorted (x : Nat × Nat) : List (Nat × Nat) → List (Nat × Nat)
  | [] => [x]
  | y :: r => if x == y then y :: r
              else if x.1 < y.1 || (x.1 == y.1 && x.2 < y.2) then x :: y :: r else y :: insertSorted x r

def countCodes (l : List Nat) : List (Nat × Nat) :=
  let mx := l.foldl max 0
  (List.range (mx + 1)).filterMap fun c => let n := l.count c; if n > 0 then some (c, n) else none

def showSpec (v : List (Nat × Nat)) : String :=
  if v.isEmpty then "valid" else
  "invalid:" ++ ",".intercalate ((v.foldl (fun acc x => insertSorted x acc) []).map fun p => s!"{p.1}:{codeName p.2}")

def showModel (l : List Nat) : String :=
  if l.isEmpty then "-" else ",".intercalate ((countCodes l).map fun p => s!"{p.1}*{p.2}")

def lexStr (l : List Nat) : String := String.ofList (l.map Char.ofNat)

def handleI (ts : List String) : String :=
  match ts with
  | n :: ts =>
    match n.toNat? with
    | some nic =>
      match parseICs nic ts with
      | some (cs, "T" :: ts1) =>
        match parseNode 0 ts1 with
        | some (root, _, []) => s!"spec={showSpec (icCheck cs root)} model={showModel (icRun cs root)}"
        | _ => "bad-op"
      | _ => "bad-op"
    | none => "bad-op"
  | _ => "bad-op"

def handleX (ts : List String) : String :=
  match ts with
  | x :: "T" :: ts1 =>
    match parseXPath x, parseNode 0 ts1 with
    | some xp, some (root, _, []) =>
      let (flags, calls) := drive xp root
      let m := ".".intercalate (flags.map fun f => "/".intercalate (f.map fun s => toString s.matched))
      let v := calls.map fun c => match c.2 with | some tv => lexStr tv.lex | none => toString c.1
      let hits := root.descs.flatMap fun p =>
        (if xpathMatches xp p.1 none then [toString p.2.id] else []) ++
        ((p.2.attrs.filter fun a => xpathMatches xp p.1 (some a.1)).map fun a => lexStr a.2.lex)
      let sh (l : List String) := if l.isEmpty then "-" else ",".intercalate l
      s!"m={m} v={sh v} | hits={sh hits}"
    | _, _ => "bad-op"
  | _ => "bad-op"

def handle (line : String) : String :=
  match words line with
  | "I" :: ts => handleI ts
  | "X" :: ts => handleX ts
  | _ => "bad-op"

end XV.Driver.Identity
