/-
Line protocol of the C14 correspondence (model side).  It extends the C13 protocol (XV.Driver.Dom: same handles, same
operation lines, same structural dump) with operations on live views; view handles are numbered per kind in creation order.

  reset <ndocs> | lmode 0|1   (1: every live tag-name list is queried and dumped after every operation)
  <any C13 operation line>
  ni root whatToShow filter | nn k | np k | nd k                          NodeIterator: create / nextNode / previousNode / detach
  tw root whatToShow filter | wp wf wl wps wns wpn wnn k | wsc k node     TreeWalker: create / parentNode firstChild lastChild
                                                                          previousSibling nextSibling previousNode nextNode / setCurrentNode
  gl root tag | ll k | li k i | lq k                                      getElementsByTagName / getLength / item / length + all items
  rc doc | rss k n off | rse k n off | rsb rsa reb rea k n | rco k 0|1    Range: create / setStart / setEnd / set{Start,End}{Before,After} / collapse
  rsn k n | rsc k n | rcb k how other | rts k                             selectNode / selectNodeContents / compareBoundaryPoints / toString
  rdc k | rex k | rcl k | rin k n | rsu k n | rdt k                       deleteContents / extractContents / cloneContents / insertNode /
                                                                          surroundContents / detach
Every input line yields one output line `<result> | <C13 dump> # <views>` (full) or `<result> <digest>` (digest mode).
Nodes created inside a range operation are renumbered into the order in which the harness discovers them (pre-order with
attributes from the returned node, then from the parentless old handles in increasing order).
-/
import XV.Driver.Dom
import XV.Model.Views
namespace XV.Driver.Views
open XV.Driver XV.Model.Dom XV.Model.Views

structure St where
  v : VState
  cfg : Cfg
  lmode : Bool := false

def rexcName : RExc → String
  | .invalidState => "INVALID_STATE_ERR" | .indexSize => "INDEX_SIZE_ERR" | .wrongDocument => "WRONG_DOCUMENT_ERR"
  | .invalidNodeType => "INVALID_NODE_TYPE_ERR" | .badBoundaryPoints => "BAD_BOUNDARYPOINTS_ERR"
  | .hierarchy => "HIERARCHY_REQUEST_ERR" | .noModification => "NO_MODIFICATION_ALLOWED_ERR" | .notFound => "NOT_FOUND_ERR"

def optN : Option NodeId → String
  | some n => s!"n{n}"
  | none => "-"

def showVRes : VRes → String
  | .dom r => XV.Driver.Dom.showRes r
  | .node n => "ok " ++ optN n
  | .view c k => s!"ok {c}{k}"
  | .num i => s!"ok #{i}"
  | .str l => "ok s" ++ hexList l
  | .items n l => s!"ok #{n}:" ++ ",".intercalate (l.map optN)
  | .exc e => "exc " ++ e.name
  | .rexc e => "exc " ++ rexcName e
  | .ok => "ok -"
  | .dead => "dead"
  | .mismatch => "mismatch"
  | .crash => "CRASH"

-- ------------------------------------------------------------------ renumbering of nodes created by range operations

/-- pre-order with attributes (each attribute with its children) before the children -/
def preA (s : Store) : Nat → NodeId → List NodeId
  | 0, x => [x]
  | f + 1, x =>
    match s.get x with
    | none => []
    | some r => x :: (r.attrs.flatMap (preA s f)) ++ (r.children.flatMap (preA s f))

def discover (s : Store) (n0 : Nat) (ret : Option NodeId) : List NodeId :=
  let first := match ret with
    | some r => if r ≥ n0 then [r] else []
    | none => []
  let roots := first ++ (List.range n0).filter fun i => match s.get i with
    | some r => r.parent.isNone && r.ownerElem.isNone
    | none => false
  ((roots.flatMap (preA s (s.size + 1))).filter (· ≥ n0)).eraseDups

def renameId (n0 : Nat) (d : List NodeId) (x : NodeId) : NodeId :=
  if x < n0 then x else n0 + d.idxOf x

def renameRec (ρ : NodeId → NodeId) (r : NodeRec) : NodeRec :=
  { r with parent := r.parent.map ρ, children := r.children.map ρ, attrs := r.attrs.map ρ,
           ownerElem := r.ownerElem.map ρ, owner := ρ r.owner }

/-- keep the old part of the store, then the discovered new nodes in discovery order; undiscovered new nodes (unreachable
helper nodes) are dropped -/
def renumber (v : VState) (n0 : Nat) (ret : Option NodeId) : VState × (NodeId → NodeId) :=
  let s := v.store
  if s.size ≤ n0 then (v, id) else
  let d := discover s n0 ret
  let ρ := renameId n0 d
  let oldPart := (s.nodes.toList.take n0).map (fun o => o.map (renameRec ρ))
  let newPart := d.map (fun x => (s.get x).map (renameRec ρ))
  let s' : Store := ⟨(oldPart ++ newPart).toArray⟩
  ({ v with
     store := s'
     iters := v.iters.map fun it => { it with root := ρ it.root, cur := it.cur.map ρ }
     walkers := v.walkers.map fun w => { w with root := ρ w.root, cur := ρ w.cur }
     lists := v.lists.map fun l => { l with root := ρ l.root, cur := l.cur.map ρ }
     ranges := v.ranges.map fun r => { r with sc := ρ r.sc, ec := ρ r.ec } }, ρ)

def renameRes (ρ : NodeId → NodeId) : VRes → VRes
  | .node n => .node (n.map ρ)
  | r => r

-- ------------------------------------------------------------------ dump of the views

def viewsDump (st : St) : St × String :=
  let v := st.v
  let s := v.store
  let its := v.iters.zipIdx.map fun (it, k) =>
    s!"I{k}=" ++ (if (s.get it.root).isNone then "x" else if it.detached then "d" else "a")
  let wks := v.walkers.zipIdx.map fun (w, k) =>
    s!"W{k}=" ++ (if !w.alive s then "x" else toString w.cur)
  let rgs := v.ranges.zipIdx.map fun (r, k) =>
    s!"R{k}=" ++ (if r.detached then "d" else if !r.alive s then "x" else
      s!"{r.sc},{r.so},{r.ec},{r.eo}," ++ (if r.collapsed then "1" else "0"))
  -- lists: queried (length, then every item) only in lmode 1; the queries move the caches
  let (v', lss) :=
    if st.lmode then
      (List.range v.lists.length).foldl (fun (acc : VState × List String) k =>
        match acc.1.lists[k]? with
        | none => acc
        | some dl =>
          if !dl.alive acc.1.store then (acc.1, acc.2 ++ [s!"L{k}=x"]) else
          match vop st.cfg acc.1 (.listAll k) with
          | (v2, .items n l) => (v2, acc.2 ++ [s!"L{k}={n}:" ++ ",".intercalate (l.map optN)])
          | (v2, _) => (v2, acc.2 ++ [s!"L{k}=?"])) (v, [])
    else (v, v.lists.zipIdx.map fun (dl, k) => s!"L{k}=" ++ (if dl.alive s then "a" else "x"))
  ({ st with v := v' }, " ".intercalate (its ++ wks ++ lss ++ rgs))

-- ------------------------------------------------------------------ parsing

def pNat (s : String) : Option Nat := s.toNat?

def parseVOp (ws : List String) : Option VOp :=
  match ws with
  | ["ni", r, w, f] => do pure (.mkIter (← pNat r) (← pNat w) (← pNat f))
  | ["nn", k] => do pure (.iterNext (← pNat k))
  | ["np", k] => do pure (.iterPrev (← pNat k))
  | ["nd", k] => do pure (.iterDetach (← pNat k))
  | ["tw", r, w, f] => do pure (.mkWalker (← pNat r) (← pNat w) (← pNat f))
  | ["wp", k] => do pure (.walk (← pNat k) 0)
  | ["wf", k] => do pure (.walk (← pNat k) 1)
  | ["wl", k] => do pure (.walk (← pNat k) 2)
  | ["wps", k] => do pure (.walk (← pNat k) 3)
  | ["wns", k] => do pure (.walk (← pNat k) 4)
  | ["wpn", k] => do pure (.walk (← pNat k) 5)
  | ["wnn", k] => do pure (.walk (← pNat k) 6)
  | ["wsc", k, n] => do pure (.wSet (← pNat k) (← pNat n))
  | ["gl", r, t] => do pure (.mkList (← pNat r) (← parseHexList t))
  | ["ll", k] => do pure (.listLen (← pNat k))
  | ["li", k, i] => do pure (.listItem (← pNat k) (← pNat i))
  | ["lq", k] => do pure (.listAll (← pNat k))
  | ["rc", d] => do pure (.mkRange (← pNat d))
  | ["rss", k, n, o] => do pure (.rSetStart (← pNat k) (← pNat n) (← pNat o))
  | ["rse", k, n, o] => do pure (.rSetEnd (← pNat k) (← pNat n) (← pNat o))
  | ["rsb", k, n] => do pure (.rSetRel (← pNat k) 0 (← pNat n))
  | ["rsa", k, n] => do pure (.rSetRel (← pNat k) 1 (← pNat n))
  | ["reb", k, n] => do pure (.rSetRel (← pNat k) 2 (← pNat n))
  | ["rea", k, n] => do pure (.rSetRel (← pNat k) 3 (← pNat n))
  | ["rco", k, b] => do pure (.rCollapse (← pNat k) ((← pNat b) == 1))
  | ["rsn", k, n] => do pure (.rSelNode (← pNat k) (← pNat n))
  | ["rsc", k, n] => do pure (.rSelContents (← pNat k) (← pNat n))
  | ["rcb", k, h, o] => do pure (.rCompare (← pNat k) (← pNat h) (← pNat o))
  | ["rts", k] => do pure (.rToString (← pNat k))
  | ["rdc", k] => do pure (.rDelete (← pNat k))
  | ["rex", k] => do pure (.rExtract (← pNat k))
  | ["rcl", k] => do pure (.rClone (← pNat k))
  | ["rin", k, n] => do pure (.rInsert (← pNat k) (← pNat n))
  | ["rsu", k, n] => do pure (.rSurround (← pNat k) (← pNat n))
  | ["rdt", k] => do pure (.rDetach (← pNat k))
  | _ => (XV.Driver.Dom.parseOp ws).map VOp.dom

def needsRenumber : VOp → Bool
  | .rExtract _ | .rClone _ | .rInsert .. | .rSurround .. => true
  | _ => false

def out (mode : Nat) (st : St) (res : String) : St × String :=
  let d := XV.Driver.Dom.dump st.v.store
  let (st', vd) := viewsDump st
  let all := d ++ " # " ++ vd
  (st', if mode == 1 then res ++ " | " ++ all
        else if mode == 2 then res ++ " " ++ XV.Driver.Dom.hex64 (XV.Driver.Dom.fnv all) ++ " | " ++ all
        else res ++ " " ++ XV.Driver.Dom.hex64 (XV.Driver.Dom.fnv all))

def fresh (cfg : Cfg) (k : Nat) : St := { v := { store := init k }, cfg := cfg }

def handle (mode : Nat) (st : St) (line : String) : St × String :=
  match words line with
  | ["reset", k] => match k.toNat? with
    | some k => out mode (fresh st.cfg k) "ok -"
    | none => (st, "bad-op")
  | ["lmode", b] => out mode { st with lmode := b == "1" } "ok -"
  | ws =>
    if st.v.crashed then (st, "abandoned") else
    match parseVOp ws with
    | none => (st, "bad-op")
    | some op =>
      let n0 := st.v.store.size
      let (v1, r) := vop st.cfg st.v op
      if v1.crashed then ({ st with v := v1 }, "CRASH") else
      let (v2, r2) := if needsRenumber op then
          let ret := match r with
            | .node n => n
            | _ => none
          let (v2, ρ) := renumber v1 n0 ret
          (v2, renameRes ρ r)
        else (v1, r)
      out mode { st with v := v2 } (showVRes r2)

partial def loopFlush (h : IO.FS.Stream) (o : IO.FS.Stream) (mode : Nat) (st : St) : IO Unit := do
  let line ← h.getLine
  if line.isEmpty then return ()
  let l := line.trimAscii.toString
  if l.isEmpty then loopFlush h o mode st else
  let (st', r) := handle mode st l
  o.putStrLn r
  o.flush
  loopFlush h o mode st'

/-- The model that mirrors the code AS IT IS in the tree: seven of the nine deviations found were repaired in the code
(so the model takes the standard's behaviour for them), two are pinned by the test-suite of the code and stay
(DOMTraversalTest: the filter is consulted for nodes hidden by whatToShow; RangeTest: the offsets after insertNode's
splitText), so the code-shaped model takes the behaviour of the code for them; a third one found later (splitText of a
parentless node moves boundary points into the unlinked new node) and a fourth (insertNode splits the text before
insertBefore refuses the node) are mirrored as long as the code has them.  Areas `views`,
`viewsfull`, `viewsgen`. -/
def cfgCode : Cfg :=
  { whatToShowFirst := false, splitKeepsAfter := false, splitDetachedStays := true, insertNodeChecksFirst := true }

/-- The rule of the specifications everywhere (`{}`): areas `viewsspec`, `viewsspecfull`.  A history on which the
implementation differs from this model is handed to the specification judge. -/
def cfgSpec : Cfg := {}

/-- the code as it was before the seven repairs (kept for the examples in Props/C14 and for replaying old histories) -/
def cfgAsIs : Cfg :=
  { iterNullGuard := false, insertedTextAdvance := false, whatToShowFirst := false, prevNodeDeepest := false,
    selectNodeParent := false, toStringDataOnly := false, splitKeepsAfter := false, renameInvalidates := false,
    contentDeletesData := false, splitDetachedStays := false,
    insertNodeChecksFirst := false }

end XV.Driver.Views
