/-
C05 — transcoders decode/encode exactly.  Property theorems only; helper lemmas live in XV.Lemmas.*.
Model: XV.Model.Utf8 (code-shaped XMLUTF8Transcoder, tables regenerated from the source).
Spec:  XV.Spec.Utf8  (Unicode Tables 3-6 / 3-7, D91).
-/
import XV.Lemmas.Utf8
import XV.Lemmas.ByteCodec2
import XV.Lemmas.Recognizer
import XV.Lemmas.Ascii
import XV.Lemmas.AsciiReader
import XV.Lemmas.ByteTableWin1252
import XV.Lemmas.ByteTableEbcdic037
import XV.Lemmas.ByteTableIbm1047
import XV.Lemmas.ByteTableIbm1140
namespace XV.Props.C05
open XV.Model.Utf8 XV.Spec.Utf8 XV.Lemmas.Utf8

/-- The generated tables say, for every byte, what Table 3-7 needs them to say. -/
theorem utf8_tables_spec :
    (∀ b, b < 256 → tb b = tbSpec b) ∧
    (∀ b, b < 256 → ((indTest (tb b) &&& b) != ind (tb b)) = decide ((0x80 ≤ b ∧ b < 0xC2) ∨ 0xFE ≤ b)) ∧
    (∀ b, b < 256 → trailBad b = !(cont b)) ∧
    (off 1 = 0x3080 ∧ off 2 = 0xE2080 ∧ off 3 = 0x3C82080) ∧
    (firstMark 1 = 0 ∧ firstMark 2 = 0xC0 ∧ firstMark 3 = 0xE0 ∧ firstMark 4 = 0xF0) :=
  ⟨tb_spec, first_ok, trailBad_spec, off_vals, firstMark_vals⟩

/-- Spec consistency: Table 3-7 sequences are exactly the Table 3-6 encodings of scalar values. -/
theorem table37_iff_table36 (w : List Nat) :
    wellFormed w = true ↔ ∃ s, isScalar s ∧ w = encode s := by
  constructor
  · intro h
    obtain ⟨he, hs⟩ := wf_encode_value w h
    exact ⟨value w, hs, he.symm⟩
  · rintro ⟨s, hs, rfl⟩
    exact (scalar_wf_encode s hs).1

/-- One loop body: every well-formed multi-byte sequence decodes to its code point. -/
theorem utf8_step_complete (w rest : List Nat) (hw : wellFormed w = true) (h2 : 2 ≤ w.length) :
    decodeStep (w ++ rest) = .val (value w) w.length :=
  decodeStep_complete w rest hw h2

/-- One loop body never yields a value ≤ U+10FFFF for anything but a Table 3-7 sequence:
overlong forms, surrogates, stray/missing continuation bytes, 5/6-byte forms are all rejected. -/
theorem utf8_step_sound (bs : List Nat) (hb : AllBytes bs) (v n : Nat) (h : decodeStep bs = .val v n) :
    n ≤ bs.length ∧ 2 ≤ n ∧
      ((wellFormed (bs.take n) = true ∧ v = value (bs.take n) ∧ v ≤ 0x10FFFF) ∨ 0x10FFFF < v) :=
  decodeStep_sound bs hb v n h

/-- Whatever `transcodeFrom` returns normally is the UTF-16 form of a string of scalar values whose
UTF-8 encoding is exactly the consumed prefix: nothing ill-formed is ever decoded or skipped. -/
theorem utf8_decode_sound (src : List Nat) (hb : AllBytes src) (m : Nat) (c sz : List Nat) (e : Nat)
    (h : transcodeFrom src m = .ok c sz e) :
    ∃ ss rest, Scalars ss ∧ src = encodeAll ss ++ rest ∧ e = (encodeAll ss).length ∧ c = utf16All ss := by
  obtain ⟨ss, rest, h1, h2, h3, h4⟩ := fromLoop_sound _ _ _ _ _ _ _ _ _ hb h
  exact ⟨ss, rest, h1, h2, by simpa using h3, by simpa using h4⟩

/-- Every legal byte sequence is decoded completely and exactly (given room for the output). -/
theorem utf8_decode_complete (ss : List Nat) (hs : Scalars ss) (m : Nat) (hm : (utf16All ss).length ≤ m) :
    ∃ sz, transcodeFrom (encodeAll ss) m = .ok (utf16All ss) sz (encodeAll ss).length := by
  obtain ⟨sz, h⟩ := fromLoop_complete ss (encodeAll ss).length m [] [] 0 hs (Nat.le_refl _) hm
  exact ⟨sz, by simpa [transcodeFrom] using h⟩

/-- An exception is raised only for input that is not the encoding of a scalar string. -/
theorem utf8_exc_only_illformed (src : List Nat) (m : Nat) (e : Exc) (h : transcodeFrom src m = .exc e) :
    ¬ ∃ ss, Scalars ss ∧ src = encodeAll ss ∧ (utf16All ss).length ≤ m := by
  rintro ⟨ss, hs, rfl, hm⟩
  obtain ⟨sz, h'⟩ := utf8_decode_complete ss hs m hm
  rw [h'] at h; cases h

/-- Encoding yields exactly the legal byte sequence. -/
theorem utf8_encode_exact (thr : Bool) (ss : List Nat) (hs : Scalars ss) (room : Nat)
    (hr : (encodeAll ss).length ≤ room) (hne : utf16All ss ≠ []) (hroom : room ≠ 0) :
    transcodeTo (utf16All ss) room thr = .ok (encodeAll ss) (utf16All ss).length := by
  unfold transcodeTo
  have : ¬ (utf16All ss = [] ∨ room = 0) := by simp [hne, hroom]
  simp only [this, if_false]
  have := toLoop_complete thr ss (utf16All ss).length room [] 0 hs (Nat.le_refl _) hr
  simpa using this

/-- decode ∘ encode = id on every scalar string. -/
theorem utf8_roundtrip (thr : Bool) (ss : List Nat) (hs : Scalars ss) (room m : Nat)
    (hr : (encodeAll ss).length ≤ room) (hne : utf16All ss ≠ []) (hroom : room ≠ 0)
    (hm : (utf16All ss).length ≤ m) :
    ∃ bytes n sz, transcodeTo (utf16All ss) room thr = .ok bytes n ∧
      transcodeFrom bytes m = .ok (utf16All ss) sz bytes.length := by
  obtain ⟨sz, h⟩ := utf8_decode_complete ss hs m hm
  exact ⟨encodeAll ss, _, sz, utf8_encode_exact thr ss hs room hr hne hroom, h⟩

/-! ### single-byte code pages (Windows-1252, IBM037, IBM1047, IBM1140): generated tables -/
section ByteTables
open XV.Model.ByteCodec XV.Gen.ByteTables XV.Lemmas.ByteCodec

theorem all_eq : all = [tblWin1252, tblEbcdic037, tblIbm1047, tblIbm1140] := rfl

/-- shape facts of the generated tables: declared size = real size, keys strictly increasing (the
precondition of the binary search), first record (0,0), no undefined byte. -/
theorem bytetables_wellformed : ∀ t ∈ all,
    t.declaredToSize = t.toTable.length ∧ t.fromTable.length = 256 ∧ 0 < t.toTable.length ∧
    strictSorted (t.toTable.map (·.1)) = true ∧ t.toTable.getD 0 (1, 1) = (0, 0) ∧
    (∀ b, b < 256 → t.fromTable.getD b 0xFFFF ≠ 0xFFFF) := by
  intro t ht
  rw [all_eq] at ht
  simp only [List.mem_cons, List.mem_nil_iff, or_false] at ht
  rcases ht with rfl | rfl | rfl | rfl
  · exact XV.Lemmas.ByteTableWin1252.wellformed
  · exact XV.Lemmas.ByteTableEbcdic037.wellformed
  · exact XV.Lemmas.ByteTableIbm1047.wellformed
  · exact XV.Lemmas.ByteTableIbm1140.wellformed

/-- the do/while binary search of `xlatOneTo` is a dictionary lookup on every shipped table, for every unit -/
theorem xlatOneTo_is_lookup : ∀ t ∈ all, ∀ c, xlatOneTo t c = lookup t.toTable c := by
  intro t ht c
  obtain ⟨h1, _, h3, h4, h5, _⟩ := bytetables_wellformed t ht
  exact xlatOneTo_eq_lookup t h4 h1 h3 h5 c

/-- decode ∘ encode ∘ decode = decode for every byte of every table (the from/to tables are mutually
inverse up to bytes that decode to the same character) -/
theorem bytetables_roundtrip : ∀ t ∈ all, ∀ b, b < 256 →
    t.fromTable.getD (lookup t.toTable (t.fromTable.getD b 0xFFFF)) 0xFFFF = t.fromTable.getD b 0xFFFF := by
  intro t ht
  rw [all_eq] at ht
  simp only [List.mem_cons, List.mem_nil_iff, or_false] at ht
  rcases ht with rfl | rfl | rfl | rfl
  · exact XV.Lemmas.ByteTableWin1252.roundtrip
  · exact XV.Lemmas.ByteTableEbcdic037.roundtrip
  · exact XV.Lemmas.ByteTableIbm1047.roundtrip
  · exact XV.Lemmas.ByteTableIbm1140.roundtrip

/-- every to-record whose character is decodable at all maps it to a byte that decodes back to it -/
theorem bytetables_to_consistent : ∀ t ∈ all, ∀ p ∈ t.toTable,
    p.2 < 256 ∧ p.1 < 65536 ∧ (p.1 ∈ t.fromTable → t.fromTable.getD p.2 0xFFFF = p.1) := by
  intro t ht
  rw [all_eq] at ht
  simp only [List.mem_cons, List.mem_nil_iff, or_false] at ht
  rcases ht with rfl | rfl | rfl | rfl
  · exact XV.Lemmas.ByteTableWin1252.to_consistent
  · exact XV.Lemmas.ByteTableEbcdic037.to_consistent
  · exact XV.Lemmas.ByteTableIbm1047.to_consistent
  · exact XV.Lemmas.ByteTableIbm1140.to_consistent
end ByteTables

/-! ### fixed-width encodings -/
section Fixed
open XV.Model.ByteCodec XV.Lemmas.ByteCodec

theorem utf16_roundtrip (be : Bool) (us : List Nat) (h : ∀ u ∈ us, u < 65536) (m mb : Nat)
    (hm : us.length ≤ m) (hmb : 2 * us.length ≤ mb) :
    utf16To be us mb = .ok (us.flatMap (bytes16 be)) [] us.length ∧
    utf16From be (us.flatMap (bytes16 be)) m = .ok us (List.replicate us.length 2) (2 * us.length) :=
  XV.Lemmas.ByteCodec.utf16_roundtrip be us h m mb hm hmb

theorem ucs4_decode_exact (be : Bool) (ss : List Nat) (hs : Scalars ss) (m : Nat) (hm : (utf16All ss).length ≤ m) :
    ∃ sz, ucs4From be (ss.flatMap (bytes32 be)) m = .ok (utf16All ss) sz (4 * ss.length) :=
  XV.Lemmas.ByteCodec.ucs4_decode_exact be ss hs m hm

theorem ucs4_encode_exact (be : Bool) (ss : List Nat) (hs : Scalars ss) (mb : Nat) (hmb : 4 * ss.length ≤ mb) :
    ucs4To be (utf16All ss) mb = .ok (ss.flatMap (bytes32 be)) [] (utf16All ss).length :=
  XV.Lemmas.ByteCodec.ucs4_encode_exact be ss hs mb hmb

theorem ucs4_rejects_out_of_range (v : Nat) (hv : 0x10FFFF < v) (rest : List Nat) (room : Nat) (hr : room ≠ 0)
    (out sizes : List Nat) (eaten : Nat) :
    ucs4FromLoop (v :: rest) room out sizes eaten = .exc "Trans_BadSrcSeq" :=
  XV.Lemmas.ByteCodec.ucs4_rejects_out_of_range v hv rest room hr out sizes eaten

theorem latin1_roundtrip (cs : List Nat) (h : ∀ c ∈ cs, c < 256) (m : Nat) (hm : cs.length ≤ m) (thr : Bool) :
    latin1To cs m thr = .ok cs [] cs.length ∧ latin1From cs m = .ok cs (List.replicate cs.length 1) cs.length :=
  XV.Lemmas.ByteCodec.latin1_roundtrip cs h m hm thr
end Fixed

/-! ### US-ASCII (XMLASCIITranscoder) -/
section Ascii
open XV.Model.ByteCodec XV.Model.CodecStream XV.Spec.Ascii XV.Lemmas.Ascii

/-- One `transcodeFrom` call (block semantics).  A normal return delivers exactly the first `e` source
bytes, unchanged, one character per byte, all of them legal, `bytesEaten` = number of characters; it
stops short of `min maxChars srcCount` only directly in front of an illegal byte and only when more than
32 characters are already done (the deferred error).  A throw happens only for an illegal byte at an
index ≤ 32 of the block. -/
theorem ascii_block_exact (src : List Nat) (m : Nat) :
    (∀ o sz e, asciiFrom src m = .ok o sz e →
        o = src.take e ∧ sz = List.replicate e 1 ∧ e ≤ min m src.length ∧ AllLegal o ∧
        (e < min m src.length → 32 < e ∧ ¬ legal (src.getD e 0))) ∧
    (∀ n, asciiFrom src m = .exc n →
        n = "Trans_Unrepresentable" ∧ ∃ i, i ≤ 32 ∧ i < min m src.length ∧ AllLegal (src.take i) ∧ ¬ legal (src.getD i 0)) := by
  rcases split src with hs | ⟨g, b, r, rfl, hg, hb⟩
  · rw [block_good src m hs]
    refine ⟨?_, fun n h => by cases h⟩
    intro o sz e h
    cases h
    exact ⟨rfl, rfl, Nat.le_refl _, fun x hx => hs x (List.mem_of_mem_take hx), fun h => absurd h (Nat.lt_irrefl _)⟩
  · have hget : (g ++ b :: r).getD g.length 0 = b := by simp [List.getD_eq_getElem?_getD]
    have hlen : (g ++ b :: r).length = g.length + (r.length + 1) := by simp
    by_cases hm : m = 0
    · subst hm
      rw [asciiFrom_eq]
      simp only [List.take_zero, asciiFrom.go]
      refine ⟨?_, fun n h => by cases h⟩
      intro o sz e h
      cases h
      refine ⟨?_, ?_, ?_, ?_, ?_⟩
      · simp
      · simp
      · simp
      · intro x hx; exact absurd hx List.not_mem_nil
      · intro h; simp at h
    · rcases block_bad g b r m hg hb (by omega) with ⟨hexc, h32, hlt⟩ | ⟨e, _, heg, hem, hdef, hok⟩
      · rw [hexc]
        constructor
        · intro o sz e h; cases h
        intro n h
        cases h
        refine ⟨rfl, g.length, h32, by omega, ?_, by rw [hget]; exact hb⟩
        rw [List.take_left']; exact hg; rfl
      · rw [hok]
        refine ⟨?_, fun n h => by cases h⟩
        intro o sz e' h
        cases h
        refine ⟨by rw [List.take_append_of_le_length heg], rfl, by omega,
          fun x hx => hg x (List.mem_of_mem_take hx), fun hlt => ?_⟩
        have : e < m := by omega
        obtain ⟨h1, h2⟩ := hdef this
        subst h1
        exact ⟨h2, by rw [hget]; exact hb⟩

/-- Whole-input decoding (repeated calls on the unconsumed rest, any buffer size `blk ≥ 1` and room
`m ≥ 1` per call), judged by the Spec.  If every byte is legal the stream delivers exactly the input.
Otherwise, with `off` the Spec's offset of the first illegal byte, the stream ends with the exception,
raised by the call that started at byte offset `pos` with `pos ≤ off ≤ pos + 32`, and what was delivered
before is exactly the first `pos` bytes: delivered characters and error position account for every input
byte up to the illegal one — no byte is skipped, none behind the illegal byte is delivered. -/
theorem ascii_decode_exact (src : List Nat) (blk m : Nat) (hblk : 1 ≤ blk) (hm : 1 ≤ m) :
    (∀ cs, XV.Spec.Ascii.decode src = (cs, none) → cs = src ∧ asciiStream blk m src = .done src) ∧
    (∀ cs off, XV.Spec.Ascii.decode src = (cs, some off) →
        cs = src.take off ∧ off < src.length ∧ ¬ legal (src.getD off 0) ∧
        ∃ pos, pos ≤ off ∧ off ≤ pos + 32 ∧
          asciiStream blk m src = .exc (src.take pos) pos "Trans_Unrepresentable") := by
  rcases split src with hs | ⟨g, b, r, rfl, hg, hb⟩
  · rw [decode_legal src hs]
    refine ⟨?_, fun cs off h => by cases h⟩
    intro cs h
    cases h
    refine ⟨rfl, ?_⟩
    have := stream_good blk m hm hblk (src.length + 1) src [] 0 hs (by omega)
    simpa [asciiStream, decodeStream] using this
  · rw [decode_illegal g b r hg hb]
    constructor
    · intro cs h; cases h
    intro cs off h
    cases h
    obtain ⟨k, hk1, hk2, hk3⟩ := stream_bad blk m hm hblk ((g ++ b :: r).length + 1) g b r [] 0 hg hb (by simp; omega)
    refine ⟨by simp, by simp, by simpa [List.getD_eq_getElem?_getD] using hb, k, hk1, hk2, ?_⟩
    rw [List.take_append_of_le_length hk1]
    simpa [asciiStream, decodeStream] using hk3

/-- encode ∘ decode = id on every US-ASCII string: `transcodeTo` writes the code points as bytes (for
either unrepresentable-option), and those bytes decode — in one call with enough room, and as a stream
with any block size — to the same string. -/
theorem ascii_roundtrip (cs : List Nat) (h : ∀ c ∈ cs, c < 0x80) (m mb blk m' : Nat) (hm : cs.length ≤ m)
    (hmb : cs.length ≤ mb) (hblk : 1 ≤ blk) (hm' : 1 ≤ m') (thr : Bool) :
    XV.Spec.Ascii.encode cs = some cs ∧ asciiTo cs mb thr = .ok cs [] cs.length ∧
    asciiFrom cs m = .ok cs (List.replicate cs.length 1) cs.length ∧ asciiStream blk m' cs = .done cs := by
  have hl : AllLegal cs := h
  refine ⟨?_, ?_, ?_, ?_⟩
  · unfold XV.Spec.Ascii.encode
    have : cs.all (· < 0x80) = true := by simpa using h
    simp [this]
  · rw [asciiTo_eq, List.take_of_length_le hmb, Nat.min_eq_left hmb, narrow_go_good _ _ _ _ _ h]; simp
  · rw [block_good cs m hl, Nat.min_eq_right hm, List.take_length]
  · exact ((ascii_decode_exact cs blk m' hblk hm').1 cs (decode_legal cs hl)).2

/-- What `transcodeTo` does with a unit that US-ASCII cannot represent (≥ 0x80), as the code has it:
with UnRep_Throw the call throws Trans_Unrepresentable (whatever precedes the unit within the call); with
UnRep_RepChar every such unit becomes the substitute 0x1A and everything else is written unchanged.
`canTranscodeTo` is exactly the Spec's legality. -/
theorem ascii_unrepresentable (g : List Nat) (c : Nat) (r : List Nat) (mb : Nat) (hg : ∀ x ∈ g, x < 0x80) (hc : ¬ c < 0x80)
    (hmb : g.length < mb) (us : List Nat) :
    asciiTo (g ++ c :: r) mb true = .exc "Trans_Unrepresentable" ∧
    asciiTo us mb false = .ok ((us.take mb).map (fun u => if u < 0x80 then u else 0x1A)) [] (min us.length mb) ∧
    (∀ u, asciiCan u = true ↔ legal u) ∧ XV.Spec.Ascii.encode (g ++ c :: r) = none := by
  refine ⟨?_, ?_, ?_, ?_⟩
  · obtain ⟨k, hk⟩ : ∃ k, mb = g.length + (k + 1) := ⟨mb - g.length - 1, by omega⟩
    rw [asciiTo_eq, hk, List.take_length_add_append, List.take_succ_cons]
    exact narrow_go_throw 128 _ g [] c _ hg hc
  · rw [asciiTo_eq, narrow_go_rep]; simp
  · intro u; simp [asciiCan, legal]
  · unfold XV.Spec.Ascii.encode
    have : (g ++ c :: r).all (· < 0x80) = false := by
      rw [List.all_eq_false]; exact ⟨c, by simp, by simpa using hc⟩
    simp [this]

/-- The reader model of C04 (`XV.Model.Reader.decAscii`, the block function `XMLReader::xcodeMoreChars` is
proved against) is this same function: what C04 proves about the reader's US-ASCII pipeline rests on the
block semantics stated above. -/
theorem ascii_model_eq_reader_model (src : List Nat) (m : Nat) :
    XV.Lemmas.AsciiReader.ofReader (XV.Model.Reader.decAscii src m) = asciiFrom src m :=
  XV.Lemmas.AsciiReader.decAscii_eq_asciiFrom src m
end Ascii

/-! ### encoding detection (XML 1.0 Appendix F) -/
section Probe
open XV.Model.Recognizer XV.Gen.Recognizer XV.Lemmas.Recognizer

/-- the recogniser's byte prefixes are exactly `<?xml ` in each encoding family (EBCDIC via the IBM037 table) -/
theorem probe_prefixes_are_encodings :
    fgASCIIPre = declText ∧
    fgUTF16BPre = declText.flatMap (XV.Model.ByteCodec.bytes16 true) ∧ fgUTF16LPre = declText.flatMap (XV.Model.ByteCodec.bytes16 false) ∧
    fgUCS4BPre = declText.flatMap (XV.Model.ByteCodec.bytes32 true) ∧ fgUCS4LPre = declText.flatMap (XV.Model.ByteCodec.bytes32 false) ∧
    fgEBCDICPre = declText.map (XV.Model.ByteCodec.lookup XV.Gen.ByteTables.toEbcdic037) ∧ fgUTF8BOM = [0xEF, 0xBB, 0xBF] :=
  XV.Lemmas.Recognizer.prefixes_are_encodings

/-- any text that begins with the XML declaration opener in family E is sensed as E, whatever follows -/
theorem probe_eq_appendixF_decl (rest : List Nat) :
    basicEncodingProbe (fgASCIIPre ++ rest) = .UTF_8 ∧ basicEncodingProbe (fgUTF16BPre ++ rest) = .UTF_16B ∧
    basicEncodingProbe (fgUTF16LPre ++ rest) = .UTF_16L ∧ basicEncodingProbe (fgUCS4BPre ++ rest) = .UCS_4B ∧
    basicEncodingProbe (fgUCS4LPre ++ rest) = .UCS_4L ∧ (rest ≠ [] → basicEncodingProbe (fgEBCDICPre ++ rest) = .EBCDIC) :=
  ⟨probe_decl_utf8 rest, probe_decl_utf16b rest, probe_decl_utf16l rest, probe_decl_ucs4b rest, probe_decl_ucs4l rest,
   probe_decl_ebcdic rest⟩

/-- any text that begins with a byte-order mark is sensed as the family of that mark -/
theorem probe_eq_appendixF_bom (x y : Nat) (rest : List Nat) :
    basicEncodingProbe ([0x00, 0x00, 0xFE, 0xFF] ++ rest) = .UCS_4B ∧
    basicEncodingProbe ([0xFF, 0xFE, 0x00, 0x00] ++ rest) = .UCS_4L ∧
    basicEncodingProbe ([0xFE, 0xFF, x, y] ++ rest) = .UTF_16B ∧
    (¬ (x = 0 ∧ y = 0) → basicEncodingProbe ([0xFF, 0xFE, x, y] ++ rest) = .UTF_16L) ∧
    basicEncodingProbe ([0xEF, 0xBB, 0xBF] ++ rest) = .UTF_8 :=
  ⟨probe_bom_ucs4b rest, probe_bom_ucs4l rest, probe_bom_utf16b x y rest, probe_bom_utf16l x y rest, probe_bom_utf8 rest⟩
end Probe

/-! Non-vacuity: the hypotheses are met by concrete non-trivial data. -/
example : Scalars [0x41, 0xE9, 0x20AC, 0x1F600] ∧ encodeAll [0x41, 0xE9, 0x20AC, 0x1F600]
    = [0x41, 0xC3, 0xA9, 0xE2, 0x82, 0xAC, 0xF0, 0x9F, 0x98, 0x80] := by
  constructor
  · intro s hs; simp at hs; rcases hs with rfl | rfl | rfl | rfl <;> decide
  · decide
example : wellFormed [0xF4, 0x8F, 0xBF, 0xBF] = true ∧ wellFormed [0xED, 0xA0, 0x80] = false
    ∧ wellFormed [0xC0, 0x80] = false ∧ wellFormed [0xF4, 0x90, 0x80, 0x80] = false := by decide
example : transcodeFrom [0x41, 0xC3, 0xA9, 0xF0, 0x9F, 0x98, 0x80] 8 = .ok [0x41, 0xE9, 0xD83D, 0xDE00] [1, 2, 4, 0] 7 := by
  decide
example : transcodeFrom [0xED, 0xA0, 0x80] 8 = .exc .irregular3 := by decide

example : XV.Model.ByteCodec.ucs4To true (utf16All [0x41, 0x1F600]) 8 = .ok [0, 0, 0, 0x41, 0, 1, 0xF6, 0] [] 3 := by decide
example : XV.Model.Recognizer.basicEncodingProbe [0xFF, 0xFE, 0x3C, 0x00] = .UTF_16L := by decide

section AsciiExamples
open XV.Model.ByteCodec XV.Model.CodecStream

-- US-ASCII: a bad byte at index 40 of a block is not thrown by that call (deferred) but by the next one
example : asciiFrom (List.replicate 40 0x41 ++ [0xE9, 0x42]) 64 = .ok (List.replicate 40 0x41) (List.replicate 40 1) 40 := by decide
example : asciiFrom ([0xE9, 0x42]) 64 = .exc "Trans_Unrepresentable" := by decide
example : asciiStream 64 64 (List.replicate 40 0x41 ++ [0xE9, 0x42]) = .exc (List.replicate 40 0x41) 40 "Trans_Unrepresentable" ∧
    XV.Spec.Ascii.decode (List.replicate 40 0x41 ++ [0xE9, 0x42]) = (List.replicate 40 0x41, some 40) := by decide
example : asciiStream 64 64 (List.replicate 20 0x41 ++ [0x80]) = .exc [] 0 "Trans_Unrepresentable" ∧
    asciiStream 16 7 (List.replicate 20 0x41 ++ [0x80]) = .exc (List.replicate 14 0x41) 14 "Trans_Unrepresentable" := by decide
example : asciiStream 16 5 [0x3C, 0x61, 0x3E, 0x7F, 0x00, 0x41, 0x42] = .done [0x3C, 0x61, 0x3E, 0x7F, 0x00, 0x41, 0x42] := by decide
example : asciiTo [0x41, 0xE9, 0x42] 8 false = .ok [0x41, 0x1A, 0x42] [] 3 ∧ asciiTo [0x41, 0xE9, 0x42] 8 true = .exc "Trans_Unrepresentable" := by decide
end AsciiExamples

end XV.Props.C05
