/-
C05 — transcoders decode/encode exactly.  Property theorems only; helper lemmas live in XV.Lemmas.*.
Model: XV.Model.Utf8 (code-shaped XMLUTF8Transcoder, tables regenerated from the source).
Spec:  XV.Spec.Utf8  (Unicode Tables 3-6 / 3-7, D91).
-/
import XV.Lemmas.Utf8
namespace XV.Props.C05
open XV.Model.Utf8 XV.Spec.Utf8 XV.Lemmas.Utf8

/-- The generated tables say, for every byte, what Table 3-7 needs them to say. -/
theorem utf8_tables_spec :
    (∀ b, b < 256 → tb b = tbSpec b) ∧
    (∀ b, b < 256 → ((indTest (tb b) &&& b) != ind (tb b)) = decide ((0x80 ≤ b ∧ b < 0xC2) ∨ 0xFE ≤ b)) ∧
    (∀ b, b < 256 → trailBad b = !(cont b)) ∧
    (off 1 = 0x3080 ∧ off 2 = 0xE2080 ∧ off 3 = 0x3C82080) ∧
    (firstMark 1 = 0 ∧ firstMark 2 = 0xC0 ∧ firstMark 3 = 0xE0 ∧ firstMark 4 = 0xF0) :=
  ⟨tb_spec, first_ok, trailBad_spec, off_vals, firstMark_vals⟩

/-- Spec consistency: Table 3-7 sequences are exactly the Table 3-6 encodings of scalar values. -/
theorem table37_iff_table36 (w : List Nat) :
    wellFormed w = true ↔ ∃ s, isScalar s ∧ w = encode s := by
  constructor
  · intro h
    obtain ⟨he, hs⟩ := wf_encode_value w h
    exact ⟨value w, hs, he.symm⟩
  · rintro ⟨s, hs, rfl⟩
    exact (scalar_wf_encode s hs).1

/-- One loop body: every well-formed multi-byte sequence decodes to its code point. -/
theorem utf8_step_complete (w rest : List Nat) (hw : wellFormed w = true) (h2 : 2 ≤ w.length) :
    decodeStep (w ++ rest) = .val (value w) w.length :=
  decodeStep_complete w rest hw h2

/-- One loop body never yields a value ≤ U+10FFFF for anything but a Table 3-7 sequence:
overlong forms, surrogates, stray/missing continuation bytes, 5/6-byte forms are all rejected. -/
theorem utf8_step_sound (bs : List Nat) (hb : AllBytes bs) (v n : Nat) (h : decodeStep bs = .val v n) :
    n ≤ bs.length ∧ 2 ≤ n ∧
      ((wellFormed (bs.take n) = true ∧ v = value (bs.take n) ∧ v ≤ 0x10FFFF) ∨ 0x10FFFF < v) :=
  decodeStep_sound bs hb v n h

/-- Whatever `transcodeFrom` returns normally is the UTF-16 form of a string of scalar values whose
UTF-8 encoding is exactly the consumed prefix: nothing ill-formed is ever decoded or skipped. -/
theorem utf8_decode_sound (src : List Nat) (hb : AllBytes src) (m : Nat) (c sz : List Nat) (e : Nat)
    (h : transcodeFrom src m = .ok c sz e) :
    ∃ ss rest, Scalars ss ∧ src = encodeAll ss ++ rest ∧ e = (encodeAll ss).length ∧ c = utf16All ss := by
  obtain ⟨ss, rest, h1, h2, h3, h4⟩ := fromLoop_sound _ _ _ _ _ _ _ _ _ hb h
  exact ⟨ss, rest, h1, h2, by simpa using h3, by simpa using h4⟩

/-- Every legal byte sequence is decoded completely and exactly (given room for the output). -/
theorem utf8_decode_complete (ss : List Nat) (hs : Scalars ss) (m : Nat) (hm : (utf16All ss).length ≤ m) :
    ∃ sz, transcodeFrom (encodeAll ss) m = .ok (utf16All ss) sz (encodeAll ss).length := by
  obtain ⟨sz, h⟩ := fromLoop_complete ss (encodeAll ss).length m [] [] 0 hs (Nat.le_refl _) hm
  exact ⟨sz, by simpa [transcodeFrom] using h⟩

/-- An exception is raised only for input that is not the encoding of a scalar string. -/
theorem utf8_exc_only_illformed (src : List Nat) (m : Nat) (e : Exc) (h : transcodeFrom src m = .exc e) :
    ¬ ∃ ss, Scalars ss ∧ src = encodeAll ss ∧ (utf16All ss).length ≤ m := by
  rintro ⟨ss, hs, rfl, hm⟩
  obtain ⟨sz, h'⟩ := utf8_decode_complete ss hs m hm
  rw [h'] at h; cases h

/-- Encoding yields exactly the legal byte sequence. -/
theorem utf8_encode_exact (thr : Bool) (ss : List Nat) (hs : Scalars ss) (room : Nat)
    (hr : (encodeAll ss).length ≤ room) (hne : utf16All ss ≠ []) (hroom : room ≠ 0) :
    transcodeTo (utf16All ss) room thr = .ok (encodeAll ss) (utf16All ss).length := by
  unfold transcodeTo
  have : ¬ (utf16All ss = [] ∨ room = 0) := by simp [hne, hroom]
  simp only [this, if_false]
  have := toLoop_complete thr ss (utf16All ss).length room [] 0 hs (Nat.le_refl _) hr
  simpa using this

/-- decode ∘ encode = id on every scalar string. -/
theorem utf8_roundtrip (thr : Bool) (ss : List Nat) (hs : Scalars ss) (room m : Nat)
    (hr : (encodeAll ss).length ≤ room) (hne : utf16All ss ≠ []) (hroom : room ≠ 0)
    (hm : (utf16All ss).length ≤ m) :
    ∃ bytes n sz, transcodeTo (utf16All ss) room thr = .ok bytes n ∧
      transcodeFrom bytes m = .ok (utf16All ss) sz bytes.length := by
  obtain ⟨sz, h⟩ := utf8_decode_complete ss hs m hm
  exact ⟨encodeAll ss, _, sz, utf8_encode_exact thr ss hs room hr hne hroom, h⟩

/-! Non-vacuity: the hypotheses are met by concrete non-trivial data. -/
example : Scalars [0x41, 0xE9, 0x20AC, 0x1F600] ∧ encodeAll [0x41, 0xE9, 0x20AC, 0x1F600]
    = [0x41, 0xC3, 0xA9, 0xE2, 0x82, 0xAC, 0xF0, 0x9F, 0x98, 0x80] := by
  constructor
  · intro s hs; simp at hs; rcases hs with rfl | rfl | rfl | rfl <;> decide
  · decide
example : wellFormed [0xF4, 0x8F, 0xBF, 0xBF] = true ∧ wellFormed [0xED, 0xA0, 0x80] = false
    ∧ wellFormed [0xC0, 0x80] = false ∧ wellFormed [0xF4, 0x90, 0x80, 0x80] = false := by decide
example : transcodeFrom [0x41, 0xC3, 0xA9, 0xF0, 0x9F, 0x98, 0x80] 8 = .ok [0x41, 0xE9, 0xD83D, 0xDE00] [1, 2, 4, 0] 7 := by
  decide
example : transcodeFrom [0xED, 0xA0, 0x80] 8 = .exc .irregular3 := by decide

end XV.Props.C05
