/-
C04 — the parse result is independent of input chunking, buffer alignment and source type.
Property theorems only; helper lemmas live in XV.Lemmas.Reader*.

Model: XV.Model.Reader (code-shaped XMLReader: refreshRawBuffer, xcodeMoreChars, refreshCharBuffer,
getNextChar/peekNextChar, handleEOL, the constructors) composed with the C05 transcoder model
XV.Model.Utf8.transcodeFrom (and the ISO-8859-1 / US-ASCII / UTF-16 transcoders).
Spec:  XV.Spec.Reader (decodeAll = the whole byte string read sequence by sequence; normEOL = XML
end-of-line normalisation; posStep = line/column bookkeeping).

The stream is any `List (List Nat)` — each inner list is what one `readBytes` call returns —
satisfying `Clean` (nothing is returned only at the end of the input: the BinInputStream contract).
Buffer sizes and low-water mark are parameters; the theorems hold for every `Cfg` with
charBufSize ≥ 2 and rawBufSize ≥ 6 (room for one surrogate pair / one longest UTF-8 lead+trail
sequence), hence for the constants regenerated from XMLReader.hpp (`stdCfg`).
-/
import XV.Lemmas.ReaderCtor
namespace XV.Props.C04
open XV.Gen.ReaderConsts
open XV.Model.Utf8 XV.Model.Reader XV.Spec.Reader
open XV.Lemmas.ReaderDec XV.Lemmas.ReaderInv XV.Lemmas.ReaderDeliver XV.Lemmas.ReaderReach XV.Lemmas.ReaderCtor
set_option maxRecDepth 8000

/-- The bytes a forced-encoding reader decodes: everything after the byte-order mark that its
constructor recognised in the FIRST read. -/
def payload (cfg : Cfg) (enc : Enc) (cs : List (List Nat)) : List Nat :=
  cs.flatten.drop (bomLen enc (firstRead cfg cs))

/-- **What is delivered.**  For every partition `cs` of the byte stream, every buffer geometry and
low-water mark, repeated getNextChar delivers the end-of-line normalised whole-input reading of the
bytes — all of it when that reading ends normally, a prefix of it followed by the same exception when
it ends in an undecodable sequence. -/
theorem delivered_spec (cfg : Cfg) (enc : Enc) (nel ext : Bool) (cs : List (List Nat))
    (hcb : 2 ≤ cfg.charBufSize) (hrb : 6 ≤ cfg.rawBufSize) (hc : Clean cs) :
    (delivered (mkForced cfg enc nel ext false cs)).2 = (decodeAll enc (payload cfg enc cs)).2 ∧
    (delivered (mkForced cfg enc nel ext false cs)).1 <+: deliver nel ext (decodeAll enc (payload cfg enc cs)).1 ∧
    ((decodeAll enc (payload cfg enc cs)).2 = .eof →
      (delivered (mkForced cfg enc nel ext false cs)).1 = deliver nel ext (decodeAll enc (payload cfg enc cs)).1) := by
  obtain ⟨hs, hn, hx, hp⟩ := mkForced_facts cfg enc nel ext cs hcb hrb hc
  have := delivered_of_sinv _ hs
  rw [hn, hx, hp] at this
  exact this

/-- **Refill positions do not matter** (and neither does the partition): two readers over the same
bytes, with *any* two buffer geometries / low-water marks and *any* two partitions, deliver the same
characters and end the same way.  When the bytes end in an undecodable sequence both raise the same
exception; the number of characters handed out before it may differ (one list is a prefix of the other)
— see `error_offset_depends_on_chunking` for why this cannot be strengthened for the code as it stands.
`hbom`: the constructors look for a byte-order mark in the first read only (`bom_of_four`:
guaranteed when both first reads have at least 4 bytes). -/
theorem refill_position_invariant (cfg cfg' : Cfg) (enc : Enc) (nel ext : Bool) (cs cs' : List (List Nat))
    (hcb : 2 ≤ cfg.charBufSize) (hrb : 6 ≤ cfg.rawBufSize) (hcb' : 2 ≤ cfg'.charBufSize) (hrb' : 6 ≤ cfg'.rawBufSize)
    (hc : Clean cs) (hc' : Clean cs') (hflat : cs.flatten = cs'.flatten)
    (hbom : bomLen enc (firstRead cfg cs) = bomLen enc (firstRead cfg' cs')) :
    (delivered (mkForced cfg enc nel ext false cs)).2 = (delivered (mkForced cfg' enc nel ext false cs')).2 ∧
    ((delivered (mkForced cfg enc nel ext false cs)).2 = .eof →
      (delivered (mkForced cfg enc nel ext false cs)).1 = (delivered (mkForced cfg' enc nel ext false cs')).1) ∧
    ((delivered (mkForced cfg enc nel ext false cs)).1 <+: (delivered (mkForced cfg' enc nel ext false cs')).1 ∨
     (delivered (mkForced cfg' enc nel ext false cs')).1 <+: (delivered (mkForced cfg enc nel ext false cs)).1) := by
  obtain ⟨a1, a2, a3⟩ := delivered_spec cfg enc nel ext cs hcb hrb hc
  obtain ⟨b1, b2, b3⟩ := delivered_spec cfg' enc nel ext cs' hcb' hrb' hc'
  have hpay : payload cfg enc cs = payload cfg' enc cs' := by unfold payload; rw [hflat, hbom]
  rw [hpay] at a1 a2 a3
  refine ⟨by rw [a1, b1], ?_, ?_⟩
  · intro he
    rw [a1] at he
    rw [a3 he, b3 he]
  · exact List.prefix_or_prefix_of_prefix a2 b2

theorem std_cb (lw : Nat) : 2 ≤ (stdCfg lw).charBufSize := by show 2 ≤ kCharBufSize; decide
theorem std_rb (lw : Nat) : 6 ≤ (stdCfg lw).rawBufSize := by show 6 ≤ kRawBufSize; decide

/-- **Chunk invariance** for this build of the library (sizes regenerated from XMLReader.hpp, any
low-water mark): the delivered characters do not depend on the partition of the byte stream. -/
theorem chars_chunk_invariant (lw : Nat) (enc : Enc) (nel ext : Bool) (cs cs' : List (List Nat))
    (hc : Clean cs) (hc' : Clean cs') (hflat : cs.flatten = cs'.flatten)
    (hbom : bomLen enc (firstRead (stdCfg lw) cs) = bomLen enc (firstRead (stdCfg lw) cs')) :
    (delivered (mkForced (stdCfg lw) enc nel ext false cs)).2 = (delivered (mkForced (stdCfg lw) enc nel ext false cs')).2 ∧
    ((delivered (mkForced (stdCfg lw) enc nel ext false cs)).2 = .eof →
      (delivered (mkForced (stdCfg lw) enc nel ext false cs)).1 = (delivered (mkForced (stdCfg lw) enc nel ext false cs')).1) ∧
    ((delivered (mkForced (stdCfg lw) enc nel ext false cs)).1 <+: (delivered (mkForced (stdCfg lw) enc nel ext false cs')).1 ∨
     (delivered (mkForced (stdCfg lw) enc nel ext false cs')).1 <+: (delivered (mkForced (stdCfg lw) enc nel ext false cs)).1) :=
  refill_position_invariant (stdCfg lw) (stdCfg lw) enc nel ext cs cs' (std_cb lw) (std_rb lw) (std_cb lw) (std_rb lw)
    hc hc' hflat hbom

/-- The byte-order-mark hypothesis holds whenever both first reads return at least four bytes
(both are prefixes of the same byte string). -/
theorem bom_of_four (enc : Enc) (a a' bs : List Nat) (hp : a <+: bs) (hp' : a' <+: bs)
    (h4 : 4 ≤ a.length) (h4' : 4 ≤ a'.length) : bomLen enc a = bomLen enc a' := by
  obtain ⟨t, rfl⟩ := hp
  obtain ⟨t', ht'⟩ := hp'
  have e3 : a.take 3 = a'.take 3 := by
    have h1 : (a ++ t).take 3 = a.take 3 := List.take_append_of_le_length (by omega)
    have h2 : (a' ++ t').take 3 = a'.take 3 := List.take_append_of_le_length (by omega)
    rw [← h1, ← h2, ht']
  have e2 : a.take 2 = a'.take 2 := by
    have := congrArg (List.take 2) e3
    simpa [List.take_take] using this
  unfold bomLen
  cases enc <;> simp only []
  · have : fgUTF8BOM.length = 3 := by decide
    rw [this, e3]
    have c1 : decide (a.length > 3) = true := by simp; omega
    have c2 : decide (a'.length > 3) = true := by simp; omega
    rw [c1, c2]
  · have c1 : ¬ a.length < 2 := by omega
    have c2 : ¬ a'.length < 2 := by omega
    rw [if_neg c1, if_neg c2, e2]
  · have c1 : ¬ a.length < 2 := by omega
    have c2 : ¬ a'.length < 2 := by omega
    rw [if_neg c1, if_neg c2, e2]

/-- the first read is a prefix of the input -/
theorem firstRead_prefix (cfg : Cfg) (cs : List (List Nat)) : firstRead cfg cs <+: cs.flatten :=
  ⟨_, rb_flat cs cfg.rawBufSize⟩

/-- **CR as the last character of a buffer, LF as the first of the next ⇒ one LF.**  In any reachable
state whose character window holds just a CR while the bytes still to be transcoded start with LF, the
pair is delivered as a single LF followed by the normalisation of the rest. -/
theorem eol_across_refill (r : Reader) (h : SInv r) (hx : r.external = true) (rest : List Nat)
    (hw : r.charWin = [chCR]) (hb : decodeAll (encOf r) (bytes r) = (chLF :: rest, .eof)) :
    delivered r = (chLF :: normEOL r.nel rest, .eof) := by
  obtain ⟨d1, d2, d3⟩ := delivered_of_sinv r h
  have hp : pend r = (chCR :: chLF :: rest, .eof) := by unfold pend; rw [hw, hb]; rfl
  rw [hp] at d1 d3
  have := d3 rfl
  unfold deliver at this
  rw [hx] at this
  simp only [if_true] at this
  rw [normEOL_cr_cons] at this
  simp only [true_or, if_true] at this
  exact Prod.ext this d1

/-- **Index invariant** in every state reached by getNextChar from a forced-encoding reader (any
partition, any geometry): fCharIndex ≤ fCharsAvail ≤ kCharBufSize, fRawBufIndex ≤ fRawBytesAvail ≤
kRawBufSize.  (`reader_inv_reachable` extends this to every modelled operation and constructor.) -/
theorem index_invariant (r r' : Reader) (c : Nat) (h : SInv r) (hg : getNextChar r = .char c r') :
    r'.charIdx ≤ r'.charsAvail ∧ r'.charsAvail ≤ r'.cfg.charBufSize ∧
    r'.rawIdx ≤ r'.rawAvail ∧ r'.rawAvail ≤ r'.cfg.rawBufSize := by
  have := getNextChar_spec r h
  rw [hg] at this
  have hi := this.sinv.inv
  have h1 := hi.char_len; have h2 := hi.raw_len
  exact ⟨by omega, hi.char_le, by omega, hi.raw_le⟩

/-- **xcodeMoreChars terminates**: with the loop bound every reader carries (bytes + chunks left in the
stream + 2), the `while (!bytesEaten)` loop never runs out of fuel — for any stream behaviour and any
decoder outcome. -/
theorem xcodeMoreChars_terminates (r : Reader) (maxChars : Nat) (h : Inv r) :
    xcodeMoreChars r maxChars ≠ .fuelOut := by
  intro hf
  have := xcodeMoreChars_spec r maxChars h
  rw [hf] at this
  exact this

/-- **Positions are a function of what was handed out**: line and column after a getNextChar depend
only on the position before and on the delivered character — hence (with the theorems above) not on
the partition or on the buffer geometry. -/
theorem position_of_delivered (r r' : Reader) (c : Nat) (h : SInv r) (hg : getNextChar r = .char c r') :
    (r'.line, r'.col) = posStep (r.line, r.col) c := by
  have := getNextChar_spec r h
  rw [hg] at this
  exact this.pos

/-- **Composition with C05**: a reader over ANY partition of the UTF-8 encoding of a scalar string
delivers exactly the end-of-line normalised UTF-16 form of that string (Spec: Unicode Tables 3-6/3-7,
D91), and nothing else.  (`hnb`: the string does not start with the byte-order mark the constructor
would strip — stated on the first read.) -/
theorem wellformed_utf8_delivered (cfg : Cfg) (nel ext : Bool) (cs : List (List Nat)) (ss : List Nat)
    (hcb : 2 ≤ cfg.charBufSize) (hrb : 6 ≤ cfg.rawBufSize) (hc : Clean cs)
    (hs : XV.Spec.Utf8.Scalars ss) (hflat : cs.flatten = XV.Spec.Utf8.encodeAll ss)
    (hnb : bomLen .utf8 (firstRead cfg cs) = 0) :
    delivered (mkForced cfg .utf8 nel ext false cs) = (deliver nel ext (XV.Spec.Utf8.utf16All ss), .eof) := by
  obtain ⟨sz, hdec⟩ : ∃ sz, transcodeFrom (XV.Spec.Utf8.encodeAll ss) (XV.Spec.Utf8.utf16All ss).length
      = .ok (XV.Spec.Utf8.utf16All ss) sz (XV.Spec.Utf8.encodeAll ss).length := by
    obtain ⟨sz, h⟩ := XV.Lemmas.Utf8.fromLoop_complete ss (XV.Spec.Utf8.encodeAll ss).length
      (XV.Spec.Utf8.utf16All ss).length [] [] 0 hs (Nat.le_refl _) (Nat.le_refl _)
    exact ⟨sz, by simpa [transcodeFrom] using h⟩
  obtain ⟨_, _, _, _, hA⟩ := decOK_utf8.ok _ _ _ _ _ hdec
  have hall : decodeAll .utf8 (XV.Spec.Utf8.encodeAll ss) = (XV.Spec.Utf8.utf16All ss, .eof) := by
    have := hA []
    simp only [List.append_nil, List.drop_length] at this
    rw [this]
    have hn : decodeAll .utf8 [] = ([], .eof) := rfl
    rw [hn]; simp
  obtain ⟨a1, a2, a3⟩ := delivered_spec cfg .utf8 nel ext cs hcb hrb hc
  have hpay : payload cfg .utf8 cs = XV.Spec.Utf8.encodeAll ss := by unfold payload; rw [hnb, hflat]; rfl
  rw [hpay, hall] at a1 a3
  exact Prod.ext (a3 rfl) a1

/-- fCharIndex ≤ fCharsAvail ≤ kCharBufSize, fRawBufIndex ≤ fRawBytesAvail ≤ kRawBufSize, and the live
windows of the model are exactly the index ranges -/
def IdxOK (r : Reader) : Prop :=
  r.charIdx ≤ r.charsAvail ∧ r.charsAvail ≤ r.cfg.charBufSize ∧ r.rawIdx ≤ r.rawAvail ∧ r.rawAvail ≤ r.cfg.rawBufSize ∧
  r.charsAvail - r.charIdx = r.charWin.length ∧ r.rawAvail - r.rawIdx = r.rawWin.length ∧ r.sizeWin.length = r.charWin.length

theorem idxOK_of_cinv (r : Reader) (h : CInv r) : IdxOK r := by
  have h1 := h.inv.char_len; have h2 := h.inv.raw_len
  exact ⟨by omega, h.inv.char_le, by omega, h.inv.raw_le, by omega, by omega, h.inv.size_len⟩

/-- **The index invariant holds in every reachable state** (shared with C01): after any sequence of
getNextChar / peekNextChar / getNextCharIfNot / skippedChar / skippedSpace / skippedString / peekString /
refreshCharBuffer / setEncoding calls — whatever they returned or threw — on a reader built by either
constructor (forced encoding or auto-sensing, PE or not) over ANY stream behaviour (any partition, empty
reads included), for any buffer geometry with at least one character slot. -/
theorem reader_inv_reachable (cfg : Cfg) (hcb : 1 ≤ cfg.charBufSize) (nel ext pe : Bool) (cs : List (List Nat))
    (ops : List Op) :
    (∀ enc, IdxOK (runOps (mkForced cfg enc nel ext pe cs) ops)) ∧
    (∀ r, mkAuto cfg nel ext pe cs = .ok r → IdxOK (runOps r ops)) := by
  constructor
  · intro enc
    exact idxOK_of_cinv _ (runOps_cinv ops _ (mkForced_cinv cfg enc nel ext pe cs hcb))
  · intro r hr
    have := mkAuto_cinv cfg nel ext pe cs hcb
    rw [hr] at this
    exact idxOK_of_cinv _ (runOps_cinv ops _ this)

/-- **Auto-sensing depends on the partition only through the first read.**  Two partitions of the same
bytes whose FIRST `readBytes` returns the same bytes give the same result: the same constructor outcome
and the same delivered characters.  (Partial: the full statement would replace `hfr` by "both first reads
have at least fgUCS4PreLen = 24 bytes and contain the whole XML/text declaration, or the whole input";
`sniff_depends_on_first_read` shows that *some* hypothesis on the first read is indispensable for the code
as it stands: the probe and doInitDecode never look beyond it.) -/
theorem sniff_partial (cfg : Cfg) (nel ext : Bool) (cs cs' : List (List Nat))
    (hcb : 2 ≤ cfg.charBufSize) (hrb : 6 ≤ cfg.rawBufSize) (hc : Clean cs) (hc' : Clean cs')
    (hflat : cs.flatten = cs'.flatten) (hfr : firstRead cfg cs = firstRead cfg cs') :
    match mkAuto cfg nel ext false cs, mkAuto cfg nel ext false cs' with
    | .ok r, .ok r' =>
        (delivered r).2 = (delivered r').2 ∧ ((delivered r).2 = .eof → (delivered r).1 = (delivered r').1) ∧
        ((delivered r).1 <+: (delivered r').1 ∨ (delivered r').1 <+: (delivered r).1)
    | .couldNotDecodeFirstLine, .couldNotDecodeFirstLine => True
    | .unmodelled f, .unmodelled f' => f = f'
    | _, _ => False := by
  rw [mkAuto_first_read cfg nel ext false cs cs' hfr]
  have hci := mkAuto_cinv cfg nel ext false cs (by omega)
  cases hm : mkAuto cfg nel ext false cs with
  | couldNotDecodeFirstLine => trivial
  | unmodelled f => rfl
  | ok r =>
    rw [hm] at hci
    simp only [mapMk]
    have hk : Keeps (refreshRawBuffer (mkBase cfg nel ext false cs)) r := by
      rw [mkAuto_eq] at hm
      exact keeps_doInitDecode _ _ _ hm
    have hst : r.stream = (readBytes cs cfg.rawBufSize).2 := by rw [hk.stream]; rfl
    have hcfg : r.cfg = cfg := by rw [hk.cfg]; rfl
    have hpe : r.pe = false := by rw [hk.pe]; rfl
    have hnm : r.noMore = false := by rw [hk.noMore]; rfl
    have hnmo : NoMoreOK r := by intro hn; rw [hnm] at hn; cases hn
    have hcb' : 2 ≤ r.cfg.charBufSize := by rw [hcfg]; exact hcb
    have hrb' : 6 ≤ r.cfg.rawBufSize := by rw [hcfg]; exact hrb
    have hcl : Clean r.stream := by rw [hst]; exact rb_clean _ _ hc
    have hs : SInv r := ⟨hci.inv, hcl, hpe, hnmo, hcb', hrb'⟩
    have hmu := (rb_mu cs' cfg.rawBufSize).1
    have hfuel : mu (readBytes cs' cfg.rawBufSize).2 + 2 ≤ (mkBase cfg nel ext false cs').fuel := by
      show mu (readBytes cs' cfg.rawBufSize).2 + 2 ≤ streamBytes cs' + cs'.length + 2
      unfold mu at hmu ⊢
      omega
    have hinv' : Inv (withStream r (readBytes cs' cfg.rawBufSize).2 (mkBase cfg nel ext false cs').fuel) :=
      ⟨hci.inv.raw_len, hci.inv.raw_le, hci.inv.char_len, hci.inv.char_le, hci.inv.size_len, hfuel⟩
    have hnmo' : NoMoreOK (withStream r (readBytes cs' cfg.rawBufSize).2 (mkBase cfg nel ext false cs').fuel) := by
      intro hn
      have : r.noMore = true := hn
      rw [hnm] at this; cases this
    have hs' : SInv (withStream r (readBytes cs' cfg.rawBufSize).2 (mkBase cfg nel ext false cs').fuel) :=
      ⟨hinv', rb_clean _ _ hc', hpe, hnmo', hcb', hrb'⟩
    have hfl : r.stream.flatten = (readBytes cs' cfg.rawBufSize).2.flatten := by
      rw [hst]
      have e1 := rb_flat cs cfg.rawBufSize
      have e2 := rb_flat cs' cfg.rawBufSize
      unfold firstRead at hfr
      rw [← hfr, ← hflat, ← e1] at e2
      exact (List.append_cancel_left e2).symm
    have hp : pend (withStream r (readBytes cs' cfg.rawBufSize).2 (mkBase cfg nel ext false cs').fuel) = pend r := by
      unfold pend bytes
      show (r.charWin ++ (decodeAll (encOf r) (r.rawWin ++ (readBytes cs' cfg.rawBufSize).2.flatten)).1,
            (decodeAll (encOf r) (r.rawWin ++ (readBytes cs' cfg.rawBufSize).2.flatten)).2) = _
      rw [← hfl]
    obtain ⟨a1, a2, a3⟩ := delivered_of_sinv r hs
    obtain ⟨b1, b2, b3⟩ := delivered_of_sinv _ hs'
    rw [hp] at b1 b2 b3
    have hn : (withStream r (readBytes cs' cfg.rawBufSize).2 (mkBase cfg nel ext false cs').fuel).nel = r.nel := rfl
    have hx : (withStream r (readBytes cs' cfg.rawBufSize).2 (mkBase cfg nel ext false cs').fuel).external = r.external := rfl
    rw [hn, hx] at b2 b3
    refine ⟨by rw [a1, b1], ?_, List.prefix_or_prefix_of_prefix a2 b2⟩
    intro he
    rw [a1] at he
    rw [a3 he, b3 he]

/-! ### What does NOT hold for the code as it stands (witnesses, evaluated by the kernel) -/

/-- **The position of a decoding error depends on the chunking.**  Same bytes (`ab` + the stray continuation
byte 80), same geometry (this build's constants, low-water mark 0): read in one piece the exception escapes
before anything is delivered (XMLUTF8Transcoder throws away the block it was decoding); read as
`ab` | `80` the two characters are delivered first.  This is why `chars_chunk_invariant` can only
promise "one delivered list is a prefix of the other" when the input is undecodable. -/
theorem error_offset_depends_on_chunking :
    delivered (mkForced (stdCfg 0) .utf8 false true false [[0x61, 0x62, 0x80]]) = ([], .exc .formatError) ∧
    delivered (mkForced (stdCfg 0) .utf8 false true false [[0x61, 0x62], [0x80]]) = ([0x61, 0x62], .exc .formatError) := by
  constructor <;> decide +kernel

/-- **A byte-order mark is only recognised in the first read** (forced UTF-8): fed in one piece the BOM
is skipped, fed one byte at a time it is delivered as U+FEFF. -/
theorem bom_depends_on_first_read :
    delivered (mkForced (stdCfg 100) .utf8 false true false [[0xEF, 0xBB, 0xBF, 0x3C, 0x61, 0x2F, 0x3E]])
      = ([0x3C, 0x61, 0x2F, 0x3E], .eof) ∧
    delivered (mkForced (stdCfg 100) .utf8 false true false [[0xEF], [0xBB], [0xBF], [0x3C], [0x61], [0x2F], [0x3E]])
      = ([0xFEFF, 0x3C, 0x61, 0x2F, 0x3E], .eof) := by
  constructor <;> decide +kernel

/-- characters delivered by an auto-sensing reader (`none`: the constructor threw / family not modelled) -/
def deliveredAuto (cfg : Cfg) (nel ext : Bool) (cs : List (List Nat)) : Option (List Nat × End) :=
  match mkAuto cfg nel ext false cs with
  | .ok r => some (delivered r)
  | _ => none

/-- **Auto-sensing looks at the first read only** (DESIGN §5 F2): a UTF-16LE document with BOM read in
one piece is recognised; read one byte at a time the probe sees a single byte, falls back to UTF-8 and the
first getNextChar fails on the byte FF. -/
theorem sniff_depends_on_first_read :
    deliveredAuto (stdCfg 100) false true [[0xFF, 0xFE, 0x3C, 0x00, 0x61, 0x00, 0x2F, 0x00, 0x3E, 0x00]]
      = some ([0x3C, 0x61, 0x2F, 0x3E], .eof) ∧
    deliveredAuto (stdCfg 100) false true [[0xFF], [0xFE], [0x3C], [0x00], [0x61], [0x00], [0x2F], [0x00], [0x3E], [0x00]]
      = some ([], .exc .formatError) := by
  constructor <;> decide +kernel

/-! ### Non-vacuity: the hypotheses are met by concrete, non-trivial data -/

example : Clean [[0x61, 0xE2], [0x82], [0xAC, 0x0D], [0x0A, 0x62]] := by
  simp [Clean]
/-- sniff_partial: same first read (the whole declaration), different partitions afterwards -/
example : firstRead (stdCfg 100) [[0x3C, 0x3F, 0x78, 0x6D, 0x6C, 0x20, 0x3F, 0x3E], [0x3C, 0x61], [0x2F, 0x3E]]
    = firstRead (stdCfg 100) [[0x3C, 0x3F, 0x78, 0x6D, 0x6C, 0x20, 0x3F, 0x3E], [0x3C], [0x61, 0x2F], [0x3E]] := by
  decide +kernel
example : deliveredAuto (stdCfg 100) false true [[0x3C, 0x3F, 0x78, 0x6D, 0x6C, 0x20, 0x3F, 0x3E], [0x3C, 0x61], [0x2F, 0x3E]]
    = some ([0x3C, 0x3F, 0x78, 0x6D, 0x6C, 0x20, 0x3F, 0x3E, 0x3C, 0x61, 0x2F, 0x3E], .eof) := by decide +kernel
/-- reader_inv_reachable: a run with look-ahead operations across refills of 2-character buffers -/
example : IdxOK (runOps (mkForced ⟨2, 6, 0⟩ .utf8 true true true [[0x3C, 0x21], [0x2D, 0x2D, 0xF0], [0x9F, 0x98, 0x80, 0x0D]])
    [.peekString [0x3C, 0x21], .skippedString [0x3C, 0x21, 0x2D, 0x2D], .getNextChar, .skippedSpace, .getNextChar,
     .peekNextChar, .getNextChar, .getNextChar, .getNextChar]) := by
  unfold IdxOK; decide +kernel

/-- a 3-byte character and a CR LF pair both cut by chunk boundaries, buffers of 2 characters / 6 bytes:
the CR is the last character of a buffer, the LF the first of the next -/
example : delivered (mkForced ⟨2, 6, 0⟩ .utf8 false true false [[0x61, 0xE2], [0x82], [0xAC, 0x0D], [0x0A, 0x62]])
    = ([0x61, 0x20AC, 0x0A, 0x62], .eof) := by decide +kernel
example : delivered (mkForced ⟨2, 6, 0⟩ .utf8 false true false [[0x61, 0xE2, 0x82, 0xAC, 0x0D, 0x0A, 0x62]])
    = ([0x61, 0x20AC, 0x0A, 0x62], .eof) := by decide +kernel
example : decodeAll .utf8 [0x61, 0xE2, 0x82, 0xAC, 0x0D, 0x0A, 0x62] = ([0x61, 0x20AC, 0x0D, 0x0A, 0x62], .eof) := by
  decide +kernel
example : normEOL false [0x61, 0x20AC, 0x0D, 0x0A, 0x62] = [0x61, 0x20AC, 0x0A, 0x62] := by decide +kernel
example : bomLen .utf8 [0x61, 0xE2] = 0 ∧ bomLen .utf8 [0xEF, 0xBB, 0xBF, 0x3C] = 3 ∧ bomLen .utf8 [0xEF] = 0 := by
  decide +kernel
/-- the state `eol_across_refill` talks about is reached: after two getNextChar the window holds just CR -/
example : (match getNextChar (mkForced ⟨2, 6, 0⟩ .utf8 false true false [[0x61, 0x0D, 0x0A, 0x62]]) with
    | .char _ r => r.charWin | _ => []) = [chCR] := by decide +kernel

end XV.Props.C04
