/-
C17 — distinct parser, document and transcoder objects are safe to use concurrently.
Property theorems only; helper lemmas live in XV.Lemmas.{Trace,LazyInit,SyncPool}.

What is proved here is the *logic* of the synchronisation, for every trace / schedule and any number of threads:
  * lockset discipline ⇒ every pair of conflicting accesses is ordered by happens-before (no data race);
  * the executable trace checker that judges the traces recorded from the real library (hook H2) accepts
    exactly the traces that satisfy the declarative discipline;
  * the check / lock / re-check / build / publish / unlock protocol initialises once and every user sees the value;
  * the synchronized string pool: ids are stable and every interleaving is linearizable;
  * every modelled guarded access point still has its XMLMutexLock in the current sources (Gen.LockSites).
What is NOT proved (and cannot be, at this level): hardware / compiler memory-model effects, code that carries
no access marker, ICU internals.  See ASSUMPTIONS in tools/props/c17.py.
-/
import XV.Lemmas.Trace
import XV.Lemmas.LazyInit
import XV.Lemmas.SyncPool
import XV.Model.LockTable
namespace XV.Props.C17

section Traces
open XV.Spec.Trace

/-! ## 1. lockset discipline ⇒ data-race freedom (all traces, any number of threads) -/

/-- In a well-formed trace that follows the lockset discipline, any two conflicting accesses (same resource,
different threads, at least one write) are ordered by happens-before — in the order they occur. -/
theorem lockset_implies_drf (g : Resource → Mutex) (sg : Site → Mutex) (tr : List Event)
    (hw : WellFormedLocks tr) (hl : LocksetOK g sg tr) :
    ∀ i j e₁ e₂, tr[i]? = some e₁ → tr[j]? = some e₂ → conflicting e₁ e₂ → HB tr i j ∨ HB tr j i := by
  rintro i j e₁ e₂ hi hj ⟨t₁, t₂, r, w₁, w₂, rfl, rfl, hne, _⟩
  rcases Nat.lt_trichotomy i j with hlt | heq | hgt
  · exact Or.inl (XV.Lemmas.Trace.drf_ordered hw hl hlt hi hj hne)
  · subst heq; rw [hi] at hj; cases hj; exact absurd rfl hne
  · exact Or.inr (XV.Lemmas.Trace.drf_ordered hw hl hgt hj hi (Ne.symm hne))

/-- Mutual exclusion: two threads never hold the same mutex at the same point of a well-formed trace. -/
theorem mutual_exclusion (tr : List Event) (hw : WellFormedLocks tr) (t t' : Thread) (m : Mutex) (k : Nat)
    (h : Holds tr t m k) (h' : Holds tr t' m k) : t = t' :=
  XV.Lemmas.Trace.holds_unique hw h h'

/-- Happens-before only relates earlier positions to later ones (so `HB i j ∨ HB j i` is never both). -/
theorem hb_lt (tr : List Event) (i j : Nat) (h : HB tr i j) : i < j := by
  induction h with
  | po h _ _ _ => exact h
  | sw h _ _ => exact h
  | trans _ _ ih1 ih2 => exact Nat.lt_trans ih1 ih2

/-- The verified checker: accepts exactly the traces that are well-formed and follow the discipline. -/
theorem checkTrace_sound_complete (g : Resource → Mutex) (sg : Site → Mutex) (tr : List Event) :
    checkTrace g sg tr = .ok () ↔ WellFormedLocks tr ∧ LocksetOK g sg tr :=
  XV.Lemmas.Trace.checkTrace_ok_iff g sg tr

theorem checkInitOnce_sound_complete (tr : List Event) : checkInitOnce tr = .ok () ↔ InitOnce tr :=
  XV.Lemmas.Trace.checkInitOnce_ok_iff tr

/-- What an accepted trace gives: no data race on any marked resource, and at most one completed
initialisation per site. -/
theorem accepted_trace_race_free (g : Resource → Mutex) (sg : Site → Mutex) (tr : List Event)
    (h1 : checkTrace g sg tr = .ok ()) (h2 : checkInitOnce tr = .ok ()) :
    (∀ i j e₁ e₂, tr[i]? = some e₁ → tr[j]? = some e₂ → conflicting e₁ e₂ → HB tr i j ∨ HB tr j i) ∧ InitOnce tr := by
  obtain ⟨hw, hl⟩ := (checkTrace_sound_complete g sg tr).1 h1
  exact ⟨lockset_implies_drf g sg tr hw hl, (checkInitOnce_sound_complete tr).1 h2⟩

/-! Non-vacuity.  Resource 7 guarded by mutex 1; site 3 guarded by mutex 1.  Two threads. -/
def gEx : Resource → Mutex := fun _ => 1
def goodTrace : List Event :=
  [.acq 0 1, .acc 0 7 true, .initBegin 0 3, .initEnd 0 3, .rel 0 1, .acq 1 1, .acc 1 7 false, .rel 1 1]
/-- the lock around thread 1's access deleted -/
def badTrace : List Event := [.acq 0 1, .acc 0 7 true, .rel 0 1, .acc 1 7 false]
/-- thread 1 enters while thread 0 is inside (a mutex that does not exclude) -/
def overlapTrace : List Event := [.acq 0 1, .acq 1 1, .acc 0 7 true, .acc 1 7 true, .rel 1 1, .rel 0 1]
def twiceTrace : List Event :=
  [.acq 0 1, .initBegin 0 3, .initEnd 0 3, .rel 0 1, .acq 1 1, .initBegin 1 3, .initEnd 1 3, .rel 1 1]

example : checkTrace gEx gEx goodTrace = .ok () ∧ checkInitOnce goodTrace = .ok () := by decide
example : WellFormedLocks goodTrace ∧ LocksetOK gEx gEx goodTrace :=
  (checkTrace_sound_complete gEx gEx goodTrace).1 (by decide)
example : conflicting (goodTrace[1]) (goodTrace[6]) := ⟨0, 1, 7, true, false, rfl, rfl, by decide, Or.inl rfl⟩
example : HB goodTrace 1 6 :=
  HB.trans (k := 5) (HB.trans (k := 4) (HB.po (e₁ := .acc 0 7 true) (e₂ := .rel 0 1) (by decide) rfl rfl rfl)
    (HB.sw (t := 0) (t' := 1) (m := 1) (by decide) rfl rfl))
    (HB.po (e₁ := .acq 1 1) (e₂ := .acc 1 7 false) (by decide) rfl rfl rfl)
example : checkTrace gEx gEx badTrace = .error (.unguarded 3 1 1) := by decide
example : ¬ (WellFormedLocks badTrace ∧ LocksetOK gEx gEx badTrace) := by
  rw [← checkTrace_sound_complete]; decide
example : checkTrace gEx gEx overlapTrace = .error (.acquireHeld 1 1 1) := by decide
example : checkTrace gEx gEx twiceTrace = .ok () ∧ checkInitOnce twiceTrace = .error (.secondInit 6 1 3) := by decide
example : ¬ InitOnce twiceTrace := by rw [← checkInitOnce_sound_complete]; decide

end Traces

/-! ## 2. lazy initialisation: once, and every user sees the value -/

open XV.Model.LazyInit in
/-- For every number of threads, every entry point (with or without the unlocked first check) and every
schedule: at most one initialisation completes; a thread that finished obtained the initialised value, and
exactly one initialisation had completed by then; the mutex is held exactly by a thread inside the critical
section. -/
theorem init_once (val : Nat) (entry : Thread → Bool) (sched : List Thread) :
    let s := run val sched (init entry)
    s.inits ≤ 1 ∧
    (∀ t v, s.pc t = .done v → v = val ∧ s.inits = 1) ∧
    (∀ t, s.pc t = .use → s.flag = true ∧ s.data = val) ∧
    (∀ t t', s.lock = some t → s.lock = some t' → t = t') := by
  intro s
  have hi : XV.Lemmas.LazyInit.Inv val s := XV.Lemmas.LazyInit.inv_run val sched _ (XV.Lemmas.LazyInit.inv_init val entry)
  refine ⟨?_, ?_, ?_, ?_⟩
  · cases hf : s.flag with
    | true => have := (hi.flagT hf).2; omega
    | false => have := hi.flagF hf; omega
  · intro t v h
    obtain ⟨h1, h2⟩ := hi.finished t v h
    exact ⟨h1, (hi.flagT h2).2⟩
  · intro t h
    have hf := hi.atUse t h
    exact ⟨hf, (hi.flagT hf).1⟩
  · intro t t' h h'; rw [h] at h'; cases h'; rfl

open XV.Model.LazyInit in
/-- No deadlock: in every reachable state in which some thread has not finished, some thread can move. -/
theorem init_no_deadlock (val : Nat) (entry : Thread → Bool) (sched : List Thread) (t : Thread) :
    let s := run val sched (init entry)
    (∀ v, s.pc t ≠ .done v) → ∃ t', XV.Lemmas.LazyInit.Enabled val t' s := by
  intro s hnd
  have hi : XV.Lemmas.LazyInit.Inv val s := XV.Lemmas.LazyInit.inv_run val sched _ (XV.Lemmas.LazyInit.inv_init val entry)
  by_cases hl : s.pc t = .lock ∧ s.lock ≠ none
  · obtain ⟨_, hne⟩ := hl
    obtain ⟨t', ht'⟩ : ∃ t', s.lock = some t' := by
      cases h : s.lock with
      | none => exact absurd h hne
      | some t' => exact ⟨t', rfl⟩
    have hcs := hi.holder t' ht'
    refine ⟨t', XV.Lemmas.LazyInit.enabled_of_not_blocked val t' s ?_ ?_⟩
    · intro v hv; rw [hv] at hcs; exact hcs
    · intro hv; rw [hv] at hcs; exact hcs.elim
  · refine ⟨t, XV.Lemmas.LazyInit.enabled_of_not_blocked val t s hnd ?_⟩
    intro hpc
    cases h : s.lock with
    | none => rfl
    | some t' => exact absurd ⟨hpc, by rw [h]; simp⟩ hl

/-! Non-vacuity: two threads, both pass the unlocked first check before either initialises; and the three
mutations (no re-check, no exclusion, flag stored before the data) each break the statement. -/
section
open XV.Model.LazyInit
def sched2 : List Thread := [0, 1, 0, 0, 0, 0, 0, 1, 1, 1, 0, 1]
example : (run 42 sched2 (init fun _ => true)).inits = 1 ∧
    (run 42 sched2 (init fun _ => true)).pc 0 = .done 42 ∧ (run 42 sched2 (init fun _ => true)).pc 1 = .done 42 := by
  decide
/-- re-check deleted: the second thread initialises again -/
example : (runV ⟨false, true, false⟩ 42 [0, 1, 0, 0, 0, 0, 0, 1, 1, 1, 1] (init fun _ => true)).inits = 2 := by decide
/-- lock deleted: both threads are inside the critical section and both initialise -/
example : (runV ⟨true, false, false⟩ 42 [0, 1, 0, 1, 0, 1, 0, 1, 0, 1] (init fun _ => true)).inits = 2 := by decide
/-- flag stored before the data: a thread that only ran the unlocked check uses uninitialised data -/
example : (runV ⟨true, true, true⟩ 42 [0, 0, 0, 0, 1, 1, 1] (init fun _ => true)).pc 1 = .done 0 := by decide
end

/-! ## 3. synchronized string pool -/

open XV.Model.SyncPool XV.Lemmas.SyncPool in
/-- An id once returned always denotes the same string: after `addOrFind s` returned `k` — whatever was executed
before and whatever is executed afterwards — `getValueForId k` yields `s`, and `addOrFind s`/`getId s` yield `k`. -/
theorem ids_stable (p : SSP) (hw : WF p) (pre post : List Op) (s : String) :
    let p1 := (runAtomic p pre).1
    let r := atomic p1 (.addOrFind s)
    let p2 := (runAtomic r.1 post).1
    ∃ k, r.2 = .id k ∧ k ≠ 0 ∧ (atomic p2 (.valueForId k)).2 = .str s ∧
      (atomic p2 (.addOrFind s)).2 = .id k ∧ (atomic p2 (.getId s)).2 = .id k := by
  intro p1 r p2
  obtain ⟨k, hk, hk0, hv⟩ := atomic_addOrFind p1 s
  have hw1 : WF p1 := runAtomic_wf p hw pre
  have hw2 : WF p2 := runAtomic_wf _ (atomic_wf p1 hw1 _) post
  have hv2 : valueOf p2 k = some s := valueOf_ext (runAtomic_ext r.1 post) k s hv
  obtain ⟨ha, hg⟩ := atomic_of_valueOf p2 hw2 k s hv2
  refine ⟨k, hk, hk0, ?_, by rw [ha], by rw [hg]⟩
  rw [atomic_valueForId, hv2]; rfl

open XV.Model.SyncPool XV.Lemmas.SyncPool in
/-- `getId` never invents an id: a non-zero answer denotes the queried string, zero means the string is in
neither pool; the pool is not changed. -/
theorem getId_denotes (p : SSP) (s : String) :
    (atomic p (.getId s)).1 = p ∧
    ∃ k, (atomic p (.getId s)).2 = .id k ∧ (k = 0 → s ∉ p.const.strs ∧ s ∉ p.over.strs) ∧
      (k ≠ 0 → valueOf p k = some s) :=
  atomic_getId p s

open XV.Model.SyncPool in
/-- The code AS WRITTEN violates this: with a non-empty const pool, `getId` of an unknown string returns the id
of the last const string (`XMLStringPool::getId(toFind)+constCount`). -/
theorem getId_asIs_not_stable :
    ∃ (p : SSP) (s : String) (k : Nat), (atomicAsIs p (.getId s)).2 = .id k ∧ k ≠ 0 ∧ valueOf p k ≠ some s :=
  ⟨⟨⟨["urn:a", "urn:b"]⟩, ⟨[]⟩⟩, "urn:never-seen", 2, by decide, by decide, by decide⟩

open XV.Model.SyncPool XV.Lemmas.SyncPool in
/-- Linearizability at operation granularity.  For every initial pool, every per-thread program and EVERY
interleaving of the unlocked and locked phases of the threads' operations: executing the completed operations
one at a time, in completion order, single-threaded, gives exactly the results the threads observed and exactly
the final pool; and each thread's completed operations, its pending one and its remaining ones are its program
(completion order respects program order). -/
theorem linearizable (p0 : SSP) (prog : Thread → List Op) (sched : List Thread) :
    let s := (Sys.init p0 prog).run sched
    runAtomic p0 (s.log.map (·.2.1)) = (s.pool, s.log.map (·.2.2)) ∧
    ∀ t, ((s.log.filter (·.1 == t)).map (·.2.1)) ++ (s.pending t).toList ++ s.prog t = prog t := by
  intro s
  have hi := linv_run p0 prog sched _ (linv_init p0 prog)
  exact ⟨hi.lin, hi.order⟩

/-! Non-vacuity: const pool {a,b}; two threads interleave their phases; ids are shifted by the const count. -/
section
open XV.Model.SyncPool
def p0 : SSP := ⟨⟨["urn:a", "urn:b"]⟩, ⟨[]⟩⟩
def prog2 : Thread → List Op
  | 0 => [.addOrFind "urn:x", .getId "urn:y", .valueForId 3]
  | 1 => [.addOrFind "urn:y", .addOrFind "urn:x", .addOrFind "urn:a"]
  | _ => []
example : XV.Lemmas.SyncPool.WF p0 := by
  refine ⟨by decide, by decide, ?_⟩; intro s _; simp [p0]
example : ((Sys.init p0 prog2).run [0, 1, 1, 0, 0, 1, 0, 1, 1, 0, 0, 1]).log =
    [(1, .addOrFind "urn:y", .id 3), (0, .addOrFind "urn:x", .id 4), (0, .getId "urn:y", .id 3),
     (1, .addOrFind "urn:x", .id 4), (1, .addOrFind "urn:a", .id 1), (0, .valueForId 3, .str "urn:y")] := by decide
example : (atomic p0 (.getId "urn:never-seen")).2 = .id 0 ∧ (atomicAsIs p0 (.getId "urn:never-seen")).2 = .id 2 := by
  decide
end

/-! ## 4. every modelled guarded access point still has its lock in the sources (Gen.LockSites) -/

open XV.Model.LockTable XV.Gen.LockSites in
/-- Deleting the XMLMutexLock that protects a modelled resource breaks this theorem; adding locks does not. -/
theorem all_guarded_resources_have_site :
    ∀ g ∈ guardTable, ∃ s ∈ lockSites, s.file = g.file ∧ s.func = g.func ∧ s.mutex = g.mutex := by
  decide

open XV.Model.LockTable XV.Gen.LockSites in
/-- Every access marker (hook H2) sits in a function body after an XMLMutexLock on the mutex it names, and
every marker belongs to a modelled access point with the mutex the model expects — so the guard function the
trace checker is run with is the one of `guardTable`. -/
theorem all_markers_guarded :
    (∀ m ∈ markers, ∃ s ∈ lockSites, s.file = m.file ∧ s.fnLine = m.fnLine ∧ s.mutex = m.mutex ∧ s.line < m.line) ∧
    (∀ m ∈ markers, ∃ g ∈ guardTable, g.file = m.file ∧ g.func = m.func ∧ g.resource = m.resource ∧ g.mutex = m.mutex) ∧
    (∀ g ∈ guardTable, ∃ m ∈ markers, g.file = m.file ∧ g.func = m.func ∧ g.resource = m.resource ∧ g.mutex = m.mutex) := by
  decide

open XV.Model.LockTable XV.Gen.LockSites in
/-- Counting obligation: every modelled function still has at least the expected number of XMLMutexLock sites on
the expected mutex and at least as many access markers of the resource.  Removing a lock TOGETHER WITH its marker
(which leaves `all_markers_guarded` intact) breaks this theorem; adding locks or markers does not. -/
theorem all_guarded_site_counts :
    ∀ c ∈ siteCounts,
      c.sites ≤ (lockSites.filter (fun s => s.file == c.file && s.func == c.func && s.mutex == c.mutex)).length ∧
      c.sites ≤ (markers.filter (fun m => m.file == c.file && m.func == c.func && m.mutex == c.mutex &&
                                          m.resource == c.resource && m.kind == "access")).length := by
  decide

example : XV.Model.LockTable.siteCounts.length = 17 := by decide

end XV.Props.C17
