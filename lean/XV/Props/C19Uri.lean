/-
C19 (URI part) — property theorems: relative-reference resolution of XMLURL and XMLUri is RFC 2396 §5.2.

  Spec   XV.Spec.Uri    `resolve`, `removeDotSegments` (RFC 2396 §5.2 steps 2–7 over parsed components)
  Model  XV.Model.Uri   `conglomerate`/`setURL` (XMLURL), `xmlUriResolve` (XMLUri), `weavePaths` — the code after the
                        minimal fixes D3–D6; the `…AsIs` variants are the code as it is

Theorems (all for arbitrary strings / lists, no bounds):
  step6e_complete              after step 6e no "<segment>/../" is left (the iteration bound of the Spec suffices)
  remove_dots_idempotent       steps 6c–6f applied twice = applied once, for every segment list
  zipper_eq_iterated_leftmost  the offset/restart scan of removeDotDotSlash = "remove the leftmost occurrence, iterate"
  weave_eq_rfc                 weavePaths (with 6d/6f added) = steps 6a–6f
  resolve_rfc2396              XMLURL::conglomerateWithBase (fixed) = §5.2 on `urlDomain`
  seturl_rfc2396               the same for XMLURL::setURL(base, rel)
  xmluri_resolve_rfc2396       XMLUri::initialize(base, spec) (fixed) = §5.2 on `uriDomain`
Every case excluded by `urlDomain` / `uriDomain` (XV.Model.Uri) has a counterexample below (`by decide`), and so has
every defect of the unchanged code (D3–D6).

The hypothesis "no empty segment except the last" asked for in the property text is NOT needed by any theorem here:
model and Spec agree on every list.  It limits where the *model* is the *code* (see the header of XV.Model.Uri) and
is applied by the correspondence check (tools/props/c19_uri.py).
-/
import XV.Lemmas.Uri
namespace XV.Props.C19Uri
open XV.Spec.Uri XV.Model.Uri XV.Lemmas.Uri

/-! ### dot segments -/

/-- 6e is complete: "until no matching pattern remains" -/
theorem step6e_complete (l : List Seg) : removeLeftmost (step6e l) = none :=
  step6e_patFree l

/-- removing dot segments twice is removing them once -/
theorem remove_dots_idempotent (l : List Seg) :
    removeDotSegments (removeDotSegments l) = removeDotSegments l :=
  removeDotSegments_idem l

/-- removeDotDotSlash (and the identical loop of XMLUri step 6e): scanning left to right with
    `offset = segIndex` after a removal and `offset += 4` otherwise gives the iterated leftmost removal of the RFC -/
theorem zipper_eq_iterated_leftmost (l : List Seg) : removeDotDotSlash l = step6e l :=
  removeDotDotSlash_eq l

/-- weavePaths after the fix = RFC 2396 §5.2 steps 6a–6f, for all base and reference segment lists -/
theorem weave_eq_rfc (baseSegs relSegs : List Seg) :
    weavePaths baseSegs relSegs = removeDotSegments (merge baseSegs relSegs) :=
  weavePaths_eq baseSegs relSegs

/-! ### XMLURL -/

/-- XMLURL::conglomerateWithBase, after the fixes D3 and D4, is RFC 2396 §5.2 (up to what an XMLURL can store:
    `ofUri`) on `urlDomain`:
      base.scheme defined, base path absolute and non-empty, and either rel.scheme is defined or
        rel well formed,  rel ≠ "",  rel is not "?query#fragment",
        rel.authority ≠ "" (or base without host and rel.absPath),
        base.scheme = "file" → rel.authority undefined ∨ (base without host ∧ rel.absPath),
        base.scheme ≠ "file" → base has a host ∨ rel.authority defined ∨ rel.absPath ∨ rel is "#fragment". -/
theorem resolve_rfc2396 (base rel : Uri) (hd : urlDomain base rel = true) :
    conglomerate (ofUri base) (ofUri rel) = some (ofUri (resolve base rel)) :=
  conglomerate_eq_resolve base rel hd

/-- XMLURL::setURL(base, rel): `if (isRelative()) conglomerateWithBase(base)` -/
theorem seturl_rfc2396 (base rel : Uri) (hd : urlDomain base rel = true) :
    setURL (ofUri base) (ofUri rel) = some (ofUri (resolve base rel)) := by
  unfold setURL setURLWith
  split
  · exact conglomerate_eq_resolve base rel hd
  · rename_i h
    cases hrs : rel.scheme with
    | none => simp [isRelative, ofUri, hrs] at h
    | some s =>
      have : resolve base rel = rel := by simp [resolve, hrs]
      rw [this]

/-! ### XMLUri -/

/-- XMLUri::initialize(baseURI, uriSpec), after the fixes D5 and D6, is RFC 2396 §5.2 on `uriDomain`:
      base path absolute and non-empty,  rel well formed,
      rel is not a query-only reference "?y" / "?y#s" (deliberate RFC 3986 behaviour of XMLUri),
      rel = "" → base.fragment undefined. -/
theorem xmluri_resolve_rfc2396 (base rel : Uri) (hd : uriDomain base rel = true) :
    xmlUriResolve base rel = some (resolve base rel) :=
  xmlUriResolve_eq_resolve base rel hd

/-! ### Non-vacuity: RFC 2396 appendix C, all 42 examples, base "http://a/b/c/d;p?q" -/

/-- "http://a/b/c/d;p?q" -/
def rfcBase : Uri := ⟨some "http", some "a", true, ["b", "c", "d;p"], some "q", none⟩

/-- a relative reference without scheme and authority -/
def R (abs : Bool) (segs : List Seg) (q f : Option String) : Uri := ⟨none, none, abs, segs, q, f⟩
/-- "http://a" ++ absolute path ++ … -/
def A (segs : List Seg) (q f : Option String) : Uri := ⟨some "http", some "a", true, segs, q, f⟩

/-- (parsed reference, parsed expected result), in the order of appendix C.1 and C.2 -/
def appendixC : List (Uri × Uri) := [
  (⟨some "g", none, false, ["h"], none, none⟩, ⟨some "g", none, false, ["h"], none, none⟩),                      -- "g:h"           ↦ g:h
  (R false ["g"] none none, A ["b", "c", "g"] none none),                                                        -- "g"             ↦ http://a/b/c/g
  (R false [".", "g"] none none, A ["b", "c", "g"] none none),                                                   -- "./g"           ↦ http://a/b/c/g
  (R false ["g", ""] none none, A ["b", "c", "g", ""] none none),                                                -- "g/"            ↦ http://a/b/c/g/
  (R true ["g"] none none, A ["g"] none none),                                                                   -- "/g"            ↦ http://a/g
  (⟨none, some "g", false, [], none, none⟩, ⟨some "http", some "g", false, [], none, none⟩),                     -- "//g"           ↦ http://g
  (R false [] (some "y") none, A ["b", "c", ""] (some "y") none),                                                -- "?y"            ↦ http://a/b/c/?y
  (R false ["g"] (some "y") none, A ["b", "c", "g"] (some "y") none),                                            -- "g?y"           ↦ http://a/b/c/g?y
  (R false [] none (some "s"), A ["b", "c", "d;p"] (some "q") (some "s")),                                       -- "#s"            ↦ http://a/b/c/d;p?q#s
  (R false ["g"] none (some "s"), A ["b", "c", "g"] none (some "s")),                                            -- "g#s"           ↦ http://a/b/c/g#s
  (R false ["g"] (some "y") (some "s"), A ["b", "c", "g"] (some "y") (some "s")),                                -- "g?y#s"         ↦ http://a/b/c/g?y#s
  (R false [";x"] none none, A ["b", "c", ";x"] none none),                                                      -- ";x"            ↦ http://a/b/c/;x
  (R false ["g;x"] none none, A ["b", "c", "g;x"] none none),                                                    -- "g;x"           ↦ http://a/b/c/g;x
  (R false ["g;x"] (some "y") (some "s"), A ["b", "c", "g;x"] (some "y") (some "s")),                            -- "g;x?y#s"       ↦ http://a/b/c/g;x?y#s
  (R false ["."] none none, A ["b", "c", ""] none none),                                                         -- "."             ↦ http://a/b/c/
  (R false [".", ""] none none, A ["b", "c", ""] none none),                                                     -- "./"            ↦ http://a/b/c/
  (R false [".."] none none, A ["b", ""] none none),                                                             -- ".."            ↦ http://a/b/
  (R false ["..", ""] none none, A ["b", ""] none none),                                                         -- "../"           ↦ http://a/b/
  (R false ["..", "g"] none none, A ["b", "g"] none none),                                                       -- "../g"          ↦ http://a/b/g
  (R false ["..", ".."] none none, A [""] none none),                                                            -- "../.."         ↦ http://a/
  (R false ["..", "..", ""] none none, A [""] none none),                                                        -- "../../"        ↦ http://a/
  (R false ["..", "..", "g"] none none, A ["g"] none none),                                                      -- "../../g"       ↦ http://a/g
  (R false [] none none, A ["b", "c", "d;p"] (some "q") none),                                                   -- ""              ↦ http://a/b/c/d;p?q
  (R false ["..", "..", "..", "g"] none none, A ["..", "g"] none none),                                          -- "../../../g"    ↦ http://a/../g
  (R false ["..", "..", "..", "..", "g"] none none, A ["..", "..", "g"] none none),                              -- "../../../../g" ↦ http://a/../../g
  (R true [".", "g"] none none, A [".", "g"] none none),                                                         -- "/./g"          ↦ http://a/./g
  (R true ["..", "g"] none none, A ["..", "g"] none none),                                                       -- "/../g"         ↦ http://a/../g
  (R false ["g."] none none, A ["b", "c", "g."] none none),                                                      -- "g."            ↦ http://a/b/c/g.
  (R false [".g"] none none, A ["b", "c", ".g"] none none),                                                      -- ".g"            ↦ http://a/b/c/.g
  (R false ["g.."] none none, A ["b", "c", "g.."] none none),                                                    -- "g.."           ↦ http://a/b/c/g..
  (R false ["..g"] none none, A ["b", "c", "..g"] none none),                                                    -- "..g"           ↦ http://a/b/c/..g
  (R false [".", "..", "g"] none none, A ["b", "g"] none none),                                                  -- "./../g"        ↦ http://a/b/g
  (R false [".", "g", "."] none none, A ["b", "c", "g", ""] none none),                                          -- "./g/."         ↦ http://a/b/c/g/
  (R false ["g", ".", "h"] none none, A ["b", "c", "g", "h"] none none),                                         -- "g/./h"         ↦ http://a/b/c/g/h
  (R false ["g", "..", "h"] none none, A ["b", "c", "h"] none none),                                             -- "g/../h"        ↦ http://a/b/c/h
  (R false ["g;x=1", ".", "y"] none none, A ["b", "c", "g;x=1", "y"] none none),                                 -- "g;x=1/./y"     ↦ http://a/b/c/g;x=1/y
  (R false ["g;x=1", "..", "y"] none none, A ["b", "c", "y"] none none),                                         -- "g;x=1/../y"    ↦ http://a/b/c/y
  (R false ["g"] (some "y/./x") none, A ["b", "c", "g"] (some "y/./x") none),                                    -- "g?y/./x"       ↦ http://a/b/c/g?y/./x
  (R false ["g"] (some "y/../x") none, A ["b", "c", "g"] (some "y/../x") none),                                  -- "g?y/../x"      ↦ http://a/b/c/g?y/../x
  (R false ["g"] none (some "s/./x"), A ["b", "c", "g"] none (some "s/./x")),                                    -- "g#s/./x"       ↦ http://a/b/c/g#s/./x
  (R false ["g"] none (some "s/../x"), A ["b", "c", "g"] none (some "s/../x")),                                  -- "g#s/../x"      ↦ http://a/b/c/g#s/../x
  (⟨some "http", none, false, ["g"], none, none⟩, ⟨some "http", none, false, ["g"], none, none⟩)]                -- "http:g"        ↦ http:g
/-- the Spec reproduces the whole table of appendix C -/
example : appendixC.all (fun p => decide (resolve rfcBase p.1 = p.2)) = true := by decide

example : recompose (resolve rfcBase (R false ["..", "..", "..", "g"] none none)) = "http://a/../g" := by decide
example : recompose (resolve rfcBase (R false [] (some "y") none)) = "http://a/b/c/?y" := by decide

/-- the fixed XMLURL model gives the Spec's answer on every appendix C example inside `urlDomain`; the examples
    outside are exactly "" , "?y#s"-like ones: here only the empty reference -/
example : appendixC.all (fun p => !urlDomain rfcBase p.1 ||
    decide (setURL (ofUri rfcBase) (ofUri p.1) = some (ofUri p.2))) = true := by decide
example : (appendixC.filter (fun p => !urlDomain rfcBase p.1)).map (·.1) = [R false [] none none] := by decide

/-- the fixed XMLUri model gives the Spec's answer on every appendix C example except "?y" (outside `uriDomain`) -/
example : appendixC.all (fun p => !uriDomain rfcBase p.1 ||
    decide (xmlUriResolve rfcBase p.1 = some p.2)) = true := by decide
example : (appendixC.filter (fun p => !uriDomain rfcBase p.1)).map (·.1) = [R false [] (some "y") none] := by decide

-- non-vacuity of the single theorems, with non-trivial data
example : step6e ["a", "b", "..", "..", "..", "c", "..", "d"] = ["..", "d"] := by decide
example : removeLeftmost (step6e ["a", "b", "..", "..", "..", "c", "..", "d"]) = none := by decide
example : removeDotSegments [".", "a", ".", "b", "..", "..", "..", "c", ".."] = ["..", ""] := by decide
example : removeDotSegments ["..", ""] = ["..", ""] := by decide
example : removeDotDotSlash ["..", "a", "b", "..", "..", "..", "c", ".."] = ["..", "..", "c", ".."] := by decide
example : weavePaths ["b", "c", "d;p"] ["..", "x", ".", "..", "g", "."] = ["b", "g", ""] := by decide
example : urlDomain ⟨some "file", some "", true, ["tmp", "x", "main.xml"], none, none⟩
    (R false ["..", "dtd", ".", "a.dtd"] none (some "f")) = true := by decide
example : setURL (ofUri ⟨some "file", some "", true, ["tmp", "x", "main.xml"], none, none⟩)
    (ofUri (R false ["..", "dtd", ".", "a.dtd"] none (some "f")))
    = some ⟨some "file", none, true, ["tmp", "dtd", "a.dtd"], none, some "f"⟩ := by decide
example : uriDomain ⟨some "ftp", some "u@h:21", true, ["p", "q", ""], none, none⟩
    (R false ["..", "..", "..", "x"] (some "y") none) = true := by decide
example : xmlUriResolve ⟨some "ftp", some "u@h:21", true, ["p", "q", ""], none, none⟩
    (R false ["..", "..", "..", "x"] (some "y") none)
    = some ⟨some "ftp", some "u@h:21", true, ["..", "x"], some "y", none⟩ := by decide

/-! ### The defects of the unchanged code (each one contradicts the Spec on an appendix C example or next to it) -/

/-- D3: weavePaths has no step 6d / 6f — "." , "..", "../..", "./g/." -/
example : weavePathsAsIs ["b", "c", "d;p"] ["."] = ["b", "c", "."]
    ∧ removeDotSegments (merge ["b", "c", "d;p"] ["."]) = ["b", "c", ""] := by decide
example : weavePathsAsIs ["b", "c", "d;p"] [".."] = ["b", "c", ".."]
    ∧ removeDotSegments (merge ["b", "c", "d;p"] [".."]) = ["b", ""] := by decide
example : setURLAsIs (ofUri rfcBase) (ofUri (R false ["..", ".."] none none))
    ≠ some (ofUri (resolve rfcBase (R false ["..", ".."] none none))) := by decide

/-- D4: "#s" loses the base's query -/
example : setURLAsIs (ofUri rfcBase) (ofUri (R false [] none (some "s")))
      = some ⟨some "http", some "a", true, ["b", "c", "d;p"], none, some "s"⟩
    ∧ resolve rfcBase (R false [] none (some "s")) = A ["b", "c", "d;p"] (some "q") (some "s") := by decide

/-- D5: "//g" keeps no scheme -/
example : xmlUriResolveAsIs rfcBase ⟨none, some "g", false, [], none, none⟩
      = some ⟨none, some "g", false, [], none, none⟩
    ∧ resolve rfcBase ⟨none, some "g", false, [], none, none⟩
      = ⟨some "http", some "g", false, [], none, none⟩ := by decide

/-- D6: "../../.." — the buffer of step 6f is "/..": exception; the Spec (6g, first alternative) keeps it, and
    so does XMLUri itself for "../../../g" -/
example : xmlUriResolveAsIs rfcBase (R false ["..", "..", ".."] none none) = none
    ∧ resolve rfcBase (R false ["..", "..", ".."] none none) = A [".."] none none
    ∧ xmlUriResolveAsIs rfcBase (R false ["..", "..", "..", "g"] none none) = some (A ["..", "g"] none none) := by
  decide

/-! ### The cases excluded by `urlDomain`: the (fixed) code really deviates -/

/-- the empty reference (parse throws; conglomerateWithBase alone would give the base directory) -/
example : conglomerate (ofUri rfcBase) (ofUri (R false [] none none)) = some (ofUri (A ["b", "c", ""] (some "q") none))
    ∧ resolve rfcBase (R false [] none none) = rfcBase := by decide

/-- "?y#s": the fragment-only special case keeps the whole base path (RFC 3986); RFC 2396: "/b/c/?y#s" -/
example : conglomerate (ofUri rfcBase) (ofUri (R false [] (some "y") (some "s")))
      = some (ofUri (A ["b", "c", "d;p"] (some "y") (some "s")))
    ∧ resolve rfcBase (R false [] (some "y") (some "s")) = A ["b", "c", ""] (some "y") (some "s") := by decide

/-- "///x": an empty authority is no authority for XMLURL -/
example : conglomerate (ofUri rfcBase) (ofUri ⟨none, some "", true, ["x"], none, none⟩)
      = some (ofUri (A ["x"] none none))
    ∧ resolve rfcBase ⟨none, some "", true, ["x"], none, none⟩ = ⟨some "http", some "", true, ["x"], none, none⟩ := by
  decide

/-- file: a reference with an authority gets the base's host -/
example : conglomerate (ofUri ⟨some "file", some "h0", true, ["tmp", "x"], none, none⟩)
        (ofUri ⟨none, some "h", true, ["p"], none, none⟩)
      = some (ofUri ⟨some "file", some "h0", true, ["p"], none, none⟩)
    ∧ resolve ⟨some "file", some "h0", true, ["tmp", "x"], none, none⟩ ⟨none, some "h", true, ["p"], none, none⟩
      = ⟨some "file", some "h", true, ["p"], none, none⟩ := by decide

/-- file: "//h?q" — no path after the authority: the base directory is woven in -/
example : conglomerate (ofUri ⟨some "file", some "", true, ["tmp", "x"], none, none⟩)
        (ofUri ⟨none, some "h", false, [], some "q", none⟩)
      = some (ofUri ⟨some "file", some "h", true, ["tmp", ""], some "q", none⟩)
    ∧ resolve ⟨some "file", some "", true, ["tmp", "x"], none, none⟩ ⟨none, some "h", false, [], some "q", none⟩
      = ⟨some "file", some "h", false, [], some "q", none⟩ := by decide

/-- not file, base without host ("ftp:///a/b" + "c"): returns before the paths are woven -/
example : conglomerate (ofUri ⟨some "ftp", some "", true, ["a", "b"], none, none⟩) (ofUri (R false ["c"] none none))
      = some ⟨some "ftp", none, false, ["c"], none, none⟩
    ∧ resolve ⟨some "ftp", some "", true, ["a", "b"], none, none⟩ (R false ["c"] none none)
      = ⟨some "ftp", some "", true, ["a", "c"], none, none⟩ := by decide

/-- a base that is "relative" for XMLURL (no protocol, or a path not starting with a slash) is refused -/
example : conglomerate (ofUri ⟨some "file", none, false, ["a", "b"], none, none⟩) (ofUri (R false ["c"] none none))
    = none := by decide

/-! ### The cases excluded by `uriDomain` -/

/-- "?y": XMLUri deliberately keeps the base path ("identified as a bug in the RFC", RFC 3986 behaviour) -/
example : xmlUriResolve rfcBase (R false [] (some "y") none) = some (A ["b", "c", "d;p"] (some "y") none)
    ∧ resolve rfcBase (R false [] (some "y") none) = A ["b", "c", ""] (some "y") none := by decide

/-- the empty reference copies the base with its fragment -/
example : xmlUriResolve (A ["b"] none (some "f")) (R false [] none none) = some (A ["b"] none (some "f"))
    ∧ resolve (A ["b"] none (some "f")) (R false [] none none) = A ["b"] none none := by decide

end XV.Props.C19Uri
