/-
C09 — schema datatypes: lexical, value-space, facet and canonical-form correctness.
Property theorems only; helper lemmas live in XV.Lemmas.*.

Models (code-shaped, XV.Model.Decimal / XV.Model.Codec): XMLBigDecimal::parseDecimal, toCompare/compareValues,
getCanonicalRepresentation, totalDigits/scale as computed there; XMLBigInteger::parseBigInteger, compareValues,
getCanonicalRepresentation; HexBin and Base64 (tables regenerated from the sources).
Specs (XV.Spec.Decimal / XV.Spec.Codec): XSD 1.0 Part 2 §3.2.3, §3.3.13, §3.2.15, §3.2.16 (E2-54), RFC 2045 Table 1.

`parseDecimal` is the parser WITH the minimal repair of defect F10 ("." "+." "-." accepted as 0); the code as
it stands is `parseDecimalOrig`, for which `decimal_lexical_orig_fails` keeps the witnesses.
-/
import XV.Lemmas.Decimal
import XV.Lemmas.Codec
import XV.Lemmas.Ws
import XV.Lemmas.DateTime
import XV.Lemmas.Facets
import XV.Lemmas.Duration
namespace XV.Props.C09
open XV.Spec.Decimal XV.Model.Decimal XV.Lemmas.Decimal

/-! ## xs:decimal -/

/-- A string is accepted iff, after white-space processing, it is in the lexical space of xs:decimal. -/
theorem decimal_lexical (s : List Char) :
    (∃ d, parseDecimal s = .ok d) ↔ isDecimalLex (trimWs s) = true := by
  unfold parseDecimal
  constructor
  · rintro ⟨d, h⟩
    obtain ⟨hb, hne⟩ := parseG_ok true s d h
    exact (parseBody_lex _ hne).mp ⟨d, hb⟩
  · intro h
    have hne : trimWs s ≠ [] := by intro e; rw [e] at h; cases h
    rw [parseG_of_body true s hne]
    exact (parseBody_lex _ hne).mpr h

/-- The unrepaired parser violates `decimal_lexical`: a lone decimal point (with or without sign, with or
without surrounding white space) is accepted — as zero — although it is not a decimal (defect F10). -/
theorem decimal_lexical_orig_fails :
    parseDecimalOrig ['.'] = .ok ⟨0, [], 0, 0⟩ ∧ isDecimalLex (trimWs ['.']) = false ∧
    parseDecimalOrig ['+', '.'] = .ok ⟨0, [], 0, 0⟩ ∧ isDecimalLex (trimWs ['+', '.']) = false ∧
    parseDecimalOrig [' ', '-', '.', '\n'] = .ok ⟨0, [], 0, 0⟩ ∧ isDecimalLex (trimWs [' ', '-', '.', '\n']) = false :=
  ⟨by rfl, by decide, by rfl, by decide, by rfl, by decide⟩

/-- What a successful parse holds (sign · intVal · 10^-scale) is the number the lexical form denotes, in
normal form: digits only, no leading zero in the integer part, no trailing zero in the fraction. -/
theorem decimal_value (s : List Char) (d : BigDecimal) (h : parseDecimal s = .ok d) :
    Normal d ∧ cmpSpec (decVal d) (val (trimWs s)) = .eq := by
  obtain ⟨hb, _⟩ := parseG_ok true s d h
  obtain ⟨hn, t, hv⟩ := parseBody_ok true _ d hb
  refine ⟨hn, ?_⟩
  have e : scaleUp (decVal d) 0 = decVal d := by simp [scaleUp]
  have := cmpSpec_scaleUp (decVal d) (decVal d) 0 t
  rw [e] at this
  rw [hv, this]; exact cmpSpec_refl _

/-- `compareValues` / `toCompare` is the order of the values, whatever the lexical forms. -/
theorem decimal_compare_value (x y : List Char) (dx dy : BigDecimal)
    (hx : parseDecimal x = .ok dx) (hy : parseDecimal y = .ok dy) :
    toCompare dx dy = ordInt (cmpSpec (val (trimWs x)) (val (trimWs y))) := by
  obtain ⟨hbx, _⟩ := parseG_ok true x dx hx
  obtain ⟨hby, _⟩ := parseG_ok true y dy hy
  obtain ⟨hnx, tx, hvx⟩ := parseBody_ok true _ dx hbx
  obtain ⟨hny, ty, hvy⟩ := parseBody_ok true _ dy hby
  rw [hvx, hvy, cmpSpec_scaleUp]
  exact toCompare_spec dx dy hnx hny

/-- reflexive: every value compares EQUAL to itself, and to any other lexical form of the same value -/
theorem decimal_compare_refl (x x' : List Char) (dx dx' : BigDecimal)
    (hx : parseDecimal x = .ok dx) (hx' : parseDecimal x' = .ok dx')
    (he : cmpSpec (val (trimWs x)) (val (trimWs x')) = .eq) : toCompare dx dx' = 0 ∧ toCompare dx dx = 0 := by
  constructor
  · rw [decimal_compare_value x x' dx dx' hx hx', he]; rfl
  · rw [decimal_compare_value x x dx dx hx hx, cmpSpec_refl]; rfl

/-- antisymmetric -/
theorem decimal_compare_antisymm (x y : List Char) (dx dy : BigDecimal)
    (hx : parseDecimal x = .ok dx) (hy : parseDecimal y = .ok dy) :
    toCompare dy dx = - toCompare dx dy := by
  rw [decimal_compare_value y x dy dx hy hx, decimal_compare_value x y dx dy hx hy, cmpSpec_swap]
  cases cmpSpec (val (trimWs x)) (val (trimWs y)) <;> rfl

/-- transitive (≤ with ≤ gives ≤; if one of them is strict, so is the result) -/
theorem decimal_compare_trans (x y z : List Char) (dx dy dz : BigDecimal)
    (hx : parseDecimal x = .ok dx) (hy : parseDecimal y = .ok dy) (hz : parseDecimal z = .ok dz)
    (h1 : toCompare dx dy ≤ 0) (h2 : toCompare dy dz ≤ 0) :
    toCompare dx dz ≤ 0 ∧ (toCompare dx dy < 0 ∨ toCompare dy dz < 0 → toCompare dx dz < 0) := by
  rw [decimal_compare_value x y dx dy hx hy] at h1
  rw [decimal_compare_value y z dy dz hy hz] at h2
  rw [decimal_compare_value x y dx dy hx hy, decimal_compare_value y z dy dz hy hz,
      decimal_compare_value x z dx dz hx hz]
  obtain ⟨a, ha⟩ : ∃ a, a = val (trimWs x) := ⟨_, rfl⟩
  obtain ⟨b, hb⟩ : ∃ b, b = val (trimWs y) := ⟨_, rfl⟩
  obtain ⟨c, hc⟩ : ∃ c, c = val (trimWs z) := ⟨_, rfl⟩
  rw [← ha, ← hb] at h1; rw [← hb, ← hc] at h2; rw [← ha, ← hb, ← hc]
  have le1 : a.1 * 10 ^ b.2 ≤ b.1 * 10 ^ a.2 := by
    cases h : cmpSpec a b with
    | lt => exact Int.le_of_lt ((cmpSpec_lt_iff a b).mp h)
    | eq => exact Int.le_of_eq ((cmpSpec_eq_iff a b).mp h)
    | gt => rw [h] at h1; simp [ordInt] at h1
  have le2 : b.1 * 10 ^ c.2 ≤ c.1 * 10 ^ b.2 := by
    cases h : cmpSpec b c with
    | lt => exact Int.le_of_lt ((cmpSpec_lt_iff b c).mp h)
    | eq => exact Int.le_of_eq ((cmpSpec_eq_iff b c).mp h)
    | gt => rw [h] at h2; simp [ordInt] at h2
  have key : cmpSpec a b = .lt ∨ cmpSpec b c = .lt → cmpSpec a c = .lt := by
    rintro (h | h)
    · exact (cmpSpec_lt_iff a c).mpr (cross_lt_trans' a b c ((cmpSpec_lt_iff a b).mp h) le2)
    · exact (cmpSpec_lt_iff a c).mpr (cross_lt_trans a b c le1 ((cmpSpec_lt_iff b c).mp h))
  have key2 : cmpSpec a b = .eq → cmpSpec b c = .eq → cmpSpec a c = .eq := fun h h' =>
    (cmpSpec_eq_iff a c).mpr (cross_eq_trans a b c ((cmpSpec_eq_iff a b).mp h) ((cmpSpec_eq_iff b c).mp h'))
  cases hab : cmpSpec a b with
  | gt => rw [hab] at h1; simp [ordInt] at h1
  | lt =>
    have := key (Or.inl hab)
    rw [this]; simp [ordInt]
  | eq =>
    cases hbc : cmpSpec b c with
    | gt => rw [hbc] at h2; simp [ordInt] at h2
    | lt =>
      have := key (Or.inr hbc)
      rw [this]; simp [ordInt]
    | eq =>
      have := key2 hab hbc
      rw [this]; simp [ordInt]

/-- equal values compare alike against everything, whatever their lexical form -/
theorem decimal_compare_lexical_independent (x x' y : List Char) (dx dx' dy : BigDecimal)
    (hx : parseDecimal x = .ok dx) (hx' : parseDecimal x' = .ok dx') (_hy : parseDecimal y = .ok dy)
    (he : cmpSpec (val (trimWs x)) (val (trimWs x')) = .eq) :
    toCompare dx dy = toCompare dx' dy ∧ dx = dx' := by
  have h0 := (decimal_compare_refl x x' dx dx' hx hx' he).1
  have e := toCompare_eq_zero dx dx' (decimal_value x dx hx).1 (decimal_value x' dx' hx').1 h0
  exact ⟨by rw [e], e⟩

/-! ### canonical representation -/

/-- The canonical representation is a valid, canonical lexical form (and needs no white-space processing). -/
theorem canonical_valid (s c : List Char) (h : canonical s = some c) :
    isDecimalLex c = true ∧ isCanonicalDecimal c = true ∧ trimWs c = c := by
  unfold canonical canonicalG at h
  cases hp : parseDecimalG true s with
  | error e => rw [hp] at h; cases h
  | ok d =>
    rw [hp] at h; injection h with h; subst h
    obtain ⟨neg, I, F, u, hs⟩ := canon_shape d (decimal_value s d hp).1
    exact ⟨(canon_lex d neg I F u hs).1, (canon_lex d neg I F u hs).2, (canon_trim d neg I F u hs).1⟩

/-- … denotes the same value … -/
theorem canonical_value (s c : List Char) (h : canonical s = some c) :
    cmpSpec (val c) (val (trimWs s)) = .eq := by
  unfold canonical canonicalG at h
  cases hp : parseDecimalG true s with
  | error e => rw [hp] at h; cases h
  | ok d =>
    rw [hp] at h; injection h with h; subst h
    obtain ⟨hb, _⟩ := parseG_ok true s d hp
    obtain ⟨hn, t, hv⟩ := parseBody_ok true _ d hb
    obtain ⟨neg, I, F, u, hs⟩ := canon_shape d hn
    rw [canon_val d hn neg I F u hs, hv, cmpSpec_scaleUp]; exact cmpSpec_refl _

/-- … and is a fixed point. -/
theorem canonical_idempotent (s c : List Char) (h : canonical s = some c) : canonical c = some c := by
  unfold canonical canonicalG at h ⊢
  cases hp : parseDecimalG true s with
  | error e => rw [hp] at h; cases h
  | ok d =>
    rw [hp] at h; injection h with h; subst h
    rw [parse_canon d (decimal_value s d hp).1]

/-- Values that compare EQUAL have the same canonical representation, and conversely
(the fact the identity-constraint hash table of C10 relies on). -/
theorem eq_same_canonical (x y : List Char) (dx dy : BigDecimal)
    (hx : parseDecimal x = .ok dx) (hy : parseDecimal y = .ok dy) :
    toCompare dx dy = 0 ↔ canonical x = canonical y := by
  have hnx := (decimal_value x dx hx).1
  have hny := (decimal_value y dy hy).1
  unfold parseDecimal at hx hy
  unfold canonical canonicalG
  rw [hx, hy]
  constructor
  · intro h; rw [toCompare_eq_zero dx dy hnx hny h]
  · intro h
    injection h with h
    have e : dx = dy := by
      have h1 := parse_canon dx hnx
      have h2 := parse_canon dy hny
      rw [h, h2] at h1; injection h1 with h1; exact h1.symm
    rw [e, toCompare_spec dy dy hny hny, cmpSpec_refl]; rfl

/-- totalDigits and fractionDigits as computed by `parseDecimal` are the E2-44 / §4.3.12 quantities:
`scale ≤ fd` iff the value is `i·10^-n` for some `n ≤ fd`; `totalDigits ≤ td` iff the value is `i·10^-n` with
`|i| < 10^td` and `n ≤ td` (what DecimalDatatypeValidator::checkContent tests). -/
theorem digits_facets_spec (s : List Char) (d : BigDecimal) (h : parseDecimal s = .ok d) (td fd : Nat) :
    (d.scale ≤ fd ↔ fractionDigitsOk (val (trimWs s)) fd) ∧
    (d.totalDigits ≤ td ↔ totalDigitsOk (val (trimWs s)) td) := by
  obtain ⟨hb, _⟩ := parseG_ok true s d h
  obtain ⟨hn, t, hv⟩ := parseBody_ok true _ d hb
  rw [hv]
  exact ⟨fractionDigits_spec d hn t fd, totalDigits_spec d hn t td⟩

/-! ## xs:integer (XMLBigInteger) -/

/-- accepted iff in the lexical space of xs:integer after white-space processing -/
theorem integer_lexical (s : List Char) :
    (∃ r, parseBigInteger s = .ok r) ↔ isIntegerLex (trimWs s) = true := by
  constructor
  · rintro ⟨r, h⟩
    obtain ⟨hb, hne⟩ := parseInt_ok s r h
    exact (parseIntBody_spec _ hne).1.mp ⟨r, hb⟩
  · intro h
    have hne : trimWs s ≠ [] := by intro e; rw [e] at h; cases h
    rw [parseInt_of_body s hne]
    exact (parseIntBody_spec _ hne).1.mpr h

/-- `compareValues` is the order of the integer values -/
theorem integer_compare_value (x y : List Char) (rx ry : Int × List Char)
    (hx : parseBigInteger x = .ok rx) (hy : parseBigInteger y = .ok ry) :
    (rx.1 * ((natOf rx.2 : Nat) : Int) = intVal (trimWs x)) ∧
    compareValuesInt rx ry =
      (if intVal (trimWs x) < intVal (trimWs y) then -1 else if intVal (trimWs y) < intVal (trimWs x) then 1 else 0) := by
  obtain ⟨hbx, hnex⟩ := parseInt_ok x rx hx
  obtain ⟨hby, hney⟩ := parseInt_ok y ry hy
  obtain ⟨hnx, hvx⟩ := (parseIntBody_spec _ hnex).2 rx hbx
  obtain ⟨hny, hvy⟩ := (parseIntBody_spec _ hney).2 ry hby
  refine ⟨hvx.symm, ?_⟩
  rw [compareValuesInt_eq rx ry hnx, toCompare_spec _ _ (asDec_normal rx hnx) (asDec_normal ry hny), hvx, hvy]
  unfold cmpSpec decVal asDec
  simp only [Int.pow_zero, Int.mul_one]
  split
  · rfl
  · split <;> rfl

/-- the canonical representation of an integer is a fixed point and a valid lexical form -/
theorem integer_canonical_idempotent (s c : List Char) (h : canonicalInt s = some c) :
    canonicalInt c = some c ∧ isIntegerLex (trimWs c) = true := by
  have key : canonicalInt c = some c := by
    unfold canonicalInt at h
    cases hp : parseBigInteger s with
    | error e => rw [hp] at h; cases h
    | ok r =>
      obtain ⟨sg, m⟩ := r
      rw [hp] at h
      simp only at h
      obtain ⟨hb, hne⟩ := parseInt_ok s _ hp
      obtain ⟨hn, _⟩ := (parseIntBody_spec _ hne).2 _ hb
      by_cases h0 : sg = 0
      · rw [if_pos h0] at h; injection h with h; subst h; rfl
      · rw [if_neg h0] at h
        have hc := parseInt_canon sg m hn h0
        by_cases h1 : sg = -1
        · rw [if_pos h1] at h; injection h with h; subst h
          rw [if_pos h1] at hc
          simp only [List.singleton_append] at hc
          unfold canonicalInt; rw [hc]; simp [h1]
        · rw [if_neg h1] at h; injection h with h; subst h
          rw [if_neg h1] at hc
          simp only [List.nil_append] at hc
          unfold canonicalInt; rw [hc]; simp [h0, h1]
  refine ⟨key, ?_⟩
  apply (integer_lexical c).mp
  unfold canonicalInt at key
  cases hp : parseBigInteger c with
  | error e => rw [hp] at key; cases key
  | ok r => exact ⟨r, rfl⟩

/-! ## hexBinary and base64Binary (HexBin, Base64) -/
section Codecs
open XV.Spec.Codec XV.Model.Codec XV.Lemmas.Codec XV.Gen.Codec

/-- The generated tables, masks and shift counts say what RFC 2045 Table 1 and the hex digits need them to say. -/
theorem codec_tables_spec :
    (∀ c, c < 255 → hexNum c = (hexDigitVal c).getD 0xFF) ∧
    (∀ c, c < 255 → XV.Model.Codec.inv c = (b64Val c).getD 0xFF) ∧
    (∀ v, v < 64 → alpha v = b64Char v) ∧
    (∀ v, v < 64 → b64Val (b64Char v) = some v) ∧
    (∀ c, c < 256 → isB04 c = (match b64Val c with | some v => v % 16 == 0 | none => false)) ∧
    (∀ c, c < 256 → isB16 c = (match b64Val c with | some v => v % 4 == 0 | none => false)) ∧
    (∀ a, a < 256 → split1stOctet a = (a / 4, a % 4 * 16)) ∧
    (∀ v1, v1 < 64 → ∀ v2, v2 < 64 → set1stOctet v1 v2 = (v1 * 4 + v2 / 16) % 256) ∧
    (hexBaseLength = 255 ∧ b64BaseLength = 255 ∧ fourByte = 4 ∧ base64Padding = XV.Spec.Codec.pad ∧
      quadsPerLine = 15 ∧ chLF = 0xA ∧ chSpace = sp ∧ pad2Mask = 15 ∧ pad1Mask = 3) :=
  ⟨hexNum_spec, inv_spec, alpha_spec, b64_inverse, isB04_spec, isB16_spec, split1_spec, set1_spec, consts_spec⟩

/-- `isArrayByteHex` (hence `getDataLength ≠ -1`, hence validity) is exactly the lexical space of hexBinary. -/
theorem hex_valid_iff (s : List Nat) : isArrayByteHex s = isHexLex s := isArrayByteHex_spec s

/-- decode ∘ canonical-encode = id on every non-empty octet string (the C++ returns 0 for the empty string). -/
theorem hex_roundtrip (bs : List Nat) (h : AllBytes bs) (hne : bs ≠ []) :
    hexDecode (hexEncode bs) = some bs ∧ isArrayByteHex (hexEncode bs) = true := by
  have hl := hexEncode_length bs
  have hv := hexValue_encode bs h
  constructor
  · unfold hexDecode
    have : hexEncode bs ≠ [] := by
      intro e; rw [e] at hl; simp at hl; exact hne (List.length_eq_zero_iff.mp (by omega))
    rw [if_neg (by simpa using this), if_neg (by simp [hl]), hexLoop_spec _ bs.length hl, hv]
  · rw [hex_valid_iff, ← hexValue_isSome, hv]; rfl

/-- whatever `decodeToXMLByte` returns is the value of the lexical form, whose canonical form is its upper-casing -/
theorem hex_decode_sound (s bs : List Nat) (h : hexDecode s = some bs) :
    isHexLex s = true ∧ hexValue s = some bs ∧ AllBytes bs ∧ hexCanonical s = some (hexEncode bs) := by
  unfold hexDecode at h
  split at h
  · cases h
  · split at h
    · cases h
    · rename_i h1 h2
      obtain ⟨n, hn⟩ : ∃ n, s.length = 2 * n := ⟨s.length / 2, by simp at h2; omega⟩
      rw [hexLoop_spec s n hn] at h
      have hlex : isHexLex s = true := by rw [← hexValue_isSome, h]; rfl
      refine ⟨hlex, h, hexValue_bytes s bs h, ?_⟩
      unfold hexCanonical hexDataLength
      rw [hex_valid_iff, hlex]
      simp only [Bool.not_true, Bool.false_eq_true, if_false]
      rw [hex_upper s bs h]

/-- the canonical representation is a valid lexical form and a fixed point -/
theorem hex_canonical_idempotent (s c : List Nat) (h : hexCanonical s = some c) :
    isHexLex c = true ∧ hexCanonical c = some c := by
  unfold hexCanonical hexDataLength at h
  rw [hex_valid_iff] at h
  cases hl : isHexLex s with
  | false => rw [hl] at h; simp at h
  | true =>
    rw [hl] at h
    simp only [Bool.not_true, Bool.false_eq_true, if_false, Option.some.injEq] at h
    have hv : (hexValue s).isSome = true := by rw [hexValue_isSome, hl]
    obtain ⟨bs, hbs⟩ := Option.isSome_iff_exists.mp hv
    have e : c = hexEncode bs := by rw [← h]; exact hex_upper s bs hbs
    have hb := hexValue_bytes s bs hbs
    have hv2 := hexValue_encode bs hb
    have hlc : isHexLex c = true := by rw [e, ← hexValue_isSome, hv2]; rfl
    refine ⟨hlc, ?_⟩
    unfold hexCanonical hexDataLength
    rw [hex_valid_iff, hlc]
    simp only [Bool.not_true, Bool.false_eq_true, if_false]
    rw [e, hex_upper _ bs hv2]

/-- `Base64::decode(Base64::encode(bs)) = bs` for every non-empty octet string (RFC 2045 mode: `encode`
breaks lines every 15 quartets), and the canonical form produced on the way is the Spec's. -/
theorem base64_roundtrip (bs : List Nat) (h : AllBytes bs) (hne : bs ≠ []) :
    ∃ e, encode bs = some e ∧ decode .rfc2045 e = some (bs, b64Encode bs) := by
  have hlen : ¬ ((bs.length + 2) / 3 == 0) = true := by
    have : 0 < bs.length := List.length_pos_iff.mpr hne
    simp; omega
  refine ⟨encodeLoop bs 1, by unfold encode; rw [if_neg hlen], ?_⟩
  have hs := encodeLoop_strip bs h 1
  have hq := decodeQuads_encode bs h hne
  obtain ⟨i1, _, _, _⟩ := decodeQuads_sound _ _ hq
  obtain ⟨l1, l2, _⟩ := quartets_chars _ i1
  have hne' : encodeLoop bs 1 ≠ [] := by
    intro e; rw [e] at hs
    obtain ⟨x, r, hx⟩ := b64Encode_ne_nil bs hne
    rw [hx] at hs; simp [strip] at hs
  rw [decode_rfc, hs, if_neg (by simpa using hne'), if_neg (by simp [l1]), if_neg (by simpa using l2), hq]

/-- the canonical lexical form decodes to the octets it encodes, in schema mode as well -/
theorem base64_roundtrip_schema (bs : List Nat) (h : AllBytes bs) (hne : bs ≠ []) :
    decode .schema (b64Encode bs) = some (bs, b64Encode bs) ∧ isBase64Lex (b64Encode bs) = true := by
  have hd := decode_canonical .schema bs h hne
  obtain ⟨_, _, _, i1, i2, i3⟩ := decode_sound_schema _ _ _ hd
  refine ⟨hd, ?_⟩
  unfold isBase64Lex
  rw [i3, ← i2, i1]; simp

/-- Anything accepted is — modulo the white space the mode allows — the canonical encoding of the returned
octets: nothing else is ever decoded.  In schema mode the accepted string is in the E2-54 lexical space. -/
theorem base64_decode_sound (s bs can : List Nat) :
    (decode .rfc2045 s = some (bs, can) →
      can = b64Encode bs ∧ AllBytes bs ∧ bs ≠ [] ∧ can = s.filter (fun c => !XV.Model.Codec.isWhitespace c)) ∧
    (decode .schema s = some (bs, can) →
      can = b64Encode bs ∧ AllBytes bs ∧ bs ≠ [] ∧ can = unspace s ∧ isBase64Lex s = true) := by
  constructor
  · intro h
    obtain ⟨a, b, c, _, e⟩ := decode_sound_rfc s bs can h
    exact ⟨a, b, c, e⟩
  · intro h
    obtain ⟨a, b, c, d, e, f⟩ := decode_sound_schema s bs can h
    refine ⟨a, b, c, e, ?_⟩
    unfold isBase64Lex
    rw [f, ← e, d]; simp

/-- The repaired `decodeToXMLByte` accepts exactly the non-empty strings of the E2-54 lexical space. -/
theorem base64_schema_iff (s : List Nat) :
    (decodeX true .schema s).isSome = true ↔ (isBase64Lex s = true ∧ s ≠ []) := by
  unfold decodeX
  constructor
  · intro h
    split at h
    · cases h
    · rename_i hne
      simp only [if_true] at h
      split at h
      · cases h
      · obtain ⟨p, hp⟩ := Option.isSome_iff_exists.mp h
        obtain ⟨bs, can⟩ := p
        exact ⟨((base64_decode_sound s bs can).2 hp).2.2.2.2, by simpa using hne⟩
  · rintro ⟨hl, hne⟩
    rw [if_neg (by simpa using hne)]
    simp only [if_true]
    unfold isBase64Lex at hl
    have hl' : spacingOk s = true ∧ isB64Quartets (unspace s) = true := by
      cases s with
      | nil => exact absurd rfl hne
      | cons a r => simpa using hl
    obtain ⟨bs, hd⟩ := decode_schema_complete s hne hl'.1 hl'.2
    obtain ⟨_, _, l3⟩ := quartets_chars _ hl'.2
    have hsmall : ¬ (s.any (fun x => decide (x ≥ b64BaseLength))) = true := by
      rw [List.any_eq_true]
      rintro ⟨x, hx, hge⟩
      have hge' : x ≥ 255 := by
        have : x ≥ b64BaseLength := by simpa using hge
        exact this
      by_cases hsp : x = sp
      · rw [hsp] at hge'; revert hge'; decide
      · have : x ∈ unspace s := by
          unfold unspace; rw [List.mem_filter]; exact ⟨hx, bne_iff_ne.mpr hsp⟩
        have := (b64_or_pad_props x (l3 x this)).1
        omega
    rw [if_neg hsmall, hd]; rfl

/-- the canonical form returned by a successful decode is a fixed point of the decoder (either mode) -/
theorem base64_canonical_idempotent (conf : Conformance) (s bs can : List Nat) (h : decode conf s = some (bs, can)) :
    decode conf can = some (bs, can) := by
  cases conf with
  | rfc2045 =>
    obtain ⟨a, b, c, _⟩ := (base64_decode_sound s bs can).1 h
    rw [a]; exact decode_canonical .rfc2045 bs b c
  | schema =>
    obtain ⟨a, b, c, _⟩ := (base64_decode_sound s bs can).2 h
    rw [a]; exact decode_canonical .schema bs b c

/-- The code as it stands narrows every XMLCh with `(XMLByte)`: U+0141 U+0051 '=' '=' is accepted as "AQ==",
and U+0100 cuts the string like a terminator — neither string is in the lexical space. -/
theorem base64_narrowing_orig_fails :
    decodeX false .schema [0x141, 0x51, 0x3D, 0x3D] = some ([1], [0x41, 0x51, 0x3D, 0x3D]) ∧
    isBase64Lex [0x141, 0x51, 0x3D, 0x3D] = false ∧
    decodeX false .schema [0x41, 0x51, 0x3D, 0x3D, 0x100, 0x78, 0x78] = some ([1], [0x41, 0x51, 0x3D, 0x3D]) ∧
    isBase64Lex [0x41, 0x51, 0x3D, 0x3D, 0x100, 0x78, 0x78] = false ∧
    decodeX true .schema [0x141, 0x51, 0x3D, 0x3D] = none := by
  refine ⟨by decide +kernel, by decide +kernel, by decide +kernel, by decide +kernel, by decide +kernel⟩

end Codecs

/-! ## whiteSpace facet (replace, collapse) and boolean -/
section WsBool
open XV.Spec.Ws XV.Model.Ws XV.Lemmas.Ws XV.Gen.Codec

/-- `XMLString::replaceWS` is §4.3.6 replace; it is idempotent -/
theorem replace_spec (s : List Nat) : replaceWS s = replaceSpec s ∧ replaceWS (replaceWS s) = replaceWS s := by
  refine ⟨replace_eq s, ?_⟩
  apply replaced_id
  rw [replace_eq, isWSReplaced_iff]; exact replaceSpec_ok s

/-- `XMLString::collapseWS` is §4.3.6 collapse: the space-free tokens of the replaced string joined by single #x20 -/
theorem collapse_spec (s : List Nat) : collapseWS s = collapseSpec s := collapse_eq s

/-- collapse is idempotent (a collapsed string is a fixed point, and every output is collapsed) -/
theorem collapse_idempotent (s : List Nat) : collapseWS (collapseWS s) = collapseWS s := by
  rcases collapse_collapsed s with h | h
  · rw [h]; rfl
  · exact collapse_fix _ h

/-- collapsing after replacing changes nothing (the order the scanner may apply them in does not matter) -/
theorem collapse_after_replace (s : List Nat) : collapseWS (replaceWS s) = collapseWS s := by
  rw [collapse_spec, collapse_spec]
  unfold collapseSpec
  rw [← replace_eq, ← replace_eq, (replace_spec s).2]

/-- boolean: the value space table is {false, true, 0, 1}; a string is accepted iff it is one of the four lexical
forms; the canonical form is `true` / `false`, of the same value, and a fixed point; `compare` is value equality. -/
theorem boolean_spec (s : List Nat) :
    ((boolIndex s).isSome = (boolLex s).isSome) ∧
    (∀ b, boolLex s = some b → boolCanonical s = some (boolCanon b) ∧ boolLex (boolCanon b) = some b ∧
        boolCanonical (boolCanon b) = some (boolCanon b)) ∧
    (∀ t a b, boolLex s = some a → boolLex t = some b → (boolCompare s t = 0 ↔ a = b)) := by
  have hv : booleanValueSpace = [[0x66, 0x61, 0x6C, 0x73, 0x65], [0x74, 0x72, 0x75, 0x65], [0x30], [0x31]] := by decide
  have key : ∀ x : List Nat, boolLex x = some true → x = [0x74, 0x72, 0x75, 0x65] ∨ x = [0x31] := by
    intro x h; unfold boolLex at h
    split at h
    · assumption
    · split at h <;> cases h
  have key' : ∀ x : List Nat, boolLex x = some false → x = [0x66, 0x61, 0x6C, 0x73, 0x65] ∨ x = [0x30] := by
    intro x h; unfold boolLex at h
    split at h
    · cases h
    · split at h
      · assumption
      · cases h
  refine ⟨?_, ?_, ?_⟩
  · unfold boolIndex boolLex
    rw [hv]
    by_cases h1 : s = [0x74, 0x72, 0x75, 0x65]
    · subst h1; decide
    · by_cases h2 : s = [0x31]
      · subst h2; decide
      · by_cases h3 : s = [0x66, 0x61, 0x6C, 0x73, 0x65]
        · subst h3; decide
        · by_cases h4 : s = [0x30]
          · subst h4; decide
          · have e : ∀ t : List Nat, s ≠ t → (t == s) = false := fun t ht => by
              apply Bool.eq_false_iff.mpr; intro h; rw [beq_iff_eq] at h; exact ht h.symm
            simp [h1, h2, h3, h4, List.findIdx?_cons, e]
  · intro b hb
    cases b with
    | true => rcases key s hb with e | e <;> subst e <;> decide
    | false => rcases key' s hb with e | e <;> subst e <;> decide
  · intro t a b ha hb
    cases a <;> cases b
    · rcases key' s ha with e | e <;> rcases key' t hb with f | f <;> subst e <;> subst f <;> decide
    · rcases key' s ha with e | e <;> rcases key t hb with f | f <;> subst e <;> subst f <;> decide
    · rcases key s ha with e | e <;> rcases key' t hb with f | f <;> subst e <;> subst f <;> decide
    · rcases key s ha with e | e <;> rcases key t hb with f | f <;> subst e <;> subst f <;> decide

end WsBool

/-! ## date/time family (XMLDateTime) — partial

Modelled code-shaped: validateDateTime, normalize, compareOrder, compare.  The field parsers are represented by the
Spec's lexical recogniser (tied to the code by the correspondence harness only), fractional seconds are digit strings
(a double in the C++), durations are not modelled.  Hence the `_partial` names; the full statements are in the comments. -/
section DateTime
open XV.Spec.DateTime XV.Model.DateTime XV.Lemmas.DateTime

/-- `validateDateTime` accepts the parsed fields iff they satisfy §3.2.7.1: year ≠ 0, month 1–12, day within the month
(leap years by the year value), hour ≤ 23 or 24:00:00(.0*), minute ≤ 59, second ≤ 60, time zone within ±14:00. -/
theorem datetime_valid_iff (k : Kind) (r : Raw) : validateDateTime (ofRaw k r) = valid r := validate_valid k r

/-- Full statement: for every lexical form, the value after `normalize` is the same instant of the time line.
Proved here for the fields `normalize` receives after validation (and after the 24:00:00 roll-over of the repaired
parser): the result is in UTC, every field is back in range (month 1–12, day within the month — across month, year
and leap-day boundaries —, hour 0–23, minute 0–59), seconds/fraction are untouched, and the instant is the local time
minus the zone offset.  Year arithmetic is linear (XSD 1.0 Appendix E): a carry may produce the year 0. -/
theorem normalize_preserves_instant_partial (d : DT) (h : Zoned d) :
    (normalize d).utc = UTC_STD ∧ (normalize d).second = d.second ∧ (normalize d).ms = d.ms ∧
    (normalize d).hasTime = d.hasTime ∧
    1 ≤ (normalize d).month ∧ (normalize d).month ≤ 12 ∧
    1 ≤ (normalize d).day ∧ (normalize d).day ≤ maxDayInMonthFor (normalize d).year (normalize d).month ∧
    0 ≤ (normalize d).hour ∧ (normalize d).hour ≤ 23 ∧ 0 ≤ (normalize d).minute ∧ (normalize d).minute ≤ 59 ∧
    instantDT (normalize d) = instantDT d + shiftMin d * 60 :=
  normalize_spec d h

/-- Full statement: `compare a b = r → r ≠ INDETERMINATE → specOrder a b = r`.
Proved here for the determinate case proper: two values in normal range (what `normalize` and the roll-over leave;
second ≤ 59) that are both zoned or both unzoned compare as their instants on the time line, then by fractional seconds. -/
theorem compare_spec_partial (l r : DT) (hl : InRange l) (hr : InRange r) (hu : l.utc = r.utc) :
    XV.Model.DateTime.compare true l r =
      if instantDT l < instantDT r then -1
      else if instantDT r < instantDT l then 1
      else if l.hasTime then cmpMs l.ms r.ms else 0 := by
  unfold XV.Model.DateTime.compare
  have : (l.utc == r.utc) = true := by rw [hu]; simp
  rw [if_pos this]
  exact compareOrder_inrange l r hl hr hu

/-- Full statement: the determinate part of `compare` is a strict partial order.  Proved here for values in normal
range with equal zonedness and no fractional seconds: reflexive, antisymmetric, transitive. -/
theorem datetime_trans_partial (a b c : DT) (ha : InRange a) (hb : InRange b) (hc : InRange c)
    (hab : a.utc = b.utc) (hbc : b.utc = c.utc) (fa : a.ms = []) (fb : b.ms = []) (fc : c.ms = []) :
    compareOrder a a = 0 ∧ compareOrder b a = - compareOrder a b ∧
    (compareOrder a b ≤ 0 → compareOrder b c ≤ 0 → compareOrder a c ≤ 0 ∧
      (compareOrder a b < 0 ∨ compareOrder b c < 0 → compareOrder a c < 0)) := by
  rw [compareOrder_inrange a a ha ha rfl, compareOrder_inrange b a hb ha hab.symm, compareOrder_inrange a b ha hb hab,
      compareOrder_inrange b c hb hc hbc, compareOrder_inrange a c ha hc (hab.trans hbc)]
  rw [fa, fb, fc]
  have z : cmpMs [] [] = 0 := by decide
  rw [z]
  obtain ⟨x, hx⟩ : ∃ x, x = instantDT a := ⟨_, rfl⟩
  obtain ⟨y, hy⟩ : ∃ y, y = instantDT b := ⟨_, rfl⟩
  obtain ⟨w, hw⟩ : ∃ w, w = instantDT c := ⟨_, rfl⟩
  rw [← hx, ← hy, ← hw]
  refine ⟨by simp, ?_, ?_⟩
  · by_cases p : x < y
    · have : ¬ y < x := by omega
      simp [p, this]
    · by_cases q : y < x
      · simp [p, q]
      · simp [p, q]
  · by_cases p : x < y <;> by_cases q : y < x <;> by_cases p' : y < w <;> by_cases q' : w < y <;>
      by_cases p'' : x < w <;> by_cases q'' : w < x <;> simp [p, q, p', q', p'', q''] <;> omega

/-- The code as it stands (`repaired = false`): 24:00:00 is not brought to the following day unless a time zone is
present, so two lexical forms of one instant compare LESS; and a zoned and an unzoned value exactly 14 hours apart
compare EQUAL where §3.2.7.4 says indeterminate.  The repaired model agrees with the Spec on both. -/
theorem datetime_orig_fails :
    let s (x : String) : List Nat := x.toList.map Char.toNat
    (∃ a b, parseK false .dateTime (s "2000-01-01T24:00:00") = some a ∧ parseK false .dateTime (s "2000-01-02T00:00:00") = some b ∧
        XV.Model.DateTime.compare false a b = -1) ∧
    (∃ ra rb, parse .dateTime (s "2000-01-01T24:00:00") = some ra ∧ parse .dateTime (s "2000-01-02T00:00:00") = some rb ∧
        specOrder .dateTime ra rb = .eq) ∧
    (∃ a b, parseK true .dateTime (s "2000-01-01T24:00:00") = some a ∧ parseK true .dateTime (s "2000-01-02T00:00:00") = some b ∧
        XV.Model.DateTime.compare true a b = 0) ∧
    (∃ a b, parseK false .time (s "02:00:00Z") = some a ∧ parseK false .time (s "16:00:00") = some b ∧
        XV.Model.DateTime.compare false a b = 0 ∧ XV.Model.DateTime.compare true a b = INDETERMINATE) ∧
    (∃ ra rb, parse .time (s "02:00:00Z") = some ra ∧ parse .time (s "16:00:00") = some rb ∧
        specOrder .time ra rb = .indeterminate) := by
  refine ⟨⟨_, _, rfl, rfl, by decide +kernel⟩, ⟨_, _, rfl, rfl, by decide +kernel⟩, ⟨_, _, rfl, rfl, by decide +kernel⟩,
    ⟨_, _, rfl, rfl, by decide +kernel, by decide +kernel⟩, ⟨_, _, rfl, rfl, by decide +kernel⟩⟩

end DateTime

/-! ## constraining facets, restriction chains, list, union

Models (XV.Model.Facets, code-shaped): AbstractNumericFacetValidator::inspectFacet / inspectFacetBase / inheritFacet,
AbstractNumericValidator::boundsCheck, DecimalDatatypeValidator digits facets and enumeration, AbstractStringValidator
length facets, List/UnionDatatypeValidator::checkContent.  The value space is abstract (`cmp`, digit counts, length);
`decLaws` / `intLaws` instantiate the order laws for decimal values (`XV.Spec.Decimal.cmpSpec`) and for integers /
instants of the time line (date/time values in normal range with equal zonedness, `compare_spec_partial`). -/
section Facets
open XV.Spec.Facets XV.Model.Facets XV.Lemmas.Facets
variable {V : Type} (cmp : V → V → Int) (dg : V → Nat × Nat) (len : V → Nat)

/-- `boundsCheck` + digits + enumeration are §4.3: maxInclusive is ≤, maxExclusive is <, minInclusive is ≥,
minExclusive is >, totalDigits / fractionDigits bound the digit counts, enumeration is value equality. -/
theorem bounds_spec (L : OrderLaws cmp) (f : Step V) (v : V)
    (hl : f.length = none ∧ f.minLength = none ∧ f.maxLength = none) :
    checkNumeric cmp dg f v = true ↔ stepOk cmp dg len f v := checkNumeric_spec cmp dg len L f v hl

/-- Along a chain of restriction steps of ANY length that the derivation checks accept (`validFrom`: inspectFacet and
inspectFacetBase at every step), the facet set `inheritFacet` leaves in force accepts a value iff the starting type
and EVERY step accept it: inheritance drops a base bound only when the step's own bound implies it. -/
theorem inherit_eq_conjunction (L : OrderLaws cmp) (hdg : ∀ a e, cmp a e = 0 → dg a = dg e)
    (base : Step V) (steps : List (Step V)) (hwf : WF base) (hv : validFrom cmp dg base steps = true) (v : V) :
    checkNumeric cmp dg (effective base steps) v = true ↔
      (checkNumeric cmp dg base v = true ∧ ∀ s ∈ steps, checkNumeric cmp dg s v = true) := by
  rw [chain_conj cmp dg L hdg steps base hwf hv v]
  simp [List.all_eq_true]

/-- the same for decimal values ordered by `cmpSpec` (what DecimalDatatypeValidator compares) -/
theorem inherit_eq_conjunction_decimal (dgd : Int × Nat → Nat × Nat) (hdg : ∀ a e, decCmp a e = 0 → dgd a = dgd e)
    (steps : List (Step (Int × Nat))) (hv : validFrom decCmp dgd {} steps = true) (v : Int × Nat) :
    checkNumeric decCmp dgd (effective {} steps) v = true ↔ ∀ s ∈ steps, checkNumeric decCmp dgd s v = true := by
  rw [inherit_eq_conjunction decCmp dgd decLaws hdg {} steps (by simp [WF]) hv v]
  simp [checkNumeric, boundsCheck]

/-- a derived type accepts a subset of what its base accepts -/
theorem restriction_monotone (L : OrderLaws cmp) (hdg : ∀ a e, cmp a e = 0 → dg a = dg e)
    (base : Step V) (steps : List (Step V)) (t : Step V) (hwf : WF base)
    (hv : validFrom cmp dg base (steps ++ [t]) = true) (v : V)
    (h : checkNumeric cmp dg (effective base (steps ++ [t])) v = true) :
    checkNumeric cmp dg (effective base steps) v = true := by
  have hv' : validFrom cmp dg base steps = true := by
    clear h
    induction steps generalizing base with
    | nil => rfl
    | cons a r ih =>
      simp only [List.cons_append, validFrom, Bool.and_eq_true] at hv ⊢
      exact ⟨hv.1, ih (inheritFacet base a) (wf_inherit cmp base a hwf hv.1.1) hv.2⟩
  rw [inherit_eq_conjunction cmp dg L hdg base (steps ++ [t]) hwf hv v] at h
  rw [inherit_eq_conjunction cmp dg L hdg base steps hwf hv' v]
  exact ⟨h.1, fun s hs => h.2 s (List.mem_append_left _ hs)⟩

/-- string types: length / minLength / maxLength / enumeration along a chain of any length -/
theorem length_inherit_eq_conjunction (hcmp : ∀ a e c, cmp a e = 0 → cmp a c = cmp e c)
    (hlen : ∀ a e, cmp a e = 0 → len a = len e) (base : Step V) (steps : List (Step V))
    (hv : validFromS cmp len base steps = true) (v : V) :
    checkString cmp len (effectiveS base steps) v = true ↔
      (checkString cmp len base v = true ∧ ∀ s ∈ steps, checkString cmp len s v = true) := by
  rw [chain_conj_S cmp len hcmp hlen steps base hv v]
  simp [List.all_eq_true]

/-- list: every white-space separated item valid for the item type, and the length facets count the items -/
theorem list_iff (item : List Nat → Bool) (f : Step (List (List Nat))) (tokens : List (List Nat)) :
    listCheck item f tokens = true ↔
      listOk (fun it => item it = true)
        (fun n => (∀ k, f.maxLength = some k → n ≤ k) ∧ (∀ k, f.minLength = some k → k ≤ n) ∧ (∀ k, f.length = some k → n = k))
        tokens := by
  unfold listCheck listOk
  simp only [Bool.and_eq_true, List.all_eq_true]
  constructor
  · rintro ⟨⟨⟨h1, h2⟩, h3⟩, h4⟩
    refine ⟨h1, ?_, ?_, ?_⟩
    · intro k hk; rw [hk] at h2; simp at h2; omega
    · intro k hk; rw [hk] at h3; simp at h3; omega
    · intro k hk; rw [hk] at h4; simpa using h4
  · rintro ⟨h1, h2, h3, h4⟩
    refine ⟨⟨⟨h1, ?_⟩, ?_⟩, ?_⟩
    · cases h : f.maxLength with
      | none => rfl
      | some k => have := h2 k h; simp; omega
    · cases h : f.minLength with
      | none => rfl
      | some k => have := h3 k h; simp; omega
    · cases h : f.length with
      | none => rfl
      | some k => simpa using h4 k h

/-- union: the member loop returns the FIRST member type that accepts; the value is valid iff some member accepts -/
theorem union_iff (members : List (List Nat → Bool)) (s : List Nat) :
    unionCheck members s = unionMember members s ∧ ((unionCheck members s).isSome = true ↔ unionOk members s) := by
  have e : unionCheck members s = unionMember members s := by
    unfold unionCheck unionMember
    rw [unionCheck_go]; cases List.findIdx? (fun m => m s) members <;> simp
  refine ⟨e, ?_⟩
  rw [e]; unfold unionMember unionOk
  rw [List.findIdx?_isSome]; simp

end Facets

/-! ## xs:duration (XMLDateTime::parseDuration, addDuration, compare(…, strict))

Spec (XV.Spec.Duration): lexical space of §3.2.6.1, value (months, seconds), the partial order of §3.2.6.2 through the
four reference dateTimes.  Model (XV.Model.Duration, code-shaped): parseDuration on the buffer indices, addDuration for
DATETIMES[0..3], compareResult, compare. -/
section Duration
open XV.Model.DateTime XV.Model.Duration XV.Spec.DateTime XV.Spec.Duration XV.Lemmas.Duration

/-- `compare(a, b, strict)` is determinate exactly when the four reference comparisons agree, and then it is their
common value; as soon as two of them differ it is INDETERMINATE — all four reference dateTimes are consulted. -/
theorem duration_indeterminate_iff (p1 p2 : DT) (h : compareOrder p1 p2 ≠ 0) :
    compareDur p1 p2 true =
      (if compareOrder (addDuration p1 0) (addDuration p2 0) = compareOrder (addDuration p1 1) (addDuration p2 1) ∧
          compareOrder (addDuration p1 1) (addDuration p2 1) = compareOrder (addDuration p1 2) (addDuration p2 2) ∧
          compareOrder (addDuration p1 2) (addDuration p2 2) = compareOrder (addDuration p1 3) (addDuration p2 3)
       then compareOrder (addDuration p1 0) (addDuration p2 0) else INDETERMINATE) := by
  rw [compareDur_eq_chain]
  have : (compareOrder p1 p2 == 0) = false := by simpa using h
  rw [this]
  simp only [Bool.false_eq_true, if_false]
  exact chain_table _ (compareOrder_tri _ _) _ (compareOrder_tri _ _) _ (compareOrder_tri _ _) _ (compareOrder_tri _ _)

/-- §3.2.6.2 is a strict partial order (durations without fractional seconds): irreflexive, asymmetric, transitive. -/
theorem duration_order_strict_partial (a b c : Dur) (ha : a.frac = []) (hb : b.frac = []) (hc : c.frac = []) :
    durOrder a a ≠ .lt ∧ (durOrder a b = .lt → durOrder b a ≠ .lt) ∧
    (durOrder a b = .lt → durOrder b c = .lt → durOrder a c = .lt) := by
  rw [durOrder_lt_iff a b ha hb, durOrder_lt_iff b c hb hc, durOrder_lt_iff a c ha hc]
  refine ⟨?_, ?_, ?_⟩
  · intro h; rw [durOrder_lt_iff a a ha ha] at h
    have := h (1696, 9) (by simp [refs]); omega
  · intro h h'; rw [durOrder_lt_iff b a hb ha] at h'
    have x := h (1696, 9) (by simp [refs]); have y := h' (1696, 9) (by simp [refs]); omega
  · intro h h' r hr
    have x := h r hr; have y := h' r hr; omega

/-- Full statement: for all durations within the no-wrap ranges, `compare(a, b, strict)` = the order of §3.2.6.2.
Checked here by kernel evaluation on the whole boundary family: n months (n = 0..14) against d days for every d from
28·n to 31·n+2 — every length an n-month span can have at any of the four reference dates, and one beyond either
side — in both argument orders, and against the same spans in hours. -/
theorem duration_compare_sweep_partial :
    (∀ n, n < 15 → ∀ k, k < 3 * n + 3 →
      compareDur (monthsDT n) (daysDT (28 * n + k)) true = ord4Code (durOrder (monthsD n) (daysD (28 * n + k))) ∧
      compareDur (daysDT (28 * n + k)) (monthsDT n) true = ord4Code (durOrder (daysD (28 * n + k)) (monthsD n))) ∧
    (∀ n, n < 8 → ∀ k, k < 3 * n + 3 →
      compareDur (monthsDT n) (hoursDT (24 * (28 * n + k))) true = ord4Code (durOrder (monthsD n) (hoursD (24 * (28 * n + k))))) := by
  decide +kernel

/-- Full statement: `parseDuration s` succeeds iff `s` is in the lexical space, and then holds its value.  Checked here
by kernel evaluation on EVERY string of length ≤ 4 over {P T 1 Y M D H S . -} (11 111 strings); longer strings are
covered by the correspondence only. -/
theorem duration_lexical_partial :
    (stringsUpTo [0x50, 0x54, 0x31, 0x59, 0x4D, 0x44, 0x48, 0x53, 0x2E, 0x2D] 4).all (fun s =>
      match parseDuration true s, parse s with
      | none, none => true
      | some d, some v => d.year * 12 + d.month == monthsOf v &&
          ((d.day * 24 + d.hour) * 60 + d.minute) * 60 + d.second == secondsOf v && d.ms == v.frac
      | _, _ => false) = true := by
  decide +kernel

/-- The code as it stands accepts a designator without digits ("PY", "PT.5S" …): `parseInt` of an empty range is 0. -/
theorem duration_lexical_orig_fails :
    (parseDuration false [0x50, 0x59]).isSome = true ∧ parse [0x50, 0x59] = none ∧
    (parseDuration false [0x50, 0x54, 0x2E, 0x35, 0x53]).isSome = true ∧ parse [0x50, 0x54, 0x2E, 0x35, 0x53] = none ∧
    parseDuration true [0x50, 0x59] = none := by decide +kernel

/-- The shortcut `compareOrder(pDate1, pDate2) == EQUAL` at the head of `compare(…, strict)` normalises the duration
fields as if they were a date: -P1M and -P30D both become (-1, 10, 31) and the code answers EQUAL, while the order of
§3.2.6.2 leaves them incomparable (hence the hypothesis of `duration_indeterminate_iff`). -/
theorem duration_compare_shortcut_fails :
    ((parseDuration true [0x2D, 0x50, 0x31, 0x4D]).bind fun a => (parseDuration true [0x2D, 0x50, 0x33, 0x30, 0x44]).map fun b =>
        (compareOrder a b, compareDur a b true)) = some (0, 0) ∧
    ((parse [0x2D, 0x50, 0x31, 0x4D]).bind fun a => (parse [0x2D, 0x50, 0x33, 0x30, 0x44]).map fun b =>
        ord4Code (durOrder a b)) = some 2 := by decide +kernel

end Duration

/-! ## Non-vacuity: the hypotheses are met by concrete non-trivial data. -/
section NonVacuity
open XV.Spec.Codec XV.Model.Codec

example : parseDecimal " -001.2300 ".toList = .ok ⟨-1, "123".toList, 3, 2⟩ ∧
    isDecimalLex (trimWs " -001.2300 ".toList) = true ∧ val (trimWs " -001.2300 ".toList) = (-12300, 4) :=
  ⟨by rfl, by decide, by decide⟩
example : isDecimalLex ".5".toList = true ∧ isDecimalLex "5.".toList = true ∧ isDecimalLex ".".toList = false ∧
    isDecimalLex "+".toList = false ∧ isDecimalLex "1e3".toList = false ∧ isDecimalLex "1.2.3".toList = false := by decide
example : parseDecimal ".".toList = .error .invChars ∧ parseDecimal "1..2".toList = .error .twoManyDecPoint ∧
    parseDecimal " \t ".toList = .error .wsString ∧ parseDecimal [] = .error .emptyString := ⟨by rfl, by rfl, by rfl, by rfl⟩
-- equal values, different lexical forms; and a strict order decided in the fraction
example : ∃ dx dy, parseDecimal "1.50".toList = .ok dx ∧ parseDecimal "+01.5".toList = .ok dy ∧ toCompare dx dy = 0 :=
  ⟨_, _, by rfl, by rfl, by decide⟩
example : ∃ dx dy, parseDecimal "0.09".toList = .ok dx ∧ parseDecimal "0.1".toList = .ok dy ∧ toCompare dx dy = -1 ∧
    cmpSpec (val "0.09".toList) (val "0.1".toList) = .lt := ⟨_, _, by rfl, by rfl, by decide, by decide⟩
example : ∃ dx dy, parseDecimal "-10".toList = .ok dx ∧ parseDecimal "-9.99".toList = .ok dy ∧ toCompare dx dy = -1 :=
  ⟨_, _, by rfl, by rfl, by decide⟩
example : canonical " -001.2300 ".toList = some "-1.23".toList ∧ canonical "+.50".toList = some "0.5".toList ∧
    canonical "100".toList = some "100.0".toList ∧ canonical "-0.000".toList = some "0.0".toList ∧
    isCanonicalDecimal "-1.23".toList = true ∧ isCanonicalDecimal "01.0".toList = false ∧
    isCanonicalDecimal "-0.0".toList = false := ⟨by rfl, by rfl, by rfl, by rfl, by decide, by decide, by decide⟩
-- 0.0010 needs 3 fraction digits and totalDigits 3 (E2-44), and no fewer
example : ∃ d, parseDecimal "0.0010".toList = .ok d ∧ d.scale = 3 ∧ d.totalDigits = 3 ∧
    fractionDigitsOk (val "0.0010".toList) 3 := by
  refine ⟨_, by rfl, rfl, rfl, 1, 3, ?_, by decide⟩
  unfold valEq; decide
example : parseBigInteger " -0012 ".toList = .ok (-1, "12".toList) ∧ isIntegerLex "-0012".toList = true ∧
    isIntegerLex "1.0".toList = false ∧ canonicalInt "+007".toList = some "7".toList ∧ canonicalInt "-0".toList = some "0".toList :=
  ⟨by rfl, by decide, by decide, by rfl, by rfl⟩
example : compareValuesInt (1, "12".toList) (-1, "5".toList) = 1 ∧ compareValuesInt (1, "99".toList) (1, "100".toList) = -1 := by decide
-- codecs
example : hexDecode [0x30, 0x61, 0x46, 0x66] = some [0x0A, 0xFF] ∧ hexEncode [0x0A, 0xFF] = [0x30, 0x41, 0x46, 0x46] ∧
    isHexLex [0x30, 0x67] = false ∧ isHexLex [0x30] = false ∧ AllBytes [0x0A, 0xFF] :=
  ⟨by decide +kernel, by decide, by decide, by decide, by intro b hb; simp at hb; omega⟩
example : b64Encode [1] = [0x41, 0x51, 0x3D, 0x3D] ∧ b64Encode [0x4D, 0x61, 0x6E] = [0x54, 0x57, 0x46, 0x75] ∧
    decode .schema [0x41, 0x51, 0x20, 0x3D, 0x3D] = some ([1], [0x41, 0x51, 0x3D, 0x3D]) ∧   -- "AQ ==" : a single #x20 is legal
    decode .schema [0x41, 0x51, 0x20, 0x20, 0x3D, 0x3D] = none ∧                            -- two are not
    decode .schema [0x41, 0x52, 0x3D, 0x3D] = none ∧                                        -- "AR==" : non-zero padding bits
    decode .rfc2045 [0x41, 0x51, 0x0A, 0x3D, 0x3D, 0x0A] = some ([1], [0x41, 0x51, 0x3D, 0x3D]) ∧
    isBase64Lex [0x41, 0x51, 0x20, 0x3D, 0x3D] = true ∧ isBase64Lex [0x41, 0x52, 0x3D, 0x3D] = false ∧
    encode [1] = some [0x41, 0x51, 0x3D, 0x3D, 0x0A] :=
  ⟨by decide, by decide, by decide +kernel, by decide +kernel, by decide +kernel, by decide +kernel, by decide, by decide,
   by decide +kernel⟩

-- white space and boolean
example : XV.Model.Ws.collapseWS [0x20, 0x9, 0x61, 0x20, 0xA, 0x20, 0x62, 0xD] = [0x61, 0x20, 0x62] ∧
    XV.Spec.Ws.collapseSpec [0x20, 0x9, 0x61, 0x20, 0xA, 0x20, 0x62, 0xD] = [0x61, 0x20, 0x62] ∧
    XV.Model.Ws.collapseWS [0x20, 0x9] = [] ∧ XV.Model.Ws.replaceWS [0x9, 0x61, 0xA] = [0x20, 0x61, 0x20] := by decide
example : XV.Spec.Ws.boolLex [0x31] = some true ∧ XV.Spec.Ws.boolLex [0x54, 0x52, 0x55, 0x45] = none ∧
    XV.Model.Ws.boolCompare [0x31] [0x74, 0x72, 0x75, 0x65] = 0 ∧ XV.Model.Ws.boolCompare [0x31] [0x30] = 1 := by decide

-- date/time: a value that `normalize` carries across a leap day, and two in-range values
example : XV.Lemmas.DateTime.Zoned ⟨2000, 2, 29, 23, 30, 0, [], XV.Model.DateTime.UTC_NEG, 14, 0, true⟩ ∧
    XV.Model.DateTime.normalize ⟨2000, 2, 29, 23, 30, 0, [], XV.Model.DateTime.UTC_NEG, 14, 0, true⟩ =
      ⟨2000, 3, 1, 13, 30, 0, [], XV.Model.DateTime.UTC_STD, 14, 0, true⟩ ∧
    XV.Model.DateTime.normalize ⟨1900, 3, 1, 0, 10, 0, [], XV.Model.DateTime.UTC_POS, 0, 30, true⟩ =
      ⟨1900, 2, 28, 23, 40, 0, [], XV.Model.DateTime.UTC_STD, 0, 30, true⟩ := by
  refine ⟨⟨Or.inr rfl, by decide, by decide, by decide, by decide, by decide, by decide⟩, by decide +kernel, by decide +kernel⟩
example : XV.Lemmas.DateTime.InRange ⟨2000, 3, 1, 13, 30, 0, [], XV.Model.DateTime.UTC_STD, 0, 0, true⟩ :=
  ⟨by decide, by decide, by decide, by decide, by decide, Or.inr rfl⟩
example : XV.Spec.DateTime.valid ⟨2000, 2, 29, 24, 0, 0, [0], .neg 14 0⟩ = true ∧
    XV.Spec.DateTime.valid ⟨1900, 2, 29, 0, 0, 0, [], .none⟩ = false ∧
    XV.Spec.DateTime.valid ⟨2000, 1, 1, 24, 0, 1, [], .none⟩ = false ∧
    XV.Spec.DateTime.valid ⟨2000, 1, 1, 0, 0, 0, [], .pos 14 1⟩ = false := by decide

-- facets: decimal{minExclusive 0} -> {maxInclusive 10}: a valid chain; the inherited set keeps the lower bound
example :
    let s1 : XV.Spec.Facets.Step (Int × Nat) := { minExcl := some (0, 0) }
    let s2 : XV.Spec.Facets.Step (Int × Nat) := { maxIncl := some (10, 0) }
    let dg0 : Int × Nat → Nat × Nat := fun _ => (0, 0)
    XV.Model.Facets.validFrom XV.Lemmas.Facets.decCmp dg0 {} [s1, s2] = true ∧
    (XV.Model.Facets.effective {} [s1, s2]).minExcl = some (0, 0) ∧
    XV.Model.Facets.checkNumeric XV.Lemmas.Facets.decCmp dg0 (XV.Model.Facets.effective {} [s1, s2]) (5, 0) = true ∧
    XV.Model.Facets.checkNumeric XV.Lemmas.Facets.decCmp dg0 (XV.Model.Facets.effective {} [s1, s2]) (0, 0) = false ∧
    XV.Model.Facets.checkNumeric XV.Lemmas.Facets.decCmp dg0 (XV.Model.Facets.effective {} [s1, s2]) (-1, 0) = false ∧
    XV.Model.Facets.checkNumeric XV.Lemmas.Facets.decCmp dg0 (XV.Model.Facets.effective {} [s1, s2]) (100, 1) = true ∧
    XV.Model.Facets.checkNumeric XV.Lemmas.Facets.decCmp dg0 (XV.Model.Facets.effective {} [s1, s2]) (101, 1) = false ∧
    -- loosening the bound is refused when the type is built
    XV.Model.Facets.validFrom XV.Lemmas.Facets.decCmp dg0 {} [s2, { maxIncl := some (11, 0) }] = false := by
  decide +kernel
example : XV.Model.Facets.unionCheck [fun s => s == [1], fun s => s.length == 1, fun _ => true] [2] = some 1 ∧
    XV.Model.Facets.listCheck (fun s => s.length == 1) { maxLength := some 2 } [[1], [2]] = true ∧
    XV.Model.Facets.listCheck (fun s => s.length == 1) { maxLength := some 2 } [[1], [2], [3]] = false := by decide

-- duration: P2M against P62D is indeterminate (62 days only from 1903-07-01), P2M < P63D, P1M > P27D
example : XV.Spec.Duration.durOrder (XV.Lemmas.Duration.monthsD 2) (XV.Lemmas.Duration.daysD 62) = .indeterminate ∧
    XV.Spec.Duration.durOrder (XV.Lemmas.Duration.monthsD 2) (XV.Lemmas.Duration.daysD 63) = .lt ∧
    XV.Spec.Duration.durOrder (XV.Lemmas.Duration.monthsD 1) (XV.Lemmas.Duration.daysD 27) = .gt ∧
    XV.Model.Duration.compareDur (XV.Lemmas.Duration.monthsDT 2) (XV.Lemmas.Duration.daysDT 62) true = 2 ∧
    XV.Model.DateTime.compareOrder (XV.Lemmas.Duration.monthsDT 2) (XV.Lemmas.Duration.daysDT 62) ≠ 0 := by decide +kernel

end NonVacuity

end XV.Props.C09
