/-
C11 — regular expressions match exactly the language their syntax defines.
Property theorems only.  Range algebra: XV.Model.RangeTok (code-shaped RangeToken) vs set semantics `mem`.
Matching: XV.Spec.Regex (`Matches`), derivative matcher proved equivalent (it is the oracle the real
engine is compared with), XSD quantifier semantics.
-/
import XV.Lemmas.RangeTok
import XV.Lemmas.Regex
namespace XV.Props.C11
open XV.Model.RangeTok XV.Lemmas.RangeTok

/-- `addRange` is set union with the (possibly reversed) interval, from every valid token, sorted or not,
overlapping or not; the token invariant is preserved.  (False of the unrepaired code: see the witness below.) -/
theorem addRange_set (t : Tok) (hi : Inv t) (s e : Int) :
    Inv (addRange t s e) ∧
    ∀ c, mem c (addRange t s e).ranges ↔ mem c t.ranges ∨ (min s e ≤ c ∧ c ≤ max s e) :=
  ⟨addRange_inv t hi s e, fun c => addRange_mem t hi.1 s e c⟩

/-- `sortRanges; compactRanges` keeps the set and yields an ordered, strictly separated list. -/
theorem sort_compact_set (t : Tok) (hs : Strong t) :
    Ordered (doCompact (doSort t)).ranges ∧ ∀ c, mem c (doCompact (doSort t)).ranges ↔ mem c t.ranges :=
  ⟨(normalise_spec t hs).1, (normalise_spec t hs).2.2.1⟩

theorem merge_set (t o : Tok) (ht : Inv t) (ho : Inv o) :
    Inv (mergeRanges t o).1 ∧ ∀ c, mem c (mergeRanges t o).1.ranges ↔ mem c t.ranges ∨ mem c o.ranges :=
  mergeRanges_spec t o ht ho

theorem subtract_set (t o : Tok) (ht : Strong t) (ho : Strong o) :
    Strong (subtractRanges t o).1 ∧
    ∀ c, mem c (subtractRanges t o).1.ranges ↔ mem c t.ranges ∧ ¬ mem c o.ranges :=
  subtractRanges_spec t o ht ho

/-- (as in the C++, intersecting with an empty token leaves the receiver unchanged) -/
theorem intersect_set (t o : Tok) (ht : Strong t) (ho : Strong o) :
    Strong (intersectRanges t o).1 ∧
    ∀ c, t.ranges ≠ [] → o.ranges ≠ [] →
      (mem c (intersectRanges t o).1.ranges ↔ mem c t.ranges ∧ mem c o.ranges) :=
  intersectRanges_spec t o ht ho

theorem complement_set (o : Tok) (ho : Strong o) (hsep : o.compacted = true → Sep o.ranges)
    (hne : o.ranges ≠ []) (hr : InRange o.ranges) :
    Strong (complementRanges o).1 ∧
    ∀ c, mem c (complementRanges o).1.ranges ↔ (0 ≤ c ∧ c ≤ UTF16_MAX) ∧ ¬ mem c o.ranges :=
  complementRanges_spec o ho hsep hne hr

/-- `RangeToken::match` (256-bit map + linear tail) is set membership, for T_RANGE and T_NRANGE. -/
theorem match_eq_mem (rs : R) (hs : SortedStarts rs) (ch : Int) :
    (matchCh false rs ch = true ↔ mem ch rs) ∧ (matchCh true rs ch = true ↔ ¬ mem ch rs) :=
  ⟨matchCh_iff rs hs ch, matchCh_neg_iff rs hs ch⟩

open XV.Spec.Regex XV.Lemmas.Regex in
theorem derivMatch_iff (r : Re) (s : List Int) : derivMatch r s = true ↔ Matches r s :=
  XV.Lemmas.Regex.derivMatch_iff s r

open XV.Spec.Regex XV.Lemmas.Regex in
/-- the executable oracle used against `RegularExpression::matches` is exactly the language semantics -/
theorem fastMatch_iff (r : Re) (s : List Int) : fastMatch r s = true ↔ Matches r s :=
  XV.Lemmas.Regex.fastMatch_iff s r

open XV.Spec.Regex XV.Lemmas.Regex in
theorem rep_semantics (r : Re) (n : Nat) (m : Option Nat) (hm : ∀ m', m = some m' → n ≤ m') (s : List Int) :
    Matches (rep r n m) s ↔ ∃ k, n ≤ k ∧ (∀ m', m = some m' → k ≤ m') ∧ Pow r k s :=
  XV.Lemmas.Regex.rep_semantics r n m hm s

/-! Non-vacuity and witnesses. -/
example : Inv ({ ranges := [(0x67, 0x74)], sorted := true } : Tok) := by
  refine ⟨?_, fun _ => trivial⟩
  intro p hp; simp at hp; subst hp; decide
/-- `[g-t]` then `[j-z]`: the (repaired) model keeps `x`; the unrepaired C++ dropped the second range. -/
example : (addRange { ranges := [(0x67, 0x74)], sorted := true } 0x6a 0x7a).ranges = [(0x67, 0x74), (0x6a, 0x7a)] := by
  decide
example : (doCompact (doSort (addRange { ranges := [(0x67, 0x74)], sorted := true } 0x6a 0x7a))).ranges = [(0x67, 0x7a)] := by
  decide
example : (subtractRanges { ranges := [(1, 10)], sorted := true } { ranges := [(5, 5)], sorted := true }).1.ranges
    = [(1, 4), (6, 10)] := by decide
example : (complementRanges { ranges := [(0x61, 0x63)], sorted := true }).1.ranges = [(0, 0x60), (0x64, 0x10FFFF)] := by
  decide
open XV.Spec.Regex in
example : fastMatch (.cat (.star (.alt (.cls [(0x61, 0x61)] false) (.cls [(0x62, 0x63)] false))) (.cls [(0x64, 0x64)] false))
    [0x61, 0x62, 0x63, 0x64] = true := by decide

end XV.Props.C11
