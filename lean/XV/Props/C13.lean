/-
C13 — DOM mutation keeps the tree well-formed and equal to a reference DOM.  Property theorems only; helper
lemmas live in XV.Lemmas.Dom.
Model: XV.Model.Dom (reference DOM: store of node records, `step : Store → Op → Store × Result`, legality checks
in the order of the C++, hierarchy table regenerated from DOMDocumentImpl::isKidOK).
Spec:  XV.Spec.Dom  (`WF`: single parent, mutual consistency of child/parent links, duplicate-free child lists,
acyclicity, uniform ownerDocument, sorted back-linked attribute maps; DOM Core §1.1.1 hierarchy table).
All statements quantify over ALL stores, ALL operations (29 kinds incl. clone/import/adopt/normalize/rename) with
arbitrary operands, and operation lists of ANY length.
-/
import XV.Lemmas.Dom
namespace XV.Props.C13
open XV.Model.Dom XV.Spec.Dom XV.Lemmas.Dom

/-- The table in DOMDocumentImpl::isKidOK (regenerated from the source) is the DOM Core structure model. -/
theorem kidok_table_spec : ∀ p c : Kind, kidOKTable p c = allowedChild p c := by
  intro p c; cases p <;> cases c <;> decide

/-- `Kind.code` / `Exc.name` are the values of DOMNode::NodeType / names of DOMException::ExceptionCode in the
headers, and isKidOK still has its "white-space Text under a Document" clause. -/
theorem kind_codes_match_enum :
    XV.Gen.KidOK.nodeTypes =
      [("ELEMENT_NODE", Kind.element.code), ("ATTRIBUTE_NODE", Kind.attr.code), ("TEXT_NODE", Kind.text.code),
       ("CDATA_SECTION_NODE", Kind.cdata.code), ("ENTITY_REFERENCE_NODE", Kind.entityRef.code),
       ("ENTITY_NODE", Kind.entity.code), ("PROCESSING_INSTRUCTION_NODE", Kind.pi.code),
       ("COMMENT_NODE", Kind.comment.code), ("DOCUMENT_NODE", Kind.document.code),
       ("DOCUMENT_TYPE_NODE", Kind.doctype.code), ("DOCUMENT_FRAGMENT_NODE", Kind.fragment.code),
       ("NOTATION_NODE", Kind.notation.code)] ∧
    (∀ e, e ∈ Exc.all → e.name ∈ XV.Gen.KidOK.excCodes.map (·.1)) ∧
    XV.Gen.KidOK.docTextAllSpacesClause = true := by
  refine ⟨by decide, by decide, by decide⟩

/-- Freshly created documents are well-formed. -/
theorem wf_init (n : Nat) : WF (init n) := XV.Lemmas.Dom.wf_init n

/-- Every operation, with any operands (legal or not, live or dead), preserves well-formedness. -/
theorem wf_step (s : Store) (h : WF s) (op : Op) : WF (step s op).1 := by
  cases op <;> simp only [step]
  case createElement d nm => exact wf_createNode s h d _ _ rfl rfl rfl rfl (by intro hh; cases hh) rfl
  case createText d x => exact wf_createNode s h d _ _ rfl rfl rfl rfl (by intro hh; cases hh) rfl
  case createComment d x => exact wf_createNode s h d _ _ rfl rfl rfl rfl (by intro hh; cases hh) rfl
  case createCDATA d x => exact wf_createNode s h d _ _ rfl rfl rfl rfl (by intro hh; cases hh) rfl
  case createPI d tg x => exact wf_createNode s h d _ _ rfl rfl rfl rfl (by intro hh; cases hh) rfl
  case createAttribute d nm => exact wf_createNode s h d _ _ rfl rfl rfl rfl (by intro hh; cases hh) rfl
  case createFragment d => exact wf_createNode s h d _ _ rfl rfl rfl rfl (by intro hh; cases hh) rfl
  case createEntityRef d nm => exact wf_createNode s h d _ _ rfl rfl rfl rfl (by intro hh; cases hh) rfl
  case appendChild p n => exact wf_insertBeforeCore s h p n none false false
  case insertBefore p n ref => exact wf_insertBeforeCore s h p n ref false false
  case removeChild p c => exact wf_removeChildCore s h p c
  case replaceChild p n old => exact wf_replaceChildCore s h p n old
  case setAttribute e nm v => exact wf_setAttributeCore s h e nm v
  case removeAttribute e nm => exact wf_removeAttributeCore s h e nm
  case setAttributeNode e a => exact wf_setAttributeNodeCore s h e a
  case removeAttributeNode e a => exact wf_removeAttributeNodeCore s h e a
  case setValue a v => exact wf_setValueOp s h a v
  case substringData t off cnt => exact wf_charDataOp s h t _
  case appendData t d => exact wf_charDataOp s h t _
  case insertData t off d => exact wf_charDataOp s h t _
  case deleteData t off cnt => exact wf_charDataOp s h t _
  case replaceData t off cnt d => exact wf_charDataOp s h t _
  case setData t d => exact wf_charDataOp s h t _
  case splitText t off => exact wf_splitTextCore s h t off
  case cloneNode n deep => exact wf_cloneNodeCore s h n deep
  case importNode d n deep => exact wf_importNodeCore s h d n deep
  case adoptNode d n => exact wf_adoptNodeCore s h d n
  case normalize n => exact wf_normalizeCore s h n
  case renameNode d n nm => exact wf_renameNodeCore s h d n nm

/-- Well-formedness after any history, of any length, from any well-formed start. -/
theorem wf_run (s : Store) (h : WF s) (ops : List Op) : WF (run s ops) := by
  induction ops generalizing s with
  | nil => exact h
  | cons op ops ih => exact ih (step s op).1 (wf_step s h op)

/-- Every state reachable from freshly created documents is well-formed. -/
theorem wf_reachable (n : Nat) (ops : List Op) : WF (run (init n) ops) := wf_run _ (wf_init n) ops

/-- An operation that raises a DOMException changes nothing (nor does one on a dead handle / wrong interface). -/
theorem exc_unchanged (s : Store) (op : Op) :
    (∀ c, (step s op).2 = .exc c → (step s op).1 = s) ∧
    ((step s op).2.isOk = false → (step s op).1 = s) := by
  have key : (step s op).2.isOk = false → (step s op).1 = s := by
    intro h
    rcases step_unch s op with h1 | h1
    · exact h1
    · rw [h1] at h; cases h
  exact ⟨fun c hc => key (by rw [hc]; rfl), key⟩

/-- CharacterData: substring/insert/delete/replace are the list operations of DOM Core; INDEX_SIZE_ERR is raised
exactly when the offset exceeds the length, and no other exception is. -/
theorem chardata_spec (l d : List Nat) (off cnt : Nat) :
    (∀ op, op = CDOp.substring off cnt ∨ op = CDOp.insert off d ∨ op = CDOp.delete off cnt ∨
        op = CDOp.replace off cnt d →
      (cdApply l op = .error .indexSize ↔ l.length < off) ∧ (∀ e, cdApply l op = .error e → e = .indexSize)) ∧
    (off ≤ l.length →
      cdApply l (.substring off cnt) = .ok (l, some ((l.drop off).take cnt)) ∧
      cdApply l (.insert off d) = .ok (l.take off ++ d ++ l.drop off, none) ∧
      cdApply l (.delete off cnt) = .ok (l.take off ++ l.drop (off + cnt), none) ∧
      cdApply l (.replace off cnt d) = .ok (l.take off ++ d ++ l.drop (off + cnt), none)) ∧
    cdApply l (.append d) = .ok (l ++ d, none) ∧ cdApply l (.set d) = .ok (d, none) := by
  refine ⟨?_, ?_, rfl, rfl⟩
  · intro op hop
    rcases hop with rfl | rfl | rfl | rfl <;> simp only [cdApply] <;>
      (by_cases h : l.length < off <;> simp [h])
  · intro h
    have hn : ¬ l.length < off := by omega
    refine ⟨by simp [cdApply, hn, substr], by simp [cdApply, hn, insertAtOff], by simp [cdApply, hn, deleteRange], ?_⟩
    simp only [cdApply, if_neg hn, insertAtOff, deleteRange]
    have h1 : (l.take off).length = off := by simp; omega
    congr 2
    rw [List.take_append_of_le_length (by omega), List.take_of_length_le (by omega),
      List.drop_append_of_le_length (by omega), List.drop_of_length_le (by omega), List.nil_append,
      List.append_assoc]

/-- … and the arithmetic is coherent: inserting `d` at `off` lengthens the data by `|d|`, the inserted range reads
back as `d`, and deleting it restores the original. -/
theorem chardata_laws (l d : List Nat) (off : Nat) (h : off ≤ l.length) :
    (insertAtOff l off d).length = l.length + d.length ∧
    substr (insertAtOff l off d) off d.length = d ∧
    deleteRange (insertAtOff l off d) off d.length = l :=
  ⟨length_insertAtOff l d off h, substr_insertAtOff l d off h, delete_insertAtOff l d off h⟩

/-- The CharacterData methods on a live, writable Text/CDATASection/Comment node of any store. -/
theorem chardata_step_spec (s : Store) (t : NodeId) (rt : NodeRec) (ht : s.get t = some rt)
    (hk : isCharData rt.kind = true) (hro : rt.readOnly = false) (off cnt : Nat) (d : List Nat) :
    step s (.substringData t off cnt) =
      (if rt.data.length < off then (s, .exc .indexSize) else (s, .ok (.str ((rt.data.drop off).take cnt)))) ∧
    step s (.insertData t off d) =
      (if rt.data.length < off then (s, .exc .indexSize)
       else (setDataOf s t (rt.data.take off ++ d ++ rt.data.drop off), .ok .null)) ∧
    step s (.deleteData t off cnt) =
      (if rt.data.length < off then (s, .exc .indexSize)
       else (setDataOf s t (rt.data.take off ++ rt.data.drop (off + cnt)), .ok .null)) := by
  refine ⟨?_, ?_, ?_⟩ <;>
    (simp only [step, charDataOp, ht, cdKindOK, hk, hro, cdApply]
     by_cases h : rt.data.length < off <;> simp [h, substr, insertAtOff, deleteRange])

/-- Inserting a node into itself or into one of its descendants never succeeds and changes nothing
(with the current C++ `e->appendChild(e)` succeeds: DESIGN §5 F4; the model shows the repaired check). -/
theorem insert_ancestor_rejected (s : Store) (p n : NodeId) (ref : Option NodeId) (h : AncOrSelf s n p) :
    (step s (.insertBefore p n ref)).2.isOk = false ∧ (step s (.insertBefore p n ref)).1 = s ∧
    (step s (.appendChild p n)).2.isOk = false ∧ (step s (.appendChild p n)).1 = s := by
  have key : ∀ ref, (insertBeforeCore s p n ref false false).2.isOk = false := by
    intro ref
    unfold insertBeforeCore
    split
    · rename_i rp rn _ _
      have hplan : ∃ r, insertPlan s p n rp rn ref false false = .error r ∧ r.isOk = false := by
        unfold insertPlan
        split; · exact ⟨_, rfl, rfl⟩
        split; · exact ⟨_, rfl, rfl⟩
        split; · exact ⟨_, rfl, rfl⟩
        split; · exact ⟨_, rfl, rfl⟩
        split; · exact ⟨_, rfl, rfl⟩
        rw [if_pos (isAncOrSelf_complete s n p h)]
        exact ⟨_, rfl, rfl⟩
      obtain ⟨r, hr, hok⟩ := hplan
      rw [hr]; exact hok
    · rfl
  have e1 := (exc_unchanged s (.insertBefore p n ref)).2
  have e2 := (exc_unchanged s (.appendChild p n)).2
  simp only [step] at e1 e2 ⊢
  exact ⟨key ref, e1 (key ref), key none, e2 (key none)⟩

theorem insert_self_rejected (s : Store) (e : NodeId) (ref : Option NodeId) :
    (step s (.appendChild e e)).2.isOk = false ∧ (step s (.appendChild e e)).1 = s ∧
    (step s (.insertBefore e e ref)).2.isOk = false ∧ (step s (.insertBefore e e ref)).1 = s := by
  have := insert_ancestor_rejected s e e ref AncOrSelf.refl
  exact ⟨this.2.2.1, this.2.2.2, this.1, this.2.1⟩

/-- … with HIERARCHY_REQUEST_ERR when none of the earlier checks of the C++ fires first. -/
theorem insert_ancestor_code (s : Store) (p n : NodeId) (rp rn : NodeRec) (hp : s.get p = some rp)
    (hn : s.get n = some rn) (hleaf : isLeaf rp.kind = false) (hro : rp.readOnly = false)
    (hown : ownerDocOf rn = some rp.owner) (h : AncOrSelf s n p) :
    (step s (.appendChild p n)).2 = .exc .hierarchy := by
  have hplan : insertPlan s p n rp rn none false false = .error (.exc .hierarchy) := by
    unfold insertPlan
    simp only [refDead, hleaf, hro, hown, isAncOrSelf_complete s n p h]
    repeat' split
    all_goals first | rfl | contradiction | simp_all
  simp only [step, insertBeforeCore, hp, hn, hplan]

/-- Conversely the repaired check rejects nothing else: in a well-formed store a type-correct insertion of a node
of the same document that is not an inclusive ancestor of the target succeeds, and does the list surgery. -/
theorem insert_legal_accepted (s : Store) (h : WF s) (p n : NodeId) (ref : Option NodeId) (rp rn : NodeRec)
    (hp : s.get p = some rp) (hn : s.get n = some rn)
    (href : ref = none ∨ ∃ r rr, ref = some r ∧ r ≠ n ∧ s.get r = some rr ∧ rr.parent = some p)
    (hleaf : isLeaf rp.kind = false) (hdoc : rp.kind ≠ .document) (hro : rp.readOnly = false)
    (hown : ownerDocOf rn = some rp.owner) (hfrag : rn.kind ≠ .fragment) (hkid : isKidOK rp rn = true)
    (hna : ¬ AncOrSelf s n p) :
    step s (.insertBefore p n ref) = (moveNodes s [n] p ref, .ok (.node n)) := by
  have hanc := fuel_suffices s h n p rp hp hna
  have hrd : refDead s ref = false := by
    rcases href with rfl | ⟨r, rr, rfl, _, hr, _⟩
    · rfl
    · simp [refDead, hr]
  have hrc : refNotChild s p ref = false := by
    rcases href with rfl | ⟨r, rr, rfl, _, hr, hpar⟩
    · rfl
    · simp [refNotChild, parentOf, hr, hpar]
  have hrn : ref ≠ some n := by
    rcases href with rfl | ⟨r, rr, rfl, hne, _, _⟩
    · intro hh; cases hh
    · intro hh; exact hne (Option.some.inj hh)
  simp only [step, insertBeforeCore, hp, hn, insertPlan, hrd, hleaf, hro, hown, hanc, hrc, hrn, hfrag, hkid, hdoc]
  simp

/-- `insertBefore` (all operands live) succeeds exactly when DOM Core permits the insertion — so it raises a
DOMException exactly when the insertion is forbidden: hierarchy violation (node type, second document element,
insertion into itself or a descendant), foreign-document node, refChild that is not a child, read-only target.
False of the current C++ for `n = p` and for `n` an ancestor when it is childless-guarded (F4); stated for the
repaired check. -/
theorem exc_iff_forbidden (s : Store) (h : WF s) (p n : NodeId) (ref : Option NodeId) (rp rn : NodeRec)
    (hp : s.get p = some rp) (hn : s.get n = some rn) (href : refDead s ref = false) :
    (step s (.insertBefore p n ref)).2.isOk = true ↔ LegalInsert s p n rp rn ref :=
  insert_ok_iff s h p n ref rp rn hp hn href

-- ------------------------------------------------------------------ non-vacuity
/-- a concrete non-trivial reachable store: two documents; in document 0 an element `a` with attribute `x="v"`
(attribute 5 with Text child 6), child element `b` and a Text "AB". -/
def sample : Store := run (init 2)
  [.createElement 0 [0x61], .createElement 0 [0x62], .createText 0 [0x41, 0x42], .appendChild 0 2,
   .appendChild 2 3, .appendChild 2 4, .setAttribute 2 [0x78] [0x76]]

example : WF sample := wf_reachable 2 _
example : (sample.get 2).map (·.children) = some [3, 4] ∧ (sample.get 3).map (·.parent) = some (some 2) ∧
    (sample.get 2).map (·.attrs) = some [5] ∧ (sample.get 6).map (·.parent) = some (some 5) := by decide
-- hypotheses of the rejection theorems are satisfiable: 2 is an ancestor of 3, and the model says HIERARCHY
example : AncOrSelf sample 2 3 := .step (q := 2) (by decide) .refl
example : (step sample (.appendChild 3 2)).2 = .exc .hierarchy ∧ (step sample (.appendChild 2 2)).2 = .exc .hierarchy := by
  decide
-- a legal move is accepted (hypotheses of insert_legal_accepted hold for p = 3, n = 4)
example : (step sample (.insertBefore 3 4 none)).2 = .ok (.node 4) := by decide
-- both sides of exc_iff_forbidden occur: a permitted insertion (and the theorem yields its legality) …
example : ∃ rp rn, sample.get 3 = some rp ∧ sample.get 4 = some rn ∧ LegalInsert sample 3 4 rp rn none :=
  ⟨_, _, rfl, rfl, (exc_iff_forbidden sample (wf_reachable 2 _) 3 4 none _ _ rfl rfl rfl).mp (by decide)⟩
-- … and a forbidden one (Text 4 cannot have children)
example : (step sample (.insertBefore 4 3 none)).2 = .exc .hierarchy := by decide
-- exc_unchanged is not vacuous: an exception does occur, and a successful op does change the store
example : (step sample (.removeChild 3 4)).2 = .exc .notFound := by decide
-- chardata: in-range and out-of-range
example : cdApply [1, 2, 3] (.replace 1 1 [9, 9]) = .ok ([1, 9, 9, 3], none) ∧
    cdApply [1, 2, 3] (.substring 4 1) = .error .indexSize := ⟨rfl, rfl⟩

end XV.Props.C13
