/-
C19 — no external resource is touched unless permitted; entity expansion is bounded.
Property theorems only (+ non-vacuity examples).  Every statement quantifies over ALL entity tables / documents /
worlds (file systems + resolvers) / configurations; nothing here is a bounded check.

  Spec    XV.Spec.Entity    `Expands tbl cs t o k` (declarative full expansion with its expansion count), `SelfRef`
          XV.Spec.ExtGate   `mayFetch` / `mayOpen`: the switch table of the property text
          XV.Spec.Uri       RFC 2396 §5.2 (theorems in XV.Props.C19Uri)
  Model   XV.Model.Entity   scanEntityRef / expandPERef counter logic + ReaderMgr::pushReader recursion test
          XV.Model.ExtGate  createReader / resolveSchemaGrammar / resolveSchemaLocation decision logic + interpreter
  Gen     XV.Gen.ErrCodes   XMLErrs enum values regenerated from framework/XMLErrorCodes.hpp
          XV.Gen.ScannerCopy  the setters called by XMLScanner::setParseSettings + all setters XMLScanner.hpp declares
  Model   XV.Model.CfgHistory  ordered configuration histories with scanner switches (useScanner / fgXercesScannerName)
-/
import XV.Lemmas.Entity
import XV.Model.ExtGate
import XV.Gen.ErrCodes
import XV.Gen.ScannerCopy
import XV.Model.CfgHistory
import XV.Props.C19Uri
namespace XV.Props.C19
open XV.Spec.Entity XV.Model.Entity XV.Lemmas.Entity

/-! ## 1a. entity expansion -/

/-- **Expansion halts, for EVERY entity table, cyclic or not.**  The reader stack never gets deeper than
    `2·|table| + 1` (`fuelFor`): the recursion budget of the model is never exhausted, whatever the table, the
    document, the limit and the scanner.  Measure: twice the number of declared names not on the reader stack, plus
    one while the current reader's own entity is not below itself — the test in `pushReader` skips the top of the
    stack, which costs exactly one extra level per name (`XV.Lemmas.Entity.measure_push`). -/
theorem expansion_terminates (cfg : Cfg) (tbl : Table) (d : Doc) : (run cfg tbl d).err ≠ some .depth :=
  scanDoc_no_depth cfg tbl (fuelFor tbl) (Nat.le_refl _) d {} (by simp)

/-- the same with any larger budget: the bound does not depend on the budget chosen -/
theorem expansion_terminates_any_budget (cfg : Cfg) (tbl : Table) (d : Doc) (fuel : Nat) (h : fuelFor tbl ≤ fuel) :
    (scanDoc cfg tbl fuel d {}).err ≠ some .depth :=
  scanDoc_no_depth cfg tbl fuel h d {} (by simp)

/-- Without a limit the model computes exactly the declarative expansion: no error, the characters of the full
    expansion, and `count` = the number of expansions the document needs. -/
theorem expansion_correct {tbl : Table} {cs : Bool} {d : Doc} {o : List Nat} {k : Nat}
    (h : Expands tbl cs d.flatten o k) :
    (run ⟨none, cs⟩ tbl d).err = none ∧ (run ⟨none, cs⟩ tbl d).outRev = o.reverse ∧ (run ⟨none, cs⟩ tbl d).count = k := by
  have hf : fuelFor tbl = 2 * tbl.length + 1 := rfl
  rcases scanDoc_of_expands ⟨none, cs⟩ tbl cs (2 * tbl.length) rfl rfl d o k {} h rfl with h1 | ⟨h1, h2, h3⟩
  · exact absurd (by rw [run, hf]; exact h1) (expansion_terminates ⟨none, cs⟩ tbl d)
  · refine ⟨by rw [run, hf]; exact h1, by rw [run, hf, h2]; simp, by rw [run, hf, h3]; simp⟩

/-- …and it reports no error only if the document has a (finite) expansion. -/
theorem expansion_ok_iff (cs : Bool) (tbl : Table) (d : Doc) :
    (run ⟨none, cs⟩ tbl d).err = none ↔ ∃ o k, Expands tbl cs d.flatten o k := by
  constructor
  · intro h
    exact expands_of_scanDoc ⟨none, cs⟩ tbl (2 * tbl.length) d {} rfl h
  · rintro ⟨o, k, h⟩
    exact (expansion_correct h).1

/-- **A directly or indirectly self-referential entity reachable from the document is always reported**: the parse
    ends with an error (and by `expansion_terminates` it does end), for every limit setting and scanner. -/
theorem recursion_always_reported {tbl : Table} {d : Doc} {n : Name} (cfg : Cfg) (h : SelfRef tbl d.flatten n) :
    ∃ e, (run cfg tbl d).err = some e ∧ e ≠ .depth := by
  cases he : (run cfg tbl d).err with
  | none =>
    obtain ⟨o, k, hx⟩ := expands_of_scanDoc cfg tbl (2 * tbl.length) d {} rfl he
    exact absurd ⟨o, k, hx⟩ (selfRef_not_expands h)
  | some e =>
    refine ⟨e, rfl, ?_⟩
    intro hd
    exact expansion_terminates cfg tbl d (by rw [he, hd])

/-- every entity referenced anywhere is declared -/
def Closed (tbl : Table) (t : Text) : Prop := ∀ n, Referenced tbl t n → tbl.get n ≠ none

/-- …and, when nothing else can go wrong (no limit, every referenced entity declared), the error reported is the
    recursion error itself. -/
theorem recursion_reported_as_such {tbl : Table} {d : Doc} {n : Name} (cs : Bool) (h : SelfRef tbl d.flatten n)
    (hc : Closed tbl d.flatten) : ∃ m, (run ⟨none, cs⟩ tbl d).err = some (.recursive m) := by
  obtain ⟨e, he, hne⟩ := recursion_always_reported ⟨none, cs⟩ h
  have ho := scanDoc_origin ⟨none, cs⟩ tbl (2 * tbl.length) d {} e rfl he
  cases e with
  | recursive m => exact ⟨m, he⟩
  | depth => exact absurd rfl hne
  | limit => exact absurd rfl ho
  | notFound m => exact absurd ho.1 (hc m ho.2)

/-- **With limit `l` at most `l + 1` expansions are performed** (the code pushes the reader of the (l+1)-th
    expansion and then raises the error: `++fEntityExpansionCount > fEntityExpansionLimit`), for every document. -/
theorem limit_enforced_count (cs : Bool) (l : Nat) (tbl : Table) (d : Doc) :
    (run ⟨some l, cs⟩ tbl d).count ≤ l + 1 ∧ (run ⟨some l, cs⟩ tbl d).pushes ≤ l + 1 := by
  have hs := scanDoc_sim cs l tbl (2 * tbl.length) d {} (Nat.zero_le _)
  have hg := scanDoc_grow ⟨some l, cs⟩ tbl (2 * tbl.length + 1) d {}
  obtain ⟨_, _, g3⟩ := hg
  have hcount : (scanDoc ⟨some l, cs⟩ tbl (2 * tbl.length + 1) d {}).count ≤ l + 1 := by
    by_cases h : (scanDoc ⟨none, cs⟩ tbl (2 * tbl.length + 1) d {}).count ≤ l
    · rw [hs.1 h]; omega
    · rw [(hs.2 (by omega)).2.1]; omega
  refine ⟨hcount, ?_⟩
  have : (scanDoc ⟨some l, cs⟩ tbl (2 * tbl.length + 1) d {}).pushes ≤ (scanDoc ⟨some l, cs⟩ tbl (2 * tbl.length + 1) d {}).count := by
    simpa using g3
  exact Nat.le_trans this hcount

/-- **…and the fatal limit error is raised iff the document needs more than `l` expansions**, stated for every
    document through the unlimited run… -/
theorem limit_enforced_general (cs : Bool) (l : Nat) (tbl : Table) (d : Doc) :
    (run ⟨some l, cs⟩ tbl d).err = some .limit ↔ l < (run ⟨none, cs⟩ tbl d).count := by
  have hs := scanDoc_sim cs l tbl (2 * tbl.length) d {} (Nat.zero_le _)
  constructor
  · intro h
    by_cases hle : (run ⟨none, cs⟩ tbl d).count ≤ l
    · have heq : run ⟨some l, cs⟩ tbl d = run ⟨none, cs⟩ tbl d := hs.1 hle
      rw [heq] at h
      exact absurd rfl (scanDoc_origin ⟨none, cs⟩ tbl (2 * tbl.length) d {} .limit rfl h)
    · omega
  · intro h
    exact (hs.2 h).1

/-- …and, for documents that have an expansion, through the declarative count `k`. -/
theorem limit_enforced {tbl : Table} {cs : Bool} {d : Doc} {o : List Nat} {k : Nat} (l : Nat)
    (h : Expands tbl cs d.flatten o k) : (run ⟨some l, cs⟩ tbl d).err = some .limit ↔ l < k := by
  rw [limit_enforced_general, (expansion_correct h).2.2]

/-- **Documents within the limit are unaffected**: the whole result (delivered characters, counters, no error) is the
    result without a limit. -/
theorem within_limit_unaffected {tbl : Table} {cs : Bool} {d : Doc} {o : List Nat} {k : Nat} {l : Nat}
    (h : Expands tbl cs d.flatten o k) (hk : k ≤ l) :
    run ⟨some l, cs⟩ tbl d = run ⟨none, cs⟩ tbl d ∧ (run ⟨some l, cs⟩ tbl d).err = none ∧
    (run ⟨some l, cs⟩ tbl d).outRev = o.reverse := by
  have hs := scanDoc_sim cs l tbl (2 * tbl.length) d {} (Nat.zero_le _)
  obtain ⟨e1, e2, e3⟩ := expansion_correct h
  have heq : run ⟨some l, cs⟩ tbl d = run ⟨none, cs⟩ tbl d := hs.1 (by show (run ⟨none, cs⟩ tbl d).count ≤ l; omega)
  exact ⟨heq, by rw [heq]; exact e1, by rw [heq]; exact e2⟩

/-- the same without assuming an expansion exists: whenever the unlimited run stays within `l` expansions (it may
    still end in a recursion error), the limited run is identical -/
theorem within_limit_unaffected_general (cs : Bool) (l : Nat) (tbl : Table) (d : Doc)
    (h : (run ⟨none, cs⟩ tbl d).count ≤ l) : run ⟨some l, cs⟩ tbl d = run ⟨none, cs⟩ tbl d :=
  (scanDoc_sim cs l tbl (2 * tbl.length) d {} (Nat.zero_le _)).1 h

/-- Both errors are in the fatal range of the regenerated XMLErrs enum (so the parse really ends). -/
theorem limit_and_recursion_errors_are_fatal :
    XV.Gen.ErrCodes.F_LowBounds < XV.Gen.ErrCodes.EntityExpansionLimitExceeded ∧
    XV.Gen.ErrCodes.EntityExpansionLimitExceeded < XV.Gen.ErrCodes.F_HighBounds ∧
    XV.Gen.ErrCodes.F_LowBounds < XV.Gen.ErrCodes.RecursiveEntity ∧
    XV.Gen.ErrCodes.RecursiveEntity < XV.Gen.ErrCodes.F_HighBounds := by decide

/-! ### non-vacuity (entities 0,1,2 ; characters 97.. ) -/

/-- e0 = "a", e1 = "&e0;b&e0;", e2 = "&e1;&e1;" : `&e2;` needs 1 + 2·(1 + 2) = 7 expansions -/
def tblOK : Table := [(0, [.ch 97]), (1, [.ref 0, .ch 98, .ref 0]), (2, [.ref 1, .ref 1])]
def docOK : Doc := [(false, [.ref 0]), (true, [.ch 120, .ref 2])]

theorem docOK_expands : Expands tblOK false docOK.flatten [97, 120, 97, 98, 97, 97, 98, 97] 8 := by
  have e0 : Expands tblOK false [.ch 97] [97] 0 := .ch .nil
  have e1 : Expands tblOK false [.ref 0, .ch 98, .ref 0] [97, 98, 97] 2 :=
    Expands.ref (n := 0) rfl e0 (.ch (Expands.ref (n := 0) rfl e0 .nil))
  have e2 : Expands tblOK false [.ref 1, .ref 1] [97, 98, 97, 97, 98, 97] 6 :=
    Expands.ref (n := 1) rfl e1 (Expands.ref (n := 1) rfl e1 .nil)
  exact Expands.ref (n := 0) rfl e0 (.ch (Expands.ref (n := 2) rfl e2 .nil))

example : (run ⟨none, false⟩ tblOK docOK).count = 8 := (expansion_correct docOK_expands).2.2
example : (run ⟨some 7, false⟩ tblOK docOK).err = some .limit := (limit_enforced 7 docOK_expands).2 (by decide)
example : (run ⟨some 8, false⟩ tblOK docOK).err = none := (within_limit_unaffected docOK_expands (by decide)).2.1
example : (run ⟨some 7, false⟩ tblOK docOK).pushes = 8 := by decide        -- exactly l + 1 are performed
example : (run ⟨some 3, false⟩ tblOK docOK).se = 2 := by decide            -- two of them announced in content
example : (run ⟨some 2, true⟩ [] [(true, [.special 38, .special 60, .special 62])]).err = some .limit := by decide
example : (run ⟨some 2, false⟩ [] [(true, [.special 38, .special 60, .special 62])]).err = none := by decide

/-- e0 → e1 → e2 → e1 : a cycle of length 2 reached indirectly; e3 refers to itself directly -/
def tblCyc : Table := [(0, [.ref 1]), (1, [.ch 97, .ref 2]), (2, [.ref 1]), (3, [.ref 3])]

theorem cyc_selfref : SelfRef tblCyc (Doc.flatten [(true, [.ref 0])]) 1 :=
  ⟨[0], [2], [.ch 97, .ref 2], .cons (by decide) rfl (.one (by decide)), rfl,
    .cons (by decide) rfl (.one (by decide))⟩

example : ∃ e, (run ⟨none, false⟩ tblCyc [(true, [.ref 0])]).err = some e ∧ e ≠ .depth :=
  recursion_always_reported _ cyc_selfref
example : (run ⟨none, false⟩ tblCyc [(true, [.ref 0])]).err = some (.recursive 1) := by decide
example : (run ⟨none, false⟩ tblCyc [(false, [.ref 3])]).err = some (.recursive 3) := by decide
example : (run ⟨none, false⟩ tblCyc [(false, [.ref 3])]).pushes = 2 := by decide   -- the skipped top-of-stack test: one extra level
example : (run ⟨some 1, false⟩ tblCyc [(true, [.ref 0])]).err = some .limit := by decide
example : (run ⟨none, false⟩ tblCyc [(true, [.ref 0])]).err ≠ some .depth := expansion_terminates _ _ _

/-! ## 1b. fetch gating -/

open XV.Spec.ExtGate XV.Model.ExtGate

/-- **Nothing is fetched at a site the configuration does not permit** — for every world, configuration and
    document tree (the table `mayFetch` is the property's list of switches). -/
theorem fetch_permitted (w : World) (cfg : XV.Spec.ExtGate.Cfg) (fuel : Nat) (sysId key : String) :
    ∀ b ∈ (parse w cfg fuel sysId key).log, mayFetch cfg b.1.ctx b.1.site = true :=
  fun b _ => b.2.permitted

/-- **With default entity resolution disabled nothing is ever opened by the parser itself**; if moreover the
    resolver declines, no content other than the document is read and the trace has no open at all. -/
theorem no_fetch_when_disabled (w : World) (cfg : XV.Spec.ExtGate.Cfg) (fuel : Nat) (sysId key : String)
    (hd : cfg.disableDefault = true) :
    (∀ b ∈ (parse w cfg fuel sysId key).log, b.1.opened = none) ∧
    ((∀ r, w.answer r = none) → ∀ b ∈ (parse w cfg fuel sysId key).log, b.1.used = none) := by
  have hopen : ∀ b ∈ (parse w cfg fuel sysId key).log, b.1.opened = none := by
    intro b _
    cases ho : b.1.opened with
    | none => rfl
    | some t =>
      have := (b.2.opened t ho).2.1
      rw [hd] at this; cases this
  refine ⟨hopen, ?_⟩
  intro hdecl b hb
  have hsup : b.1.supplied = none := by
    rw [b.2.supplied]
    cases b.1.offered with
    | none => rfl
    | some r => exact hdecl r
  cases hu : b.1.used with
  | none => rfl
  | some s =>
    -- a source is used only if it was supplied or opened
    exfalso
    have ho := hopen b hb
    exact used_needs_source b hsup ho hu
where
  used_needs_source (b : Fetched w cfg) (hs : b.1.supplied = none) (ho : b.1.opened = none) {s : Source}
      (hu : b.1.used = some s) : False := by
    have := b.2.usedFrom s hu
    rcases this with h | ⟨t, h⟩
    · rw [hs] at h; cases h
    · rw [ho] at h; cases h

theorem mem_trace {w : World} {cfg : XV.Spec.ExtGate.Cfg} (st : St w cfg) (e : Event) :
    e ∈ trace st ↔ ∃ b ∈ st.log, e ∈ b.1.events := by
  simp only [trace, List.mem_flatten, List.mem_map, List.mem_reverse]
  constructor
  · rintro ⟨l, ⟨b, hb, rfl⟩, he⟩; exact ⟨b, hb, he⟩
  · rintro ⟨b, hb, he⟩; exact ⟨_, ⟨b, hb, rfl⟩, he⟩

/-- `no_fetch_when_disabled` on the observable trace: only resolver calls -/
theorem no_open_in_trace_when_disabled (w : World) (cfg : XV.Spec.ExtGate.Cfg) (fuel : Nat) (sysId key : String)
    (hd : cfg.disableDefault = true) :
    ∀ e ∈ trace (parse w cfg fuel sysId key), ∃ r, e = .resolve r := by
  intro e he
  obtain ⟨b, hb, hev⟩ := (mem_trace _ e).1 he
  have ho := (no_fetch_when_disabled w cfg fuel sysId key hd).1 b hb
  simp only [Block.events, ho, List.append_nil] at hev
  cases hoff : b.1.offered with
  | none => simp [hoff] at hev
  | some r => simp only [hoff, List.mem_singleton] at hev; exact ⟨r, hev⟩

/-! ### `gates_spec`: one lemma per switch of the property text -/

section gates
variable (w : World) (cfg : XV.Spec.ExtGate.Cfg) (fuel : Nat) (sysId key : String)

/-- the scanners that ignore DTDs (WF, SG): no external subset, parameter entity or general entity of the
    instance document is fetched -/
theorem gate_scanner_ignores_dtd (h : cfg.scanner = .WF ∨ cfg.scanner = .SG) :
    ∀ b ∈ (parse w cfg fuel sysId key).log, b.1.ctx = .instance →
      b.1.site ≠ .extSubset ∧ b.1.site ≠ .paramEntity ∧ b.1.site ≠ .generalEntity := by
  intro b _ hc
  have hp := b.2.permitted
  rw [hc] at hp
  have hr : readsDTD cfg = false := by rcases h with h | h <;> simp [readsDTD, h]
  refine ⟨?_, ?_, ?_⟩ <;> intro hs <;> rw [hs] at hp <;> simp [mayFetch, hr] at hp

/-- external-DTD loading off and validation off: no external subset is fetched (neither the instance's nor a
    schema document's) -/
theorem gate_load_external_dtd (hl : cfg.loadExternalDTD = false) (hv : cfg.valScheme = .never) :
    ∀ b ∈ (parse w cfg fuel sysId key).log, b.1.site ≠ .extSubset := by
  intro b _ hs
  have hp := b.2.permitted
  rw [hs] at hp
  cases hc : b.1.ctx <;> rw [hc] at hp <;> simp [mayFetch, hl, validationOn, hv] at hp

/-- schema loading off: no schema is fetched, and nothing referenced from a schema document either -/
theorem gate_load_schema (hl : cfg.loadSchema = false) :
    ∀ b ∈ (parse w cfg fuel sysId key).log, b.1.ctx = .instance ∧
      (b.1.site = .extSubset ∨ b.1.site = .paramEntity ∨ b.1.site = .generalEntity) := by
  intro b _
  have hp := b.2.permitted
  cases hc : b.1.ctx <;> cases hs : b.1.site <;> rw [hc, hs] at hp <;> simp [mayFetch, hl] at hp <;> simp

/-- schema processing off (general scanner without fgXercesSchema, or the DTD-only / WF scanners): the same -/
theorem gate_do_schema (h : readsSchema cfg = false) :
    ∀ b ∈ (parse w cfg fuel sysId key).log, b.1.ctx = .instance ∧
      (b.1.site = .extSubset ∨ b.1.site = .paramEntity ∨ b.1.site = .generalEntity) := by
  intro b _
  have hp := b.2.permitted
  cases hc : b.1.ctx <;> cases hs : b.1.site <;> rw [hc, hs] at hp <;> simp [mayFetch, h] at hp <;> simp

/-- default entity resolution disabled: `mayOpen` is false everywhere and indeed nothing is opened -/
theorem gate_disable_default (hd : cfg.disableDefault = true) :
    (∀ x s, mayOpen cfg x s = false) ∧ ∀ b ∈ (parse w cfg fuel sysId key).log, b.1.opened = none :=
  ⟨fun x s => by simp [mayOpen, hd], (no_fetch_when_disabled w cfg fuel sysId key hd).1⟩

/-- whatever is opened by default resolution is opened at a site where `mayOpen` holds -/
theorem gates_spec :
    ∀ b ∈ (parse w cfg fuel sysId key).log, b.1.opened.isSome = true → mayOpen cfg b.1.ctx b.1.site = true := by
  intro b _ ho
  cases hopen : b.1.opened with
  | none => rw [hopen] at ho; cases ho
  | some t =>
    have := (b.2.opened t hopen).2.1
    simp [mayOpen, b.2.permitted, this]

end gates

/-- **Resolver first**: every fetch is offered to the installed resolver, with the system identifier as written and
    base = the system id of the entity that contains the external identifier; a default open happens only after the
    resolver declined exactly that identifier, it is the very next observable event, and what is opened is the
    default resolution of (that base, that system id). -/
theorem resolver_first (w : World) (cfg : XV.Spec.ExtGate.Cfg) (fuel : Nat) (sysId key : String)
    (hr : cfg.resolver = .xml) :
    ∀ b ∈ (parse w cfg fuel sysId key).log,
      b.1.offered = some b.1.rid ∧ b.1.rid.baseURI = b.1.container ∧
      ∀ t, b.1.opened = some t →
        w.answer b.1.rid = none ∧ b.1.events = [.resolve b.1.rid, t.event] ∧
        t = (w.defaultSource b.1.container b.1.rid.systemId).1 := by
  intro b _
  have hoff : b.1.offered = some b.1.rid := by rw [b.2.offered]; simp [offer, hr]
  refine ⟨hoff, b.2.base, ?_⟩
  intro t ht
  obtain ⟨h1, _, h3, _⟩ := b.2.opened t ht
  refine ⟨?_, ?_, ?_⟩
  · have := b.2.supplied
    rw [h1, hoff] at this
    exact this.symm
  · simp [Block.events, hoff, ht]
  · rw [← b.2.base]; exact h3

/-- the same for a SAX `EntityResolver`, which is shown (publicId, systemId) only -/
theorem resolver_first_sax (w : World) (cfg : XV.Spec.ExtGate.Cfg) (fuel : Nat) (sysId key : String)
    (hr : cfg.resolver = .sax) :
    ∀ b ∈ (parse w cfg fuel sysId key).log,
      b.1.offered = some (saxView b.1.rid) ∧
      ∀ t, b.1.opened = some t → w.answer (saxView b.1.rid) = none ∧ b.1.events = [.resolve (saxView b.1.rid), t.event] := by
  intro b _
  have hoff : b.1.offered = some (saxView b.1.rid) := by rw [b.2.offered]; simp [offer, hr]
  refine ⟨hoff, ?_⟩
  intro t ht
  obtain ⟨h1, _, _, _⟩ := b.2.opened t ht
  refine ⟨?_, by simp [Block.events, hoff, ht]⟩
  have := b.2.supplied
  rw [h1, hoff] at this
  exact this.symm

/-- **A source supplied by the resolver is used instead of the default**: nothing is opened for that identifier, and
    the content parsed (if the parser goes on to read it at all: schema de-duplication) is the supplied source. -/
theorem resolver_source_used (w : World) (cfg : XV.Spec.ExtGate.Cfg) (fuel : Nat) (sysId key : String) :
    ∀ b ∈ (parse w cfg fuel sysId key).log, ∀ s, b.1.supplied = some s →
      b.1.opened = none ∧ (b.1.used = some s ∨ b.1.used = none) ∧ ∃ r, b.1.events = [.resolve r] := by
  intro b _ s hs
  obtain ⟨h1, h2⟩ := b.2.used s hs
  refine ⟨h1, h2, ?_⟩
  have hsup := b.2.supplied
  rw [hs] at hsup
  cases hoff : b.1.offered with
  | none => rw [hoff] at hsup; cases hsup
  | some r => exact ⟨r, by simp [Block.events, hoff, h1]⟩

/-! ## 1d. configuration histories: a policy survives a scanner switch -/

section history
open XV.Model.CfgHistory

theorem foldl_step (copied : List String) (n : String) (hn : n ∈ copied) (h : List Op) :
    ∀ o : Obj, (h.foldl (step copied) o) n = (match lastSet h n with | some v => some v | none => o n) := by
  induction h with
  | nil => intro o; rfl
  | cons op rest ih =>
    intro o
    simp only [List.foldl_cons, ih, lastSet]
    cases hl : lastSet rest n with
    | some v => rfl
    | none =>
      cases op with
      | set m v =>
        by_cases hm : m = n
        · subst hm; simp [step]
        · have hm' : ¬ n = m := fun e => hm e.symm
          simp [step, hm, hm']
      | useScanner => simp [step, hn]

/-- **A setting whose setter is in the copy list of `setParseSettings` has, in the scanner that finally parses, the
    last value the application set — wherever scanner switches occur in the configuration history.** -/
theorem settings_survive (copied : List String) (h : List Op) (n : String) (hn : n ∈ copied) :
    XV.Model.CfgHistory.run copied h n = lastSet h n := by
  unfold XV.Model.CfgHistory.run
  rw [foldl_step copied n hn h]
  cases lastSet h n <;> rfl

/-- the switches the property talks about (and the other fetch-relevant settings), by XMLScanner setter -/
def policySetters : List String :=
  ["setDisableDefaultEntityResolution", "setLoadExternalDTD", "setLoadSchema", "setDoSchema", "setDoNamespaces",
   "setValidationScheme", "setSkipDTDValidation", "setSecurityManager", "setEntityHandler", "setStandardUriConformant",
   "setDisallowDTD", "setExternalSchemaLocation", "setExternalNoNamespaceSchemaLocation",
   "cacheGrammarFromParse", "useCachedGrammarInParse", "setIgnoredCachedDTD", "setHandleMultipleImports", "setExitOnFirstFatal"]

/-- every policy setter has its copy line in the regenerated `setParseSettings` -/
theorem policy_setters_copied : ∀ s ∈ policySetters, s ∈ XV.Gen.ScannerCopy.copied := by decide

/-- setters of XMLScanner that are not user settings (per-parse state, plumbing set by the parser itself) -/
def notUserSettings : List String :=
  ["setAttrDupChkRegistry", "setHasNoDTD", "setParseSettings", "setRootElemName", "setURIStringPool", "setValidator"]

/-- …and so has every other setter XMLScanner.hpp declares, except the six that are not user settings -/
theorem every_setter_copied :
    ∀ s ∈ XV.Gen.ScannerCopy.setters, s ∈ XV.Gen.ScannerCopy.copied ∨ s ∈ notUserSettings := by decide

/-- **`policy_survives_scanner_switch`**: for every configuration history (any interleaving of policy settings and
    scanner switches) the effective value of every policy switch is the last value set. -/
theorem policy_survives_scanner_switch (h : List Op) :
    ∀ s ∈ policySetters, XV.Model.CfgHistory.run XV.Gen.ScannerCopy.copied h s = lastSet h s :=
  fun s hs => settings_survive _ h s (policy_setters_copied s hs)

-- non-vacuity: policy set BEFORE the switch survives; a setting that is not copied would be lost
example : XV.Model.CfgHistory.run XV.Gen.ScannerCopy.copied [.set "setDisableDefaultEntityResolution" 1, .useScanner, .set "setLoadSchema" 0, .useScanner]
    "setDisableDefaultEntityResolution" = some 1 := by
  rw [policy_survives_scanner_switch _ _ (by decide)]; decide
example : XV.Model.CfgHistory.run ["setLoadSchema"] [.set "setDisableDefaultEntityResolution" 1, .useScanner] "setDisableDefaultEntityResolution" = none ∧
    lastSet [.set "setDisableDefaultEntityResolution" 1, .useScanner] "setDisableDefaultEntityResolution" = some 1 := by decide

end history

/-! ### non-vacuity: a small world -/

/-- main document: external subset "e.dtd", internal subset declaring the external entity g = "g.ent", the root element
    carries xsi:noNamespaceSchemaLocation="s.xsd" and the content refers to &g;.  The resolver supplies the schema
    (which includes "i.xsd") and declines everything else; default resolution "opens" base|systemId. -/
def exWorld : World where
  answer := fun r => if r.systemId = "s.xsd" then some ⟨"mem:s", "s.xsd"⟩ else none
  defaultSource := fun b s => (.file (b ++ "|" ++ s), ⟨b ++ "|" ++ s, s⟩)
  content := fun k =>
    if k = "main" then some (.doc (some ⟨some ("e.dtd", ""), [.declGE "g" "g.ent" ""]⟩) [.noNsLoc "s.xsd", .refGE "g"])
    else if k = "e.dtd" then some (.dtd [])
    else if k = "g.ent" then some (.ent [])
    else if k = "s.xsd" then some (.schema none "" [.inc "i.xsd"] [])
    else none

def exCfg : XV.Spec.ExtGate.Cfg := { resolver := .xml, doSchema := true }

-- four fetch decisions; the supplied schema is used (its include is offered with base = the supplied source's id)
example : (parse exWorld exCfg 20 "main" "main").log.length = 4 := by decide
example : trace (parse exWorld exCfg 20 "main" "main") =
    [.resolve ⟨.externalEntity, "e.dtd", "main", "", ""⟩, .openFile "main|e.dtd",
     .resolve ⟨.schemaGrammar, "s.xsd", "main", "", ""⟩,
     .resolve ⟨.schemaInclude, "i.xsd", "mem:s", "", ""⟩, .openFile "mem:s|i.xsd",
     .resolve ⟨.externalEntity, "g.ent", "main", "", ""⟩, .openFile "main|g.ent"] := by decide
-- default resolution disabled: the first identifier the resolver declines ends the parse, nothing is opened
example : trace (parse exWorld { exCfg with disableDefault := true } 20 "main" "main") =
    [.resolve ⟨.externalEntity, "e.dtd", "main", "", ""⟩] := by decide
example : (parse exWorld { exCfg with disableDefault := true } 20 "main" "main").fatal = some "noopen" := by decide
-- the DTD-ignoring scanner: only the schema side is fetched, &g; is undefined
example : trace (parse exWorld { exCfg with scanner := .SG } 20 "main" "main") =
    [.resolve ⟨.schemaGrammar, "s.xsd", "main", "", ""⟩,
     .resolve ⟨.schemaInclude, "i.xsd", "mem:s", "", ""⟩, .openFile "mem:s|i.xsd"] := by decide
-- external-DTD loading off, validation off, schema loading off: only the entity declared in the internal subset
example : trace (parse exWorld { exCfg with loadExternalDTD := false, loadSchema := false } 20 "main" "main") =
    [.resolve ⟨.externalEntity, "g.ent", "main", "", ""⟩, .openFile "main|g.ent"] := by decide
example : ∀ b ∈ (parse exWorld exCfg 20 "main" "main").log, b.1.offered = some b.1.rid :=
  fun b hb => (resolver_first exWorld exCfg 20 "main" "main" rfl b hb).1

/-- a declaration produced by the replacement text of an INTERNAL parameter entity takes its base from the external
    entity being read (here the external subset "main|d/e.dtd"), not from the in-memory reader and not from the document -/
def exWorldPE : World where
  answer := fun _ => none
  defaultSource := fun b s => (.file (b ++ "|" ++ s), ⟨b ++ "|" ++ s, s⟩)
  content := fun k =>
    if k = "main" then some (.doc (some ⟨some ("d/e.dtd", ""), []⟩) [.refGE "v"])
    else if k = "d/e.dtd" then some (.dtd [.declIntPE "decls" [.declGE "v" "e.ent" ""], .refPE "decls"])
    else if k = "e.ent" then some (.ent [])
    else none

example : trace (parse exWorldPE { resolver := .xml } 20 "main" "main") =
    [.resolve ⟨.externalEntity, "d/e.dtd", "main", "", ""⟩, .openFile "main|d/e.dtd",
     .resolve ⟨.externalEntity, "e.ent", "main|d/e.dtd", "", ""⟩, .openFile "main|d/e.dtd|e.ent"] := by decide

end XV.Props.C19
