/-
C12 — serialised DOM re-parses to an equal tree; output is always well-formed.

Level 1 (this file): the escaping core.  Model: XV.Model.Formatter (XMLFormatter.cpp, code-shaped, escape
rows / standard references / XML 1.1 classes GENERATED from the sources), XV.Model.Cdata
(DOMLSSerializerImpl::procCdataSection).  Spec: XV.Spec.Unescape (what an XML processor reads back).
All theorems quantify over every string of UTF-16 units (unbounded) and every transcoder satisfying
`Good` (proved for UTF-8, UTF-16, ISO-8859-1, US-ASCII and the four generated table transcoders).
-/
import XV.Lemmas.FormatterInst
import XV.Lemmas.Cdata
import XV.Lemmas.Serializer
import XV.Lemmas.NsFixup
import XV.Lemmas.TreeInfoset
namespace XV.Props.C12
open XV.Model.Formatter XV.Model.Cdata XV.Gen.Escapes XV.Gen.ByteTables
open XV.Spec.Escaping
open XV.Spec.Unescape (parseText parseAttr legalUnits readChars)
open XV.Lemmas.Formatter XV.Lemmas.Cdata

set_option maxRecDepth 8000

/-- the strings the escaping theorems cover: well-formed UTF-16 over legal XML characters of the version
implies the formatter's own precondition (16-bit units, paired surrogates) -/
theorem legal_units (v11 : Bool) : ∀ (k : Nat) (s : List Nat), s.length ≤ k → legalUnits v11 s = true →
    (∀ u ∈ s, u < 65536) ∧ wfUnits s = true := by
  intro k
  induction k with
  | zero => intro s h _; have : s = [] := by cases s <;> simp_all
            subst this; simp [wfUnits]
  | succ k ih =>
    intro s hl h
    match s, hl, h with
    | [], _, _ => simp [wfUnits]
    | [c], _, h =>
      simp only [legalUnits, Bool.and_eq_true, Bool.not_eq_true', decide_eq_true_eq] at h
      have e := Rd.surr_eq c
      refine ⟨by intro u hu; simp at hu; subst hu; omega, ?_⟩
      simp [wfUnits, e.1, e.2, h.1.1.1, h.1.1.2]
    | c :: n :: t, hl, h =>
      have e := Rd.surr_eq c
      by_cases hh : XV.Spec.Unescape.highSurr c = true
      · simp only [legalUnits, hh, if_true, Bool.and_eq_true] at h
        have := ih t (by simp at hl; omega) h.2
        have hc : c < 65536 := by
          simp only [XV.Spec.Unescape.highSurr, Bool.and_eq_true, decide_eq_true_eq] at hh; omega
        have hn : n < 65536 := by
          have := h.1; simp only [XV.Spec.Unescape.lowSurr, Bool.and_eq_true, decide_eq_true_eq] at this; omega
        refine ⟨?_, ?_⟩
        · intro u hu
          simp only [List.mem_cons] at hu
          rcases hu with rfl | rfl | hu
          · exact hc
          · exact hn
          · exact this.1 u hu
        · simp [wfUnits, e.1, hh, (Rd.surr_eq n).2, h.1, this.2]
      · have hh' : XV.Spec.Unescape.highSurr c = false := by simpa using hh
        simp only [legalUnits, hh', Bool.false_eq_true, if_false, Bool.and_eq_true, Bool.not_eq_true',
          decide_eq_true_eq] at h
        have := ih (n :: t) (by simp at hl ⊢; omega) h.2
        refine ⟨?_, ?_⟩
        · intro u hu
          simp only [List.mem_cons] at hu
          rcases hu with rfl | hu
          · exact h.1.1.2
          · exact this.1 u (by simpa using hu)
        · simp [wfUnits, e.1, e.2, hh', h.1.1.1, this.2]

/-! ### the transcoders of this build satisfy the assumptions -/

/-- ASCII is representable, surrogate units are uniformly representable or not, a pair-recombining
transcoder represents every unit — for all eight intrinsic encodings -/
theorem coders_good : Good utf8Coder ∧ Good utf16Coder ∧ Good latin1Coder ∧ Good asciiCoder ∧
    ∀ t ∈ XV.Gen.ByteTables.all, Good (tableCoder t) :=
  ⟨good_utf8, good_utf16, good_latin1, good_ascii, good_table⟩

/-- the transcoder gives back every unit of `s` that it accepts.  Always true for UTF-8, UTF-16, ISO-8859-1 and
US-ASCII; for the table transcoders true unless `s` contains one of their best-fit units (`table_faithful`). -/
def Faithful (cd : Coder) (s : List Nat) : Prop := ∀ u ∈ s, cd.rep u = true → cd.back u = u

theorem faithful_id (cd : Coder) (h : cd.back = id) (s : List Nat) : Faithful cd s := by
  intro u _ _; rw [h]; rfl

theorem table_faithful (t : Table) (ht : t ∈ XV.Gen.ByteTables.all) (s : List Nat) (hu : ∀ u ∈ s, u < 65536)
    (hb : ∀ u ∈ s, bestFit u = false) : Faithful (tableCoder t) s :=
  fun u hm hr => table_back t ht u (hu u hm) hr (hb u hm)

/-- **canTranscodeTo over-approximates** (found by this check): the to-tables of the table transcoders contain
best-fit entries, so `XMLFormatter` writes e.g. U+FF1C FULLWIDTH LESS-THAN SIGN in windows-1252 text as a bare `<`
instead of a character reference — the output is not even well-formed. -/
theorem bestfit_breaks_wellformedness :
    formatBuf (tableCoder tblWin1252) ⟨false, false⟩ .CharEscapes .UnRep_CharRef [0x61, 0xFF1C, 0x62] = .ok [0x61, 0x3C, 0x62]
    ∧ parseText false [0x61, 0x3C, 0x62] = none
    ∧ formatBuf (tableCoder tblIbm1047) ⟨false, false⟩ .CharEscapes .UnRep_CharRef [0x85] = .ok [0xA] := by
  decide +kernel

/-! ### what the formatter writes -/

/-- `formatBuf(…, UnRep_CharRef)` returns normally and writes exactly the reference escaping `escUnits`:
a unit is replaced by a reference iff the escape table (or the XML 1.1 control-character rule) selects it or
the encoding cannot represent it; an unrepresentable surrogate pair becomes ONE reference. -/
theorem formatBuf_writes (cd : Coder) (hg : Good cd) (cfg : Cfg) (esc : EscapeFlags) (s : List Nat)
    (hu : ∀ u ∈ s, u < 65536) (hb : Faithful cd s) (hw : cd.pairs = true → wfUnits s = true) :
    formatBuf cd cfg esc .UnRep_CharRef s = .ok (escUnits cd cfg esc s) :=
  formatBuf_charRef_eq cd hg cfg esc s hu hb hw

/-- the CharEscapes row escapes exactly `& < > CR`, the AttrEscapes row exactly `& < " LF CR TAB`
(XML 1.0; regenerated rows) -/
theorem escape_rows_exact (f : Bool) (c : Nat) :
    (inEscapeList ⟨false, f⟩ .CharEscapes c = true ↔ c = 38 ∨ c = 60 ∨ c = 62 ∨ c = 13) ∧
    (inEscapeList ⟨false, f⟩ .AttrEscapes c = true ↔ c = 38 ∨ c = 60 ∨ c = 34 ∨ c = 10 ∨ c = 13 ∨ c = 9) := by
  constructor
  · simp [inEscapeList, escRow, escCharEscapes, scanRow]; omega
  · simp [inEscapeList, escRow, escAttrEscapes, scanRow]; omega

/-- **escape_sufficient (text)**: character data written with CharEscapes is read back unchanged by an XML 1.0
processor, for every legal string and every good transcoder -/
theorem escape_sufficient_text (cd : Coder) (hg : Good cd) (f : Bool) (s : List Nat)
    (hs : legalUnits false s = true) (hb : Faithful cd s) :
    ∃ out, formatBuf cd ⟨false, f⟩ .CharEscapes .UnRep_CharRef s = .ok out ∧ parseText false out = some s := by
  have hl := legal_units false _ s (Nat.le_refl _) hs
  refine ⟨_, formatBuf_writes cd hg _ _ s hl.1 hb (fun _ => hl.2), ?_⟩
  exact Rd.read_escUnits cd hg ⟨false, f⟩ .CharEscapes false (suff_char10 f) _ s (Nat.le_refl _) hs 0

/-- **escape_sufficient (attribute)**: an attribute value written with AttrEscapes between double quotes is read
back (after attribute-value normalisation) unchanged -/
theorem escape_sufficient_attr (cd : Coder) (hg : Good cd) (f : Bool) (v : List Nat)
    (hs : legalUnits false v = true) (hb : Faithful cd v) :
    ∃ out, formatBuf cd ⟨false, f⟩ .AttrEscapes .UnRep_CharRef v = .ok out ∧ parseAttr false out = some v := by
  have hl := legal_units false _ v (Nat.le_refl _) hs
  refine ⟨_, formatBuf_writes cd hg _ _ v hl.1 hb (fun _ => hl.2), ?_⟩
  exact Rd.read_escUnits cd hg ⟨false, f⟩ .AttrEscapes true (suff_attr10 f) _ v (Nat.le_refl _) hs 0

/-- **xml11_eol_escaped is FALSE of the current code** (DESIGN §5 F9): under XML 1.1 the formatter writes NEL
(U+0085) and LSEP (U+2028) literally, and a 1.1 processor reads each of them back as LF. -/
theorem xml11_eol_not_escaped :
    ¬ (∀ s, legalUnits true s = true → ∃ out, formatBuf utf8Coder ⟨true, false⟩ .CharEscapes .UnRep_CharRef s = .ok out
        ∧ parseText true out = some s) := by
  intro h
  obtain ⟨out, h1, h2⟩ := h [0x61, 0x85, 0x2028] (by decide)
  have e : formatBuf utf8Coder ⟨true, false⟩ .CharEscapes .UnRep_CharRef [0x61, 0x85, 0x2028] = .ok [0x61, 0x85, 0x2028] := by
    decide
  rw [e] at h1
  cases h1
  revert h2; decide

/-- with the repaired `inEscapeList` (NEL and LSEP escaped under XML 1.1) both statements hold for XML 1.1 too,
including the C0/C1 controls that 1.1 admits only as references -/
theorem escape_sufficient_xml11_fixed (cd : Coder) (hg : Good cd) (s : List Nat) (hs : legalUnits true s = true)
    (hb : Faithful cd s) :
    (∃ out, formatBuf cd ⟨true, true⟩ .CharEscapes .UnRep_CharRef s = .ok out ∧ parseText true out = some s) ∧
    (∃ out, formatBuf cd ⟨true, true⟩ .AttrEscapes .UnRep_CharRef s = .ok out ∧ parseAttr true out = some s) := by
  have hl := legal_units true _ s (Nat.le_refl _) hs
  exact ⟨⟨_, formatBuf_writes cd hg _ _ s hl.1 hb (fun _ => hl.2),
          Rd.read_escUnits cd hg ⟨true, true⟩ .CharEscapes false suff_char11_fixed _ s (Nat.le_refl _) hs 0⟩,
         ⟨_, formatBuf_writes cd hg _ _ s hl.1 hb (fun _ => hl.2),
          Rd.read_escUnits cd hg ⟨true, true⟩ .AttrEscapes true suff_attr11_fixed _ s (Nat.le_refl _) hs 0⟩⟩

/-- **escape_minimal**: nothing is escaped needlessly — each unit of the CharEscapes / AttrEscapes rows, written
literally in some context, is rejected or altered by the reader (`>` after `]]`; CR; TAB/LF in attributes …),
and a representable unit outside the row is written as it stands. -/
theorem escape_minimal (f : Bool) (c : Nat) :
    (inEscapeList ⟨false, f⟩ .CharEscapes c = true →
        ∃ pre post, parseText false (pre ++ [c] ++ post) ≠ some (pre ++ [c] ++ post)) ∧
    (inEscapeList ⟨false, f⟩ .AttrEscapes c = true →
        ∃ pre post, parseAttr false (pre ++ [c] ++ post) ≠ some (pre ++ [c] ++ post)) ∧
    (∀ cd : Coder, ∀ esc, cd.rep c = true → escd ⟨false, f⟩ esc c = false →
        ∀ t, escUnits cd ⟨false, f⟩ esc (c :: t) = c :: escUnits cd ⟨false, f⟩ esc t) := by
  refine ⟨?_, ?_, ?_⟩
  · intro h
    rcases ((escape_rows_exact f c).1).1 h with rfl | rfl | rfl | rfl
    · exact ⟨[], [], by decide⟩
    · exact ⟨[], [], by decide⟩
    · exact ⟨[93, 93], [], by decide⟩
    · exact ⟨[], [], by decide⟩
  · intro h
    rcases ((escape_rows_exact f c).2).1 h with rfl | rfl | rfl | rfl | rfl | rfl
    all_goals exact ⟨[], [], by decide⟩
  · intro cd esc hr he t
    rw [escUnits_rep_cons cd _ esc c t hr]; simp [he]

/-- **unrep_as_charref**: every unit handed to the transcoder is representable; a unit the encoding cannot
represent is written as `&#xH;` with H its value, a surrogate pair as one reference to its scalar value
(which the reader turns back into the pair). -/
theorem unrep_as_charref (cd : Coder) (hg : Good cd) (cfg : Cfg) (esc : EscapeFlags) :
    (∀ s, ∀ u ∈ escUnits cd cfg esc s, cd.rep u = true) ∧
    (∀ c t, cd.rep c = false → isHigh c = false →
        escUnits cd cfg esc (c :: t) = charRefText c ++ escUnits cd cfg esc t) ∧
    (∀ h l t, cd.rep h = false → XV.Spec.Unescape.highSurr h = true → XV.Spec.Unescape.lowSurr l = true →
        escUnits cd cfg esc (h :: l :: t) = charRefText (XV.Spec.Unescape.scalarOfPair h l) ++ escUnits cd cfg esc t
        ∧ XV.Spec.Unescape.utf16 (XV.Spec.Unescape.scalarOfPair h l) = [h, l]) := by
  refine ⟨fun s => escUnits_rep cd hg cfg esc _ s (Nat.le_refl _), escUnits_unrep_plain cd cfg esc, ?_⟩
  intro h l t hr hh hl
  have hp := Rd.pairRef_eq h l hh hl
  have e : pairRef h l = XV.Spec.Unescape.scalarOfPair h l := by
    simp only [XV.Spec.Unescape.highSurr, XV.Spec.Unescape.lowSurr, Bool.and_eq_true, decide_eq_true_eq] at hh hl
    unfold pairRef XV.Spec.Unescape.scalarOfPair; omega
  rw [← e]
  refine ⟨?_, hp.2.2⟩
  have hmh : isHigh h = true := by rw [(Rd.surr_eq h).1]; exact hh
  simp [escUnits, hr, hmh]

/-- **formatter_terminates**: on well-formed UTF-16 the char-ref formatter never stalls … -/
theorem formatter_terminates (cd : Coder) (hg : Good cd) (cfg : Cfg) (esc : EscapeFlags) (s : List Nat)
    (hu : ∀ u ∈ s, u < 65536) (hb : Faithful cd s) (hw : wfUnits s = true) :
    formatBuf cd cfg esc .UnRep_CharRef s ≠ .error .hang := by
  rw [formatBuf_writes cd hg cfg esc s hu hb (fun _ => hw)]; intro h; cases h

/-- … but the current code loops for ever on text that ends in an unpaired high surrogate when the transcoder
recombines pairs (UTF-8): `transcodeTo` eats nothing and `while (count)` never ends (DESIGN §5 F14). -/
theorem formatter_hangs_on_trailing_high_surrogate :
    formatBuf utf8Coder ⟨false, false⟩ .CharEscapes .UnRep_CharRef [0x41, 0xD83D] = .error .hang ∧
    formatBuf utf8Coder ⟨false, false⟩ .NoEscapes .UnRep_Fail [0xD83D] = .error .hang := by decide

/-! ### CDATA sections -/

/-- **cdata_split_preserves** (repaired splitter): the pieces concatenate to the value and none contains `]]>` -/
theorem cdata_split_preserves (v : List Nat) :
    (splitFixed v []).flatten = v ∧ ∀ p ∈ splitFixed v [], hasEnd p = false :=
  ⟨by simpa using splitFixed_flatten v [], splitFixed_noEnd v [] (by decide)⟩

/-- **false of the current code** (DESIGN §5 F8): `procCdataSection` drops every `]]>` it splits at:
`a]]>b` is written as `<![CDATA[a]]><![CDATA[b]]>`. -/
theorem cdata_asis_loses_terminator :
    ¬ (∀ v : List Nat, ((piecesAsIs (v.length + 4) (v ++ gEndCDATA)).flatten = v)) ∧
    procCdataSection utf8Coder [97, 93, 93, 62, 98] =
      .ok (gStartCDATA ++ [97] ++ gEndCDATA ++ gStartCDATA ++ [98] ++ gEndCDATA) := by
  refine ⟨?_, by decide⟩
  intro h
  have := h [97, 93, 93, 62, 98]
  revert this; decide

/-! ### level 2: the tree serializer (XV.Model.Serializer, trees without namespaces, XML 1.0) -/
section Tree
open XV.Model.Serializer XV.Lemmas.Serializer

/-- the generated XMLChar tables are the Char productions; `ensureValidString` accepts exactly the legal strings -/
theorem ensureValid_iff_legal (s : List Nat) :
    ensureValidString false s = legalUnits false s ∧
    (∀ c, isXMLChar false c = (XV.Spec.Unescape.isChar10 c && decide (c < 65536))) ∧
    (∀ c, isXMLChar true c = (XV.Spec.Unescape.isChar11 c && !XV.Spec.Unescape.isRestricted11 c && decide (c < 65536))) :=
  ⟨ensureValid_eq_legal _ s (Nat.le_refl _), fun c => (xmlchar_table_spec c).1, fun c => (xmlchar_table_spec c).2⟩

/-- the text of one attribute as the serializer writes it -/
def attrText (e : Env) (a : List Nat × List Nat) : List Nat :=
  [32] ++ a.1 ++ [61, 34] ++ escUnits e.cd e.cfg .AttrEscapes a.2 ++ [34]

/-- a name whose units the encoding takes as they stand -/
def MarkupOK (cd : Coder) (n : List Nat) : Prop := NameOK cd n ∧ ∀ u ∈ n, u < 65536

theorem cfg10 (e : Env) (hv : e.cfg.xml11 = false) : e.cfg = ⟨false, e.cfg.eolFix⟩ := by
  cases h : e.cfg with
  | mk a b => rw [h] at hv; simp at hv; simp [hv]

theorem attrOut_ok (e : Env) (hg : Good e.cd) (hv : e.cfg.xml11 = false) (a : List Nat × List Nat)
    (hn : MarkupOK e.cd a.1) (hl : legalUnits false a.2 = true) (hb : Faithful e.cd a.2) :
    attrOut e a = .ok (attrText e a) := by
  have hlu := legal_units false _ a.2 (Nat.le_refl _) hl
  have hval : ensureValidString e.cfg.xml11 a.2 = true := by rw [hv, ensureValid_eq_legal _ _ (Nat.le_refl _)]; exact hl
  have h1 : NameOK e.cd ([32] ++ a.1 ++ [61, 34]) := by
    have := nameOK_snoc e.cd hg 34 _ (by unfold asciiU; omega)
      (nameOK_snoc e.cd hg 61 _ (by unfold asciiU; omega) (nameOK_cons e.cd hg 32 _ (by unfold asciiU; omega) hn.1))
    simpa using this
  have h1l : ∀ u ∈ [32] ++ a.1 ++ [61, 34], u < 65536 := by
    intro u hu; simp at hu; rcases hu with h | h | h | h
    · omega
    · exact hn.2 u h
    · omega
    · omega
  have h3 : NameOK e.cd [34] := ascii_nameOK e.cd hg _ (by intro c hc; simp at hc; omega)
  unfold attrOut
  simp only [hval, Bool.not_true, Bool.false_eq_true, if_false, seqL, seq2]
  rw [rawCR_ok e hg _ h1l h1, rawCR_ok e hg [34] (by intro u hu; simp at hu; omega) h3,
    formatBuf_writes e.cd hg e.cfg .AttrEscapes a.2 hlu.1 hb (fun _ => hlu.2)]
  simp [seq3, attrText]

theorem attrs_ok (e : Env) (hg : Good e.cd) (hv : e.cfg.xml11 = false) : ∀ (attrs : List (List Nat × List Nat)),
    (∀ a ∈ attrs, MarkupOK e.cd a.1 ∧ legalUnits false a.2 = true ∧ Faithful e.cd a.2) →
    seqL (attrs.map (attrOut e)) = .ok (attrs.flatMap (attrText e)) := by
  intro attrs
  induction attrs with
  | nil => intro _; rfl
  | cons a t ih =>
    intro h
    have ha := h a (by simp)
    simp only [List.map_cons, seqL, seq2, attrOut_ok e hg hv a ha.1 ha.2.1 ha.2.2, ih (fun b hb => h b (by simp [hb]))]
    simp [seq3]

/-- **serialize_content_reparses** (partial `reparse_equal`: one element, its attributes and a text child;
full statement `parse (decode e bs) = ok t' ∧ t' ≈ t` needs a model of the whole parser — not attempted):
the serializer writes `<name a="…" …>text</name>` and the XML reader turns every attribute value and the text
back into the original strings. -/
theorem serialize_content_reparses (e : Env) (hg : Good e.cd) (hv : e.cfg.xml11 = false)
    (name v : List Nat) (attrs : List (List Nat × List Nat)) (hname : MarkupOK e.cd name)
    (hattrs : ∀ a ∈ attrs, MarkupOK e.cd a.1 ∧ legalUnits false a.2 = true ∧ Faithful e.cd a.2)
    (hv1 : legalUnits false v = true) (hv2 : Faithful e.cd v) :
    node e (.elem name attrs [.text v]) =
      .ok ([60] ++ name ++ attrs.flatMap (attrText e) ++ [62] ++ escUnits e.cd e.cfg .CharEscapes v
            ++ [60, 47] ++ name ++ [62])
    ∧ (∀ a ∈ attrs, parseAttr false (escUnits e.cd e.cfg .AttrEscapes a.2) = some a.2)
    ∧ parseText false (escUnits e.cd e.cfg .CharEscapes v) = some v := by
  have hc := cfg10 e hv
  refine ⟨?_, ?_, ?_⟩
  · have hlu := legal_units false _ v (Nat.le_refl _) hv1
    have hval : ensureValidString e.cfg.xml11 v = true := by rw [hv, ensureValid_eq_legal _ _ (Nat.le_refl _)]; exact hv1
    have h1 : NameOK e.cd ([60] ++ name) := nameOK_cons e.cd hg 60 _ (by unfold asciiU; omega) hname.1
    have h2 : NameOK e.cd [62] := ascii_nameOK e.cd hg _ (by intro c hc; simp at hc; omega)
    have h3 : NameOK e.cd (gEndElement ++ name ++ [62]) := by
      have := nameOK_snoc e.cd hg 62 _ (by unfold asciiU; omega)
        (nameOK_cons e.cd hg 60 _ (by unfold asciiU; omega) (nameOK_cons e.cd hg 47 _ (by unfold asciiU; omega) hname.1))
      simpa [gEndElement] using this
    simp only [node, nodes, List.isEmpty_cons, Bool.false_eq_true, if_false, seqL, seq2, hval, Bool.not_true]
    rw [rawF_ok e _ h1, attrs_ok e hg hv attrs hattrs, rawCR_ok e hg [62] (by intro u hu; simp at hu; omega) h2,
      rawF_ok e _ h3, formatBuf_writes e.cd hg e.cfg .CharEscapes v hlu.1 hv2 (fun _ => hlu.2)]
    simp [seq3, gEndElement]
  · intro a ha
    have := hattrs a ha
    rw [hc]
    exact Rd.read_escUnits e.cd hg ⟨false, e.cfg.eolFix⟩ .AttrEscapes true (suff_attr10 _) _ a.2 (Nat.le_refl _) this.2.1 0
  · rw [hc]
    exact Rd.read_escUnits e.cd hg ⟨false, e.cfg.eolFix⟩ .CharEscapes false (suff_char10 _) _ v (Nat.le_refl _) hv1 0

/-- **serialize_idempotent** (partial: character data and attribute values): what the reader gets back from the
serialised text serialises to the same units again -/
theorem serialize_idempotent (e : Env) (hg : Good e.cd) (hv : e.cfg.xml11 = false) (v : List Nat)
    (hv1 : legalUnits false v = true) (hv2 : Faithful e.cd v) :
    ∃ out v', node e (.text v) = .ok out ∧ parseText false out = some v' ∧ node e (.text v') = .ok out := by
  have hlu := legal_units false _ v (Nat.le_refl _) hv1
  have hval : ensureValidString e.cfg.xml11 v = true := by rw [hv, ensureValid_eq_legal _ _ (Nat.le_refl _)]; exact hv1
  have h : node e (.text v) = .ok (escUnits e.cd e.cfg .CharEscapes v) := by
    simp only [node, hval, Bool.not_true, Bool.false_eq_true, if_false]
    exact formatBuf_writes e.cd hg e.cfg .CharEscapes v hlu.1 hv2 (fun _ => hlu.2)
  refine ⟨_, v, h, ?_, h⟩
  rw [cfg10 e hv]
  exact Rd.read_escUnits e.cd hg ⟨false, e.cfg.eolFix⟩ .CharEscapes false (suff_char10 _) _ v (Nat.le_refl _) hv1 0

/-- **serialize_refuses_illformed** (`illegal_reported`): a string that is not well-formed UTF-16 over XML 1.0
characters is reported (INVALID_CHARACTER_ERR), not written — in text, attribute values, comments, PI data and
CDATA sections when split-cdata-sections is off; with the proposed well-formedness checks (`wfFix`) a comment
containing `--` (or ending in `-`) and a PI containing `?>` are refused too. -/
theorem serialize_refuses_illformed (e : Env) (hv : e.cfg.xml11 = false) (v : List Nat) :
    (legalUnits false v = false →
        node e (.text v) = invalid ∧ node e (.comment v) = invalid ∧ (∀ t, node e (.pi t v) = invalid)
        ∧ (∀ n, attrOut e (n, v) = invalid) ∧ (e.feat.splitCdata = false → node e (.cdata v) = invalid)) ∧
    (e.feat.wfFix = true → legalUnits false v = true →
        ((XV.Model.Serializer.containsSub [45, 45] v = true ∨ v.getLast? = some 45) → node e (.comment v) = .error (.exc "wf-invalid-character")) ∧
        (XV.Model.Serializer.containsSub gEndPI v = true → ∀ t, legalUnits false t = true →
            node e (.pi t v) = .error (.exc "wf-invalid-character"))) := by
  constructor
  · intro h
    have hval : ensureValidString e.cfg.xml11 v = false := by rw [hv, ensureValid_eq_legal _ _ (Nat.le_refl _)]; exact h
    refine ⟨by simp [node, hval], by simp [node, hval], fun t => by simp [node, hval], fun n => by simp [attrOut, hval], ?_⟩
    intro hs; simp [node, hs, hval]
  · intro hw hl
    have hval : ensureValidString e.cfg.xml11 v = true := by rw [hv, ensureValid_eq_legal _ _ (Nat.le_refl _)]; exact hl
    constructor
    · intro h
      rcases h with h | h <;> simp [node, hval, hw, h]
    · intro h t ht
      have hvt : ensureValidString e.cfg.xml11 t = true := by rw [hv, ensureValid_eq_legal _ _ (Nat.le_refl _)]; exact ht
      simp [node, hval, hvt, hw, h]

/-- the current code (wfFix = false) does emit them, and in split mode it does not look at the characters of a
CDATA section at all (found by this check): `<!--a--b-->`, `<?t a?>b?>`, a CDATA section holding U+FFFE -/
theorem serializer_emits_illformed :
    let e : Env := { cd := utf8Coder, cfg := ⟨false, false⟩, encName := gUTF8, feat := {} }
    node e (.comment [97, 45, 45, 98]) = .ok (gStartComment ++ [97, 45, 45, 98] ++ gEndComment) ∧
    node e (.pi [116] [97, 63, 62, 98]) = .ok (gStartPI ++ [116, 32, 97, 63, 62, 98] ++ gEndPI) ∧
    node e (.cdata [0xFFFE]) = .ok (gStartCDATA ++ [0xFFFE] ++ gEndCDATA) ∧
    node e (.cdata [0xD83D]) = .error .hang := by
  decide

end Tree

/-! ### namespace fix-up (XV.Model.NsFixup; trees built through the API, no explicit xmlns attributes) -/
section Ns
open XV.Spec.Namespaces XV.Model.NsFixup XV.Lemmas.NsFixup

/-- **innermost binding wins**: `isNamespaceBindingActive(prefix, uri)` answers exactly "the prefix, resolved as
Namespaces in XML prescribes (innermost declaration first), denotes `uri`" — a binding of the prefix to `uri`
further out that is shadowed by a nearer declaration is NOT active. -/
theorem nsfixup_innermost_wins (stack : List Scope) (p u : Name) :
    isNamespaceBindingActive stack p u = (resolve stack p == some u) := active_iff stack p u

/-- **nsfixup_binds_all** (per element, for every enclosing scope stack — hence for every nesting depth and every
shadowing pattern): after the fix-up of an element whose own prefix uses do not contradict each other, its prefix
and the prefix of each of its prefixed attributes resolve to the namespace the node was built with. -/
theorem nsfixup_binds_all (stack : List Scope) (uses : List Use) (hc : Consistent uses) :
    ∀ x ∈ uses, resolve ((fixup stack uses).scope :: stack) x.1 = some x.2 := by
  have := foldl_inv stack uses [] ⟨[], []⟩ (by simpa using hc) (by simp)
  simpa [fixup] using this

/-- nothing is declared that is already in force -/
theorem nsfixup_no_redundant_declaration (stack : List Scope) (p u : Name) (h : resolve stack p = some u) :
    (fixup stack [(p, u)]).emitted = [] := by
  have : isNamespaceBindingActive ([] :: stack) p u = true := by
    rw [active_iff]; simp [resolve, scopeGet, h]
  simp [fixup, step, this]

-- non-vacuity: prefix p bound U1 > U2 > U1 — the innermost element must (and does) re-declare it
example : isNamespaceBindingActive [[([112], [50])], [([112], [49])]] [112] [49] = false := by decide
example : (fixup [[([112], [50])], [([112], [49])]] [([112], [49]), ([113], [49])]).emitted = [([112], [49]), ([113], [49])] := by decide
example : Consistent [([112], [49]), ([113], [49]), ([112], [49])] := by
  intro x hx y hy h
  simp at hx hy
  rcases hx with rfl | rfl | rfl <;> rcases hy with rfl | rfl | rfl <;> simp_all

end Ns

/-! ### whole trees: composition with C02's parser (`parse_render`) and C03's `infoset` -/
section WholeTree
open XV.Model.TreeSyntax XV.Model.Serializer XV.Spec.Xml XV.Spec.Infoset XV.Spec.DomView
open XV.Lemmas.TreeUnits XV.Lemmas.TreeOut XV.Lemmas.TreeWF XV.Lemmas.TreeInfoset

/-- **reparse_equal_tree**: for every DOM tree of the fragment — a document element with arbitrarily nested elements,
attributes, text, CDATA sections, comments and PIs (no doctype, no entity references, no document-level comments /
PIs), XML 1.0 and 1.1 — that satisfies `okNode`, serialised in a Unicode-transparent encoding (UTF-8, UTF-16:
`Transparent`) by the serializer as it is now (`Fixed`, and `inEscapeList` repaired: `heol`):

* the serializer model reports no error and writes the UTF-16 units `us`;
* `us` is the character-for-character rendering of the concrete syntax tree `toDoc …` (which characters became
  which reference, where CDATA sections were cut, how tags and the XML declaration are spelled);
* that tree is a well-formed document (C02's `WF`), and C02's reference parser reads exactly it back from the output;
* what a processor reports for it (C03's `infoset`), seen as a DOM — element starts with their attributes and
  normalised values in order, ends, comments, PIs, character data coalesced across Text / CDATA boundaries
  (XV.Spec.DomView) — is the content of the original tree.

`okNode` = what the DOM guarantees (names are Names, attribute names distinct, PI target not `xml`) + what the
serializer checks itself (legal characters; no `--` in / `-` at the end of a comment; no `?>` in PI data) + the
three things XML cannot express and the real serializer writes without a report (recorded findings): CR (1.1: NEL,
LSEP) inside a CDATA section / comment / PI, and white space at the start of PI data.  `okDocCfg`: the encoding name
is an EncName, and an XML 1.1 document is written with its XML declaration. -/
theorem reparse_equal_tree (e : Env) (ht : Transparent e.cd) (hf : Fixed e)
    (heol : e.cfg.xml11 = true → e.cfg.eolFix = true)
    (enc n : Str) (as : List (Str × Str)) (kids : List CNode) (henc : e.encName = U enc)
    (hc : okDocCfg e.cfg e.feat.xmlDecl enc = true) (hok : okNode e.cfg.xml11 (.elem n as kids) = true) :
    ∃ us, document e false [unitsNode (.elem n as kids)] = .ok us ∧
      charsOf us = render (toDoc e.cfg e.feat.xmlDecl enc n as kids) ∧
      WF (toDoc e.cfg e.feat.xmlDecl enc n as kids) ∧
      parse (charsOf us) = .ok (toDoc e.cfg e.feat.xmlDecl enc n as kids) ∧
      domView (infoset (toDoc e.cfg e.feat.xmlDecl enc n as kids)) = treeView (.elem n as kids) := by
  have hout := document_out e ht hf enc n as kids henc hok
  have hwf := wf_toDoc e.cfg e.feat.xmlDecl enc n as kids hc hok
  refine ⟨_, hout, charsOf_U _, hwf, ?_, domView_toDoc e.cfg e.feat.xmlDecl enc n as kids hc heol hok⟩
  rw [charsOf_U]
  exact XV.Props.C02.parse_render _ hwf (by simp [XV.Lemmas.Xml.entOnlyDoc, toDoc])

/-- the same, read as the round trip: parse what was written, look at it as a DOM, get the tree's content -/
theorem reparse_equal_tree_roundtrip (e : Env) (ht : Transparent e.cd) (hf : Fixed e)
    (heol : e.cfg.xml11 = true → e.cfg.eolFix = true)
    (enc n : Str) (as : List (Str × Str)) (kids : List CNode) (henc : e.encName = U enc)
    (hc : okDocCfg e.cfg e.feat.xmlDecl enc = true) (hok : okNode e.cfg.xml11 (.elem n as kids) = true) :
    ∃ us c, document e false [unitsNode (.elem n as kids)] = .ok us ∧ parse (charsOf us) = .ok c ∧
      domView (infoset c) = treeView (.elem n as kids) := by
  obtain ⟨us, h1, _, _, h4, h5⟩ := reparse_equal_tree e ht hf heol enc n as kids henc hc hok
  exact ⟨us, _, h1, h4, h5⟩

/-- the line-end side condition is sharp: a comment holding a CR is written as it stands and read back with LF -/
theorem reparse_cr_in_comment_lost :
    domView (infoset (toDoc ⟨false, true⟩ false [] ['r'] [] [.comment ['a', '\r']])) ≠ treeView (.elem ['r'] [] [.comment ['a', '\r']]) := by
  decide

-- non-vacuity: a nested tree with `<`, `&`, `]]>` (in text and in a CDATA section), a quote in an attribute value,
-- CR / TAB / LF in an attribute value and in text, non-ASCII and supplementary characters; XML 1.0 and 1.1
def exTree : CNode :=
  .elem ['r'] [(['a'], ['x', '"', '<', '\t', '\n', '\r', '&']), (['b'], ['é', Char.ofNat 0x1F600])]
    [.text ['a', '<', 'b', '&', 'c', ']', ']', '>', 'd', '\r', '\n', '\t', 'e'],
     .elem ['k'] [] [.elem ['m', ':', 'n'] [(['q'], [' ', Char.ofNat 0x85])] [.cdata ['p', ']', ']', '>', 'q'], .text ['x'], .cdata []]],
     .comment [' ', 'c', '-', ' '], .pi ['t'] ['d', ' ', '?']]

def exEnv (v11 : Bool) : Env :=
  { cd := utf8Coder, cfg := ⟨v11, true⟩, encName := U ['U', 'T', 'F', '-', '8'], feat := { cdataFix := true, wfFix := true } }

example : okNode false exTree = true ∧ okNode true exTree = true ∧ okDocCfg ⟨true, true⟩ true ['U', 'T', 'F', '-', '8'] = true := by decide
example (v11 : Bool) : Transparent (exEnv v11).cd ∧ Fixed (exEnv v11) := ⟨transparent_utf8, ⟨rfl, rfl, rfl⟩⟩
example : treeView exTree =
    [.start ['r'] [(['a'], ['x', '"', '<', '\t', '\n', '\r', '&']), (['b'], ['é', Char.ofNat 0x1F600])],
     .chars ['a', '<', 'b', '&', 'c', ']', ']', '>', 'd', '\r', '\n', '\t', 'e'], .start ['k'] [],
     .start ['m', ':', 'n'] [(['q'], [' ', Char.ofNat 0x85])], .chars ['p', ']', ']', '>', 'q', 'x'], .end_ ['m', ':', 'n'], .end_ ['k'],
     .comment [' ', 'c', '-', ' '], .pi ['t'] ['d', ' ', '?'], .end_ ['r']] := by decide

end WholeTree

/-! ### non-vacuity -/

example : legalUnits false [0x61, 0x26, 0x3C, 0x3E, 0xD, 0xA, 0x5D, 0x5D, 0x3E, 0x20AC, 0xD83D, 0xDE00] = true := by decide
example : formatBuf latin1Coder ⟨false, false⟩ .CharEscapes .UnRep_CharRef [0x26, 0xD, 0x20AC, 0xD83D, 0xDE00]
      = .ok ([38, 97, 109, 112, 59] ++ charRefText 0xD ++ charRefText 0x20AC ++ charRefText 0x1F600)
    ∧ parseText false ([38, 97, 109, 112, 59] ++ charRefText 0xD ++ charRefText 0x20AC ++ charRefText 0x1F600)
      = some [0x26, 0xD, 0x20AC, 0xD83D, 0xDE00] := by decide
example : parseAttr false [0x61, 0x9, 0x62] = some [0x61, 0x20, 0x62] := by decide   -- TAB must be escaped
example : legalUnits false [0x22, 0x9, 0xA, 0xD, 0xE9] = true ∧
    formatBuf asciiCoder ⟨false, false⟩ .AttrEscapes .UnRep_CharRef [0x22, 0x9, 0xA, 0xD, 0xE9]
      = .ok ([38, 113, 117, 111, 116, 59] ++ charRefText 9 ++ charRefText 10 ++ charRefText 13 ++ charRefText 0xE9) := by decide
example : legalUnits true [0x1, 0x85, 0x2028, 0x9F] = true := by decide
example : tblIbm1047 ∈ XV.Gen.ByteTables.all := by simp [XV.Gen.ByteTables.all]
example : Faithful (tableCoder tblIbm1047) [0x61, 0x20AC, 0xE9] :=
  table_faithful _ (by simp [XV.Gen.ByteTables.all]) _ (by decide) (by decide)
example : Faithful utf8Coder [0x85, 0xFF1C] := faithful_id _ rfl _
example : wfUnits [0x41, 0xD83D, 0xDE00] = true ∧ wfUnits [0x41, 0xD83D] = false := by decide
example : splitFixed [97, 93, 93, 62, 98] [] = [[97, 93, 93], [62, 98]] := by decide
example : hasEnd [97, 93, 93, 62, 98] = true := by decide
example : XV.Model.Serializer.node { cd := latin1Coder, cfg := ⟨false, false⟩, encName := [], feat := {} }
      (.elem [114] [([97], [34, 9]), ([98], [0x20AC])] [.text [60, 0xD]])
    = .ok ([60, 114] ++ [32, 97, 61, 34] ++ [38, 113, 117, 111, 116, 59] ++ charRefText 9 ++ [34]
          ++ [32, 98, 61, 34] ++ charRefText 0x20AC ++ [34] ++ [62] ++ [38, 108, 116, 59] ++ charRefText 0xD ++ [60, 47, 114, 62]) := by
  decide
example : XV.Lemmas.Serializer.NameOK latin1Coder [114, 0xE9] :=
  ⟨by intro u hu; simp at hu; rcases hu with rfl | rfl <;> exact ⟨by decide, rfl⟩, by intro h; cases h⟩
example : legalUnits false [0x61, 0xFFFE] = false ∧ legalUnits false [0xDC00] = false := by decide

end XV.Props.C12
