/-
C03 — reported content equals the document's infoset; SAX, SAX2, DOM, DOMLSParser and progressive parse agree.

Spec: XV.Spec.Infoset (`infoset : Doc → List Event` over C02's `Doc`, the adapters).  Model: XV.Model.Normalize
(code-shaped `XMLReader::getNextChar/handleEOL`, `IGXMLScanner::normalizeAttValue/normalizeAttRawValue`,
`XMLScanner::scanCharRef` result).  All statements are unbounded (every text, every value, every document).

  eol_model_eq_spec            reader with refills = §2.11 rule                (code-shaped = declarative)
  eol_lines_model_eq_spec      fCurLine maintenance = start + line ends of the normalised text
  eol_idempotent, eol_no_cr    the rule's output is a fixed point and has no CR (1.1: NEL, LS)
  attnorm_model_eq_spec        normalizeAttValue (after the reported repair) = §3.3.3, every type, every value
  attnorm_raw_model_eq_spec    normalizeAttRawValue = §3.3.3 for CDATA
  attnorm_asis_deviates        the code as it stands does NOT (witness `&#10;A` as NMTOKENS)
  attnorm_idempotent_tokenized the tokenised normal form is a fixed point
  charref_units_spec           scanCharRef's one/two code units are the UTF-16 form of the value
  events_wellnested            WF d → the infoset is a balanced event word
  dom_walk_build               Balanced e → domWalk (buildDom e) = e
  sax1_sax2_agree              erase (toSAX2 ns e) = toSAX1 e
  pull_eq_push                 (pullAll e).flatten = e, pieces non-empty
  filter_spec                  Balanced e → domWalk (lsFilter f (buildDom e)) = filterEvents f [] e
  line_numbers_spec            line of an event = lineOf (document text up to the end of its token)
  feed_init_line               incremental line counter = declarative count
  events_parse_render          WF c → (parse (render c)).map infoset = ok (infoset c)      (with C02's parse_render)
-/
import XV.Spec.Infoset
import XV.Model.Normalize
import XV.Lemmas.XmlDocE
import XV.Props.C02
set_option linter.unusedSimpArgs false
set_option linter.unusedVariables false
namespace XV.Props.C03
open XV.Spec.Xml XV.Spec.Infoset XV.Lemmas.Xml
open XV.Model.Normalize hiding Str


/-! ### §2.11 -/

theorem cCR_eq : cCR = chCR := by decide
theorem cLF_eq : cLF = chLF := by decide
theorem cNEL_eq : cNEL = chNEL := by decide
theorem cLS_eq : cLS = chLS := by decide

theorem eolFrom_nil (v p) : eolFrom v p [] = [] := rfl

theorem eolFrom_cons (v : Bool) (p : Bool) (c : Char) (t : Str) :
    eolFrom v p (c :: t) =
      match (eolStep v p c).1 with
      | some d => d :: eolFrom v (eolStep v p c).2 t
      | none => eolFrom v (eolStep v p c).2 t := rfl

theorem eolFrom_cr (v p : Bool) (t : Str) : eolFrom v p (chCR :: t) = chLF :: eolFrom v true t := by
  rw [eolFrom_cons]; simp [eolStep]

/-- after a CR, a following LF (1.1: or NEL) is dropped -/
theorem eolFrom_true_skip (v : Bool) (d : Char) (t : Str) (h : (d == chLF || (d == chNEL && v)) = true) :
    eolFrom v true (d :: t) = eolFrom v false t := by
  rw [eolFrom_cons]
  have hne : (d == chCR) = false := by
    rcases Bool.or_eq_true _ _ |>.mp h with h1 | h1
    · have := eq_of_beq h1; subst this; decide
    · have := eq_of_beq (Bool.and_eq_true _ _ |>.mp h1).1; subst this; decide
  have h2 : (d == chLF || (v && d == chNEL)) = true := by
    rw [Bool.and_comm v]; exact h
  simp [eolStep, hne, h2]

/-- after a CR, any other character is treated as at the start -/
theorem eolFrom_true_keep (v : Bool) (d : Char) (t : Str) (h : (d == chLF || (d == chNEL && v)) = false) :
    eolFrom v true (d :: t) = eolFrom v false (d :: t) := by
  rw [eolFrom_cons, eolFrom_cons]
  have h2 : (d == chLF || (v && d == chNEL)) = false := by
    rw [Bool.and_comm v]; exact h
  simp [eolStep, h2]

theorem readFuel_pos (buf : Str) (more : List Str) : 0 < readFuel buf more := by
  unfold readFuel; omega

theorem readFuel_cons (c : Char) (buf : Str) (more : List Str) : readFuel (c :: buf) more = readFuel buf more + 1 := by
  simp [readFuel]; omega

theorem readFuel_refill (b : Str) (more : List Str) : readFuel [] (b :: more) = readFuel b more + 1 := by
  simp [readFuel]; omega

/-- **eol_model_eq_spec.**  The reader (`getNextChar` + `handleEOL`, with the look-ahead after a CR possibly crossing a
    buffer refill) hands out exactly the §2.11 normalisation of the entity text, for every text, every way of cutting
    it into non-empty buffer loads, XML 1.0 and 1.1. -/
theorem eol_model_eq_spec (nel : Bool) : ∀ (fuel : Nat) (buf : Str) (more : List Str),
    (∀ b ∈ more, b ≠ []) → readFuel buf more ≤ fuel →
    readChars nel fuel buf more = eol nel (buf ++ more.flatten) := by
  intro fuel
  induction fuel with
  | zero => intro buf more _ hf; have := readFuel_pos buf more; omega
  | succ f ih =>
    intro buf more hne hf
    cases buf with
    | nil =>
      cases more with
      | nil => simp [readChars, eol, eolFrom]
      | cons b more' =>
        have hb : b ≠ [] := hne b (by simp)
        rw [readFuel_refill] at hf
        simp only [readChars, hb, if_false]
        rw [ih b more' (fun x hx => hne x (by simp [hx])) (by omega)]
        simp
    | cons c buf' =>
      rw [readFuel_cons] at hf
      unfold readChars
      by_cases hc : c = chCR
      · subst hc
        have hcc : (chCR == cCR) = true := by decide
        simp only [hcc, if_true]
        cases buf' with
        | cons d buf'' =>
          rw [readFuel_cons] at hf
          simp only [List.cons_append, eol, eolFrom_cr]
          by_cases hd : (d == cLF || (d == cNEL && nel)) = true
          · simp only [hd, if_true]
            rw [ih buf'' more hne (by omega)]
            rw [cLF_eq, cNEL_eq] at hd
            rw [eolFrom_true_skip nel d _ hd, cLF_eq]; rfl
          · have hd' : (d == cLF || (d == cNEL && nel)) = false := by simpa using hd
            simp only [hd']
            rw [ih (d :: buf'') more hne (by rw [readFuel_cons]; omega)]
            rw [cLF_eq, cNEL_eq] at hd'
            rw [eolFrom_true_keep nel d _ hd', cLF_eq]; rfl
        | nil =>
          cases more with
          | nil => simp [eol, eolFrom_cr, eolFrom, cLF_eq]
          | cons b more' =>
            have hb : b ≠ [] := hne b (by simp)
            cases b with
            | nil => exact absurd rfl hb
            | cons d b' =>
              have hf' : readFuel b' more' + 2 ≤ f := by
                have := readFuel_refill (d :: b') more'
                rw [readFuel_cons] at this; omega
              simp only [List.nil_append, List.flatten_cons, List.cons_append, eol, eolFrom_cr]
              by_cases hd : (d == cLF || (d == cNEL && nel)) = true
              · simp only [hd, if_true]
                rw [ih b' more' (fun x hx => hne x (by simp [hx])) (by omega)]
                rw [cLF_eq, cNEL_eq] at hd
                rw [eolFrom_true_skip nel d _ hd, cLF_eq]; rfl
              · have hd' : (d == cLF || (d == cNEL && nel)) = false := by simpa using hd
                simp only [hd']
                rw [ih (d :: b') more' (fun x hx => hne x (by simp [hx])) (by rw [readFuel_cons]; omega)]
                rw [cLF_eq, cNEL_eq] at hd'
                rw [eolFrom_true_keep nel d _ hd', cLF_eq]; rfl
      · have hcc : (c == cCR) = false := by rw [cCR_eq]; simpa using hc
        simp only [hcc]
        rw [ih buf' more hne (by omega)]
        simp only [List.cons_append, eol]
        rw [eolFrom_cons]
        have h1 : (c == chCR) = false := by simpa using hc
        by_cases h2 : ((c == cNEL || c == cLS) && nel) = true
        · simp only [h2, if_true]
          rw [cNEL_eq, cLS_eq] at h2
          have h3 : (nel && (c == chNEL || c == chLS)) = true := by rw [Bool.and_comm]; exact h2
          simp [eolStep, h1, h3, cLF_eq]
        · have h2' : ((c == cNEL || c == cLS) && nel) = false := by simpa using h2
          simp only [h2']
          rw [cNEL_eq, cLS_eq] at h2'
          have h3 : (nel && (c == chNEL || c == chLS)) = false := by rw [Bool.and_comm]; exact h2'
          simp [eolStep, h1, h3]

theorem countLF_lf (t : Str) : countLF (chLF :: t) = countLF t + 1 := by
  simp [countLF]; omega

/-- **eol_lines_model_eq_spec.**  `fCurLine` as maintained by `handleEOL` (incremented in the CR, LF and NEL/LS cases,
    with the CR look-ahead possibly crossing a refill) = the declarative count: start value + number of line ends of the
    normalised text. -/
theorem eol_lines_model_eq_spec (nel : Bool) : ∀ (fuel : Nat) (buf : Str) (more : List Str) (line : Nat),
    (∀ b ∈ more, b ≠ []) → readFuel buf more ≤ fuel →
    countLines nel fuel buf more line = line + countLF (eol nel (buf ++ more.flatten)) := by
  intro fuel
  induction fuel with
  | zero => intro buf more _ _ hf; have := readFuel_pos buf more; omega
  | succ f ih =>
    intro buf more line hne hf
    cases buf with
    | nil =>
      cases more with
      | nil => simp [countLines, eol, eolFrom, countLF]
      | cons b more' =>
        have hb : b ≠ [] := hne b (by simp)
        rw [readFuel_refill] at hf
        simp only [countLines, hb, if_false]
        rw [ih b more' line (fun x hx => hne x (by simp [hx])) (by omega)]
        simp
    | cons c buf' =>
      rw [readFuel_cons] at hf
      unfold countLines
      by_cases hc : c = chCR
      · subst hc
        have hcc : (chCR == cCR) = true := by decide
        simp only [hcc, if_true]
        cases buf' with
        | cons d buf'' =>
          rw [readFuel_cons] at hf
          simp only [List.cons_append, eol, eolFrom_cr, countLF_lf]
          by_cases hd : (d == cLF || (d == cNEL && nel)) = true
          · simp only [hd, if_true]
            rw [ih buf'' more _ hne (by omega)]
            rw [cLF_eq, cNEL_eq] at hd
            rw [eolFrom_true_skip nel d _ hd]; simp only [eol]; omega
          · have hd' : (d == cLF || (d == cNEL && nel)) = false := by simpa using hd
            simp only [hd', Bool.false_eq_true, if_false]
            rw [ih (d :: buf'') more _ hne (by rw [readFuel_cons]; omega)]
            rw [cLF_eq, cNEL_eq] at hd'
            rw [eolFrom_true_keep nel d _ hd']; simp only [eol, List.cons_append]; omega
        | nil =>
          cases more with
          | nil => simp [eol, eolFrom_cr, eolFrom, countLF]
          | cons b more' =>
            have hb : b ≠ [] := hne b (by simp)
            cases b with
            | nil => exact absurd rfl hb
            | cons d b' =>
              have hf' : readFuel b' more' + 2 ≤ f := by
                have := readFuel_refill (d :: b') more'
                rw [readFuel_cons] at this; omega
              simp only [List.nil_append, List.flatten_cons, List.cons_append, eol, eolFrom_cr, countLF_lf]
              by_cases hd : (d == cLF || (d == cNEL && nel)) = true
              · simp only [hd, if_true]
                rw [ih b' more' _ (fun x hx => hne x (by simp [hx])) (by omega)]
                rw [cLF_eq, cNEL_eq] at hd
                rw [eolFrom_true_skip nel d _ hd]; simp only [eol]; omega
              · have hd' : (d == cLF || (d == cNEL && nel)) = false := by simpa using hd
                simp only [hd', Bool.false_eq_true, if_false]
                rw [ih (d :: b') more' _ (fun x hx => hne x (by simp [hx])) (by rw [readFuel_cons]; omega)]
                rw [cLF_eq, cNEL_eq] at hd'
                rw [eolFrom_true_keep nel d _ hd']; simp only [eol, List.cons_append]; omega
      · have hcc : (c == cCR) = false := by rw [cCR_eq]; simpa using hc
        simp only [hcc, Bool.false_eq_true, if_false]
        have h1 : (c == chCR) = false := by simpa using hc
        simp only [List.cons_append, eol]
        rw [eolFrom_cons]
        by_cases hl : c = chLF
        · subst hl
          have hll : (chLF == cLF) = true := by decide
          simp only [hll, if_true]
          rw [ih buf' more _ hne (by omega)]
          have : eolStep nel false chLF = (some chLF, false) := by
            cases nel <;> decide
          simp only [this, countLF_lf, eol]; omega
        · have hll : (c == cLF) = false := by rw [cLF_eq]; simpa using hl
          have h4 : (c == chLF) = false := by simpa using hl
          simp only [hll, Bool.false_eq_true, if_false]
          by_cases h2 : ((c == cNEL || c == cLS) && nel) = true
          · simp only [h2, if_true]
            rw [ih buf' more _ hne (by omega)]
            rw [cNEL_eq, cLS_eq] at h2
            have h3 : (nel && (c == chNEL || c == chLS)) = true := by rw [Bool.and_comm]; exact h2
            simp [eolStep, h1, h3, countLF_lf, eol]; omega
          · have h2' : ((c == cNEL || c == cLS) && nel) = false := by simpa using h2
            simp only [h2', Bool.false_eq_true, if_false]
            rw [ih buf' more _ hne (by omega)]
            rw [cNEL_eq, cLS_eq] at h2'
            have h3 : (nel && (c == chNEL || c == chLS)) = false := by rw [Bool.and_comm]; exact h2'
            simp [eolStep, h1, h3, eol, countLF, h4]



theorem eolFrom_cons' (v : Bool) (p : Bool) (c : Char) (t : Str) :
    eolFrom v p (c :: t) =
      match (eolStep v p c).1 with
      | some d => d :: eolFrom v (eolStep v p c).2 t
      | none => eolFrom v (eolStep v p c).2 t := rfl

/-- a text without line ends to normalise: no CR (1.1: no NEL, no LS) -/
def clean (v : Bool) (s : Str) : Prop := ∀ c ∈ s, c ≠ chCR ∧ (v = true → c ≠ chNEL ∧ c ≠ chLS)

theorem eolStep_out_clean (v p : Bool) (c d : Char) (h : (eolStep v p c).1 = some d) :
    d ≠ chCR ∧ (v = true → d ≠ chNEL ∧ d ≠ chLS) := by
  unfold eolStep at h
  split at h
  · simp at h; subst h; exact ⟨by decide, fun _ => by decide⟩
  · rename_i h1
    split at h
    · simp at h
    · rename_i h2
      split at h
      · simp at h; subst h; exact ⟨by decide, fun _ => by decide⟩
      · rename_i h3
        simp at h; subst h
        refine ⟨by simpa using h1, fun hv => ?_⟩
        subst hv
        simpa using h3

theorem eolFrom_clean (v : Bool) : ∀ (s : Str) (p : Bool), clean v (eolFrom v p s) := by
  intro s
  induction s with
  | nil => intro p c hc; simp [eolFrom] at hc
  | cons c t ih =>
    intro p
    rw [eolFrom_cons']
    cases h : (eolStep v p c).1 with
    | none => exact ih _
    | some d =>
      intro x hx
      simp only [List.mem_cons] at hx
      rcases hx with rfl | hx
      · exact eolStep_out_clean v p c x h
      · exact ih _ x hx

theorem eolFrom_of_clean (v : Bool) : ∀ (s : Str), clean v s → eolFrom v false s = s := by
  intro s
  induction s with
  | nil => intro _; rfl
  | cons c t ih =>
    intro hc
    have h1 := hc c (by simp)
    have ht : clean v t := fun x hx => hc x (by simp [hx])
    rw [eolFrom_cons']
    have hcr : (c == chCR) = false := by simpa using h1.1
    have h3 : (v && (c == chNEL || c == chLS)) = false := by
      cases v with
      | false => rfl
      | true => have := h1.2 rfl; simp [this.1, this.2]
    simp [eolStep, hcr, h3, ih ht]

/-- **eol_idempotent.**  Normalised text is a fixed point of the normalisation (so a processor may normalise the whole
    entity first and its pieces again). -/
theorem eol_idempotent (v : Bool) (s : Str) : eol v (eol v s) = eol v s :=
  eolFrom_of_clean v _ (eolFrom_clean v s false)

/-- the normalised text contains no CR, and under 1.1 no NEL and no LS -/
theorem eol_no_cr (v : Bool) (s : Str) : ∀ c ∈ eol v s, c ≠ chCR ∧ (v = true → c ≠ chNEL ∧ c ≠ chLS) :=
  eolFrom_clean v s false

/-! ### line numbers -/

theorem feed_nil (v : Bool) (st : LineSt) : st.feed v [] = st := rfl
theorem feed_cons (v : Bool) (st : LineSt) (c : Char) (t : Str) : st.feed v (c :: t) = (st.step v c).feed v t := rfl

theorem feed_append (v : Bool) : ∀ (a b : Str) (st : LineSt), st.feed v (a ++ b) = (st.feed v a).feed v b := by
  intro a
  induction a with
  | nil => intro b st; rfl
  | cons c t ih => intro b st; simp only [List.cons_append, feed_cons, ih]

theorem feed_spec (v : Bool) : ∀ (s : Str) (st : LineSt),
    (st.feed v s).line = st.line + countLF (eolFrom v st.prevCR s) := by
  intro s
  induction s with
  | nil => intro st; simp [feed_nil, eolFrom, countLF]
  | cons c t ih =>
    intro st
    rw [feed_cons, ih, eolFrom_cons']
    unfold LineSt.step
    cases h : eolStep v st.prevCR c with
    | mk o p =>
      cases o with
      | none => simp
      | some d =>
        simp only [countLF]
        by_cases hd : (d == chLF) = true
        · simp [hd]; omega
        · simp [hd]

/-- the incremental line counter of the Spec (the shape of `fCurLine` maintenance) agrees with the declarative
    "1 + number of line ends of the normalised text" -/
theorem feed_init_line (v : Bool) (s : Str) : (LineSt.init.feed v s).line = lineOf v s := by
  rw [feed_spec]; rfl



/-! ### §3.3.3 -/

theorem cSpace_eq : cSpace = ' ' := by decide
theorem cTab_eq : cTab = '\t' := by decide
theorem cLF_eq' : cLF = '\n' := by decide
theorem cCR_eq' : cCR = '\r' := by decide

/-- the raw value buffer that `basicAttrValueScan` hands to the normalisers: a character that came from a reference is
    preceded by the escape marker -/
def encode : List VTok → Str
  | [] => []
  | .lit c :: t => c :: encode t
  | .ref c :: t => cEsc :: c :: encode t

/-- what holds for the literal characters of a value read from the document entity: the marker itself is not among
    them (U+FFFF is not an XML character), and under XML 1.1 (`nel`) neither are NEL and LS (they were normalised to
    LF on input; they can only come back through references — or, the one case this hypothesis leaves out, through the
    replacement text of an internal entity declared with such a reference) -/
def litsOk (nel : Bool) (v : List VTok) : Prop :=
  ∀ c, VTok.lit c ∈ v → c ≠ cEsc ∧ (nel = true → c ≠ cNEL ∧ c ≠ cLS)

theorem litsOk_tail {nel : Bool} {a : VTok} {t : List VTok} (h : litsOk nel (a :: t)) : litsOk nel t :=
  fun c hc => h c (by simp [hc])

theorem readerWs_eq_isWs (nel : Bool) (c : Char) (h : nel = true → c ≠ cNEL ∧ c ≠ cLS) : readerIsWhitespace nel c = isWs c := by
  unfold readerIsWhitespace isWs
  cases nel with
  | false => simp [cSpace_eq, cTab_eq, cLF_eq', cCR_eq']
  | true =>
    have := h rfl
    simp [cSpace_eq, cTab_eq, cLF_eq', cCR_eq', this.1, this.2]


theorem isS4_eq_isWs (c : Char) : isS4 c = isWs c := by
  simp [isS4, isWs, cSpace_eq, cTab_eq, cLF_eq', cCR_eq']

theorem normCData_encode (nel : Bool) : ∀ (v : List VTok), litsOk nel v → normCData (encode v) = step3 v := by
  intro v
  induction v with
  | nil => intro _; rfl
  | cons a t ih =>
    intro h
    have iht := ih (litsOk_tail h)
    cases a with
    | ref c =>
      simp only [encode, step3]
      unfold normCData
      simp [iht]
    | lit c =>
      have hc : (c == cEsc) = false := by simpa using (h c (by simp)).1
      simp only [encode, step3]
      unfold normCData
      simp only [hc, iht]
      by_cases h1 : (c == cTab || c == cLF || c == cCR) = true
      · have : isWs c = true := by
          simp only [cTab_eq, cLF_eq', cCR_eq'] at h1
          simp only [isWs]
          rcases Bool.or_eq_true _ _ |>.mp h1 with h2 | h2
          · rcases Bool.or_eq_true _ _ |>.mp h2 with h3 | h3 <;> simp [h3]
          · simp [h2]
        simp [h1, this, cSpace_eq]
      · have h1' : (c == cTab || c == cLF || c == cCR) = false := by simpa using h1
        simp only [h1']
        by_cases h2 : isWs c = true
        · have : c = ' ' := by
            simp only [cTab_eq, cLF_eq', cCR_eq', Bool.or_eq_false_iff] at h1'
            simp only [isWs, Bool.or_eq_true] at h2
            rcases h2 with ((h2 | h2) | h2) | h2
            · exact eq_of_beq h2
            · simp [h1'.1.1] at h2
            · simp [h1'.1.2] at h2
            · simp [h1'.2] at h2
          simp [h2, this]
        · simp [h2]

/-- the two-state machine of the tokenised branch, on the step-3 characters -/
def mach : Bool → Bool → Str → Str
  | _, _, [] => []
  | inWs, fnw, x :: t =>
    if inWs then
      if x != ' ' then (if fnw then [' '] else []) ++ x :: mach false true t else mach true fnw t
    else if x == ' ' then mach true fnw t else x :: mach false true t

theorem normTokenized_encode (nel : Bool) : ∀ (v : List VTok), litsOk nel v → ∀ inWs fnw,
    normTokenized true nel inWs fnw (encode v) = mach inWs fnw (step3 v) := by
  intro v
  induction v with
  | nil => intro _ _ _; rfl
  | cons a t ih =>
    intro h inWs fnw
    have iht := ih (litsOk_tail h)
    cases a with
    | ref c =>
      simp only [encode, step3]
      unfold normTokenized mach
      have he : (cEsc == cEsc) = true := by simp
      simp only [he, if_true, tokWs, Bool.and_self, cSpace_eq, iht]
      cases inWs <;> by_cases hc : c = ' ' <;> simp [hc]
    | lit c =>
      have hc : (c == cEsc) = false := by simpa using (h c (by simp)).1
      have hr := readerWs_eq_isWs nel c (h c (by simp)).2
      simp only [encode, step3]
      unfold normTokenized mach
      simp only [hc, tokWs, Bool.and_false, Bool.false_eq_true, if_false, hr, cSpace_eq, iht]
      by_cases hw : isWs c = true
      · cases inWs <;> simp [hw]
      · have hsp : ¬ c = ' ' := by
          intro hcs; apply hw; subst hcs; decide
        cases inWs <;> simp [hw, hsp]

/-! the machine computes `joinSp ∘ words` -/

theorem joinSp_cons (w : Str) (ws : List Str) : joinSp (w :: ws) = if ws = [] then w else w ++ ' ' :: joinSp ws := by
  cases ws <;> simp [joinSp]

theorem joinSp_cons_cons (x : Char) (w : Str) (ws : List Str) : joinSp ((x :: w) :: ws) = x :: joinSp (w :: ws) := by
  cases ws <;> simp [joinSp]

theorem words_space (t : Str) : words (' ' :: t) = words t := by
  rw [words.eq_def]; simp

theorem words_single (x : Char) (hx : (x == ' ') = false) : words [x] = [[x]] := by
  have hx' : ¬ x = ' ' := by simpa using hx
  rw [words.eq_def]; simp [hx']

theorem words_cons_space (x : Char) (t : Str) (hx : (x == ' ') = false) : words (x :: ' ' :: t) = [x] :: words (' ' :: t) := by
  have hx' : ¬ x = ' ' := by simpa using hx
  rw [words.eq_def]; simp [hx']

theorem words_ne_nil (d : Char) (t : Str) (hd : (d == ' ') = false) : words (d :: t) ≠ [] := by
  have hd' : ¬ d = ' ' := by simpa using hd
  cases t with
  | nil => rw [words.eq_def]; simp [hd']
  | cons e t' =>
    by_cases he : e = ' '
    · rw [words.eq_def]; simp [hd', he]
    · rw [words.eq_def]
      cases hw : words (e :: t') <;> simp [hd', he, hw]

theorem words_cons_cons (x d : Char) (t : Str) (hx : (x == ' ') = false) (hd : (d == ' ') = false) :
    ∃ w ws, words (d :: t) = w :: ws ∧ words (x :: d :: t) = (x :: w) :: ws := by
  cases hw : words (d :: t) with
  | nil => exact absurd hw (words_ne_nil d t hd)
  | cons w ws =>
    refine ⟨w, ws, rfl, ?_⟩
    have hx' : ¬ x = ' ' := by simpa using hx
    have hd' : ¬ d = ' ' := by simpa using hd
    rw [words.eq_def]
    simp [hx', hd', hw]

theorem mach_spec : ∀ (s : Str),
    mach true false s = joinSp (words s) ∧
    mach true true s = (if words s = [] then [] else ' ' :: joinSp (words s)) ∧
    (∀ fnw, mach false fnw s = match s with
      | [] => []
      | x :: _ => if x == ' ' then mach true fnw s else joinSp (words s)) := by
  intro s
  induction s with
  | nil => simp [mach, words, joinSp]
  | cons x t ih =>
    obtain ⟨ih1, ih2, ih3⟩ := ih
    -- the common computation: after a non-space character in any state
    have key : (x == ' ') = false → x :: mach false true t = joinSp (words (x :: t)) := by
      intro hx
      cases t with
      | nil => simp [mach, words_single x hx, joinSp]
      | cons d t' =>
        have h3 := ih3 true
        simp only at h3
        by_cases hd : (d == ' ') = true
        · have hd' : d = ' ' := eq_of_beq hd
          subst hd'
          rw [h3]; simp only [beq_self_eq_true, if_true]
          rw [ih2, words_cons_space x t' hx, joinSp_cons]
          by_cases hw : words (' ' :: t') = [] <;> simp [hw]
        · have hd' : (d == ' ') = false := by simpa using hd
          rw [h3]; simp only [hd']
          obtain ⟨w, ws, e1, e2⟩ := words_cons_cons x d t' hx hd'
          rw [e2, e1, joinSp_cons_cons]
          simp
    refine ⟨?_, ?_, ?_⟩
    · by_cases hx : (x == ' ') = true
      · have : x = ' ' := eq_of_beq hx
        subst this
        rw [mach]; simp [ih1, words_space]
      · have hx' : (x == ' ') = false := by simpa using hx
        rw [mach]; simp only [if_true]
        have hne : (x != ' ') = true := by simp [bne, hx']
        simp only [hne, if_true]
        simpa using key hx'
    · by_cases hx : (x == ' ') = true
      · have : x = ' ' := eq_of_beq hx
        subst this
        rw [mach]; simp [ih2, words_space]
      · have hx' : (x == ' ') = false := by simpa using hx
        rw [mach]; simp only [if_true]
        have hne : (x != ' ') = true := by simp [bne, hx']
        simp only [hne, if_true]
        have hwn := words_ne_nil x t hx'
        simp only [hwn, if_false]
        simpa using key hx'
    · intro fnw
      simp only
      by_cases hx : (x == ' ') = true
      · have : x = ' ' := eq_of_beq hx
        subst this
        simp [mach]
      · have hx' : (x == ' ') = false := by simpa using hx
        simp only [hx']
        rw [mach]
        simpa [hx'] using key hx'

theorem mach_init (s : Str) : mach false false s = collapse s := by
  obtain ⟨h1, _, h3⟩ := mach_spec s
  have := h3 false
  cases s with
  | nil => simp [mach, collapse, words, joinSp]
  | cons x t =>
    simp only at this
    by_cases hx : (x == ' ') = true
    · rw [this]; simp [hx, h1, collapse]
    · rw [this]; simp [hx, collapse]

/-- **attnorm_model_eq_spec.**  `IGXMLScanner::normalizeAttValue` (after the repair: `fixed := true`), run on the raw
    buffer with its 0xFFFF escape markers, computes the §3.3.3 normal form — for every declared type (the numeric
    `XMLAttDef::AttTypes` value; CDATA and the schema types take the CDATA branch), every value, XML 1.0 and 1.1. -/
theorem attnorm_model_eq_spec (nel : Bool) (ty : Nat) (v : List VTok) (h : litsOk nel v) :
    normalizeAttValue true nel ty (encode v) = attNorm (isCDataBranch ty) v := by
  unfold normalizeAttValue attNorm
  cases hb : isCDataBranch ty with
  | true => simp [normCData_encode nel v h]
  | false => simp [normTokenized_encode nel v h, mach_init]

/-- `IGXMLScanner::normalizeAttRawValue` (undeclared attributes) computes the CDATA normal form -/
theorem attnorm_raw_model_eq_spec (nel : Bool) : ∀ (v : List VTok), litsOk nel v →
    normalizeAttRawValue nel (encode v) = attNorm true v := by
  intro v
  induction v with
  | nil => intro _; rfl
  | cons a t ih =>
    intro h
    have iht := ih (litsOk_tail h)
    simp only [attNorm, if_true] at iht ⊢
    cases a with
    | ref c =>
      simp only [encode, step3]
      unfold normalizeAttRawValue
      simp [iht]
    | lit c =>
      have hc : (c == cEsc) = false := by simpa using (h c (by simp)).1
      have hr := readerWs_eq_isWs nel c (h c (by simp)).2
      simp only [encode, step3]
      unfold normalizeAttRawValue
      simp [hc, hr, iht, cSpace_eq]

/-- **attnorm_asis_deviates.**  The code as it stands (`fixed := false`) does NOT compute the §3.3.3 normal form: for a
    tokenised type it drops a line feed that was written as `&#10;` (the Recommendation keeps it: "the normalized value
    contains the referenced character itself").  Witness: NMTOKENS value `&#10;A`. -/
theorem attnorm_asis_deviates :
    normalizeAttValue false false XV.Gen.NormConsts.attNmTokens (encode [.ref '\n', .lit 'A']) ≠
      attNorm (isCDataBranch XV.Gen.NormConsts.attNmTokens) [.ref '\n', .lit 'A'] := by decide

/-! idempotence -/

def goodWord (w : Str) : Prop := w ≠ [] ∧ ∀ c ∈ w, (c == ' ') = false

theorem words_good : ∀ (s : Str), ∀ w ∈ words s, goodWord w := by
  intro s
  induction s with
  | nil => intro w hw; simp [words] at hw
  | cons x t ih =>
    intro w hw
    by_cases hx : (x == ' ') = true
    · have : x = ' ' := eq_of_beq hx
      subst this
      rw [words_space] at hw
      exact ih w hw
    · have hx' : (x == ' ') = false := by simpa using hx
      cases t with
      | nil =>
        rw [words_single x hx'] at hw
        simp at hw; subst hw
        exact ⟨by simp, by intro c hc; simp at hc; subst hc; exact hx'⟩
      | cons d t' =>
        by_cases hd : (d == ' ') = true
        · have : d = ' ' := eq_of_beq hd
          subst this
          rw [words_cons_space x t' hx'] at hw
          simp only [List.mem_cons] at hw
          rcases hw with rfl | hw
          · exact ⟨by simp, by intro c hc; simp at hc; subst hc; exact hx'⟩
          · exact ih w hw
        · have hd' : (d == ' ') = false := by simpa using hd
          obtain ⟨w0, ws, e1, e2⟩ := words_cons_cons x d t' hx' hd'
          rw [e2] at hw
          simp only [List.mem_cons] at hw
          rcases hw with rfl | hw
          · have g := ih w0 (by rw [e1]; simp)
            exact ⟨by simp, by
              intro c hc
              simp only [List.mem_cons] at hc
              rcases hc with rfl | hc
              · exact hx'
              · exact g.2 c hc⟩
          · exact ih w (by rw [e1]; simp [hw])

theorem words_append_good (w : Str) (hw : goodWord w) (rest : Str) (hr : rest = [] ∨ ∃ r, rest = ' ' :: r) :
    words (w ++ rest) = w :: words rest := by
  induction w with
  | nil => exact absurd rfl hw.1
  | cons x t ih =>
    have hx : (x == ' ') = false := hw.2 x (by simp)
    cases t with
    | nil =>
      rcases hr with rfl | ⟨r, rfl⟩
      · simp [words_single x hx, words]
      · simp only [List.cons_append, List.nil_append]
        rw [words_cons_space x r hx]
    | cons d t' =>
      have hd : (d == ' ') = false := hw.2 d (by simp)
      have g : goodWord (d :: t') := ⟨by simp, fun c hc => hw.2 c (by simp [hc])⟩
      have := ih g
      simp only [List.cons_append] at this ⊢
      obtain ⟨w0, ws, e1, e2⟩ := words_cons_cons x d (t' ++ rest) hx hd
      rw [e2]
      rw [this] at e1
      injection e1 with h1 h2
      subst h1; subst h2; rfl

theorem words_joinSp : ∀ (ws : List Str), (∀ w ∈ ws, goodWord w) → words (joinSp ws) = ws := by
  intro ws
  induction ws with
  | nil => intro _; rfl
  | cons w rest ih =>
    intro h
    have hw := h w (by simp)
    have hrest : ∀ w' ∈ rest, goodWord w' := fun w' hw' => h w' (by simp [hw'])
    rw [joinSp_cons]
    by_cases hr : rest = []
    · subst hr
      simp only [if_true]
      have := words_append_good w hw [] (Or.inl rfl)
      simpa [words] using this
    · simp only [hr, if_false]
      rw [words_append_good w hw _ (Or.inr ⟨_, rfl⟩), words_space, ih hrest]

theorem collapse_idem (s : Str) : collapse (collapse s) = collapse s := by
  unfold collapse
  rw [words_joinSp _ (words_good s)]

/-- **attnorm_idempotent_tokenized.**  For a non-CDATA type the normal form is a fixed point: fed back as already
    resolved characters it is returned unchanged (an application may re-normalise a reported value). -/
theorem attnorm_idempotent_tokenized (v : List VTok) :
    attNorm false ((attNorm false v).map VTok.ref) = attNorm false v := by
  have h : ∀ s : Str, step3 (s.map VTok.ref) = s := by
    intro s; induction s with
    | nil => rfl
    | cons c t ih => simp [step3, ih]
  simp only [attNorm, Bool.false_eq_true, if_false, h]
  exact collapse_idem _

/-! `XMLScanner::scanCharRef` -/

/-- **charref_units_spec.**  The one or two code units that `scanCharRef` returns are the UTF-16 form of the value:
    a BMP value below the surrogates/specials is returned as itself; a supplementary value as the surrogate pair that
    decodes to it. -/
theorem charref_units_spec (v hi lo : Nat) (h : charRefUnits v = some (hi, lo)) :
    (lo = 0 ∧ hi = v ∧ v ≤ 0xFFFD) ∨
    (0xD800 ≤ hi ∧ hi ≤ 0xDBFF ∧ 0xDC00 ≤ lo ∧ lo ≤ 0xDFFF ∧ 0x10000 + (hi - 0xD800) * 1024 + (lo - 0xDC00) = v) := by
  unfold charRefUnits at h
  split at h
  · rename_i hv
    simp only [Option.some.injEq, Prod.mk.injEq] at h
    right
    omega
  · split at h
    · simp only [Option.some.injEq, Prod.mk.injEq] at h
      left; omega
    · simp at h



/-! ### balanced words -/

theorem Balanced.append {u w : List Event} (hu : Balanced u) (hw : Balanced w) : Balanced (u ++ w) := by
  induction hu with
  | nil => simpa using hw
  | atom a u' h1 h2 _ ih => exact Balanced.atom a _ h1 h2 ih
  | wrap o c u' w' h1 h2 h3 hu' _ _ ih2 =>
    have : o :: (u' ++ c :: w') ++ w = o :: (u' ++ c :: (w' ++ w)) := by simp
    rw [this]
    exact Balanced.wrap o c u' (w' ++ w) h1 h2 h3 hu' ih2

theorem Balanced.single (a : Event) (h1 : a.isOpen = false) (h2 : a.isClose = false) : Balanced [a] :=
  Balanced.atom a [] h1 h2 Balanced.nil

theorem Balanced.wrap1 (o c : Event) (u : List Event) (h1 : o.isOpen = true) (h2 : c.isClose = true)
    (h3 : o.matches c = true) (hu : Balanced u) : Balanced (o :: (u ++ [c])) :=
  Balanced.wrap o c u [] h1 h2 h3 hu Balanced.nil

/-! ### dom_walk_build -/

theorem walkL_append (a b : List DNode) : DNode.walkL (a ++ b) = DNode.walkL a ++ DNode.walkL b := by
  induction a with
  | nil => simp [DNode.walkL]
  | cons n ns ih => simp [DNode.walkL, ih]

-- a forest whose bracket nodes carry an opening and a closing event and whose leaves carry neither
mutual
def wfNode : DNode → Bool
  | .atom e => !e.isOpen && !e.isClose
  | .node o kids c => o.isOpen && c.isClose && wfForest kids
def wfForest : List DNode → Bool
  | [] => true
  | n :: ns => wfNode n && wfForest ns
end

/-- the input does not continue the current level: it is exhausted or starts with a closing event -/
def stops : List Event → Prop
  | [] => True
  | e :: _ => e.isClose = true

theorem open_not_close (e : Event) (h : e.isOpen = true) : e.isClose = false := by
  cases e <;> simp_all [Event.isOpen, Event.isClose]

theorem build_balanced {u : List Event} (hu : Balanced u) : ∀ (rest : List Event), stops rest → ∀ fuel, u.length + rest.length < fuel →
    ∃ f, buildForest fuel (u ++ rest) = (f, rest) ∧ DNode.walkL f = u ∧ wfForest f = true := by
  induction hu with
  | nil =>
    intro rest hs fuel hf
    refine ⟨[], ?_, rfl, rfl⟩
    cases fuel with
    | zero => omega
    | succ f =>
      cases rest with
      | nil => simp [buildForest]
      | cons e es =>
        have : e.isClose = true := hs
        simp [buildForest, this]
  | atom a w h1 h2 _ ih =>
    intro rest hs fuel hf
    cases fuel with
    | zero => omega
    | succ f =>
      obtain ⟨k, hk, hw, hwf⟩ := ih rest hs f (by simp at hf; omega)
      refine ⟨.atom a :: k, ?_, ?_, ?_⟩
      · simp only [List.cons_append, buildForest, h1, h2, hk]; simp
      · simp [DNode.walkL, DNode.walk, hw]
      · simp [wfForest, wfNode, h1, h2, hwf]
  | wrap o c u' w' h1 h2 h3 _ _ ih1 ih2 =>
    intro rest hs fuel hf
    cases fuel with
    | zero => omega
    | succ f =>
      have hoc := open_not_close o h1
      have hlen : (o :: (u' ++ c :: w')).length = u'.length + w'.length + 2 := by simp; omega
      rw [hlen] at hf
      obtain ⟨k1, hk1, hw1, hwf1⟩ := ih1 (c :: (w' ++ rest)) h2 f (by simp; omega)
      obtain ⟨k2, hk2, hw2, hwf2⟩ := ih2 rest hs f (by omega)
      refine ⟨.node o k1 c :: k2, ?_, ?_, ?_⟩
      · have e1 : (o :: (u' ++ c :: w')) ++ rest = o :: (u' ++ c :: (w' ++ rest)) := by simp
        rw [e1]
        simp only [buildForest, hoc, h1, hk1, h3, hk2]; simp
      · simp [DNode.walkL, DNode.walk, hw1, hw2]
      · simp [wfForest, wfNode, h1, h2, hwf1, hwf2]

/-- **dom_walk_build.**  Building the tree from a balanced event word and walking it gives the word back: the DOM
    adapter loses nothing (and invents nothing). -/
theorem dom_walk_build (e : List Event) (h : Balanced e) : domWalk (buildDom e) = e := by
  obtain ⟨f, hf, hw, _⟩ := build_balanced h [] trivial (e.length + 1) (by simp)
  simp only [List.append_nil] at hf
  simp [domWalk, buildDom, hf, hw]

theorem buildDom_wf (e : List Event) (h : Balanced e) : wfForest (buildDom e) = true := by
  obtain ⟨f, hf, _, hwf⟩ := build_balanced h [] trivial (e.length + 1) (by simp)
  simp only [List.append_nil] at hf
  simp [buildDom, hf, hwf]

/-! ### sax1_sax2_agree -/

theorem erase_toSAX2One (ns : Bool) (e : Event) : (toSAX2One ns e).flatMap eraseOne = toSAX1One e := by
  cases e with
  | entityDecl n k => cases k <;> simp [toSAX2One, toSAX1One, eraseOne]
  | startElement n as l =>
    simp only [toSAX2One, toSAX1One, List.flatMap_cons, List.flatMap_nil, List.append_nil, eraseOne]
    have h1 : (Sax2Name.of ns n).qname = n := by unfold Sax2Name.of; split <;> rfl
    have h2 : ∀ a : AttrEv, (Sax2Name.of ns a.name).qname = a.name := by intro a; unfold Sax2Name.of; split <;> rfl
    simp [h1, h2, List.map_map, Function.comp_def]
  | endElement n =>
    have h1 : (Sax2Name.of ns n).qname = n := by unfold Sax2Name.of; split <;> rfl
    simp [toSAX2One, toSAX1One, eraseOne, h1]
  | _ => simp [toSAX2One, toSAX1One, eraseOne]

/-- **sax1_sax2_agree.**  Forgetting namespaces and the Lexical/Decl-handler events of the SAX2 view gives the SAX1 view
    (with or without namespace processing). -/
theorem sax1_sax2_agree (ns : Bool) (e : List Event) : erase (toSAX2 ns e) = toSAX1 e := by
  unfold erase toSAX2 toSAX1
  congr 1
  induction e with
  | nil => rfl
  | cons a t ih => simp [List.flatMap_cons, List.flatMap_append, erase_toSAX2One, ih]

/-! ### pull_eq_push -/

theorem nextChunk_append : ∀ (es : List Event) (d : Nat), (nextChunk d es).1 ++ (nextChunk d es).2 = es := by
  intro es
  induction es with
  | nil => intro d; rfl
  | cons e t ih =>
    intro d
    unfold nextChunk
    by_cases h : depthAfter d e = 0 <;> simp [h, ih]

theorem nextChunk_rest_length : ∀ (es : List Event) (d : Nat), (nextChunk d es).2.length ≤ es.length - 1 := by
  intro es
  induction es with
  | nil => intro d; simp [nextChunk]
  | cons e t ih =>
    intro d
    unfold nextChunk
    by_cases h : depthAfter d e = 0
    · simp [h]
    · have := ih (depthAfter d e)
      simp only [h, if_false, List.length_cons, Nat.add_sub_cancel]
      omega

theorem pull_flatten : ∀ (fuel : Nat) (es : List Event), es.length ≤ fuel → (pull fuel es).flatten = es := by
  intro fuel
  induction fuel with
  | zero => intro es h; cases es with
    | nil => rfl
    | cons _ _ => simp at h
  | succ f ih =>
    intro es h
    cases es with
    | nil => simp [pull]
    | cons e t =>
      simp only [pull, List.flatten_cons]
      have hl := nextChunk_rest_length (e :: t) 0
      rw [ih _ (by simp at hl h; omega)]
      exact nextChunk_append _ _

/-- **pull_eq_push.**  The `parseFirst` / `parseNext` loop delivers, piece by piece, exactly the stream of a one-shot
    `parse` (every piece is non-empty, so the loop ends after at most `e.length` steps). -/
theorem pull_eq_push (e : List Event) : (pullAll e).flatten = e := pull_flatten _ _ (Nat.le_refl _)

theorem pull_pieces_nonempty : ∀ (fuel : Nat) (es : List Event), ∀ p ∈ pull fuel es, p ≠ [] := by
  intro fuel
  induction fuel with
  | zero => intro es p hp; simp [pull] at hp
  | succ f ih =>
    intro es p hp
    cases es with
    | nil => simp [pull] at hp
    | cons e t =>
      simp only [pull, List.mem_cons] at hp
      rcases hp with rfl | hp
      · unfold nextChunk; by_cases h : depthAfter 0 e = 0 <;> simp [h]
      · exact ih _ p hp




/-! ### events_wellnested -/

/-- a list of events none of which is a bracket -/
theorem balanced_atoms (l : List Event) (h : ∀ e ∈ l, e.isOpen = false ∧ e.isClose = false) : Balanced l := by
  induction l with
  | nil => exact Balanced.nil
  | cons a t ih =>
    exact Balanced.atom a t (h a (by simp)).1 (h a (by simp)).2 (ih (fun e he => h e (by simp [he])))

theorem contentEvents_append (cx : Ctx) (expand : Str → Nat → List Event) (ext : Bool) :
    ∀ (a b : List Tok) (stack : List Bool) (st : LineSt),
      contentEvents cx expand ext stack st (a ++ b) =
        contentEvents cx expand ext stack st a ++
          contentEvents cx expand ext (a.foldl (ignPush cx) stack)
            (if ext then st.feed cx.v11 (renderToks a) else st) b := by
  intro a
  induction a with
  | nil => intro b stack st; cases ext <;> simp [contentEvents, renderToks, LineSt.feed]
  | cons t ts ih =>
    intro b stack st
    simp only [List.cons_append, contentEvents, ih, List.foldl_cons, List.append_assoc]
    congr 2
    cases ext with
    | false => simp
    | true =>
      simp only [if_true, renderToks]
      congr 1
      -- feed over an append
      have : ∀ (x y : Str) (s : LineSt), s.feed cx.v11 (x ++ y) = (s.feed cx.v11 x).feed cx.v11 y := by
        intro x
        induction x with
        | nil => intro y s; rfl
        | cons c r ihr => intro y s; simp only [List.cons_append, LineSt.feed, ihr]
      rw [this]

theorem ignPush_toks_balanced (cx : Ctx) : (n : Node) → ∀ stack, (Node.toks n).foldl (ignPush cx) stack = stack
  | .leaf l => by intro stack; simp [Node.toks, ignPush]
  | .empty t => by intro stack; simp [Node.toks, ignPush]
  | .elem t kids en ew => by
    intro stack
    have ih := ignPush_toksL_balanced cx kids
    simp only [Node.toks, List.foldl_cons, List.foldl_append, ih, List.foldl_nil, ignPush, List.tail_cons]
where
  ignPush_toksL_balanced (cx : Ctx) : (ns : List Node) → ∀ stack, (Node.toksL ns).foldl (ignPush cx) stack = stack
    | [] => by intro stack; simp [Node.toksL]
    | n :: ns => by
      intro stack
      simp only [Node.toksL, List.foldl_append, ignPush_toks_balanced cx n, ignPush_toksL_balanced cx ns]

theorem tokEvents_leaf_balanced (cx : Ctx) (expand : Str → Nat → List Event) (hexp : ∀ n l, Balanced (expand n l))
    (ext ign : Bool) (st : LineSt) (l : Leaf) : Balanced (tokEvents cx expand ext ign st (.leaf l)) := by
  cases l with
  | ch c =>
    simp only [tokEvents]
    split
    · split <;> exact Balanced.single _ rfl rfl
    · exact Balanced.nil
  | cref r => exact Balanced.single _ rfl rfl
  | eref n =>
    simp only [tokEvents]
    split
    · exact Balanced.single _ rfl rfl
    · exact Balanced.wrap1 _ _ _ rfl rfl (by simp [Event.matches]) (hexp _ _)
  | cdata s =>
    simp only [tokEvents]
    generalize (if ext = true then eol cx.v11 s else s) = s'
    by_cases hs : s' = []
    · simp only [hs, if_true]
      exact Balanced.wrap1 .startCDATA .endCDATA [] rfl rfl rfl Balanced.nil
    · simp only [hs, if_false]
      exact Balanced.wrap1 .startCDATA .endCDATA [.characters s'] rfl rfl rfl (Balanced.single _ rfl rfl)
  | comment s => exact Balanced.single _ rfl rfl
  | pi t sp d => exact Balanced.single _ rfl rfl

mutual
theorem node_balanced (cx : Ctx) (expand : Str → Nat → List Event) (hexp : ∀ n l, Balanced (expand n l)) (ext : Bool) :
    (n : Node) → tagsMatch n = true → ∀ stack st, Balanced (contentEvents cx expand ext stack st (Node.toks n))
  | .leaf l, _ => by
    intro stack st
    simp only [Node.toks, contentEvents, List.append_nil]
    exact tokEvents_leaf_balanced cx expand hexp ext _ st l
  | .empty t, _ => by
    intro stack st
    simp only [Node.toks, contentEvents, List.append_nil, tokEvents]
    exact Balanced.wrap1 _ _ [] rfl rfl (by simp [Event.matches]) Balanced.nil
  | .elem t kids en ew, h => by
    intro stack st
    simp only [tagsMatch, Bool.and_eq_true] at h
    have hk := nodes_balanced cx expand hexp ext kids h.2
    simp only [Node.toks, contentEvents, tokEvents, List.singleton_append]
    rw [contentEvents_append]
    simp only [contentEvents, tokEvents, List.append_nil]
    exact Balanced.wrap1 _ _ _ rfl rfl (by simpa [Event.matches] using h.1) (hk _ _)
theorem nodes_balanced (cx : Ctx) (expand : Str → Nat → List Event) (hexp : ∀ n l, Balanced (expand n l)) (ext : Bool) :
    (ns : List Node) → tagsMatchL ns = true → ∀ stack st, Balanced (contentEvents cx expand ext stack st (Node.toksL ns))
  | [], _ => by intro stack st; simp [Node.toksL, contentEvents]; exact Balanced.nil
  | n :: ns, h => by
    intro stack st
    simp only [tagsMatchL, Bool.and_eq_true] at h
    simp only [Node.toksL]
    rw [contentEvents_append]
    exact Balanced.append (node_balanced cx expand hexp ext n h.1 _ _) (nodes_balanced cx expand hexp ext ns h.2 _ _)
end

theorem expandEntity_balanced (cx : Ctx) : ∀ (d : Nat) (n : Str) (line : Nat), Balanced (expandEntity cx d n line) := by
  intro d
  induction d with
  | zero => intro n line; exact Balanced.nil
  | succ d ih =>
    intro n line
    unfold expandEntity
    split
    · split
      · split
        · rename_i h
          exact nodes_balanced cx (expandEntity cx d) ih false _ h _ _
        · exact Balanced.nil
      · exact Balanced.nil
    · exact Balanced.nil

theorem miscEvents_balanced (cx : Ctx) : ∀ (ls : List Leaf) (st : LineSt), Balanced (miscEvents cx st ls) := by
  intro ls
  induction ls with
  | nil => intro st; exact Balanced.nil
  | cons l t ih =>
    intro st
    unfold miscEvents
    refine Balanced.append ?_ (ih _)
    cases l <;> first | exact Balanced.nil | exact Balanced.single _ rfl rfl

theorem declEvents_atoms (cx : Ctx) : ∀ (ds : List Decl) (st : LineSt) (se sn : List Str),
    ∀ e ∈ declEvents cx st se sn ds, e.isOpen = false ∧ e.isClose = false := by
  intro ds
  induction ds with
  | nil => intro st se sn e he; simp [declEvents] at he
  | cons d t ih =>
    intro st se sn e he
    unfold declEvents at he
    simp only at he
    cases d with
    | ws c => exact ih _ _ _ e he
    | element a b c d' e' => exact ih _ _ _ e he
    | attlist a b c d' => exact ih _ _ _ e he
    | comment s =>
      simp only [List.mem_cons] at he
      rcases he with rfl | he
      · exact ⟨rfl, rfl⟩
      · exact ih _ _ _ e he
    | pi a b c =>
      simp only [List.mem_cons] at he
      rcases he with rfl | he
      · exact ⟨rfl, rfl⟩
      · exact ih _ _ _ e he
    | entity a n b df c =>
      simp only at he
      split at he
      · exact ih _ _ _ e he
      · simp only [List.mem_cons] at he
        rcases he with rfl | he
        · exact ⟨rfl, rfl⟩
        · exact ih _ _ _ e he
    | notation_ a n b id c =>
      simp only at he
      split at he
      · exact ih _ _ _ e he
      · simp only [List.mem_cons] at he
        rcases he with rfl | he
        · exact ⟨rfl, rfl⟩
        · exact ih _ _ _ e he

theorem doctypeEvents_balanced (cx : Ctx) (st : LineSt) (dt : Doctype) : Balanced (doctypeEvents cx st dt) := by
  unfold doctypeEvents
  exact Balanced.wrap1 _ _ _ rfl rfl rfl (balanced_atoms _ (declEvents_atoms cx _ _ _ _))

theorem rawEvents_balanced (d : Doc) (h : tagsMatch d.root = true) : Balanced (rawEvents d) := by
  unfold rawEvents
  simp only
  have hx : Balanced (xmlDeclEvents d) := by
    unfold xmlDeclEvents
    cases d.decl <;> first | exact Balanced.nil | exact Balanced.single _ rfl rfl
  have hroot := node_balanced (docCtx d) (expandEntity (docCtx d) (docCtx d).depth) (expandEntity_balanced (docCtx d) _) true d.root h
  cases hdt : d.doctype with
  | none =>
    simp only
    have : ∀ (a b c e : List Event), Event.startDocument :: (a ++ b ++ [] ++ c ++ e ++ [Event.endDocument]) =
        Event.startDocument :: ((a ++ b ++ c ++ e) ++ [Event.endDocument]) := by intros; simp
    rw [this]
    exact Balanced.wrap1 _ _ _ rfl rfl rfl
      (Balanced.append (Balanced.append (Balanced.append hx (miscEvents_balanced _ _ _)) (hroot _ _)) (miscEvents_balanced _ _ _))
  | some p =>
    obtain ⟨dt, misc⟩ := p
    simp only
    have : ∀ (a b c1 c2 c e : List Event), Event.startDocument :: (a ++ b ++ (c1 ++ c2) ++ c ++ e ++ [Event.endDocument]) =
        Event.startDocument :: ((a ++ b ++ c1 ++ c2 ++ c ++ e) ++ [Event.endDocument]) := by intros; simp
    rw [this]
    exact Balanced.wrap1 _ _ _ rfl rfl rfl
      (Balanced.append (Balanced.append (Balanced.append (Balanced.append (Balanced.append hx (miscEvents_balanced _ _ _))
        (doctypeEvents_balanced _ _ _)) (miscEvents_balanced _ _ _)) (hroot _ _)) (miscEvents_balanced _ _ _))



/-! ### merging keeps the word balanced -/

def isText : Event → Bool
  | .characters _ | .ignorableWhitespace _ => true
  | _ => false

theorem mergeChars_cons_nontext (e : Event) (t : List Event) (h : isText e = false) :
    mergeChars (e :: t) = e :: mergeChars t := by
  cases e <;> simp_all [mergeChars, isText]

theorem balanced_tail_of_atom {a : Event} {w : List Event} (h : Balanced (a :: w)) (ho : a.isOpen = false) : Balanced w := by
  cases h with
  | atom _ _ _ _ hw => exact hw
  | wrap o c u w' h1 _ _ _ _ => simp [ho] at h1

theorem mergeChars_append_barrier (c : Event) (hc : isText c = false) : ∀ (u w : List Event),
    mergeChars (u ++ c :: w) = mergeChars u ++ c :: mergeChars w := by
  intro u
  induction u with
  | nil => intro w; simp [mergeChars, mergeChars_cons_nontext c w hc]
  | cons e t ih =>
    intro w
    by_cases he : isText e = true
    · cases e with
      | characters s =>
        simp only [List.cons_append, mergeChars, ih]
        cases hm : mergeChars t with
        | nil =>
          simp only [List.nil_append]
          cases c <;> simp_all [isText]
          all_goals (by_cases hs : s = [] <;> simp [hs])
        | cons x r =>
          cases x <;> simp <;> (by_cases hs : s = [] <;> simp [hs])
      | ignorableWhitespace s =>
        simp only [List.cons_append, mergeChars, ih]
        cases hm : mergeChars t with
        | nil =>
          simp only [List.nil_append]
          cases c <;> simp_all [isText]
          all_goals (by_cases hs : s = [] <;> simp [hs])
        | cons x r =>
          cases x <;> simp <;> (by_cases hs : s = [] <;> simp [hs])
      | _ => simp [isText] at he
    · have he' : isText e = false := by simpa using he
      simp only [List.cons_append, mergeChars_cons_nontext e _ he', ih]

theorem mergeChars_balanced {w : List Event} (h : Balanced w) : Balanced (mergeChars w) := by
  induction h with
  | nil => exact Balanced.nil
  | atom a w h1 h2 hw ih =>
    by_cases ha : isText a = true
    · cases a with
      | characters s =>
        simp only [mergeChars]
        cases hm : mergeChars w with
        | nil => by_cases hs : s = [] <;> simp [hs] <;> first | exact Balanced.nil | exact Balanced.atom _ [] rfl rfl Balanced.nil
        | cons x r =>
          rw [hm] at ih
          cases x with
          | characters s' => exact Balanced.atom _ _ rfl rfl (balanced_tail_of_atom ih rfl)
          | _ =>
            simp only
            by_cases hs : s = []
            · simp only [hs, if_true]; exact ih
            · simp only [hs, if_false]; exact Balanced.atom _ _ rfl rfl ih
      | ignorableWhitespace s =>
        simp only [mergeChars]
        cases hm : mergeChars w with
        | nil => by_cases hs : s = [] <;> simp [hs] <;> first | exact Balanced.nil | exact Balanced.atom _ [] rfl rfl Balanced.nil
        | cons x r =>
          rw [hm] at ih
          cases x with
          | ignorableWhitespace s' => exact Balanced.atom _ _ rfl rfl (balanced_tail_of_atom ih rfl)
          | _ =>
            simp only
            by_cases hs : s = []
            · simp only [hs, if_true]; exact ih
            · simp only [hs, if_false]; exact Balanced.atom _ _ rfl rfl ih
      | _ => simp [isText] at ha
    · have ha' : isText a = false := by simpa using ha
      rw [mergeChars_cons_nontext a w ha']
      exact Balanced.atom a _ h1 h2 ih
  | wrap o c u w h1 h2 h3 _ _ ihu ihw =>
    have ho : isText o = false := by cases o <;> simp_all [isText, Event.isOpen]
    have hc : isText c = false := by cases c <;> simp_all [isText, Event.isClose]
    rw [mergeChars_cons_nontext o _ ho, mergeChars_append_barrier c hc]
    exact Balanced.wrap o c _ _ h1 h2 h3 ihu ihw



/-! WF gives Element Type Match -/
mutual
theorem semNode_tagsMatch (v : XV.Spec.XmlChar.Version) : (n : Node) → semNode v n = true → tagsMatch n = true
  | .leaf _, _ => rfl
  | .empty _, _ => rfl
  | .elem t kids en ew, h => by
    simp only [semNode, Bool.and_eq_true] at h
    simp only [tagsMatch, Bool.and_eq_true]
    exact ⟨h.1.1.2, semNodes_tagsMatch v kids h.2⟩
theorem semNodes_tagsMatch (v : XV.Spec.XmlChar.Version) : (ns : List Node) → semNodes v ns = true → tagsMatchL ns = true
  | [], _ => rfl
  | n :: ns, h => by
    simp only [semNodes, Bool.and_eq_true] at h
    simp only [tagsMatchL, Bool.and_eq_true]
    exact ⟨semNode_tagsMatch v n h.1, semNodes_tagsMatch v ns h.2⟩
end

theorem wf_tagsMatch (d : Doc) (h : WF d) : tagsMatch d.root = true := by
  have hs := XV.Props.C02.semDoc_of_semOk d h.2
  unfold semDoc at hs
  split at hs
  · cases hs
  · rename_i hb
    have hb' : semDocBool d = true := by
      cases hq : semDocBool d with
      | true => rfl
      | false => simp [hq] at hb
    unfold semDocBool at hb'
    simp only [Bool.and_eq_true] at hb'
    exact semNode_tagsMatch _ _ hb'.1.2

/-! ### line numbers -/

theorem feed_append' (v : Bool) : ∀ (a b : Str) (st : LineSt), st.feed v (a ++ b) = (st.feed v a).feed v b := by
  intro a
  induction a with
  | nil => intro b st; rfl
  | cons c t ih => intro b st; simp only [List.cons_append, LineSt.feed, ih]

theorem renderToks_append (a b : List Tok) : renderToks (a ++ b) = renderToks a ++ renderToks b := by
  induction a with
  | nil => rfl
  | cons t ts ih => simp [renderToks, ih]

theorem renderToks_leaves (ls : List Leaf) : renderToks (ls.map Tok.leaf) = renderLeaves ls := by
  induction ls with
  | nil => rfl
  | cons l t ih => simp [renderToks, renderLeaves, renderTok, ih]

/-- the text of the document before its root element -/
def rootPrefix (d : Doc) : Str :=
  declText d ++ renderLeaves d.pre ++
    (match d.doctype with
     | none => []
     | some (dt, misc) => renderDoctype dt ++ renderLeaves misc)

theorem render_split (d : Doc) : render d = rootPrefix d ++ renderToks d.root.toks ++ renderLeaves d.post := by
  unfold render rootPrefix declText Doc.toks
  cases d.decl <;> cases d.doctype <;>
    simp [renderToks_append, renderToks_leaves, renderToks, renderTok, List.append_assoc]

theorem doc_shape (X M1 D b T a M2 : List Event) :
    ∃ b' a', Event.startDocument :: (X ++ M1 ++ D ++ (b ++ T ++ a) ++ M2 ++ [Event.endDocument]) = b' ++ T ++ a' :=
  ⟨.startDocument :: (X ++ M1 ++ D ++ b), a ++ M2 ++ [.endDocument], by simp⟩

/-- **line_numbers_spec.**  For every token `t` of the root element's token stream, at any position: the events the
    Spec emits for it are those computed at the position "document text before it", and the line they carry — the line
    after the token — is `lineOf` of the document text up to and including the token, i.e. 1 + the number of line ends of
    the §2.11-normalised text (SAX Locator convention). -/
theorem line_numbers_spec (d : Doc) (pre post : List Tok) (t : Tok) (h : d.root.toks = pre ++ t :: post) :
    (∃ before after ign, rawEvents d = before ++
        tokEvents (docCtx d) (expandEntity (docCtx d) (docCtx d).depth) true ign
          (LineSt.init.feed (docCtx d).v11 (rootPrefix d ++ renderToks pre)) t ++ after) ∧
    ((LineSt.init.feed (docCtx d).v11 (rootPrefix d ++ renderToks pre)).feed (docCtx d).v11 (renderTok t)).line =
      lineOf (docCtx d).v11 (rootPrefix d ++ renderToks pre ++ renderTok t) := by
  constructor
  · unfold rawEvents
    simp only
    -- the position before the root element
    have key : ∀ (st2 : LineSt), st2 = LineSt.init.feed (docCtx d).v11 (rootPrefix d) →
        ∀ (E : Str → Nat → List Event), ∃ b a ign, contentEvents (docCtx d) E true [] st2 d.root.toks =
          b ++ tokEvents (docCtx d) E true ign (LineSt.init.feed (docCtx d).v11 (rootPrefix d ++ renderToks pre)) t ++ a := by
      intro st2 hst E
      subst hst
      rw [h, contentEvents_append]
      simp only [if_true, contentEvents]
      have e1 : (LineSt.init.feed (docCtx d).v11 (rootPrefix d)).feed (docCtx d).v11 (renderToks pre) =
          LineSt.init.feed (docCtx d).v11 (rootPrefix d ++ renderToks pre) := (feed_append _ _ _ _).symm
      rw [e1]
      exact ⟨contentEvents (docCtx d) E true [] (LineSt.init.feed (docCtx d).v11 (rootPrefix d)) pre, _, _,
        by rw [List.append_assoc]⟩
    cases hdt : d.doctype with
    | none =>
      simp only
      obtain ⟨b, a, ign, hk⟩ := key ((LineSt.init.feed (docCtx d).v11 (declText d)).feed (docCtx d).v11 (renderLeaves d.pre))
        (by simp [rootPrefix, hdt, feed_append]) (expandEntity (docCtx d) (docCtx d).depth)
      rw [hk]
      obtain ⟨b', a', e⟩ := doc_shape (xmlDeclEvents d) (miscEvents (docCtx d) (LineSt.init.feed (docCtx d).v11 (declText d)) d.pre) [] b
        (tokEvents (docCtx d) (expandEntity (docCtx d) (docCtx d).depth) true ign
          (LineSt.init.feed (docCtx d).v11 (rootPrefix d ++ renderToks pre)) t) a
        (miscEvents (docCtx d) (((LineSt.init.feed (docCtx d).v11 (declText d)).feed (docCtx d).v11 (renderLeaves d.pre)).feed
          (docCtx d).v11 (renderToks d.root.toks)) d.post)
      exact ⟨b', a', ign, e⟩
    | some p =>
      obtain ⟨dt, misc⟩ := p
      simp only
      obtain ⟨b, a, ign, hk⟩ := key ((((LineSt.init.feed (docCtx d).v11 (declText d)).feed (docCtx d).v11 (renderLeaves d.pre)).feed
          (docCtx d).v11 (renderDoctype dt)).feed (docCtx d).v11 (renderLeaves misc))
        (by simp [rootPrefix, hdt, feed_append]) (expandEntity (docCtx d) (docCtx d).depth)
      rw [hk]
      obtain ⟨b', a', e⟩ := doc_shape (xmlDeclEvents d) (miscEvents (docCtx d) (LineSt.init.feed (docCtx d).v11 (declText d)) d.pre)
        (doctypeEvents (docCtx d) ((LineSt.init.feed (docCtx d).v11 (declText d)).feed (docCtx d).v11 (renderLeaves d.pre)) dt ++
          miscEvents (docCtx d) (((LineSt.init.feed (docCtx d).v11 (declText d)).feed (docCtx d).v11 (renderLeaves d.pre)).feed
            (docCtx d).v11 (renderDoctype dt)) misc) b
        (tokEvents (docCtx d) (expandEntity (docCtx d) (docCtx d).depth) true ign
          (LineSt.init.feed (docCtx d).v11 (rootPrefix d ++ renderToks pre)) t) a
        (miscEvents (docCtx d) (((((LineSt.init.feed (docCtx d).v11 (declText d)).feed (docCtx d).v11 (renderLeaves d.pre)).feed
          (docCtx d).v11 (renderDoctype dt)).feed (docCtx d).v11 (renderLeaves misc)).feed
          (docCtx d).v11 (renderToks d.root.toks)) d.post)
      exact ⟨b', a', ign, e⟩
  · rw [← feed_append, feed_init_line]

/-- the line of a start tag = 1 + the normalised line ends of the document text up to its `>` -/
theorem line_of_start_tag (d : Doc) (pre post : List Tok) (tg : Tag) (h : d.root.toks = pre ++ .stag tg :: post) :
    ∃ before after, rawEvents d = before ++ [Event.startElement tg.name (tagAttrs (docCtx d) true tg)
      (lineOf (docCtx d).v11 (rootPrefix d ++ renderToks pre ++ renderTok (.stag tg)))] ++ after := by
  obtain ⟨⟨b, a, ign, hr⟩, hl⟩ := line_numbers_spec d pre post (.stag tg) h
  refine ⟨b, a, ?_⟩
  rw [hr]
  simp only [tokEvents, if_true, hl]

theorem line_of_comment (d : Doc) (pre post : List Tok) (s : Str) (h : d.root.toks = pre ++ .leaf (.comment s) :: post) :
    ∃ before after, rawEvents d = before ++ [Event.comment (eol (docCtx d).v11 s)
      (lineOf (docCtx d).v11 (rootPrefix d ++ renderToks pre ++ renderTok (.leaf (.comment s))))] ++ after := by
  obtain ⟨⟨b, a, ign, hr⟩, hl⟩ := line_numbers_spec d pre post (.leaf (.comment s)) h
  refine ⟨b, a, ?_⟩
  rw [hr]
  simp only [tokEvents, if_true, hl]

theorem line_of_pi (d : Doc) (pre post : List Tok) (tg sp dt : Str) (h : d.root.toks = pre ++ .leaf (.pi tg sp dt) :: post) :
    ∃ before after, rawEvents d = before ++ [Event.pi tg (eol (docCtx d).v11 dt)
      (lineOf (docCtx d).v11 (rootPrefix d ++ renderToks pre ++ renderTok (.leaf (.pi tg sp dt))))] ++ after := by
  obtain ⟨⟨b, a, ign, hr⟩, hl⟩ := line_numbers_spec d pre post (.leaf (.pi tg sp dt)) h
  refine ⟨b, a, ?_⟩
  rw [hr]
  simp only [tokEvents, if_true, hl]




theorem close_not_open (e : Event) (h : e.isClose = true) : e.isOpen = false := by
  cases e <;> simp_all [Event.isOpen, Event.isClose]

theorem filterEvents_cons (f : Filter) (stack : List (Mode × Bool)) (e : Event) (es : List Event) :
    filterEvents f stack (e :: es) =
      if e.isOpen then
        (if (f.atOpen (modeOf stack) e).2 then [e] else []) ++ filterEvents f (f.atOpen (modeOf stack) e :: stack) es
      else if e.isClose then
        match stack with
        | [] => e :: filterEvents f [] es
        | (_, emit) :: rest => (if emit then [e] else []) ++ filterEvents f rest es
      else f.atAtom (modeOf stack) e ++ filterEvents f stack es := rfl

theorem filterEvents_close (f : Filter) (c : Event) (hc : c.isClose = true) (m : Mode) (emit : Bool)
    (stack : List (Mode × Bool)) (rest : List Event) :
    filterEvents f ((m, emit) :: stack) (c :: rest) = (if emit then [c] else []) ++ filterEvents f stack rest := by
  rw [filterEvents_cons]
  simp [close_not_open c hc, hc]

theorem filterEvents_atom (f : Filter) (e : Event) (h1 : e.isOpen = false) (h2 : e.isClose = false)
    (stack : List (Mode × Bool)) (rest : List Event) :
    filterEvents f stack (e :: rest) = f.atAtom (modeOf stack) e ++ filterEvents f stack rest := by
  rw [filterEvents_cons]
  simp [h1, h2]

theorem filterEvents_open (f : Filter) (e : Event) (h1 : e.isOpen = true)
    (stack : List (Mode × Bool)) (rest : List Event) :
    filterEvents f stack (e :: rest) =
      (if (f.atOpen (modeOf stack) e).2 then [e] else []) ++ filterEvents f (f.atOpen (modeOf stack) e :: stack) rest := by
  rw [filterEvents_cons]
  simp [h1]

theorem filterEvents_open_drop (f : Filter) (e : Event) (h1 : e.isOpen = true)
    (stack : List (Mode × Bool)) (hm : modeOf stack = .drop) (rest : List Event) :
    filterEvents f stack (e :: rest) = filterEvents f ((.drop, false) :: stack) rest := by
  rw [filterEvents_open f e h1, hm]
  simp [Filter.atOpen]

theorem filterEvents_open_copy (f : Filter) (e : Event) (h1 : e.isOpen = true)
    (stack : List (Mode × Bool)) (hm : modeOf stack = .copy) (rest : List Event) :
    filterEvents f stack (e :: rest) = e :: filterEvents f ((.copy, true) :: stack) rest := by
  rw [filterEvents_open f e h1, hm]
  simp [Filter.atOpen]

mutual
theorem drop_node (f : Filter) : (n : DNode) → wfNode n = true → ∀ stack, modeOf stack = .drop → ∀ rest,
    filterEvents f stack (n.walk ++ rest) = filterEvents f stack rest
  | .atom e, h => by
    intro stack hm rest
    simp only [wfNode, Bool.and_eq_true, Bool.not_eq_true'] at h
    simp only [DNode.walk, List.singleton_append]
    rw [filterEvents_atom f e h.1 h.2, hm]; rfl
  | .node o kids c, h => by
    intro stack hm rest
    simp only [wfNode, Bool.and_eq_true] at h
    simp only [DNode.walk, List.cons_append, List.append_assoc, List.singleton_append]
    rw [filterEvents_open_drop f o h.1.1 stack hm, drop_forest f kids h.2 _ rfl, filterEvents_close f c h.1.2]
    rfl
theorem drop_forest (f : Filter) : (ns : List DNode) → wfForest ns = true → ∀ stack, modeOf stack = .drop → ∀ rest,
    filterEvents f stack (DNode.walkL ns ++ rest) = filterEvents f stack rest
  | [], _ => by intro stack _ rest; rfl
  | n :: ns, h => by
    intro stack hm rest
    simp only [wfForest, Bool.and_eq_true] at h
    simp only [DNode.walkL, List.append_assoc]
    rw [drop_node f n h.1 stack hm, drop_forest f ns h.2 stack hm]
end

mutual
theorem copy_node (f : Filter) : (n : DNode) → wfNode n = true → ∀ stack, modeOf stack = .copy → ∀ rest,
    filterEvents f stack (n.walk ++ rest) = n.walk ++ filterEvents f stack rest
  | .atom e, h => by
    intro stack hm rest
    simp only [wfNode, Bool.and_eq_true, Bool.not_eq_true'] at h
    simp only [DNode.walk, List.singleton_append]
    rw [filterEvents_atom f e h.1 h.2, hm]; rfl
  | .node o kids c, h => by
    intro stack hm rest
    simp only [wfNode, Bool.and_eq_true] at h
    simp only [DNode.walk, List.cons_append, List.append_assoc, List.singleton_append]
    rw [filterEvents_open_copy f o h.1.1 stack hm, copy_forest f kids h.2 _ rfl, filterEvents_close f c h.1.2]
    simp
theorem copy_forest (f : Filter) : (ns : List DNode) → wfForest ns = true → ∀ stack, modeOf stack = .copy → ∀ rest,
    filterEvents f stack (DNode.walkL ns ++ rest) = DNode.walkL ns ++ filterEvents f stack rest
  | [], _ => by intro stack _ rest; rfl
  | n :: ns, h => by
    intro stack hm rest
    simp only [wfForest, Bool.and_eq_true] at h
    simp only [DNode.walkL, List.append_assoc]
    rw [copy_node f n h.1 stack hm, copy_forest f ns h.2 stack hm]
end

theorem walkL_append' (a b : List DNode) : DNode.walkL (a ++ b) = DNode.walkL a ++ DNode.walkL b := by
  induction a with
  | nil => simp [DNode.walkL]
  | cons n ns ih => simp [DNode.walkL, ih]

mutual
theorem filter_node (f : Filter) : (n : DNode) → wfNode n = true → ∀ stack, modeOf stack = .filter → ∀ rest,
    filterEvents f stack (n.walk ++ rest) = DNode.walkL (lsFilterNode f n) ++ filterEvents f stack rest
  | .atom e, h => by
    intro stack hm rest
    simp only [wfNode, Bool.and_eq_true, Bool.not_eq_true'] at h
    simp only [DNode.walk, List.singleton_append, lsFilterNode]
    rw [filterEvents_atom f e h.1 h.2, hm]
    by_cases ha : f.onAtom e = .accept <;> simp [ha, DNode.walkL, DNode.walk, Filter.atAtom]
  | .node o kids c, h => by
    intro stack hm rest
    simp only [wfNode, Bool.and_eq_true] at h
    obtain ⟨⟨ho, hc⟩, hk⟩ := h
    simp only [DNode.walk, List.cons_append, List.append_assoc, List.singleton_append]
    rw [filterEvents_open f o ho stack, hm]
    cases o with
    | startElement n as l =>
      obtain ⟨a, ha⟩ : ∃ a, f.onElement n = a := ⟨_, rfl⟩
      simp only [Filter.atOpen, lsFilterNode, ha]
      cases a with
      | accept =>
        simp only
        rw [filter_forest f kids hk _ rfl, filterEvents_close f c hc]
        simp [DNode.walkL, DNode.walk]
      | reject =>
        simp only
        rw [drop_forest f kids hk _ rfl, filterEvents_close f c hc]
        simp [DNode.walkL]
      | skip =>
        simp only
        rw [filter_forest f kids hk _ rfl, filterEvents_close f c hc]
        simp
    | startCDATA =>
      simp only [Filter.atOpen, lsFilterNode]
      by_cases ha : f.onCData = .accept
      · simp only [ha, if_true]
        rw [copy_forest f kids hk _ rfl, filterEvents_close f c hc]
        simp [DNode.walkL, DNode.walk]
      · simp only [ha, if_false]
        rw [drop_forest f kids hk _ rfl, filterEvents_close f c hc]
        simp [DNode.walkL]
    | doctype a b d =>
      simp only [Filter.atOpen, lsFilterNode]
      rw [copy_forest f kids hk _ rfl, filterEvents_close f c hc]
      simp [DNode.walkL, DNode.walk]
    | startDocument =>
      simp only [Filter.atOpen, lsFilterNode]
      rw [filter_forest f kids hk _ rfl, filterEvents_close f c hc]
      simp [DNode.walkL, DNode.walk]
    | startEntity n =>
      simp only [Filter.atOpen, lsFilterNode]
      rw [filter_forest f kids hk _ rfl, filterEvents_close f c hc]
      simp [DNode.walkL, DNode.walk]
    | _ => simp [Event.isOpen] at ho
theorem filter_forest (f : Filter) : (ns : List DNode) → wfForest ns = true → ∀ stack, modeOf stack = .filter → ∀ rest,
    filterEvents f stack (DNode.walkL ns ++ rest) = DNode.walkL (lsFilterL f ns) ++ filterEvents f stack rest
  | [], _ => by intro stack _ rest; rfl
  | n :: ns, h => by
    intro stack hm rest
    simp only [wfForest, Bool.and_eq_true] at h
    simp only [DNode.walkL, List.append_assoc, lsFilterL, walkL_append']
    rw [filter_node f n h.1 stack hm, filter_forest f ns h.2 stack hm]
end


/-! ### the property theorems that compose the parts -/

/-- **events_wellnested.**  The infoset of a well-formed document is a balanced event word: document, DOCTYPE, element,
    CDATA and entity brackets nest properly and element end events carry the name of their start event — also through
    entity expansions of any depth and after the merging of adjacent character data. -/
theorem events_wellnested (d : Doc) (h : WF d) : Balanced (infoset d) :=
  mergeChars_balanced (rawEvents_balanced d (wf_tagsMatch d h))

/-- **filter_spec.**  A DOMLSParserFilter applied to the tree (reject removes the subtree, skip splices the children in
    place, non-element nodes are dropped by kind, CDATA sections and the DOCTYPE are atomic) is the same as the
    corresponding surgery on the event word. -/
theorem filter_spec (f : Filter) (e : List Event) (h : Balanced e) :
    domWalk (lsFilter f (buildDom e)) = filterEvents f [] e := by
  have hw := dom_walk_build e h
  have hwf := buildDom_wf e h
  have := filter_forest f (buildDom e) hwf [] rfl []
  simp only [List.append_nil] at this
  unfold domWalk at hw
  unfold domWalk lsFilter
  rw [hw] at this
  rw [this]
  simp [filterEvents]

/-- **events_parse_render.**  Composition with C02: reading back the rendering of a well-formed tree and taking the
    infoset gives the infoset of the tree — what the reference processor reports for the text `render c` is
    `infoset c`, for every lexical variant `c`. -/
theorem events_parse_render (c : Doc) (hwf : WF c) (he : entOnlyDoc c = true) :
    (parse (render c)).map infoset = .ok (infoset c) := by
  rw [XV.Props.C02.parse_render c hwf he]; rfl

/-! ### non-vacuity: every theorem instantiated on non-trivial data, with the concrete values checked by evaluation -/

section Examples
open XV.Props.C02 (doc0 doc1)

-- §2.11: CR LF across a refill, CR CR LF, CR at the very end
example : readChars false 12 ['a', '\r'] [['\n', 'b', '\r'], ['\r', '\n'], ['\r']] = ['a', '\n', 'b', '\n', '\n', '\n'] := by decide
example : readChars false 12 ['a', '\r'] [['\n', 'b', '\r'], ['\r', '\n'], ['\r']] = eol false ("a\r\nb\r\r\n\r".toList) :=
  eol_model_eq_spec false 12 _ _ (by intro b hb; simp at hb; rcases hb with rfl | rfl | rfl <;> simp) (by decide)
example : eol false "\r\r\n".toList = "\n\n".toList ∧ eol false "x\r".toList = "x\n".toList ∧
    eol true ['\r', chNEL, chNEL, chLS, 'x'] = "\n\n\nx".toList ∧ eol false [chNEL, chLS] = [chNEL, chLS] := by decide
example : countLines true 9 ['\r'] [[chNEL, chLS], ['x', '\n']] 1 = 4 ∧ lineOf true ['\r', chNEL, chLS, 'x', '\n'] = 4 := by decide
example : countLines true 9 ['\r'] [[chNEL, chLS], ['x', '\n']] 1 = 1 + countLF (eol true (['\r'] ++ [[chNEL, chLS], ['x', '\n']].flatten)) :=
  eol_lines_model_eq_spec true 9 _ _ 1 (by intro b hb; simp at hb; rcases hb with rfl | rfl <;> simp) (by decide)
example : eol false (eol false "a\r\nb\r".toList) = eol false "a\r\nb\r".toList ∧ eol false "a\r\nb\r".toList ≠ "a\r\nb\r".toList :=
  ⟨eol_idempotent _ _, by decide⟩
example : (LineSt.init.feed false "a\r\nb\rc\n".toList).line = 4 ∧ lineOf false "a\r\nb\rc\n".toList = 4 := by decide

-- §3.3.3: ` &#10;x<TAB> &#32;y ` as NMTOKENS: the referenced LF survives, the referenced space collapses
def vEx : List VTok := [.lit ' ', .ref '\n', .lit 'x', .lit '\t', .lit ' ', .ref ' ', .lit 'y', .lit ' ']
theorem vEx_ok : litsOk false vEx := by
  intro c hc
  refine ⟨?_, fun h => by cases h⟩
  simp only [vEx, List.mem_cons, VTok.lit.injEq, List.mem_nil_iff, or_false] at hc
  rcases hc with rfl | h | rfl | rfl | rfl | h | rfl | rfl <;> first | decide | cases h
example : attNorm false vEx = "\nx y".toList ∧ attNorm true vEx = " \nx   y ".toList := by decide
example : normalizeAttValue true false XV.Gen.NormConsts.attNmTokens (encode vEx) = "\nx y".toList := by
  rw [attnorm_model_eq_spec false _ vEx vEx_ok]; decide
example : normalizeAttValue false false XV.Gen.NormConsts.attNmTokens (encode vEx) = "x y".toList := by decide   -- the code as it stands
example : normalizeAttRawValue false (encode vEx) = " \nx   y ".toList := by
  rw [attnorm_raw_model_eq_spec false vEx vEx_ok]; decide
example : attNorm false ((attNorm false vEx).map VTok.ref) = "\nx y".toList := by
  rw [attnorm_idempotent_tokenized]; decide
example : charRefUnits 0x1F600 = some (0xD83D, 0xDE00) ∧ charRefUnits 0x41 = some (0x41, 0) ∧ charRefUnits 0xFFFE = none := by decide
example : 0x10000 + (0xD83D - 0xD800) * 1024 + (0xDE00 - 0xDC00) = 0x1F600 := by
  have := charref_units_spec 0x1F600 0xD83D 0xDE00 (by decide); omega

-- the infoset of C02's example documents
set_option maxRecDepth 100000 in
example : infoset doc0 =
    [.startDocument, .xmlDecl "1.0".toList (some "UTF-8".toList) (some true), .comment ['c'] 2, .pi ['p'] ['d'] 3,
     .startElement ['a'] [⟨['b'], "x<A".toList, true, "CDATA".toList⟩] 3, .characters ['t'],
     .startElement "c:d".toList [] 3, .endElement "c:d".toList, .characters ['A'],
     .startCDATA, .characters "]]".toList, .endCDATA,
     .startElement ['e'] [] 3, .characters ['&'], .endElement ['e'], .endElement ['a'],
     .comment "-x".toList 3, .endDocument] := by decide +kernel
set_option maxRecDepth 100000 in
example : infoset doc1 =
    [.startDocument, .doctype ['a'] none none, .entityDecl ['e'] (.internal "<b>t&#60;</b>".toList), .comment ['c'] 2,
     .pi ['p'] [] 2, .entityDecl ['f'] (.internal "v&g;".toList), .entityDecl ['g'] (.internal "&#60;".toList), .endDoctype,
     .startElement ['a'] [⟨['x'], "v<".toList, true, "CDATA".toList⟩] 3,
     .startEntity ['e'], .startElement ['b'] [] 3, .characters "t<".toList, .endElement ['b'], .endEntity ['e'],
     .startEntity ['f'], .characters ['v'], .startEntity ['g'], .characters ['<'], .endEntity ['g'], .endEntity ['f'],
     .endElement ['a'], .endDocument] := by decide +kernel
example : Balanced (infoset doc1) := events_wellnested doc1 (by decide)
example : domWalk (buildDom (infoset doc1)) = infoset doc1 := dom_walk_build _ (events_wellnested doc1 (by decide))
set_option maxRecDepth 100000 in
example : (buildDom (infoset doc1)).length = 1 := by decide +kernel
example : erase (toSAX2 true (infoset doc0)) = toSAX1 (infoset doc0) := sax1_sax2_agree true _
set_option maxRecDepth 100000 in
example : toSAX1 (infoset doc1) =
    [.startDocument, .pi ['p'] [] 2, .startElement ['a'] [(['x'], "CDATA".toList, "v<".toList)] 3,
     .startElement ['b'] [] 3, .characters "t<".toList, .endElement ['b'], .characters "v<".toList, .endElement ['a'],
     .endDocument] := by decide +kernel
example : (pullAll (infoset doc1)).flatten = infoset doc1 := pull_eq_push _
set_option maxRecDepth 100000 in
example : (pullAll (infoset doc1)).length > 3 := by decide +kernel
-- a filter that rejects elements named b… and drops comments: acts inside the entity expansion of doc1
def fEx : Filter := ⟨fun n => if n.head? = some 'b' then .reject else .accept, .accept, .accept, .reject, .accept⟩
example : domWalk (lsFilter fEx (buildDom (infoset doc1))) = filterEvents fEx [] (infoset doc1) :=
  filter_spec fEx _ (events_wellnested doc1 (by decide))
set_option maxRecDepth 100000 in
example : (filterEvents fEx [] (infoset doc1)).length = 19 ∧ (infoset doc1).length = 22 := by decide +kernel
-- line numbers: doc0's root start tag is the first token of the root; its `>` is on line 3
example : ∃ before after, rawEvents doc0 = before ++ [Event.startElement ['a'] (tagAttrs (docCtx doc0) true ⟨['a'], [⟨[' '], ['b'], ⟨[], []⟩, .dq, [.ch 'x', .eref ['l', 't'], .cref ⟨false, ['6', '5']⟩]⟩], []⟩)
      (lineOf (docCtx doc0).v11 (rootPrefix doc0 ++ renderToks [] ++ renderTok (.stag ⟨['a'], [⟨[' '], ['b'], ⟨[], []⟩, .dq, [.ch 'x', .eref ['l', 't'], .cref ⟨false, ['6', '5']⟩]⟩], []⟩)))] ++ after :=
  line_of_start_tag doc0 [] _ _ rfl
set_option maxRecDepth 100000 in
example : lineOf false (rootPrefix doc0) = 3 := by decide +kernel
example : (parse (render doc1)).map infoset = .ok (infoset doc1) := events_parse_render doc1 (by decide) rfl
example : render doc0 = rootPrefix doc0 ++ renderToks doc0.root.toks ++ renderLeaves doc0.post := render_split doc0

end Examples

end XV.Props.C03
