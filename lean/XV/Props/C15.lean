/-
C15 — a parser's result is independent of its history; cached grammars are transparent.
Property theorems only (+ non-vacuity examples and the witnesses of the recorded defects).

Models: XV.Model.ParserState (parser object as a state machine over an abstract `World`), XV.Model.GrammarPool
(code-shaped XMLGrammarPoolImpl and GrammarResolver), XV.Gen.ScannerFields (GENERATED from the clang AST of the
scanner classes + the reviewed classification tools/c15_fields.json).

PARTIAL: what a scan does (`World.scan/next/load`) is an abstract parameter, so "validating with a cached grammar
gives the same verdicts/defaults/types as with the grammar inline" is NOT derivable here; it is tied by the
differential correspondence of tools/props/c15.py (the real parser against a freshly constructed one configured
with `cfgOf h` / `poolOf h` as computed by this model).
-/
import XV.Gen.ScannerFields
import XV.Gen.ParserFields
import XV.Lemmas.GrammarPool
import XV.Lemmas.ParserState
namespace XV.Props.C15
open XV.Model.GrammarPool XV.Model.ParserState XV.Lemmas.GrammarPool XV.Lemmas.ParserState
open XV.Gen.ScannerFields (ClassInfo classes fieldNames seqBumpedBy)

/-! ## 1. history independence -/

/-- For ALL histories `h` of operations on one parser object and every document `d`: what `parse d` delivers after
`h` is what a freshly constructed parser delivers that is configured with the last-writer-wins configuration
`cfgOf h` and sees the grammar pool `poolOf h` - provided scanReset is complete. -/
theorem history_independent (w : World) (rc : ResetComplete w) (h : List Op) (d : Doc) :
    lastObs (run w (h ++ [.parse d])) = .outcome (freshOutcome w (cfgOf w h) (poolOf w h) d .full) := by
  have := history_independent_mode rc h d .full
  unfold run at this ⊢
  rw [exec_snoc]
  simp only [step]
  rw [lastObs_of_log _ _ _ rfl, this]

/-- the same for a parse that is aborted by a handler exception at callback `k` … -/
theorem history_independent_throw (w : World) (rc : ResetComplete w) (h : List Op) (d : Doc) (k : Nat) :
    lastObs (run w (h ++ [.parseThrow d k])) = .outcome (freshOutcome w (cfgOf w h) (poolOf w h) d (.throwAt k)) := by
  have := history_independent_mode rc h d (.throwAt k)
  unfold run at this ⊢
  rw [exec_snoc]
  simp only [step]
  rw [lastObs_of_log _ _ _ rfl, this]

/-- … and for the first step of a progressive parse. -/
theorem history_independent_first (w : World) (rc : ResetComplete w) (h : List Op) (d : Doc) :
    ∃ ok, lastObs (run w (h ++ [.parseFirst d])) = .first (freshOutcome w (cfgOf w h) (poolOf w h) d .first) ok := by
  have := history_independent_mode rc h d .first
  unfold run at this ⊢
  rw [exec_snoc]
  simp only [step]
  exact ⟨_, by rw [lastObs_of_log _ _ _ rfl, this]⟩

/-- the whole observable state, not just the last outcome: the real machine (per-parse members persist) and the
reference machine (every scan starts from the per-parse state of a new scanner) coincide on every history -/
theorem real_eq_reference (w : World) (rc : ResetComplete w) (h : List Op) : run w h = runRef w h :=
  exec_ref rc h (fresh w)

/-! ## 2. reset_complete as a decided statement over generated data -/

/-- every data member of every scanner class is classified (a member added later breaks this) -/
theorem all_classified : ∀ c ∈ classes, ∀ f ∈ c.fields,
    f ∈ c.configFields ∨ f ∈ c.perParseFields ∨ f ∈ c.scratchFields := by decide

/-- every per-parse member is re-initialised by scanReset (assignment or reset-call in its closure), or is a reviewed
exception, or a recorded defect (`knownUnreset`: empty on the current tree; fReaderMgr until /repo 66d76a0, fXMLVersion
until c5d1395) -/
theorem reset_complete : ∀ c ∈ classes, ∀ f ∈ c.perParseFields,
    f ∈ c.resetAssigned ∨ f ∈ c.resetCalled ∨ f ∈ c.knownReinitialisedElsewhere ∨ f ∈ c.knownUnreset := by decide

/-- scanReset never assigns a configuration member a value computed from object state, except for the recorded
defect (`knownConfigOverwrite`: empty on the current tree; IGXMLScanner fSkipDTDValidation, DESIGN F11, until /repo 3eb9a2e) -/
theorem reset_touches_no_config : ∀ c ∈ classes, ∀ f ∈ c.configFields,
    f ∉ c.resetAssignedFromNonConfig ∨ f ∈ c.knownConfigOverwrite := by decide

/-- a member classified as configuration is written only by setters / at construction, never by scanning code -/
theorem config_justified : ∀ c ∈ classes, ∀ f ∈ c.configFields,
    f ∉ c.scanAssigned ∧ (f ∈ c.setterAssigned ∨ f ∈ c.ctorInit) := by decide

/-- the recorded defects are exactly what the code does: a listed exception that is no longer needed (because the
code was repaired) breaks this theorem, so the exception lists cannot go stale -/
theorem exceptions_exact : ∀ c ∈ classes,
    (∀ f ∈ c.knownUnreset, f ∈ c.perParseFields ∧ f ∉ c.resetAssigned ∧ f ∉ c.resetCalled) ∧
    (∀ f ∈ c.knownConfigOverwrite, f ∈ c.configFields ∧ f ∈ c.resetAssignedFromNonConfig) := by decide

/-- scanDocument (all four scanners), scanFirst and scanReset(token) increment fSequenceId -/
theorem seq_bumped_on_every_entry : ∀ e ∈ seqBumpedBy, e.2 = true := by decide

/-! ### from the decided field sets to `ResetComplete` -/

/-- a scanner class as a `World`: per-parse state = values of the members, scanReset assigns `resetVal` (a function
of the configuration only) to the members in `resetSet`; the scanning functions are arbitrary -/
def fieldWorld (fc : FieldClass) (resetVal : Config → Nat → Nat) (O : Type)
    (scan : Config → FState → PoolView → Doc → Mode → O × FState × PoolDelta × Bool)
    (next : Config → FState → PoolView → O × FState × PoolDelta)
    (load : Config → FState → PoolView → Gram → Bool → FState × Bool) : World where
  PerParse := FState
  Outcome := O
  cfg0 := fun _ => 0
  setter := fun k v c => upd c k v
  resetCfg := fc.resetCfg
  init := fun _ => 0
  reset := fc.reset resetVal
  scan := scan
  next := next
  abandon := id
  load := load

/-- if every per-parse member is in the reset set, the class is reset-complete - whatever the scanning code does -/
theorem field_reset_complete (fc : FieldClass) (resetVal O scan next load)
    (h : ∀ f ∈ fc.perParse, f ∈ fc.resetSet) : ResetComplete (fieldWorld fc resetVal O scan next load) := by
  refine ⟨?_, ?_, ?_⟩
  · intro c pp; funext f
    simp only [fieldWorld, FieldClass.reset]
    by_cases hf : f ∈ fc.perParse
    · simp [hf, h f hf]
    · simp [hf]
  · intro c; funext k
    simp only [fieldWorld, FieldClass.resetCfg]
    split <;> simp_all
  · intro k v c; funext k'
    simp only [fieldWorld, FieldClass.resetCfg, upd]
    split
    · rfl
    · rename_i hn; simp [hn]

/-- … and conversely one per-parse member outside the reset set makes it history dependent -/
theorem field_reset_incomplete (fc : FieldClass) (resetVal O scan next load)
    (f : Nat) (hp : f ∈ fc.perParse) (hn : f ∉ fc.resetSet) :
    ¬ ResetComplete (fieldWorld fc resetVal O scan next load) := by
  intro rc
  have := congrFun (rc.perParse (fun _ => 0) (fun _ => 1)) f
  simp [fieldWorld, FieldClass.reset, hp, hn] at this

/-- the class as generated; `repaired` adds the recorded defects to the reset set -/
def toFieldClass (c : ClassInfo) (repaired : Bool) : FieldClass where
  perParse := c.perParseFields
  config := c.configFields
  resetSet := c.resetAssigned ++ c.resetCalled ++ c.knownReinitialisedElsewhere ++ (if repaired then c.knownUnreset else [])
  constCfg := (c.configFields.filter (fun f => c.resetAssigned.contains f && !c.resetAssignedFromNonConfig.contains f)).map (fun f => (f, 1))

/-- every scanner class, with the recorded defects repaired, is reset-complete (so `history_independent` applies to
it for every scanning behaviour) … -/
theorem classes_reset_complete_after_repair (resetVal O scan next load) : ∀ c ∈ classes,
    ResetComplete (fieldWorld (toFieldClass c true) resetVal O scan next load) := by
  intro c hc
  apply field_reset_complete
  intro f hf
  have := reset_complete c hc f hf
  simp only [toFieldClass, if_true, List.mem_append]
  rcases this with h | h | h | h
  · exact Or.inl (Or.inl (Or.inl h))
  · exact Or.inl (Or.inl (Or.inr h))
  · exact Or.inl (Or.inr h)
  · exact Or.inr h

/-- … and on the current tree (after /repo 66d76a0 "every scan must start from an empty reader manager" and c5d1395) no
exception is needed any more: every scanner class AS GENERATED is reset-complete, so `history_independent` applies to
each of them whatever the scanning code does.  (Before those repairs the unreset members fReaderMgr / fXMLVersion made
every class history dependent; `field_reset_incomplete` is the general statement.) -/
theorem classes_reset_complete (resetVal O scan next load) : ∀ c ∈ classes,
    ResetComplete (fieldWorld (toFieldClass c false) resetVal O scan next load) := by
  intro c hc
  have hk : ∀ c ∈ classes, c.knownUnreset = [] := by decide
  apply field_reset_complete
  intro f hf
  have := reset_complete c hc f hf
  rw [hk c hc] at this
  simp only [toFieldClass, List.mem_append]
  rcases this with h | h | h | h
  · exact Or.inl (Or.inl (Or.inl h))
  · exact Or.inl (Or.inl (Or.inr h))
  · exact Or.inl (Or.inr h)
  · exact absurd h (by simp)

/-! ### the parser classes (AbstractDOMParser → XercesDOMParser / DOMLSParserImpl, SAXParser, SAX2XMLReaderImpl)

The same kind of decided statements over `XV.Gen.ParserFields` (clang AST + tools/c15_parser_fields.json): the parser objects keep
state of their own between the scanner's callbacks (fInternalSubset, fCurrentParent, fWithinElement, fDocumentAdoptedByUser,
fElemDepth, fPrefixes, fPrefixCounts, …), and the scanner announces a new document to them with resetDocument() / resetDocType().
(C01's `domParser_reset_complete` covers the raw DOM pointers of AbstractDOMParser only.) -/
namespace Parsers
open XV.Gen.ParserFields (PClassInfo fieldId XercesDOMParser DOMLSParserImpl)
abbrev pclasses := XV.Gen.ParserFields.classes

/-- every data member of every parser class is classified (a member added later breaks this) -/
theorem parser_all_classified : ∀ c ∈ pclasses, ∀ f ∈ c.fields,
    f ∈ c.configFields ∨ f ∈ c.perParseFields ∨ f ∈ c.scratchFields := by decide

/-- every per-parse member is re-initialised by the reset events (resetDocument()/resetDocType() and their same-object callees:
assignment or reset*/removeAll*/clear*/flush* call), or at the start of every parse entry point (DOMLSParserImpl's filter
tables), or is a reviewed exception.  Moving `fInternalSubset.reset()` out of AbstractDOMParser::reset() breaks this. -/
theorem parser_reset_complete : ∀ c ∈ pclasses, ∀ f ∈ c.perParseFields,
    f ∈ c.resetAssigned ∨ f ∈ c.resetCalled ∨ f ∈ c.entryReset ∨ f ∈ c.knownReinitialisedElsewhere := by decide

/-- configuration members are not assigned by the reset events nor (reviewed exceptions apart) by callbacks / parse code, and
each has a setter or is fixed at construction -/
theorem parser_config_justified : ∀ c ∈ pclasses, ∀ f ∈ c.configFields,
    f ∉ c.resetAssigned ∧ (f ∉ c.otherAssigned ∨ f ∈ c.configWrittenElsewhere) ∧ (f ∈ c.setterAssigned ∨ f ∈ c.ctorInit) := by decide

/-- the reviewed exceptions are all needed (an exception that the code no longer requires breaks this, so the lists stay exact) -/
theorem parser_exceptions_exact : ∀ c ∈ pclasses,
    (∀ f ∈ c.knownReinitialisedElsewhere, f ∈ c.perParseFields ∧ f ∉ c.resetAssigned ∧ f ∉ c.resetCalled ∧ f ∉ c.entryReset) ∧
    (∀ f ∈ c.configWrittenElsewhere, f ∈ c.configFields ∧ f ∈ c.otherAssigned) := by decide

/-- with the reset events as `World.reset`, the parser object's own per-parse members satisfy `ResetComplete` too, so
`history_independent` covers what the parser classes keep between callbacks (exceptions as reviewed) -/
def toFieldClassP (c : PClassInfo) : FieldClass where
  perParse := c.perParseFields
  config := c.configFields
  resetSet := c.resetAssigned ++ c.resetCalled ++ c.entryReset ++ c.knownReinitialisedElsewhere
  constCfg := []

theorem parser_classes_reset_complete (resetVal O scan next load) : ∀ c ∈ pclasses,
    ResetComplete (fieldWorld (toFieldClassP c) resetVal O scan next load) := by
  intro c hc
  apply field_reset_complete
  intro f hf
  have := parser_reset_complete c hc f hf
  simp only [toFieldClassP, List.mem_append]
  rcases this with h | h | h | h
  · exact Or.inl (Or.inl (Or.inl h))
  · exact Or.inl (Or.inl (Or.inr h))
  · exact Or.inl (Or.inr h)
  · exact Or.inr h

example : pclasses.length = 4 ∧ (pclasses.map (·.perParseFields.length)) = [10, 15, 2, 6] := by decide
example : fieldId "fInternalSubset" ∈ XercesDOMParser.resetCalled ∧ fieldId "fInternalSubset" ∈ DOMLSParserImpl.perParseFields := by decide

end Parsers

/-! ### DESIGN F11: `fSkipDTDValidation = fSkipDTDValidation && fDoSchema`, the statement IGXMLScanner::scanReset contained
until /repo 3eb9a2e.  The two theorems are facts about a World of that OLD shape (they do not depend on generated data): they
show why `reset_touches_no_config` forbids such an assignment. -/

/-- key 0 = skip-DTD-validation, key 1 = do-schema; a scan reports the value of the flag it ran with -/
def f11World : World where
  PerParse := Unit
  Outcome := Nat
  cfg0 := fun _ => 0
  setter := fun k v c => upd c k v
  resetCfg := fun c => upd c 0 (if c 0 != 0 && c 1 != 0 then 1 else 0)
  init := ()
  reset := fun _ _ => ()
  scan := fun c _ _ _ _ => (c 0, (), [], true)
  next := fun c _ _ => (c 0, (), [])
  abandon := id
  load := fun _ _ _ _ _ => ((), true)

/-- a two-parse history exposes it: set skip-DTD-validation, parse once with schema processing off, switch schema
processing on: the second parse runs with the flag cleared, a fresh parser with the same settings runs with it set. -/
theorem f11_history_dependent :
    let h : List Op := [.set 0 1, .parse 7, .set 1 1]
    @Eq Nat (startScan false (run f11World h) 8 .full).2.1 0 ∧
    @Eq Nat (freshOutcome f11World (cfgOf f11World h) (poolOf f11World h) 8 .full) 1 := by
  exact ⟨rfl, rfl⟩

theorem f11_not_reset_complete : ¬ ResetComplete f11World := by
  intro rc
  have := congrFun (rc.absorbed 1 1 (fun k => if k = 0 then 1 else 0)) 0
  revert this; decide

/-! ## 3. progressive-scan tokens -/

/-- A token handed out by `parseFirst` is rejected (RuntimeException Scan_BadPScanToken) by `parseNext` and by
`parseReset` once any later operation started another scan or replaced the scanner - for every world, every history
before, every history after of fewer than 2^32 operations (fSequenceId is an XMLUInt32 and wraps). -/
theorem stale_token_rejected (w : World) (h1 h2 : List Op) (d : Doc)
    (hinv : h2.any invalidates = true) (hlen : h2.length < seqMod) :
    let t := (run w h1).tokens.length
    lastObs (run w (h1 ++ [.parseFirst d] ++ h2 ++ [.parseNext t])) = .rejected ∧
    lastObs (run w (h1 ++ [.parseFirst d] ++ h2 ++ [.parseReset t])) = .rejected := by
  intro t
  have hi : TokInv (run w (h1 ++ [.parseFirst d])) := exec_tokInv false _ _ (fresh_tokInv w)
  obtain ⟨tok, ht, hk⟩ := parseFirst_token false (run w h1) d
  have e1 : run w (h1 ++ [.parseFirst d]) = step false (run w h1) (.parseFirst d) := by
    unfold run; rw [exec_snoc]
  have := stale_rejected_core false (run w (h1 ++ [.parseFirst d])) hi (run w h1).tokens tok
    (by rw [e1]; exact ht) (by rw [e1]; exact hk) h2 hinv hlen
  unfold run at this ⊢
  simp only [exec_append] at this ⊢
  exact this

/-- a successful `parseReset` itself invalidates the token it was given -/
theorem token_dead_after_reset (w : World) (p : Parser w) (hi : TokInv p) (tok : Token) (h : isLegalToken p tok = true) :
    isLegalToken (bump p) tok = false := by
  obtain ⟨_, _, hs⟩ := hi
  simp only [isLegalToken, bump, Bool.and_eq_true, beq_iff_eq] at h ⊢
  obtain ⟨_, h2⟩ := h
  have : (p.seq + 1) % seqMod ≠ tok.seq := by rw [← h2, hs]; simp only [seqMod]; omega
  simp [this]

/-! ## 4. adopted documents -/

/-- For every history, and also after the parser is destroyed: no document handed to the user by adoptDocument() is
ever released by the parser (resetDocumentPool, later parses, the destructor). -/
theorem adopted_docs_intact (w : World) (h : List Op) :
    (∀ d ∈ (run w h).docs.adopted, d ∉ (run w h).docs.released) ∧
    (∀ d ∈ (run w h).docs.destroy.adopted, d ∉ (run w h).docs.destroy.released) := by
  have hi : DocInv (run w h).docs := exec_docInv false h (fresh w) docInv_init
  exact ⟨fun d hd => (hi.adopted d hd).1, fun d hd => (hi.resetPool.adopted d hd).1⟩

/-! ## 5. grammar pool -/

/-- `locked p → ∀ ops, registry (run ops p) = registry p` (ops other than unlockPool), also the URI string pool -/
theorem locked_pool_frozen (p : Pool) (hl : p.locked = true) (ops : List PoolOp) (hu : ∀ op ∈ ops, op ≠ .unlock) :
    (runOps ops p).registry = p.registry ∧ (runOps ops p).strings = p.strings ∧ (runOps ops p).locked = true :=
  let h := runOps_locked ops p hl hu; ⟨h.2.1, h.2.2, h.1⟩

theorem cache_then_retrieve (p : Pool) (g : Gram) (hl : p.locked = false) (hn : retrieveGrammar p g.key = none) :
    (cacheGrammar p (some g)).2 = true ∧ retrieveGrammar (cacheGrammar p (some g)).1 g.key = some g ∧
    ∀ k, k ≠ g.key → retrieveGrammar (cacheGrammar p (some g)).1 k = retrieveGrammar p k :=
  XV.Lemmas.GrammarPool.cache_then_retrieve p g hl hn

/-- a second grammar with a key that is already cached is refused and changes nothing -/
theorem cache_existing_rejected (p : Pool) (g : Gram) (h : (retrieveGrammar p g.key).isSome) :
    cacheGrammar p (some g) = (p, false) :=
  XV.Lemmas.GrammarPool.cache_existing_rejected p g h

theorem orphan_removes (p : Pool) (k : Nat) (hl : p.locked = false) :
    (orphanGrammar p k).2 = retrieveGrammar p k ∧ retrieveGrammar (orphanGrammar p k).1 k = none ∧
    ∀ k', k' ≠ k → retrieveGrammar (orphanGrammar p k).1 k' = retrieveGrammar p k' :=
  XV.Lemmas.GrammarPool.orphan_removes p k hl

theorem clear_noop_when_locked (p : Pool) (hl : p.locked = true) : clear p = (p, false) :=
  XV.Lemmas.GrammarPool.clear_noop_when_locked p hl

/-- GrammarResolver: no sequence of resolver operations (getGrammar, putGrammar, cacheGrammars, reset,
resetCachedGrammar, orphanGrammar, flag changes, pool operations other than unlock) changes a locked pool -/
theorem resolver_locked_pool_frozen (r : Resolver) (hl : r.pool.locked = true) (ops : List ResOp)
    (hu : ∀ op ∈ ops, op ≠ .pool .unlock) :
    (runResOps ops r).pool.registry = r.pool.registry ∧ (runResOps ops r).pool.strings = r.pool.strings :=
  let h := runResOps_frozen ops r hl hu; ⟨h.2.1, h.2.2⟩

/-- lookup order of GrammarResolver::getGrammar -/
theorem resolver_lookup_order (r : Resolver) (k : Nat) :
    (∀ g, tblGet r.bucket k = some g → (getGrammar r k).2 = some g) ∧
    (tblGet r.bucket k = none → r.useCached = false → (getGrammar r k).2 = none) ∧
    (tblGet r.bucket k = none → r.useCached = true → tblGet r.fromPool k = none →
      (getGrammar r k).2 = retrieveGrammar r.pool k) :=
  ⟨fun g h => getGrammar_bucket_first r k g h, getGrammar_no_cache r k, getGrammar_from_pool r k⟩

/-- the parser object as a whole: whatever it is asked to do (parses that would cache grammars, loadGrammar with
toCache, resetCachedGrammarPool, …), short of unlockPool, a locked pool stays exactly as it was -/
theorem parser_locked_pool_frozen (w : World) (h1 h2 : List Op) (hl : (run w h1).res.pool.locked = true)
    (hu : ∀ op ∈ h2, op ≠ .unlock) : (run w (h1 ++ h2)).res.pool = (run w h1).res.pool := by
  unfold run at hl ⊢
  rw [exec_append]
  exact exec_frozen false h2 _ hl hu

/-! ## Non-vacuity -/

/-- a small world that satisfies `ResetComplete` non-trivially: per-parse state counts callbacks and is wiped by
scanReset; an outcome is (validation flag the scan ran with, number of cached grammars it saw, document, per-parse
state it started from) -/
def toyWorld : World where
  PerParse := Nat
  Outcome := Nat × Nat × Nat × Nat
  cfg0 := fun _ => 0
  setter := fun k v c => upd c k v
  resetCfg := id
  init := 5
  reset := fun _ _ => 0
  scan := fun c pp v d _ => ((c 3, v.grammars.length, d, pp), pp + d + 1, [⟨d, false, d⟩], true)
  next := fun c pp v => ((c 3, v.grammars.length, 0, pp), pp + 1, [])
  abandon := id
  load := fun _ pp _ _ _ => (pp + 100, true)

theorem toy_reset_complete : ResetComplete toyWorld := ⟨fun _ _ => rfl, fun _ => rfl, fun _ _ _ => rfl⟩

/-- a history with feature changes, a caching parse, an exception-aborted parse, an abandoned progressive parse … -/
def toyHist : List Op :=
  [.set 3 1, .set kCache 1, .set kUse 1, .parse 4, .set 3 0, .parseThrow 2 1, .parseFirst 9, .parseNext 0, .set 3 1,
   .loadGrammar ⟨77, true, 1⟩ true, .lock, .parse 6]

example : lastObs (run toyWorld (toyHist ++ [.parse 8])) = .outcome ((1, 4, 8, 0) : Nat × Nat × Nat × Nat) := by
  rw [history_independent toyWorld toy_reset_complete]; rfl
example : (poolOf toyWorld toyHist).pool.registry.map (·.key) = [4, 2, 9, 77] := by decide
example : (cfgOf toyWorld toyHist) 3 = 1 ∧ (cfgOf toyWorld toyHist) kCache = 1 := by decide

/-- stale tokens: the hypotheses of `stale_token_rejected` are satisfiable, and a *live* token is accepted -/
example : ([Op.set 3 1, .parse 4] : List Op).any invalidates = true ∧ ([Op.set 3 1, .parse 4] : List Op).length < seqMod := by decide
example : @Eq Nat (run toyWorld [.parseFirst 9, .parseNext 0]).perParse 11 := rfl     -- accepted: the scan advanced
example : @Eq Nat (run toyWorld [.parseFirst 9, .parse 1, .parseNext 0]).perParse 2 := rfl  -- rejected: state untouched

/-- adopted documents: documents 0 and 2 are adopted, 1 and 3 are released, 0 and 2 never -/
example : (run toyWorld [.parse 1, .adopt, .parse 2, .parse 3, .adopt, .resetDocPool, .parse 4]).docs.destroy.adopted = [2, 0] ∧
    (run toyWorld [.parse 1, .adopt, .parse 2, .parse 3, .adopt, .resetDocPool, .parse 4]).docs.destroy.released = [1, 3] := by decide

/-- grammar pool -/
example : (runOps [.cache ⟨1, true, 10⟩, .lock, .cache ⟨2, false, 11⟩, .orphan 1, .clear, .addURI 5] {}).registry = [⟨1, true, 10⟩] := by decide
example : retrieveGrammar (cacheGrammar {} (some ⟨1, true, 10⟩)).1 1 = some ⟨1, true, 10⟩ := by decide
example : (orphanGrammar (cacheGrammar {} (some ⟨1, true, 10⟩)).1 1).2 = some ⟨1, true, 10⟩ := by decide
example : clear (lockPool (cacheGrammar {} (some ⟨1, true, 10⟩)).1) = (lockPool (cacheGrammar {} (some ⟨1, true, 10⟩)).1, false) := by decide
example : (run toyWorld [.set kCache 1, .set kUse 1, .parse 4, .lock]).res.pool.locked = true := by decide
/-- generated data is not trivial -/
example : classes.length = 4 ∧ (classes.map (·.perParseFields.length)).all (· ≥ 20) = true := by decide
example : (classes.map (·.knownUnreset.length)) = [0, 0, 0, 0] ∧ (classes.map (·.knownConfigOverwrite.length)) = [0, 0, 0, 0] := by decide

end XV.Props.C15
