/-
C20 — XInclude processing yields the specified merged tree and detects inclusion loops.

Objects
  XV.Spec.XInclude    `substitute` (the declarative merged tree with resolved base URIs), `edges`/`Reach`/`Acyclic`
                      (the inclusion graph of live includes), `resolve` (RFC 2396 §5.2 on segment lists).
  XV.Model.XInclude   `process`: code-shaped model of XIncludeUtils::parseDOMNodeDoingXInclude / doDOMNodeXInclude /
                      doXIncludeXMLFileDOM / doXIncludeTEXTFileDOM with the inclusion-history stack, the fallback rules,
                      the error codes of XMLErrs (XV.Gen.XIncludeErrs, regenerated from XMLErrorCodes.hpp) and the
                      xml:base fix-ups (XIncludeLocation::prependPath).
All statements are unbounded: every finite file map, every document shape, every history.

  resolve_prependPath            RFC 2396 composition law behind every fix-up
  base_fixup_preserves_targets   an included document element / a fallback child keeps its base URI, hence every relative
                                 reference inside resolves to the same target as in its source document
  process_total                  the recursion budget `files + 1` is never exhausted (each nested level pushes a new, distinct,
                                 existing document on the history stack), and any larger budget gives the same result:
                                 `process` terminates on EVERY file map, cyclic or not, with work bounded by the stack
  acyclic_eq_subst               no loop reachable ⇒ tree (incl. every resolved base) = `substitute`, error classes = the Spec's
  cycle_reported                 a loop reachable through live includes ⇒ a fatal circular-inclusion error is reported
  self_include_reported          the document includes itself ⇒ XIncludeCircularInclusionDocIncludesSelf (fatal)
  fallback_spec                  resource not obtainable: with xi:fallback its processed children (in the include's base context)
                                 replace the include and nothing fatal is added; without, XIncludeIncludeFailedNoFallback (fatal)
  invalid_usage_reported         each invalid usage is answered with its specific fatal code and the element is left alone
-/
import XV.Lemmas.XInclude

namespace XV.Props.C20
open XV.Spec.XInclude XV.Model.XInclude XV.Lemmas.XInclude
open XV.Gen.XIncludeErrs

/-! ### xml:base fix-up -/

/-- RFC 2396 §5.2: resolving `r` against (`p` resolved against `pb`) = resolving "`p` up to its last `/`, then `r`"
    against `pb`.  For all bases and references, including `..`, `.`, empty ones and ones that climb above the root. -/
theorem resolve_prependPath (pb : URI) (p r : Ref) : resolve pb (prependPath p r) = resolve (resolve pb p) r :=
  XV.Lemmas.XInclude.resolve_prependPath pb p r

/-- base URI of a top-level element of the included document (own xml:base `own`) inside its own document -/
def baseBefore (target : URI) (own : Base) : URI := resolveBase target own

/-- its base URI after it has replaced an `xi:include` (own xml:base `ib`, attribute `href`) that sits in a context with base
    `pb`: the fix-up writes `inclPre ib href` (= `relativeHref`), combined with `own` by `applyPre` (`prependPath`) -/
def baseAfter (pb : URI) (ib : Base) (href : Ref) (own : Base) : URI := resolveBase pb (applyPre (inclPre ib href) own)

/-- a child of `xi:fallback` (own xml:base `own`): base in the source / after it replaced the include -/
def fbBaseBefore (pb : URI) (ib : Base) (own : Base) : URI := resolveBase (resolveBase pb ib) own
def fbBaseAfter (pb : URI) (ib : Base) (own : Base) : URI := resolveBase pb (applyPre ib own)

theorem base_fixup_preserves_targets (pb : URI) (ib : Base) (href : Ref) (own : Base) (r : Ref) :
    resolve (baseAfter pb ib href own) r = resolve (baseBefore (targetOf pb ib href) own) r ∧
    resolve (fbBaseAfter pb ib own) r = resolve (fbBaseBefore pb ib own) r := by
  unfold baseAfter baseBefore fbBaseAfter fbBaseBefore targetOf
  rw [resolveBase_applyPre, resolveBase_inclPre, resolveBase_applyPre]
  exact ⟨rfl, rfl⟩

-- non-vacuity: include with xml:base="d1/" href="../d2/b.xml" written in w/a.xml; the included element has xml:base="d3/";
-- `pic.png` inside it is w/d2/d3/pic.png before and after (the pinned code yields w/d1/d3/pic.png: finding D2)
example : resolve (baseAfter ["w", "a.xml"] (.rel ["d1", ""]) ["..", "d2", "b.xml"] (.rel ["d3", ""])) ["pic.png"]
    = ["w", "d2", "d3", "pic.png"] := by decide
example : resolve (baseBefore (targetOf ["w", "a.xml"] (.rel ["d1", ""]) ["..", "d2", "b.xml"]) (.rel ["d3", ""])) ["pic.png"]
    = ["w", "d2", "d3", "pic.png"] := by decide
example : resolve ["w", "a.xml"] (prependPath ["d1", "x", "..", ""] ["..", "..", "b.xml"]) = ["b.xml"] := by decide

/-! ### termination -/

theorem process_total (fs : FS) (root : URI) :
    outOfFuel ∉ (process fs root).errs ∧
    (∀ c, c ∈ (process fs root).errs → classOf c ≠ some .fuel) ∧
    (∀ (k : Nat) (d : List Node), fs.doc root = some d →
        procFuel fs root (budget fs + k) [] root .inherit d = process fs root) := by
  have h1 : outOfFuel ∉ (process fs root).errs := by
    unfold process
    cases hd : fs.doc root with
    | none => simp
    | some d => exact noFuel_procFuel fs root (budget fs) [] (by simpa using inv_init fs 0) root .inherit d
  refine ⟨h1, ?_, ?_⟩
  · intro c hc hcl
    have : c = outOfFuel := by
      unfold classOf at hcl
      split at hcl; · simp at hcl
      split at hcl; · simp at hcl
      split at hcl; · simp at hcl
      split at hcl
      · assumption
      · simp at hcl
    exact h1 (this ▸ hc)
  · intro k d hd
    unfold process; rw [hd]
    exact fuelIndep fs root (budget fs + k) (budget fs) [] (inv_init fs k) (by simpa using inv_init fs 0) root .inherit d

/-! ### acyclic maps: the specified merged tree -/

theorem acyclic_eq_subst (fs : FS) (root : URI) (hacyc : Acyclic fs root) :
    (process fs root).nodes = (substitute fs root).nodes ∧
    (process fs root).errs.filterMap classOf = (substitute fs root).errs := by
  unfold process substitute
  cases hd : fs.doc root with
  | none => exact ⟨rfl, rfl⟩
  | some d =>
    have hnc : NoCirc (procFuel fs root (budget fs) [] root .inherit d).errs :=
      noCirc_procFuel fs root hacyc ⟨d, hd⟩ (budget fs) [] root (by simp) (by
        intro x hx; rcases hx with hx | rfl
        · simp at hx
        · exact .refl _) root .inherit d (by
        rw [resolveBase_inherit, edges_of_doc hd]; intro v hv; exact hv)
    have hnf := noFuel_procFuel fs root (budget fs) [] (by simpa using inv_init fs 0) root .inherit d
    have := sim_procFuel fs root (budget fs) [] root .inherit d ⟨hnc.1, hnc.2, hnf⟩
    rw [resolveBase_inherit] at this
    exact this

/-- consequences: on an acyclic map nothing circular is reported and the Spec's own budget suffices -/
theorem acyclic_no_circular (fs : FS) (root : URI) (hacyc : Acyclic fs root) :
    ErrClass.circular ∉ (substitute fs root).errs ∧ ErrClass.fuel ∉ (substitute fs root).errs ∧
    XIncludeCircularInclusionLoop ∉ (process fs root).errs ∧ XIncludeCircularInclusionDocIncludesSelf ∉ (process fs root).errs := by
  have h := (acyclic_eq_subst fs root hacyc).2
  have hnc : NoCirc (process fs root).errs := by
    unfold process
    cases hd : fs.doc root with
    | none => simp [NoCirc]
    | some d =>
      exact noCirc_procFuel fs root hacyc ⟨d, hd⟩ (budget fs) [] root (by simp) (by
        intro x hx; rcases hx with hx | rfl
        · simp at hx
        · exact .refl _) root .inherit d (by
        rw [resolveBase_inherit, edges_of_doc hd]; intro v hv; exact hv)
  have key : ∀ cl, cl ∈ (substitute fs root).errs → ∃ c, c ∈ (process fs root).errs ∧ classOf c = some cl := by
    intro cl hcl
    rw [← h] at hcl
    obtain ⟨c, hc, hcc⟩ := List.mem_filterMap.mp hcl
    exact ⟨c, hc, hcc⟩
  refine ⟨?_, ?_, hnc.1, hnc.2⟩
  · intro hin
    obtain ⟨c, hc, hcc⟩ := key _ hin
    unfold classOf at hcc
    split at hcc
    · next h1 => rcases h1 with rfl | rfl; exact hnc.1 hc; exact hnc.2 hc
    · split at hcc; · simp at hcc
      split at hcc; · simp at hcc
      split at hcc <;> simp at hcc
  · intro hin
    obtain ⟨c, hc, hcc⟩ := key _ hin
    exact (process_total fs root).2.1 c hc hcc

/-! ### cyclic maps: the loop is reported -/

theorem cycle_reported (fs : FS) (root u : URI) (hreach : Reach fs root u)
    (hcyc : ∃ w, w ∈ edges fs u ∧ Reach fs w u) :
    ∃ c, c ∈ (process fs root).errs ∧ classOf c = some .circular ∧ severity c = 'F' := by
  obtain ⟨w, hw, hwu⟩ := hcyc
  cases hd : fs.doc root with
  | none =>
    exfalso
    have he : edges fs root = [] := by unfold edges; rw [hd]
    cases hreach with
    | refl => rw [he] at hw; simp at hw
    | step e _ => rw [he] at e; simp at e
  | some d =>
    have hcirc : ¬ NoCirc (process fs root).errs := by
      intro hn
      have hg : Good fs root root [root] := by
        refine ⟨fs.length, [], root, .inherit, d, by simpa [budget] using inv_init fs 0, by simp, ?_, ?_, ?_⟩
        · intro x hx; right; simpa using hx
        · rw [resolveBase_inherit, edges_of_doc hd]; intro v hv; exact hv
        · unfold process at hn; rw [hd] at hn; exact hn
      obtain ⟨S, hgu⟩ := good_reach hreach hg
      have hin : u ∈ S := by obtain ⟨_, _, _, _, _, _, hin, _⟩ := hgu; exact hin
      exact good_reach_notin hwu hgu hw hin
    unfold NoCirc at hcirc
    by_cases h1 : XIncludeCircularInclusionLoop ∈ (process fs root).errs
    · exact ⟨_, h1, by decide, by decide⟩
    · by_cases h2 : XIncludeCircularInclusionDocIncludesSelf ∈ (process fs root).errs
      · exact ⟨_, h2, by decide, by decide⟩
      · exact absurd ⟨h1, h2⟩ hcirc

theorem self_include_reported (fs : FS) (root : URI) (hself : root ∈ edges fs root) :
    XIncludeCircularInclusionDocIncludesSelf ∈ (process fs root).errs ∧
    classOf XIncludeCircularInclusionDocIncludesSelf = some .circular ∧
    severity XIncludeCircularInclusionDocIncludesSelf = 'F' := by
  refine ⟨?_, by decide, by decide⟩
  unfold process
  cases hd : fs.doc root with
  | none => unfold edges at hself; rw [hd] at hself; simp at hself
  | some d =>
    have hb : budget fs = fs.length + 1 := rfl
    rw [hb, procFuel]
    apply (self_inner fs root _ [] (by simp)).2 d root .inherit
    rw [resolveBase_inherit, ← edges_of_doc hd]; exact hself

/-! ### fallback -/

theorem fetchM_of_fetch_none {fs : FS} {root : URI} {h : List URI} {t : URI} {parse : Parse} {enc : Option String}
    (hf : fetch fs t parse enc = .none) (hh : t ∉ h) (hr : t ≠ root) :
    ∃ e, fetchM fs root h t parse enc = (.none, e) ∧ e.filterMap classOf = [] := by
  rcases hfm : fetchM fs root h t parse enc with ⟨f, e⟩
  cases f with
  | doc d => obtain ⟨_, _, _, _, _, h2⟩ := fetchM_doc hfm; rw [hf] at h2; simp at h2
  | text cs => obtain ⟨_, _, h2⟩ := fetchM_text hfm; rw [hf] at h2; simp at h2
  | none =>
    refine ⟨e, rfl, ?_⟩
    rcases fetchM_none hfm with ⟨_, rfl | rfl⟩ | ⟨_, hin, _⟩ | ⟨_, _, hroot, _⟩
    · rfl
    · decide
    · exact absurd hin hh
    · exact absurd hroot hr

theorem fallback_spec (fs : FS) (root : URI) (rec : Rec) (h : List URI) (pb : URI) (pre : Base)
    (href : Ref) (parse : Parse) (enc : Option String) (ib : Base) (fb : List Node)
    (hfetch : fetch fs (targetOf (resolveBase pb pre) ib href) parse enc = .none)
    (hh : targetOf (resolveBase pb pre) ib href ∉ h) (hr : targetOf (resolveBase pb pre) ib href ≠ root) :
    -- with xi:fallback: its children, processed recursively with the same history, replace the include …
    ((procNode fs root rec h pb pre (.incl href parse enc ib true fb)).nodes
        = (procList fs root rec h pb (applyPre pre ib) fb).nodes ∧
     (procNode fs root rec h pb pre (.incl href parse enc ib true fb)).errs.filterMap classOf
        = (procList fs root rec h pb (applyPre pre ib) fb).errs.filterMap classOf ∧
     -- … in the base context of the xi:include element
     resolveBase pb (applyPre pre ib) = resolveBase (resolveBase pb pre) ib) ∧
    -- without: a fatal error and the element stays
    ((procNode fs root rec h pb pre (.incl href parse enc ib false fb)).nodes
        = [annotate (resolveBase pb pre) (.incl href parse enc ib false fb)] ∧
     (procNode fs root rec h pb pre (.incl href parse enc ib false fb)).errs.filterMap classOf = [.noFallback] ∧
     XIncludeIncludeFailedNoFallback ∈ (procNode fs root rec h pb pre (.incl href parse enc ib false fb)).errs ∧
     severity XIncludeIncludeFailedNoFallback = 'F') := by
  simp only [targetOf] at hfetch hh hr
  rw [← resolveBase_applyPre] at hfetch hh hr
  obtain ⟨e, hfm, he⟩ := fetchM_of_fetch_none (root := root) hfetch hh hr
  refine ⟨⟨?_, ?_, resolveBase_applyPre pb pre ib⟩, ?_, ?_, ?_, by decide⟩
  · rw [procNode]; simp only []; rw [hfm]; simp
  · rw [procNode]; simp only []; rw [hfm]
    simp only [if_true, List.filterMap_append, he]
    have : List.filterMap classOf [XIncludeIncludeFailedResourceError] = [] := by decide
    rw [this]; simp
  · rw [procNode]; simp only []; rw [hfm]; simp [annotate_incl_pre]
  · rw [procNode]; simp only []; rw [hfm]
    simp only [Bool.false_eq_true, if_false, List.filterMap_append, he]
    decide
  · rw [procNode]; simp only []; rw [hfm]; simp

/-! ### invalid usage -/

theorem invalid_usage_reported :
    -- an unusable xi:include: its specific fatal code, and the element (with its content) is left alone
    (∀ (fs : FS) (root : URI) (rec : Rec) (h : List URI) (pb : URI) (pre : Base) (k : BadKind)
        (a : List (String × String)) (b : Base) (kids : List Node),
        procNode fs root rec h pb pre (.bad k a b kids)
          = ⟨[annotate (resolveBase pb pre) (.bad k a b kids)], [badCode k]⟩ ∧
        classOf (badCode k) = some .invalid ∧ severity (badCode k) = 'F') ∧
    (badCode .noHref = XIncludeNoHref ∧ badCode .xpointer = XIncludeXPointerNotSupported ∧
     badCode .badParse = XIncludeInvalidParseVal ∧ badCode .multiFallback = XIncludeMultipleFallbackElems ∧
     badCode .disallowedChild = XIncludeDisallowedChild) ∧
    -- an xi:fallback that is not the child of an xi:include
    (∀ (fs : FS) (root : URI) (rec : Rec) (h : List URI) (pb : URI) (pre : Base) (b : Base) (kids : List Node),
        procNode fs root rec h pb pre (.fallback b kids)
          = ⟨[annotate (resolveBase pb pre) (.fallback b kids)], [XIncludeOrphanFallback]⟩ ∧
        classOf XIncludeOrphanFallback = some .invalid ∧ severity XIncludeOrphanFallback = 'F') ∧
    -- whole documents: on an acyclic map an `invalid` error is reported exactly when the Spec demands one
    (∀ (fs : FS) (root : URI), Acyclic fs root →
        (ErrClass.invalid ∈ (substitute fs root).errs ↔ ∃ c, c ∈ (process fs root).errs ∧ classOf c = some .invalid)) := by
  refine ⟨?_, ⟨rfl, rfl, rfl, rfl, rfl⟩, ?_, ?_⟩
  · intro fs root rec h pb pre k a b kids
    refine ⟨by rw [procNode, annotate_bad_pre], classOf_badCode k, by cases k <;> decide⟩
  · intro fs root rec h pb pre b kids
    refine ⟨by rw [procNode, annotate_fallback_pre], by decide, by decide⟩
  · intro fs root hacyc
    rw [← (acyclic_eq_subst fs root hacyc).2, List.mem_filterMap]

/-! ### non-vacuity -/

/-- `a.xml` includes `d1/b.xml` twice (once with xml:base on the include); `d1/b.xml` includes the text `t.txt` through
    `../t.txt`, a missing document with a fallback that includes `c.xml` with a `d1/../` detour, and has a stray xi:fallback -/
def fsAcyc : FS :=
  [ (["a.xml"], .xml [.leaf .comment "" [112], .elem "r" [("id", "1")] .inherit
        [.incl ["d1", "b.xml"] .dflt none .inherit false [],
         .elem "p" [] (.rel ["d1", ""]) [.incl ["b.xml"] .xml none .inherit false []],
         .incl ["nope.xml"] .dflt none .inherit false [],
         .bad .badParse [("href", "c.xml"), ("parse", "html")] .inherit []]] []),
    (["d1", "b.xml"], .xml [.elem "b" [] .inherit
        [.incl ["..", "t.txt"] .text none .inherit false [],
         .incl ["gone.xml"] .dflt none .inherit true [.leaf .text "" [102], .incl ["d1", "..", "..", "c.xml"] .dflt none .inherit false []],
         .fallback .inherit [.leaf .text "" [111]]]] []),
    (["c.xml"], .xml [.elem "c" [] (.rel ["d2", ""]) [.elem "img" [("src", "x.png")] .inherit []]] []),
    (["t.txt"], .text [60, 38, 93, 93, 62, 233]) ]

theorem fsAcyc_acyclic : Acyclic fsAcyc ["a.xml"] := by
  refine .mk _ (fun v hv => ?_)
  have e : edges fsAcyc ["a.xml"] = [["d1", "b.xml"], ["d1", "b.xml"]] := by decide
  rw [e] at hv
  have hv' : v = ["d1", "b.xml"] := by simpa using hv
  subst hv'
  refine .mk _ (fun v hv => ?_)
  have e : edges fsAcyc ["d1", "b.xml"] = [["c.xml"]] := by decide
  rw [e] at hv
  have hv' : v = ["c.xml"] := by simpa using hv
  subst hv'
  refine .mk _ (fun v hv => ?_)
  have e : edges fsAcyc ["c.xml"] = [] := by decide
  rw [e] at hv; simp at hv

-- the hypotheses of acyclic_eq_subst are satisfiable by a map with nested directories, text, fallback, errors;
-- and the conclusion is not trivial: the result has errors of two classes and resolved bases
example : (process fsAcyc ["a.xml"]).errs.filterMap classOf = [.invalid, .invalid, .noFallback, .invalid] := by decide
example : (substitute fsAcyc ["a.xml"]).errs = [.invalid, .invalid, .noFallback, .invalid] :=
  ((acyclic_eq_subst fsAcyc ["a.xml"] fsAcyc_acyclic).2).symm.trans (by decide)
example : (process fsAcyc ["a.xml"]).nodes.length = 2 := by decide
example : outOfFuel ∉ (process fsAcyc ["a.xml"]).errs := (process_total fsAcyc ["a.xml"]).1

/-- `a.xml` → `d1/b.xml` → `../c.xml` → `d1/../a.xml` (a loop of length 3 through different spellings), and `s.xml`
    includes itself -/
def fsCyc : FS :=
  [ (["a.xml"], .xml [.elem "a" [] .inherit [.incl ["d1", "b.xml"] .dflt none .inherit false []]] []),
    (["d1", "b.xml"], .xml [.elem "b" [] .inherit
        [.incl ["gone.xml"] .dflt none .inherit true [.incl ["..", "c.xml"] .xml none .inherit false []]]] []),
    (["c.xml"], .xml [.elem "c" [] .inherit [.incl ["d1", "..", "a.xml"] .dflt none .inherit true [.leaf .text "" [120]]]] []),
    (["s.xml"], .xml [.elem "s" [] .inherit [.incl ["s.xml"] .dflt none .inherit false []]] []) ]

example : ∃ c, c ∈ (process fsCyc ["a.xml"]).errs ∧ classOf c = some .circular ∧ severity c = 'F' :=
  cycle_reported fsCyc ["a.xml"] ["c.xml"]
    (.step (v := ["d1", "b.xml"]) (by decide) (.step (v := ["c.xml"]) (by decide) (.refl _)))
    ⟨["a.xml"], by decide, .step (v := ["d1", "b.xml"]) (by decide) (.step (v := ["c.xml"]) (by decide) (.refl _))⟩
example : (process fsCyc ["a.xml"]).errs = [XIncludeIncludeFailedResourceError, XIncludeCircularInclusionDocIncludesSelf,
    XIncludeIncludeFailedResourceError] := by decide
example : XIncludeCircularInclusionDocIncludesSelf ∈ (process fsCyc ["s.xml"]).errs :=
  (self_include_reported fsCyc ["s.xml"] (by decide)).1
-- a loop that does not pass through the root: reported as XIncludeCircularInclusionLoop
example : (process (fsCyc ++ [(["z.xml"], .xml [.elem "z" [] .inherit [.incl ["s.xml"] .dflt none .inherit false []]] [])]) ["z.xml"]).errs
    = [XIncludeCircularInclusionLoop, XIncludeIncludeFailedResourceError, XIncludeIncludeFailedNoFallback] := by decide

-- fallback_spec: hypotheses satisfiable (missing target, empty history)
example : fetch fsAcyc (targetOf (resolveBase ["d1", "b.xml"] .inherit) .inherit ["gone.xml"]) .dflt none = .none := rfl
example : (procNode fsAcyc ["a.xml"] (procFuel fsAcyc ["a.xml"] 3) [] ["d1", "b.xml"] .inherit
    (.incl ["gone.xml"] .dflt none .inherit true [.leaf .text "" [102]])).nodes = [.leaf .text "" [102]] :=
  (fallback_spec fsAcyc ["a.xml"] _ [] ["d1", "b.xml"] .inherit ["gone.xml"] .dflt none .inherit [.leaf .text "" [102]]
    rfl (by decide) (by decide)).1.1.trans rfl

-- invalid_usage_reported: a bad parse value inside the acyclic map is reported (global part), with its own code (local part)
example : ∃ c, c ∈ (process fsAcyc ["a.xml"]).errs ∧ classOf c = some .invalid :=
  (invalid_usage_reported.2.2.2 fsAcyc ["a.xml"] fsAcyc_acyclic).mp (by decide)
example : XIncludeInvalidParseVal ∈ (process fsAcyc ["a.xml"]).errs ∧ XIncludeOrphanFallback ∈ (process fsAcyc ["a.xml"]).errs := by decide
example : (procNode fsAcyc ["a.xml"] (procFuel fsAcyc ["a.xml"] 3) [] ["a.xml"] .inherit (.bad .multiFallback [("href", "x")] .inherit [])).errs
    = [XIncludeMultipleFallbackElems] := by
  rw [(invalid_usage_reported.1 fsAcyc ["a.xml"] _ [] ["a.xml"] .inherit .multiFallback [("href", "x")] .inherit []).1]; rfl

end XV.Props.C20
