/-
C14 — live lists, iterators, walkers and ranges stay consistent under mutation.  Property theorems only (+ non-vacuity
examples); the proofs, the invariants the statements mention and the helper lemmas live in XV.Lemmas.Views*
(ViewsMain: iterators, tag-name lists, range fix-ups, bounds, order, content operations; ViewsWalker: TreeWalker).
Model: XV.Model.Views (code-shaped DOMNodeIteratorImpl, DOMTreeWalkerImpl, DOMDeepNodeListImpl, DOMRangeImpl fix-ups and
comparison, declarative range content operations, `vstep`: C13 operations as sequences of notifications to the views).
Spec:  XV.Spec.Views (document order, iterator positions and the robustness rule of DOM Traversal 1.1.1.2, the logical view
of a TreeWalker, boundary-point rules of DOM Range 2.12, validity and order of boundary points, selected text).
All statements quantify over ALL well-formed stores (XV.Spec.Dom.WF, preserved by every C13 operation: XV.Props.C13.wf_step),
all view states and operands; the interleaving theorem over operation lists of ANY length (`Reach`).
-/
import XV.Lemmas.ViewsMain
import XV.Lemmas.ViewsWalker
namespace XV.Props.C14
open XV.Model.Dom XV.Spec.Dom XV.Model.Views XV.Spec.Views XV.Lemmas.Dom XV.Lemmas.Views XV.Lemmas.ViewsOrder
  XV.Lemmas.ViewsContent XV.Lemmas.ViewsMain XV.Lemmas.ViewsWalker

-- ------------------------------------------------------------------ iterator_spec

/-- nextNode() of the code = `specNext` on the document order of the root: the result is the first accepted node ahead of
the position, which becomes the reference node with the iterator after it. -/
theorem iterator_next_spec (s : Store) (h : WF s) (it : Iter) (hok : IterOK s it) (hd : it.detached = false) :
    ∃ it' r, it.nextNode s = (it', .node r) ∧
      (posOf it', r) = specNext (iterAccepts s it.w it.filt) (docOrder s it.root) (posOf it) ∧
      it'.root = it.root ∧ it'.w = it.w ∧ it'.filt = it.filt ∧ it'.detached = false :=
  XV.Lemmas.ViewsMain.iterator_next_spec s h it hok hd

/-- previousNode() of the code = `specPrev`. -/
theorem iterator_prev_spec (s : Store) (h : WF s) (it : Iter) (hok : IterOK s it) (hd : it.detached = false) :
    ∃ it' r, it.previousNode s = (it', .node r) ∧
      (posOf it', r) = specPrev (iterAccepts s it.w it.filt) (docOrder s it.root) (posOf it) ∧
      it'.root = it.root ∧ it'.w = it.w ∧ it'.filt = it.filt ∧ it'.detached = false :=
  XV.Lemmas.ViewsMain.iterator_prev_spec s h it hok hd

/-- removeNode(node) of the (repaired) code = the robustness rule of DOM Traversal 1.1.1.2 for the removal of the subtree of
`node`, a proper descendant of the iterator's root: the block `docOrder node` leaves the list `docOrder root`. -/
theorem iterator_remove_spec (s : Store) (h : WF s) (it : Iter) (hok : IterOK s it) (hd : it.detached = false)
    (node : NodeId) (hn : node ∈ (docOrder s it.root).tail) :
    posOf (it.removeNode s node) = specRemove (docOrder s it.root) (docOrder s node) (posOf it) :=
  XV.Lemmas.ViewsMain.iterator_remove_spec s h it hok hd node hn

/-- … and a removal anywhere else (the root itself, one of its ancestors, another tree) leaves the iterator alone. -/
theorem iterator_remove_outside (s : Store) (h : WF s) (it : Iter) (hok : IterOK s it) (node : NodeId)
    (hn : node ∉ (docOrder s it.root).tail) : it.removeNode s node = it :=
  XV.Lemmas.ViewsMain.iterator_remove_outside s h it hok node hn

/-- An iterator never returns a node that is not in its root's subtree, nor one its filter does not accept, and its
reference node stays in the root's subtree. -/
theorem iterator_in_subtree (s : Store) (h : WF s) (it : Iter) (hok : IterOK s it) (hd : it.detached = false) :
    (∀ it' x, it.nextNode s = (it', .node (some x)) →
        x ∈ docOrder s it.root ∧ iterAccepts s it.w it.filt x = true) ∧
    (∀ it' x, it.previousNode s = (it', .node (some x)) →
        x ∈ docOrder s it.root ∧ iterAccepts s it.w it.filt x = true) ∧
    IterOK s (it.nextNode s).1 ∧ IterOK s (it.previousNode s).1 :=
  XV.Lemmas.ViewsMain.iterator_in_subtree s h it hok hd

/-- After the fix-up for the removal of the subtree of `node` the reference node is still in the root's subtree and no
longer inside the subtree that goes away: the iterator never returns (or stands on) a removed node. -/
theorem iterator_remove_leaves_subtree (s : Store) (h : WF s) (it : Iter) (hok : IterOK s it) (hd : it.detached = false)
    (node : NodeId) (hn : node ∈ (docOrder s it.root).tail) :
    ∀ c, (it.removeNode s node).cur = some c → c ∈ docOrder s it.root ∧ c ∉ docOrder s node :=
  XV.Lemmas.ViewsMain.iterator_remove_leaves_subtree s h it hok hd node hn

-- ------------------------------------------------------------------ iterator_total

/-- removeNode is defined in every state (it is a total function of the repaired code), and it differs from the current
C++ exactly in the state in which the C++ dereferences a null pointer: an iterator that has not been stepped yet
(DESIGN §5 F5).  In that state nothing is to be done: the position "before the first node" survives every removal. -/
theorem iterator_total (s : Store) (it : Iter) (node : NodeId) :
    (it.cur.isSome = true → it.detached = false → it.removeNodeAsIs s node = some (it.removeNode s node)) ∧
    (it.cur = none → it.removeNodeAsIs s node = none) ∧
    (it.cur = none → it.removeNode s node = it) :=
  XV.Lemmas.ViewsMain.iterator_total s it node

-- ------------------------------------------------------------------ deeplist_cache_transparent

/-- One query item(index) — whatever the cache holds, stale or not — returns the element number `index` of the matching
elements of the CURRENT tree in document order, and leaves a cache that agrees with the tree. -/
theorem deeplist_item_spec (s : Store) (h : WF s) (chg : Nat) (dl : DeepList) (hok : CacheOK s chg dl) (index : Nat) :
    (dl.item s chg index).2 = (matching s dl.tag dl.root)[index]? ∧
    CacheOK s chg (dl.item s chg index).1 ∧
    (dl.item s chg index).1.root = dl.root ∧ (dl.item s chg index).1.tag = dl.tag ∧
    ((dl.item s chg index).2 = none → (dl.item s chg index).1.idx = (matching s dl.tag dl.root).length) :=
  XV.Lemmas.ViewsMain.deeplist_item_spec s h chg dl hok index

/-- getLength() — again whatever the cache holds — is the number of matching elements of the current tree (for documents of
fewer than INT_MAX nodes: the C++ preloads with item(INT_MAX)). -/
theorem deeplist_length_spec (s : Store) (h : WF s) (chg : Nat) (dl : DeepList) (hok : CacheOK s chg dl)
    (hsz : s.size < intMax) :
    (dl.length s chg).2 = (matching s dl.tag dl.root).length ∧ CacheOK s chg (dl.length s chg).1 ∧
    (dl.length s chg).1.root = dl.root ∧ (dl.length s chg).1.tag = dl.tag :=
  XV.Lemmas.ViewsMain.deeplist_length_spec s h chg dl hok hsz

/-- One step: the invariant is kept, and a query answers from the CURRENT tree: item(i) is the i-th matching element in
document order computed afresh, getLength() their number. -/
theorem deeplist_step (d : NodeId) (v : VState) (hinv : ListInv d v) (o : LOp) (hok : OpOK d v o) :
    ListInv d (lstep v o).1 ∧
    (∀ k i dl, o = .item k i → v.lists[k]? = some dl → dl.alive v.store = true →
      (lstep v o).2 = .node ((matching v.store dl.tag dl.root)[i]?)) ∧
    (∀ k dl, o = .len k → v.lists[k]? = some dl → dl.alive v.store = true →
      (lstep v o).2 = .num (matching v.store dl.tag dl.root).length) :=
  XV.Lemmas.ViewsMain.deeplist_step d v hinv o hok

/-- **deeplist_cache_transparent.**  After ANY interleaving of mutations and queries, item(i) and getLength() of a live
tag-name list answer as if computed afresh on the current tree: the i-th element / the number of the matching elements
of `docOrder` of the root — the cache (fCurrentNode, fCurrentIndexPlus1, fChanges) is unobservable.
False of the current C++ for renameNode, which does not advance the change counter (witness below); the model advances it. -/
theorem deeplist_cache_transparent (d : NodeId) (v : VState) (hr : Reach d v) :
    ListInv d v ∧
    (∀ k i dl, v.lists[k]? = some dl → dl.alive v.store = true →
      (lstep v (.item k i)).2 = .node ((matching v.store dl.tag dl.root)[i]?)) ∧
    (∀ k dl, v.lists[k]? = some dl → dl.alive v.store = true → v.store.size < intMax →
      (lstep v (.len k)).2 = .num (matching v.store dl.tag dl.root).length) :=
  XV.Lemmas.ViewsMain.deeplist_cache_transparent d v hr

-- ------------------------------------------------------------------ range_fixup_spec

/-- **range_fixup_spec.**  Each of the six fix-up functions the DOM calls on its ranges moves both boundary points by the
rule of DOM Range 2.12 for that mutation (`updateRangeForInsertedText` as repaired: DESIGN §5 F6). -/
theorem range_fixup_spec (s : Store) (h : WF s) (r : Range) :
    (∀ node p, parentOf s node = some p →
      r.insertedNode s node = mapBP (bpInsertedNode p (indexIn s p node)) r ∧
      r.deletedNode s node = mapBP (bpDeletedNode p (indexIn s p node) (isAncOf s node)) r) ∧
    (∀ node off cnt, textLike s node = true →
      r.insertedText s node off cnt = mapBP (bpInsertedText node off cnt) r ∧
      r.deletedText s node off cnt = mapBP (bpDeletedText node off cnt) r ∧
      r.replacedText s node = mapBP (bpReplacedText node) r) ∧
    (∀ old nw off, textLike s old = true → r.splitInfo s old nw off = mapBP (bpSplit old nw off) r) :=
  XV.Lemmas.ViewsMain.range_fixup_spec s h r

/-- The current C++ `updateRangeForInsertedText` is NOT the rule of DOM Range 2.12.1 (F6): range [3,4] in a text,
insertData(1, "XY") gives start 1 instead of 5. -/
theorem insertedText_asIs_wrong :
    ∃ (s : Store) (r : Range) (t off cnt : Nat), textLike s t = true ∧
      r.insertedTextAsIs s t off cnt ≠ mapBP (bpInsertedText t off cnt) r ∧
      (r.insertedTextAsIs s t off cnt).so = 1 ∧ (mapBP (bpInsertedText t off cnt) r).so = 5 :=
  XV.Lemmas.ViewsMain.insertedText_asIs_wrong

-- ------------------------------------------------------------------ range_valid_preserved (partial)

/- FULL STATEMENT (not proved):
   range_valid_preserved : WF v.store → (∀ r ∈ v.ranges, ValidRange v.store r) →
       ∀ op, ∀ r ∈ (vstep {} v op).1.ranges, ValidRange (vstep {} v op).1.store r
   i.e. containers live and in one tree, offsets within the containers, start not after end (XV.Spec.Views.ValidRange) after
   every C13 operation followed by the fix-up calls of the code.
   PROVED (`bounds_*`, together `range_valid_preserved_partial`): for each primitive mutation the DOM performs — insertData,
   deleteData, setData, removeChild, insertBefore of a detached node — followed by the fix-up the DOM calls for it
   (`range_fixup_spec`), both boundary points keep a live container and an offset within it (`BoundsOK`).
   NOT PROVED, checked by correspondence on every operation of every history (tools/props/c14.py: range-start-after-end,
   range-containers-in-different-trees, range-offset-out-of-bounds, …): start ≤ end and same-tree, splitText, and the
   decomposition of the compound operations (fragment insertion, replaceChild, normalize, setAttribute) into these primitives,
   which `XV.Model.Views.opLog` spells out. -/

/-- insertData(off, d) on the character data `t` followed by updateRangeForInsertedText -/
theorem bounds_insertData (s : Store) (r : Range) (t off : Nat) (d : List Nat) (ht : textLike s t = true)
    (hoff : off ≤ (dataOf s t).length) (hb : BoundsOK s r) :
    let s' := setDataOf s t (insertAtOff (dataOf s t) off d)
    BoundsOK s' (r.insertedText s' t off d.length) :=
  XV.Lemmas.ViewsMain.bounds_insertData s r t off d ht hoff hb

/-- deleteData(off, cnt) followed by updateRangeForDeletedText with the clamped count -/
theorem bounds_deleteData (s : Store) (r : Range) (t off cnt : Nat) (ht : textLike s t = true)
    (hoff : off ≤ (dataOf s t).length) (hb : BoundsOK s r) :
    let s' := setDataOf s t (deleteRange (dataOf s t) off cnt)
    BoundsOK s' (r.deletedText s' t off (clampCount (dataOf s t).length off cnt)) :=
  XV.Lemmas.ViewsMain.bounds_deleteData s r t off cnt ht hoff hb

/-- setData(d) followed by receiveReplacedText -/
theorem bounds_setData (s : Store) (r : Range) (t : Nat) (d : List Nat) (ht : textLike s t = true) (hb : BoundsOK s r) :
    let s' := setDataOf s t d
    BoundsOK s' (r.replacedText s' t) :=
  XV.Lemmas.ViewsMain.bounds_setData s r t d ht hb

/-- removeChild(c): updateRangeForDeletedNode on the store before the unlink, then the unlink -/
theorem bounds_removeChild (s : Store) (h : WF s) (r : Range) (c p : NodeId) (hp : parentOf s c = some p)
    (htp : textLike s p = false) (hb : BoundsOK s r) :
    BoundsOK (detach s c) (r.deletedNode s c) :=
  XV.Lemmas.ViewsMain.bounds_removeChild s h r c p hp htp hb

/-- insertBefore(n, ref) of a parentless node: the link surgery, then updateRangeForInsertedNode on the store after it -/
theorem bounds_insertBefore (s : Store) (h : WF s) (r : Range) (n p : NodeId) (ref : Option NodeId)
    (hn : parentOf s n = none) (hpl : (s.get p).isSome = true) (htp : textLike s p = false)
    (hp' : parentOf (moveNodes s [n] p ref) n = some p) (hb : BoundsOK s r) :
    BoundsOK (moveNodes s [n] p ref) (r.insertedNode (moveNodes s [n] p ref) n) :=
  XV.Lemmas.ViewsMain.bounds_insertBefore s h r n p ref hn hpl htp hp' hb

/-- the five primitive mutations keep both boundary points of every range within bounds -/
theorem range_valid_preserved_partial (s : Store) (h : WF s) (r : Range) (hb : BoundsOK s r) :
    (∀ t off d, textLike s t = true → off ≤ (dataOf s t).length →
      BoundsOK (setDataOf s t (insertAtOff (dataOf s t) off d))
        (r.insertedText (setDataOf s t (insertAtOff (dataOf s t) off d)) t off d.length)) ∧
    (∀ t off cnt, textLike s t = true → off ≤ (dataOf s t).length →
      BoundsOK (setDataOf s t (deleteRange (dataOf s t) off cnt))
        (r.deletedText (setDataOf s t (deleteRange (dataOf s t) off cnt)) t off
          (clampCount (dataOf s t).length off cnt))) ∧
    (∀ t d, textLike s t = true → BoundsOK (setDataOf s t d) (r.replacedText (setDataOf s t d) t)) ∧
    (∀ c p, parentOf s c = some p → textLike s p = false → BoundsOK (detach s c) (r.deletedNode s c)) ∧
    (∀ n p ref, parentOf s n = none → (s.get p).isSome = true → textLike s p = false →
      parentOf (moveNodes s [n] p ref) n = some p →
      BoundsOK (moveNodes s [n] p ref) (r.insertedNode (moveNodes s [n] p ref) n)) :=
  ⟨fun t off d ht ho => bounds_insertData s r t off d ht ho hb,
   fun t off cnt ht ho => bounds_deleteData s r t off cnt ht ho hb,
   fun t d ht => bounds_setData s r t d ht hb,
   fun c p hp htp => bounds_removeChild s h r c p hp htp hb,
   fun n p ref hn hpl htp hp' => bounds_insertBefore s h r n p ref hn hpl htp hp' hb⟩

-- ------------------------------------------------------------------ compareBoundaryPoints_order

/-- **compareBoundaryPoints_order.**  On the boundary points of one tree (offsets within the containers) the comparison of
DOMRangeImpl::compareBoundaryPoints is the comparison of the positions `bpKey` in the linearised tree; hence it is a total
preorder — reflexive, antisymmetric in the sense cmp(b,a) = −cmp(a,b), transitive — and it extends the document order: the
points before the nodes of `docOrder` are strictly increasing.  (`TextLeaves`: character data has no children, which holds
in every store the operations can reach.) -/
theorem compareBoundaryPoints_order (s : Store) (h : WF s) (htl : TextLeaves s) :
    (∀ a oa b ob, rootOf s a = rootOf s b → oa ≤ lenOf s a → ob ≤ lenOf s b →
      cmpPoints s a oa b ob = keyCmp (bpKey s (a, oa)) (bpKey s (b, ob))) ∧
    (∀ a oa, oa ≤ lenOf s a → cmpPoints s a oa a oa = 0) ∧
    (∀ a oa b ob, rootOf s a = rootOf s b → oa ≤ lenOf s a → ob ≤ lenOf s b →
      cmpPoints s b ob a oa = - cmpPoints s a oa b ob) ∧
    (∀ a oa b ob c oc, rootOf s a = rootOf s b → rootOf s b = rootOf s c → oa ≤ lenOf s a → ob ≤ lenOf s b →
      oc ≤ lenOf s c → cmpPoints s a oa b ob ≤ 0 → cmpPoints s b ob c oc ≤ 0 → cmpPoints s a oa c oc ≤ 0) ∧
    (∀ r, (docOrder s r).Pairwise (fun x y => bpKey s (x, 0) < bpKey s (y, 0))) :=
  XV.Lemmas.ViewsMain.compareBoundaryPoints_order s h htl

-- ------------------------------------------------------------------ content operations

/-- **clone_pure.**  cloneContents() leaves every existing node exactly as it was — parent, children, attributes, data:
it only adds nodes (the fragment and the copies) — and the fragment it returns is one of the new nodes. -/
theorem clone_pure (s : Store) (h : WF s) (r : Range) :
    (∀ i, i < s.size → (cloneContents s r).1.get i = s.get i) ∧ s.size ≤ (cloneContents s r).1.size ∧
    s.size ≤ (cloneContents s r).2 :=
  XV.Lemmas.ViewsMain.clone_pure s h r

/-- (1): extractContents and deleteContents leave the range at the same (collapsed) position. -/
theorem extract_eq_clone_then_delete_partial (s : Store) (r : Range) :
    (extractContents s r).2.2.1 = (deleteContents s r).2.1 ∧
    ((extractContents s r).2.2.1).collapsed = true :=
  XV.Lemmas.ViewsMain.extract_eq_clone_then_delete_partial s r

/-- toString() of the code on the two simplest shapes of a range: a collapsed range has no text, a range inside one Text /
CDATASection node has the characters between the offsets — as `rangeText` says. -/
theorem toString_spec_partial (s : Store) (r : Range) :
    (r.sc = r.ec → r.so = r.eo → r.toStringCode s = []) ∧
    (r.sc = r.ec → r.so ≠ r.eo → isCharText s r.sc = true →
      r.toStringCode s = ((dataOf s r.sc).take r.eo).drop r.so ∧ rangeText s r = ((dataOf s r.sc).take r.eo).drop r.so) :=
  XV.Lemmas.ViewsMain.toString_spec_partial s r

-- ------------------------------------------------------------------ walker_eq_filter

/-- `StdJudge s wk`: the walker's acceptNode gives the verdicts of DOM Traversal 1.2 (whatToShow first; a node hidden by
whatToShow is skipped and the filter is not consulted).  The three walker theorems below are about every walker with this
property.  It holds for the acceptNode of the Spec's rule unconditionally, and for the acceptNode of the code as it is
(`asIs = true`: DOMTreeWalkerImpl::acceptNode consults the filter for hidden nodes and honours its FILTER_REJECT — pinned by
DOMTraversalTest, an open finding) exactly under the side condition `NoHiddenReject`; without it the code-shaped walker
deviates (`walker_code_deviates`). -/
theorem walker_std_of_rule (s : Store) (wk : Walker) (hasis : wk.asIs = false) : StdJudge s wk :=
  stdJudge_of_repaired s wk hasis

theorem walker_std_of_code (s : Store) (wk : Walker) (hside : NoHiddenReject s wk.w wk.filt) : StdJudge s wk :=
  stdJudge_of_code s wk hside

/-- One nextNode() of a TreeWalker whose current node is its root or a visible node moves to the successor of the current
node in the logical view (root, then the accepted nodes that have no rejected ancestor below the root, in document order);
the other fields do not change. -/
theorem walker_next_spec (s : Store) (h : WF s) (wk : Walker) (hj : StdJudge s wk) (hcur : VisibleCur s wk) :
    (wk.nextNode s).2 = succIn (wk.root :: visibleOrder s wk.w wk.filt wk.root) wk.cur ∧
    (wk.nextNode s).1 = { wk with cur := ((wk.nextNode s).2).getD wk.cur } :=
  ⟨walker_nextNode_spec h wk hj hcur, (nextNode_value s wk).2⟩

/-- **walker_eq_filter.**  From its root, nextNode() enumerates exactly the logical view, in order, and then returns null; and
the logical view is `filter docOrder` minus the rejected subtrees: the nodes of `docOrder root` (root excluded) that are
accepted by whatToShow + filter and have no rejected node strictly between the root and themselves (FILTER_SKIP nodes are
transparent, FILTER_REJECT prunes; a node hidden by whatToShow is skipped without consulting the filter — REPAIRED). -/
theorem walker_eq_filter (s : Store) (h : WF s) (wk : Walker) (hj : StdJudge s wk) (hroot : wk.cur = wk.root) :
    (∀ n, (visibleOrder s wk.w wk.filt wk.root).length ≤ n →
      walkFrom s n wk = visibleOrder s wk.w wk.filt wk.root) ∧
    visibleOrder s wk.w wk.filt wk.root = (docOrder s wk.root).tail.filter (visibleP s wk.w wk.filt wk.root) :=
  ⟨fun n hn => walkFrom_spec h _ [] wk n hj (by rw [hroot]; rfl) hn, visibleOrder_eq_filter h _ _ _⟩

/-- **walker_eq_filter for the walker that mirrors the code** (`asIs = true`), PARTIAL: it needs the side condition
`NoHiddenReject s wk.w wk.filt` (the filter does not FILTER_REJECT any node that whatToShow hides).
FULL STATEMENT (false for the code as it is, see `walker_code_deviates`):
  ∀ s wk, WF s → wk.asIs = true → wk.cur = wk.root →
    ∀ n, (visibleOrder s wk.w wk.filt wk.root).length ≤ n → walkFrom s n wk = visibleOrder s wk.w wk.filt wk.root -/
theorem walker_eq_filter_code_partial (s : Store) (h : WF s) (wk : Walker) (_hcode : wk.asIs = true)
    (hside : NoHiddenReject s wk.w wk.filt) (hroot : wk.cur = wk.root) :
    (∀ n, (visibleOrder s wk.w wk.filt wk.root).length ≤ n →
      walkFrom s n wk = visibleOrder s wk.w wk.filt wk.root) ∧
    visibleOrder s wk.w wk.filt wk.root = (docOrder s wk.root).tail.filter (visibleP s wk.w wk.filt wk.root) :=
  walker_eq_filter s h wk (stdJudge_of_code s wk hside) hroot

/-- firstChild() / nextSibling() / parentNode() on a node of the root's subtree: the first visible node below the current
node; the first visible node after its subtree inside the nearest enclosing node that is the root or not skipped; the nearest
accepted ancestor up to the root.  (lastChild / previousSibling / previousNode are the mirror images; they are tied to the
code by correspondence only.) -/
theorem walker_child_sibling_parent_spec (s : Store) (h : WF s) (wk : Walker) (hj : StdJudge s wk)
    (hcur : wk.cur ∈ docOrder s wk.root) :
    (wk.firstChild s).2 = specFC s wk.w wk.filt wk.root wk.cur ∧
    (wk.nextSibling s).2 = (R s wk.w wk.filt wk.root wk.cur).head? ∧
    (∀ a, (wk.parentNode s).2 = some a → AncOrSelf s wk.root a ∧ verdict s wk.w wk.filt a = .accept) := by
  refine ⟨?_, ?_, ?_⟩
  · unfold Walker.firstChild
    rw [moveTo_snd]
    exact (tw_forward_spec h wk hj _).1 wk.cur (twFuel s) hcur (Nat.le_refl _) (muFC_lt_fuel h _ _)
  · unfold Walker.nextSibling
    rw [moveTo_snd]
    exact (tw_forward_spec h wk hj _).2 wk.cur (twFuel s) hcur (Nat.le_refl _) (muNS_lt_fuel h _ _)
  · intro a ha
    unfold Walker.parentNode at ha
    rw [moveTo_snd] at ha
    obtain ⟨h1, _, h3, _⟩ := (twParent_spec h wk hj wk.cur hcur).2 a ha
    exact ⟨mem_docOrder_anc h _ _ h1, h3⟩

-- ------------------------------------------------------------------ non-vacuity

/-- a concrete reachable store: document 0 with  a(1){ b(2){ "ABCDE"(3) }, c(4), <!--M-->(5) } -/
def sample : Store := run (init 1)
  [.createElement 0 [0x61], .createElement 0 [0x62], .createText 0 [0x41, 0x42, 0x43, 0x44, 0x45],
   .createElement 0 [0x63], .createComment 0 [0x4d], .appendChild 0 1, .appendChild 1 2, .appendChild 2 3,
   .appendChild 1 4, .appendChild 1 5]

theorem sample_wf : WF sample := XV.Props.C13.wf_reachable 1 _
example : docOrder sample 0 = [0, 1, 2, 3, 4, 5] := by decide

theorem textLeaves_of_bounded (s : Store) (hb : ∀ x, x < s.size → textLike s x = true → kids s x = []) : TextLeaves s := by
  intro x hx
  by_cases hlt : x < s.size
  · exact hb x hlt hx
  · have : s.get x = none := get_ge_size s x (Nat.le_of_not_lt hlt)
    unfold textLike at hx
    rw [this] at hx
    cases hx
theorem sample_textLeaves : TextLeaves sample := textLeaves_of_bounded sample (by decide)

-- iterators: an iterator over the document that skips elements named b, stepped three times, then node 2 is removed
def it0 : Iter := { root := 0, w := 65535, filt := 1 }
def it3 : Iter := { it0 with cur := some 3, fwd := true }
example : IterOK sample it0 ∧ IterOK sample it3 := by
  constructor
  · intro c hc; cases hc
  · intro c hc
    have : c = 3 := by cases hc; rfl
    subst this; decide
example : (it0.nextNode sample).2 = .node (some 0) ∧ (it3.nextNode sample).2 = .node (some 4) ∧
    (it3.previousNode sample).2 = .node (some 3) := by decide
example : (2 : NodeId) ∈ (docOrder sample it3.root).tail ∧ posOf (it3.removeNode sample 2) = ⟨some 1, true⟩ ∧
    specRemove (docOrder sample 0) (docOrder sample 2) (posOf it3) = ⟨some 1, true⟩ := by decide
-- … moving backwards the reference node becomes the first node after the removed subtree
example : posOf (({ it3 with fwd := false } : Iter).removeNode sample 2) = ⟨some 4, false⟩ := by decide
-- the current C++ crashes on the iterator that has not been stepped, the repaired code leaves it alone
example : it0.removeNodeAsIs sample 2 = none ∧ it0.removeNode sample 2 = it0 := by decide

-- tag-name lists: create a, attach it, ask for the `a` elements, rename a to z, ask again
def listRun : VState :=
  (lstep (lstep (lstep (lstep (lstep { store := init 1 } (.dom (.createElement 0 [0x61]))).1
    (.dom (.appendChild 0 1))).1 (.mk 0 [0x61])).1 (.item 0 0)).1 (.dom (.renameNode 0 1 [0x7a]))).1
example : Reach 0 listRun :=
  .step _ (.step _ (.step _ (.step _ (.step _ (.init 1) (by unfold OpOK; decide)) (by unfold OpOK; decide))
    (by unfold OpOK; decide)) trivial) (by unfold OpOK; decide)
example : (lstep listRun (.item 0 0)).2 = .node none ∧ (lstep listRun (.len 0)).2 = .num 0 := by decide
-- … whereas with the current C++ (renameNode does not advance the change counter) the stale element is still listed
example : (vop { renameInvalidates := false }
    (vop { renameInvalidates := false } (lstep (lstep (lstep (lstep { store := init 1 } (.dom (.createElement 0 [0x61]))).1
      (.dom (.appendChild 0 1))).1 (.mk 0 [0x61])).1 (.item 0 0)).1 (.dom (.renameNode 0 1 [0x7a]))).1
    (.listItem 0 0)).2 = .node (some 1) := by decide

-- ranges: [ (T,3) , (T,4) ] and insertData(1, "XY"): F6
def r34 : Range := { doc := 0, sc := 3, so := 3, ec := 3, eo := 4 }
example : textLike sample 3 = true ∧ parentOf sample 2 = some 1 := by decide
example : (r34.insertedText sample 3 1 2).so = 5 ∧ (r34.insertedText sample 3 1 2).eo = 6 ∧
    (r34.insertedTextAsIs sample 3 1 2).so = 1 := by decide
/-- **split_code_breaks_validity.**  The model that mirrors the code as it is (`splitKeepsAfter := false`: after
splitText, DOMRangeImpl::updateSplitInfo moves the points inside the moved text only; a point directly after the old node,
(parent, index + 1), stays between the two halves — pinned by RangeTest, an open finding) turns a valid range into one that
starts after it ends: range [("ABCDE",1), (b,1)], splitText(0).  With the rule of the Spec (the point directly after the old
node stays after the text that moved) the range stays valid. -/
def vSplit : VState := { store := sample, ranges := [{ doc := 0, sc := 3, so := 1, ec := 2, eo := 1 }] }
theorem split_code_breaks_validity :
    ValidRange sample { doc := 0, sc := 3, so := 1, ec := 2, eo := 1 } ∧
    (vstep { splitKeepsAfter := false } vSplit (.splitText 3 0)).1.ranges = [{ doc := 0, sc := 6, so := 1, ec := 2, eo := 1 }] ∧
    ¬ ValidRange (vstep { splitKeepsAfter := false } vSplit (.splitText 3 0)).1.store { doc := 0, sc := 6, so := 1, ec := 2, eo := 1 } ∧
    (vstep {} vSplit (.splitText 3 0)).1.ranges = [{ doc := 0, sc := 6, so := 1, ec := 2, eo := 2 }] ∧
    ValidRange (vstep {} vSplit (.splitText 3 0)).1.store { doc := 0, sc := 6, so := 1, ec := 2, eo := 2 } := by
  decide
/-- **split_detached_code_breaks_validity.**  splitText of a PARENTLESS Text node: the new node is linked to nothing.  The model
that mirrors the code as it is (`splitDetachedStays := false`: DOMRangeImpl::updateSplitInfo moves the points behind the split
offset into the new node whether or not it is linked to the old one) leaves the range ["ABC"|0, "ABC"|3] with its boundary
points in two different trees after splitText(1); with the rule of the Spec (the points stay in the old node, at its new end)
the range stays valid. -/
def vDetached : VState :=
  { store := run (init 1) [.createText 0 [0x41, 0x42, 0x43]], ranges := [{ doc := 0, sc := 1, so := 0, ec := 1, eo := 3 }] }
theorem split_detached_code_breaks_validity :
    ValidRange vDetached.store { doc := 0, sc := 1, so := 0, ec := 1, eo := 3 } ∧
    (vstep { splitDetachedStays := false } vDetached (.splitText 1 1)).1.ranges = [{ doc := 0, sc := 1, so := 0, ec := 2, eo := 2 }] ∧
    ¬ ValidRange (vstep { splitDetachedStays := false } vDetached (.splitText 1 1)).1.store { doc := 0, sc := 1, so := 0, ec := 2, eo := 2 } ∧
    (vstep {} vDetached (.splitText 1 1)).1.ranges = [{ doc := 0, sc := 1, so := 0, ec := 1, eo := 1 }] ∧
    ValidRange (vstep {} vDetached (.splitText 1 1)).1.store { doc := 0, sc := 1, so := 0, ec := 1, eo := 1 } := by
  decide
/-- **insertNode_code_raises_after_split.**  insertNode with the start point inside the Text value of an attribute and an
Element as new node: the model that mirrors the code as it is (`insertNodeChecksFirst := false`: DOMRangeImpl::insertNode
calls splitText and only then insertBefore, which refuses an Element under an Attr) raises HIERARCHY_REQUEST_ERR with the text
already split (one node more in the store, two children under the Attr); with the rule of the Spec (an operation that raises
changes nothing) the same exception leaves everything as it was. -/
def vAttr : VState :=
  { store := run (init 1) [.createElement 0 [0x61], .appendChild 0 1, .setAttribute 1 [0x69] [0x41, 0x42, 0x43],
                           .createElement 0 [0x62]],
    ranges := [{ doc := 0, sc := 3, so := 1, ec := 3, eo := 1 }] }
theorem insertNode_code_raises_after_split :
    kindOf vAttr.store 2 = some .attr ∧ kids vAttr.store 2 = [3] ∧ kindOf vAttr.store 4 = some .element ∧
    (vop { insertNodeChecksFirst := false } vAttr (.rInsert 0 4)).2 = .dom (.exc .hierarchy) ∧
    kids (vop { insertNodeChecksFirst := false } vAttr (.rInsert 0 4)).1.store 2 = [3, 5] ∧
    (vop {} vAttr (.rInsert 0 4)).2 = .dom (.exc .hierarchy) ∧
    (vop {} vAttr (.rInsert 0 4)).1.store.size = vAttr.store.size ∧ kids (vop {} vAttr (.rInsert 0 4)).1.store 2 = [3] ∧
    (vop {} vAttr (.rInsert 0 4)).1.ranges = vAttr.ranges := by
  decide
-- the in-text part of the fix-up (`range_fixup_spec`, last clause) is the same function in both: only points inside the old
-- node move
example : (vstep { splitKeepsAfter := false } { vSplit with ranges := [r34] } (.splitText 3 2)).1.ranges =
    [{ doc := 0, sc := 6, so := 1, ec := 6, eo := 2 }] := by decide

-- removal of b (child 0 of a): a range inside its text collapses to (a, 0); a point after it moves down
example : ({ doc := 0, sc := 3, so := 1, ec := 1, eo := 2 } : Range).deletedNode sample 2 =
    { doc := 0, sc := 1, so := 0, ec := 1, eo := 1 } := by decide
example : BoundsOK sample r34 ∧ BoundsOK sample { doc := 0, sc := 3, so := 1, ec := 1, eo := 2 } := by
  unfold BoundsOK bpOK; decide
-- the order of boundary points: (a,0) < (T,2) < (a,1) < (c,0); same point; the comparison is antisymmetric
example : cmpPoints sample 1 0 3 2 = -1 ∧ cmpPoints sample 3 2 1 1 = -1 ∧ cmpPoints sample 1 1 4 0 = -1 ∧
    cmpPoints sample 4 0 3 2 = 1 ∧ cmpPoints sample 3 2 3 2 = 0 ∧
    bpKey sample (1, 0) < bpKey sample (3, 2) ∧ bpKey sample (3, 2) < bpKey sample (1, 1) := by decide
-- content operations on [ (T,2) , (a,2) ]: "CDE" and the element c
def rsel : Range := { doc := 0, sc := 3, so := 2, ec := 1, eo := 2 }
example : rangeText sample rsel = [0x43, 0x44, 0x45] ∧ rsel.toStringCode sample = [0x43, 0x44, 0x45] := by decide
example : sample.size < (cloneContents sample rsel).1.size ∧ (cloneContents sample rsel).2 = 9 ∧ kids (cloneContents sample rsel).1 9 = [7, 8] ∧
    dataOf (deleteContents sample rsel).1 3 = [0x41, 0x42] ∧ kids (deleteContents sample rsel).1 1 = [2, 5] ∧
    (extractContents sample rsel).2.2.1 = { doc := 0, sc := 1, so := 1, ec := 1, eo := 1 } := by decide +kernel

-- walkers: SHOW_ALL with the filter that rejects b: the view of the document is a, c, comment
/-- **walker_code_deviates.**  The walker that mirrors the code as it is does NOT enumerate the logical view when the
filter rejects a node hidden by whatToShow: show Text only (whatToShow 4), filter 2 rejects element b; DOM Traversal 1.2 skips
b without asking the filter, so its Text child 3 is visible; the code asks the filter, honours FILTER_REJECT and loses it. -/
theorem walker_code_deviates :
    visibleOrder sample 4 2 0 = [3] ∧
    walkFrom sample 9 ({ root := 0, w := 4, filt := 2, cur := 0, asIs := false } : Walker) = [3] ∧
    walkFrom sample 9 ({ root := 0, w := 4, filt := 2, cur := 0, asIs := true } : Walker) = [] ∧
    ¬ NoHiddenReject sample 4 2 := by
  refine ⟨by decide, by decide, by decide, ?_⟩
  intro hside
  exact hside 2 ((sample.get 2).get (by decide)) (by decide) (by decide) (by decide)
-- the side condition is satisfiable, with a filter that does reject something: every kind shown, filter 2
example : NoHiddenReject sample 65535 2 := by
  intro x r hx hs
  have hlt : x < sample.size := by
    apply Classical.byContradiction; intro hn
    rw [get_ge_size sample x (Nat.le_of_not_lt hn)] at hx; cases hx
  have : ∀ y, y < sample.size → ∀ r, sample.get y = some r → shown 65535 r.kind = false → filterVerdict 2 r ≠ .reject := by
    decide
  exact this x hlt r hx hs
example : walkFrom sample 9 ({ root := 0, w := 65535, filt := 2, cur := 0, asIs := true } : Walker) = [1, 4, 5] := by decide

def wkRej : Walker := { root := 0, w := 65535, filt := 2, cur := 0 }
example : visibleOrder sample 65535 2 0 = [1, 4, 5] ∧ walkFrom sample 9 wkRej = [1, 4, 5] := by decide
-- … with the filter that skips b its text is promoted
example : visibleOrder sample 65535 1 0 = [1, 3, 4, 5] := by decide
example : VisibleCur sample { wkRej with cur := 4 } := by
  refine Or.inr ⟨.step (q := 1) (by decide) (.step (q := 0) (by decide) .refl), by decide, by decide, ?_⟩
  intro a ha hne hra har
  -- the only node strictly between the document and c is a, which is accepted
  have : a = 1 := by
    cases ha with
    | refl => exact absurd rfl hne
    | step hq ha' =>
      have hq1 : parentOf sample 4 = some 1 := by decide
      rw [hq1] at hq; cases hq
      cases ha' with
      | refl => rfl
      | step hq' ha'' =>
        have hq0 : parentOf sample 1 = some 0 := by decide
        rw [hq0] at hq'; cases hq'
        cases ha'' with
        | refl => exact absurd rfl har
        | step hq'' _ => have : parentOf sample 0 = none := by decide
                         rw [this] at hq''; cases hq''
  subst this; decide
-- whatToShow = SHOW_TEXT with the filter that rejects b: the repaired acceptNode skips b (its text stays visible), the
-- current C++ lets the filter reject it; previousNode from c: the repaired code reaches the text, the current C++ stops at b
example : verdict sample 4 2 2 = .skip ∧ verdictAsIs sample 4 2 2 = .reject := by decide
/-- a(1){ b(2){ d(3){ "T"(4) } }, c(5) } -/
def deep : Store := run (init 1)
  [.createElement 0 [0x61], .createElement 0 [0x62], .createElement 0 [0x64], .createText 0 [0x54],
   .createElement 0 [0x63], .appendChild 0 1, .appendChild 1 2, .appendChild 2 3, .appendChild 3 4, .appendChild 1 5]
example : (({ root := 0, w := 65535, filt := 0, cur := 5 } : Walker).previousNode deep).2 = some 4 ∧
    (({ root := 0, w := 65535, filt := 0, cur := 5 } : Walker).previousNodeAsIs deep).2 = some 3 := by decide

end XV.Props.C14
