/-
C07 — DTD validation reports a validity error iff a validity constraint is violated.
Property theorems only (+ non-vacuity examples).  All statements quantify over ALL content specs and
ALL child sequences (unbounded lists); nothing here is a bounded check.

  Spec    XV.Spec.ContentModel   `Lang : Spec → List Name → Prop` (declarative), `derivMatch` (executable judge)
  Model   XV.Model.ContentModel  code-shaped SimpleContentModel / MixedContentModel / DFAContentModel,
                                 DTDElementDecl::makeContentModel / createChildModel, DTDValidator::checkContent
-/
import XV.Lemmas.ContentModel
import XV.Lemmas.ContentModelSel
import XV.Lemmas.DfaFinal
import XV.Spec.DtdValid
namespace XV.Props.C07
open XV.Spec.ContentModel XV.Model.ContentModel

/-! ### the executable judge is the declarative language -/

/-- nullable decides membership of the empty sequence (for the derivative machinery `Re`) -/
theorem nullable_iff (r : Re) : r.nullable = true ↔ XV.Lemmas.ContentModel.ReLang r [] :=
  XV.Lemmas.ContentModel.nullable_iff r

/-- one Brzozowski derivative step is exact -/
theorem deriv_step (r : Re) (x : Name) (w : List Name) :
    XV.Lemmas.ContentModel.ReLang (r.deriv x) w ↔ XV.Lemmas.ContentModel.ReLang r (x :: w) :=
  XV.Lemmas.ContentModel.deriv_iff_cons r x w

/-- `derivMatch` decides `Lang`, for every content spec (EMPTY, ANY, mixed, children with arbitrary
    nesting of `,` `|` `?` `*` `+`, deterministic or not) and every child sequence. -/
theorem deriv_iff (cs : Spec) (w : List Name) : derivMatch cs w = true ↔ Lang cs w := by
  unfold derivMatch
  rw [XV.Lemmas.ContentModel.matches_iff, XV.Lemmas.ContentModel.spec_toRe_iff]

-- non-vacuity: a non-deterministic model ((a,b)|(a,c)); both verdicts occur
example : derivMatch (.children (.choice (.seq (.leaf 0) (.leaf 1)) (.seq (.leaf 0) (.leaf 2)))) [0, 2] = true := by decide
example : Lang (.children (.choice (.seq (.leaf 0) (.leaf 1)) (.seq (.leaf 0) (.leaf 2)))) [0, 2] :=
  (deriv_iff _ _).1 (by decide)
example : ¬ Lang (.children (.choice (.seq (.leaf 0) (.leaf 1)) (.seq (.leaf 0) (.leaf 2)))) [0, 0] :=
  fun h => absurd ((deriv_iff _ _).2 h) (by decide)
example : Lang (.children (.seq (.star (.leaf 0)) (.leaf 0))) [0, 0, 0] := (deriv_iff _ _).1 (by decide)
example : Lang (.mixed [1, 2]) [2, 1, 2] ∧ ¬ Lang (.mixed [1, 2]) [2, 3] :=
  ⟨(deriv_iff _ _).1 (by decide), fun h => absurd ((deriv_iff _ _).2 h) (by decide)⟩
example : XV.Lemmas.ContentModel.ReLang (.cat (.star (.sym 0)) (.sym 0)) [0, 0] :=
  (deriv_step _ 0 [0]).1 ((deriv_step _ 0 []).1 ((nullable_iff _).1 (by decide)))

/-! ### SimpleContentModel and MixedContentModel -/

/-- `SimpleContentModel::validateContent` succeeds exactly on the language of the particle, for every
    (model, particle) pair that `createChildModel` creates (`SimpleFor`) and every child sequence. -/
theorem simple_iff {m : Simple} {c : CM} (h : SimpleFor m c) (w : List Name) :
    simpleValidate m w = .ok ↔ CM.Lang c w :=
  XV.Lemmas.ContentModelSel.simple_iff' h w

example : SimpleFor ⟨.Sequence, .elem 3, some (.elem 4)⟩ (.seq (.leaf 3) (.leaf 4)) := .seq 3 4
example : CM.Lang (.seq (.leaf 3) (.leaf 4)) [3, 4] := (simple_iff (.seq 3 4) _).1 (by decide)
example : ¬ CM.Lang (.plus (.leaf 3)) [3, 3, 4] := fun h => absurd ((simple_iff (.plus 3) _).2 h) (by decide)

/-- `MixedContentModel::validateContent` (unordered, DTD) succeeds exactly on the sequences over the
    declared names, for the child list that the constructor's `buildChildList` extracts (`MixedFor`). -/
theorem mixed_iff {m : Mixed} {ns : List Name} (h : MixedFor m ns) (w : List Name) :
    mixedValidate m w = .ok ↔ Lang (.mixed ns) w :=
  XV.Lemmas.ContentModelSel.mixed_iff' h w

example : MixedFor ⟨buildChildList (scanMixed [1, 2, 3] false)⟩ [1, 2, 3] := rfl
example : Lang (.mixed [1, 2, 3]) [3, 1] :=
  (mixed_iff (m := ⟨buildChildList (scanMixed [1, 2, 3] false)⟩) (ns := [1, 2, 3]) (show MixedFor _ _ from rfl) _).1 (by decide)

/-! ### model selection -/

/-- Every content spec (for both spellings `(#PCDATA)` / `(#PCDATA)*`) is routed — by the model of
    `DTDValidator::checkContent` → `DTDElementDecl::makeContentModel` → `createChildModel` — to a branch
    whose precondition it meets: EMPTY/ANY inline, mixed → MixedContentModel with `MixedFor`,
    children → SimpleContentModel with `SimpleFor` or DFAContentModel on the element-only tree.
    In particular no declaration raises `CM_…` exceptions or dereferences a null `fSecondChild`. -/
theorem select_total (s : Spec) (star : Bool) : Routed s star :=
  XV.Lemmas.ContentModelSel.select_total' s star

example : makeContentModel (declOf (.children (.choice (.leaf 0) (.leaf 1)))) = .ok (.simple ⟨.Choice, .elem 0, some (.elem 1)⟩) := rfl
example : makeContentModel (declOf (.children (.choice (.leaf 0) (.opt (.leaf 1)))))
    = .ok (.dfa (nodeOfCM (.choice (.leaf 0) (.opt (.leaf 1))))) := rfl

/-! ### DFAContentModel: followpos construction, subset construction, table walk -/

open XV.Lemmas.Glushkov in
/-- followpos soundness: every word of the linearised particle (positions instead of names) is accepted by
    the first/last/follow position automaton that `buildSyntaxTree` computes -/
theorem followpos_sound {c : CM} {lo : Nat} {π : List Nat} (h : PLang c lo π) : accepts c lo π = true :=
  accepts_of_plang h

open XV.Lemmas.Glushkov in
/-- followpos completeness: everything the position automaton accepts is a word of the linearised particle
    (the language of a linear expression is local) — no determinism assumption -/
theorem followpos_complete (c : CM) (lo : Nat) (π : List Nat) (h : accepts c lo π = true) : PLang c lo π :=
  plang_of_accepts c lo π h

open XV.Lemmas.Glushkov in
example : accepts (.seq (.star (.leaf 7)) (.leaf 7)) 0 [0, 0, 1] = true := by decide
open XV.Lemmas.Glushkov in
example : PLang (.seq (.star (.leaf 7)) (.leaf 7)) 0 [0, 0, 1] := followpos_complete _ _ _ (by decide)

/-- The code-shaped `DFAContentModel` — `buildSyntaxTree` (positions, nullable/firstpos/lastpos/followpos),
    `buildDFA` (element map, worklist subset construction with the state hash table that never contains the
    initial state), `validateContent` (table walk) — accepts exactly `CM.Lang c`, for EVERY particle `c`
    (ambiguous / non-deterministic ones included) and EVERY child sequence.  Includes termination of the
    construction within the model's fuel bound (`exc "dfa-fuel"` never happens). -/
theorem dfa_iff (c : CM) (w : List Name) : (Model.dfa (nodeOfCM c)).validate w = .ok ↔ CM.Lang c w :=
  XV.Lemmas.DfaFinal.dfa_iff' c w

-- non-vacuity: ((a,b)|(a,c)) and (a*,a) are not deterministic; the model is executable
example : (Model.dfa (nodeOfCM (.choice (.seq (.leaf 0) (.leaf 1)) (.seq (.leaf 0) (.leaf 2))))).validate [0, 2] = .ok := by decide
example : CM.Lang (.seq (.star (.leaf 0)) (.leaf 0)) [0, 0, 0] := (dfa_iff _ _).1 (by decide)
example : ¬ CM.Lang (.seq (.star (.leaf 0)) (.leaf 0)) [0, 1] := fun h => absurd ((dfa_iff _ _).2 h) (by decide)

/-! ### DTDValidator::checkContent as a whole -/

/-- For every content spec (both spellings of `(#PCDATA)`), the model of `DTDValidator::checkContent`
    (inline EMPTY/ANY, model selection, Simple/Mixed/DFA content model) reports success exactly on the
    sequences of the declared language. -/
theorem checkContent_iff (s : Spec) (star : Bool) (w : List Name) :
    checkContent (declOf s star) w = .ok ↔ Lang s w := by
  have R := select_total s star
  cases s with
  | empty =>
    simp only [checkContent, declOf]
    cases w with
    | nil => simp; exact .empty
    | cons x w => simp; intro h; cases h
  | any =>
    simp only [checkContent, declOf]
    exact ⟨fun _ => .any w, fun _ => trivial⟩
  | mixed ns =>
    obtain ⟨m, hm, hf⟩ := R
    simp only [checkContent]
    have : (declOf (.mixed ns) star).modelType = .Mixed_Simple := rfl
    rw [this, hm]
    exact mixed_iff hf w
  | children c =>
    have hL : Lang (.children c) w ↔ CM.Lang c w :=
      ⟨fun h => by cases h with | children h => exact h, fun h => .children h⟩
    have : (declOf (.children c) star).modelType = .Children := rfl
    simp only [checkContent, this]
    rcases R with ⟨m, hm, hf⟩ | hm
    · rw [hm, hL]; exact simple_iff hf w
    · rw [hm, hL]; exact dfa_iff c w

example : checkContent (declOf (.children (.plus (.choice (.leaf 0) (.seq (.leaf 0) (.leaf 1)))))) [0, 0, 1, 0] = .ok := by decide
example : checkContent (declOf (.mixed [1, 2])) [3] = .fail 0 := by decide

/-! ### document level (executable Spec `validDoc`, XV.Spec.DtdValid) -/

open XV.Spec.DtdValid in
/-- PARTIAL.  Full statement intended by DESIGN §4/C07 (not proved, there is no code-shaped model of the
    scanners' attribute/ID validation):
      `validate_iff : validate dtd doc = [] ↔ Valid dtd doc`,  `violation_is_error_not_fatal`,
      `defaults_independent_of_validation`
    — these are covered by the document-tier correspondence (implementation vs `validDoc`) only.
    What is proved: whenever the executable Spec `validDoc` (the judge of the document tier) says "valid",
    the root element type matches the DOCTYPE and EVERY element of the document is declared, its child
    sequence is in the declarative language `Lang` of the declared content model, and it has character
    data only where the content model allows it. -/
theorem validate_iff_partial (d : Doc) (h : validDoc d = true) :
    d.root.name = d.doctype ∧
    ∀ e, e ∈ allElems d.root →
      ∃ decl, findDecl d.decls e.name = some decl ∧ Lang decl.content (e.children.map (·.name)) ∧
        (e.text = true → textAllowed decl.content = true) := by
  unfold validDoc at h
  rw [Bool.and_eq_true, List.isEmpty_iff, List.isEmpty_iff] at h
  obtain ⟨_, h⟩ := h
  unfold violations at h
  simp only [List.append_eq_nil_iff] at h
  obtain ⟨⟨⟨⟨⟨⟨⟨_, hroot⟩, hel⟩, _⟩, _⟩, _⟩, _⟩, _⟩ := h
  constructor
  · by_cases hr : (d.root.name == d.doctype) = true
    · simpa using hr
    · rw [if_neg hr] at hroot; cases hroot
  · intro e he
    have := (List.flatMap_eq_nil_iff.1 hel) e he
    unfold elemLocalViolations at this
    simp only [List.append_eq_nil_iff] at this
    obtain ⟨⟨h1, _⟩, _⟩ := this
    cases hf : findDecl d.decls e.name with
    | none => rw [hf] at h1; cases h1
    | some decl =>
      rw [hf] at h1
      simp only [List.append_eq_nil_iff] at h1
      obtain ⟨⟨h2, h3⟩, _⟩ := h1
      refine ⟨decl, rfl, ?_, ?_⟩
      · by_cases hm : derivMatch decl.content (e.children.map (·.name)) = true
        · exact (deriv_iff _ _).1 hm
        · rw [if_neg hm] at h2; cases h2
      · intro ht
        by_cases hta : textAllowed decl.content = true
        · exact hta
        · have ht' : e.x.text = true := ht
          have : ((e.x.text || !e.x.refs.isEmpty) && !textAllowed decl.content) = true := by
            simp [ht']; simpa using hta
          rw [if_pos this] at h3; cases h3

open XV.Spec.DtdValid in
example : validDoc { doctype := 0, decls := [⟨0, .children (.seq (.leaf 1) (.star (.leaf 1))), [⟨0, .id, .required, false, false⟩], false, false⟩, ⟨1, .mixed [1], [⟨0, .idref, .implied, false, false⟩, ⟨1, .enum [10, 11], .dflt [10], false, false⟩], false, false⟩], root := .mk 0 {} [⟨0, [20], false⟩] [.mk 1 { text := true } [⟨0, [20], false⟩] [], .mk 1 {} [⟨1, [11], false⟩] []] } = true := by decide
open XV.Spec.DtdValid in
example : violations { doctype := 0, decls := [⟨0, .children (.leaf 1), [⟨0, .enum [10, 11], .implied, false, false⟩], false, false⟩, ⟨1, .empty, [], false, false⟩], root := .mk 0 {} [⟨0, [10, 11], false⟩] [.mk 1 {} [] []] } = ["attribute-value-type:enumeration-list-of-members"] := by decide
-- the standalone clause the independently seeded fault removed: an omitted, externally declared #FIXED default
open XV.Spec.DtdValid in
example : violations { doctype := 0, standalone := true, hasExt := true, decls := [⟨0, .empty, [⟨0, .cdata, .fixed [1], true, false⟩], false, false⟩], root := .mk 0 {} [] [] } = ["standalone:externally-declared-default-needed"] := by decide
open XV.Spec.DtdValid in
example : validDoc { doctype := 0, standalone := false, hasExt := true, decls := [⟨0, .empty, [⟨0, .cdata, .fixed [1], true, false⟩], false, false⟩], root := .mk 0 {} [] [] } = true := by decide

-- an <!ELEMENT> delivered by a parameter entity referenced in the INTERNAL subset is an external markup declaration (2.9)
open XV.Spec.DtdValid in
example : violations { doctype := 0, standalone := true, decls := [⟨0, .children (.star (.leaf 1)), [], false, true⟩, ⟨1, .empty, [], false, false⟩], root := .mk 0 { ws := true } [] [.mk 1 {} [] []] } = ["standalone:white-space-in-externally-declared-element-content"] := by decide
-- an IDREF default naming a missing ID is harmless as long as it is never applied (element type never occurs) …
open XV.Spec.DtdValid in
example : validDoc { doctype := 0, decls := [⟨0, .empty, [], false, false⟩, ⟨1, .empty, [⟨0, .idref, .dflt [78], false, false⟩], false, false⟩], root := .mk 0 {} [] [] } = true := by decide
-- … and a violation of VC IDREF once it is applied
open XV.Spec.DtdValid in
example : violations { doctype := 0, decls := [⟨0, .empty, [⟨0, .idref, .dflt [78], false, false⟩], false, false⟩], root := .mk 0 {} [] [] } = ["idref-resolves"] := by decide

end XV.Props.C07
