/-
  C06 — namespace processing binds every name to the URI the declarations in scope imply.
  Property theorems only (+ non-vacuity examples).  Models: XV.Model.ElemStack, XV.Model.Sax2Prefix, XV.Model.DomLookup.
  Spec: XV.Spec.Namespace.  Helper lemmas: XV.Lemmas.ElemStack, XV.Lemmas.NsViews.
-/
import XV.Lemmas.ElemStack
import XV.Lemmas.NsViews
import XV.Lemmas.WFElemStack
import XV.Lemmas.NsParse
import XV.Lemmas.NsBuild
namespace XV.Props.C06
open XV.Model.ElemStack XV.Spec.Namespace XV.Gen.ElemStackConsts XV.Lemmas.ElemStack XV.Lemmas.NsViews
open XV.Model.NsScan XV.Model.Sax2Prefix

/-- The reserved names compiled into the library (XMLUni.cpp, regenerated) are the ones the Namespaces
    recommendation fixes. -/
theorem reserved_names_spec :
    xmlString = "xml" ∧ xmlnsString = "xmlns" ∧ xmlURIName = xmlURI ∧ xmlnsURIName = xmlnsURI ∧
    ofUnits fgXMLNSColonString = "xmlns:" := by decide

/-- The capacities and growth factors extracted from ElemStack.cpp make every expansion strictly larger, so the
    slot written by `addPrefix`/`addLevel` after "expand if full" exists (map growth and stack growth). -/
theorem growth_strict :
    (∀ cap, cap ≠ 0 → esMapInitCap ≤ cap → cap < cap * esMapGrowNum / esMapGrowDen) ∧ 0 < esMapInitCap ∧
    (∀ cap, esStackInitCap ≤ cap → cap < cap * esStackGrowNum / esStackGrowDen) ∧
    (∀ cap, cap ≠ 0 → wfMapInitCap ≤ cap → cap < cap * wfMapGrowNum / wfMapGrowDen) ∧ 0 < wfMapInitCap ∧
    (∀ cap, wfStackInitCap ≤ cap → cap < cap * wfStackGrowNum / wfStackGrowDen) := by
  refine ⟨mapGrow_strict, mapInit_pos, stackGrow_strict, ?_, by decide, ?_⟩
  · intro cap _ h; simp only [wfMapInitCap, wfMapGrowNum, wfMapGrowDen] at *; omega
  · intro cap h; simp only [wfStackInitCap, wfStackGrowNum, wfStackGrowDen] at *; omega

/-- **Every history.**  After ANY sequence of addLevel / popTop / addPrefix / addGlobalPrefix (failed operations
    included; rows reused after pops with whatever capacity and stale content they have; any number of prefixes per
    level, i.e. any number of map expansions; any depth, i.e. any number of stack expansions), for EVERY prefix,
    `ElemStack::mapPrefixToURI` answers with the namespace name the Spec's `inScope` gives for the chain of
    declaration lists the history denotes. -/
theorem mapPrefix_eq_inScope_history (xml11 : Bool) (ops : List Op) (p : String) :
    let S := (Scan.init xml11).run ops
    let a := (Abs.run {} ops)
    S.decode (mapPrefixToURI S.es p) = inScopeG a.g a.path p :=
  mapPrefix_of_rep (rep_run (init_rep xml11) ops) p

/-- the stack a scanner holds when it stands at the end of `path` -/
def stackOf (path : Path) : Scan := (Scan.init).run (opsOfPath path)

/-- **Every path** (unbounded depth and unbounded number of declarations per element): the lookup on the stack built
    for `path` is `inScope path`. -/
theorem mapPrefix_eq_inScope (path : Path) (p : String) :
    (stackOf path).decode (mapPrefixToURI (stackOf path).es p) = inScope path p := by
  have h := mapPrefix_eq_inScope_history false (opsOfPath path) p
  simp only [] at h
  rw [run_opsOfPath] at h
  simpa [stackOf, inScope, Abs.path] using h

/-- The "unknown" flag is only ever raised for a prefix without any visible declaration. -/
theorem unknown_implies_undeclared (path : Path) (p : String) :
    (mapPrefixToURI (stackOf path).es p).2 = true → inScope path p = none := by
  intro h
  rw [← mapPrefix_eq_inScope path p]
  simp [Scan.decode, h]

/-- **pop restores.**  From any reachable state, processing a whole element (addLevel, a balanced body that may
    declare, push and pop arbitrarily inside, popTop) leaves every lookup as it was. -/
theorem pop_restores (xml11 : Bool) (ops body : List Op) (hb : relDepth 1 body = some 1) (p : String) :
    let S := (Scan.init xml11).run ops
    let S' := S.run ([.addLevel] ++ body ++ [.popTop])
    S'.decode (mapPrefixToURI S'.es p) = S.decode (mapPrefixToURI S.es p) := by
  intro S S'
  have h1 := rep_run (init_rep xml11) ops
  have h2 := rep_run h1 ([.addLevel] ++ body ++ [.popTop])
  rw [abs_frame _ body hb] at h2
  rw [mapPrefix_of_rep h2 p, mapPrefix_of_rep h1 p]

/-- **Two-pass start tag.**  After `scanStartTagNS`'s first pass (addLevel, then every `xmlns`/`xmlns:*` of the raw
    attribute list) every name of the tag is resolved against ALL declarations of the tag, wherever they stand in
    the attribute list. -/
theorem startTag_sees_whole_tag (xml11 : Bool) (ops : List Op) (attrs : List RawAttr) (p : String) :
    let S := (Scan.init xml11).run ops
    let a := Abs.run {} ops
    (S.startTag attrs).decode (mapPrefixToURI (S.startTag attrs).es p)
      = inScopeG a.g (a.path ++ [declsOfRaw attrs]) p := by
  intro S a
  have h := mapPrefix_of_rep (rep_startTag (rep_run (init_rep xml11) ops) attrs) p
  simpa [Abs.path] using h

/-- **A prefix used before its declaring attribute in the same tag resolves to that declaration**: whatever stands
    before (`pre`, e.g. the attribute `p:a` using the prefix) and after the declaration `xmlns:p="u"`, as long as the
    tag does not declare `p` twice, `p` resolves to `u` (for `u ≠ ""`). -/
theorem decl_after_use (xml11 : Bool) (ops : List Op) (pre post : List RawAttr) (p u : String)
    (hp : p ≠ "" ∧ p ≠ "xml" ∧ p ≠ "xmlns") (hu : u ≠ "")
    (h1 : declOf (declsOfRaw pre) p = none) :
    let S := ((Scan.init xml11).run ops).startTag (pre ++ [⟨xmlnsString, p, u⟩] ++ post)
    S.decode (mapPrefixToURI S.es p) = some u := by
  intro S
  have h := startTag_sees_whole_tag xml11 ops (pre ++ [⟨xmlnsString, p, u⟩] ++ post) p
  simp only [] at h
  rw [h]
  have hd : ∀ (a b : List RawAttr), declsOfRaw (a ++ b) = declsOfRaw a ++ declsOfRaw b := by
    intro a b; induction a with
    | nil => rfl
    | cons x xs ih => simp only [List.cons_append, declsOfRaw, ih]; split <;> rfl
  have hdo : ∀ (a b : Level), declOf (a ++ b) p = match declOf a p with | some x => some x | none => declOf b p := by
    intro a b; induction a with
    | nil => rfl
    | cons x xs ih => simp only [List.cons_append, declOf]; split <;> simp [ih]
  have hx : xmlnsString ≠ "" := by decide
  have hmid : declsOfRaw [⟨xmlnsString, p, u⟩] = [⟨p, u⟩] := by
    simp [declsOfRaw, RawAttr.isNSDecl, hx]
  unfold inScopeG
  simp only [hp.2.1, hp.2.2, ↓reduceIte, List.reverse_append, List.reverse_cons, List.reverse_nil, List.nil_append,
    List.cons_append, nearest, hd, hmid, hdo, h1, declOf]
  simp [hu]

/-- **Order of the attributes of a tag is irrelevant**: permuting the raw attribute list (declarations before or after
    their uses, in any order) does not change what any prefix resolves to, provided no prefix is declared twice. -/
theorem decl_order_irrelevant (xml11 : Bool) (ops : List Op) (attrs attrs' : List RawAttr)
    (hperm : attrs.Perm attrs') (hnd : ((declsOfRaw attrs).map (·.pre)).Nodup) (p : String) :
    let S := (Scan.init xml11).run ops
    (S.startTag attrs).decode (mapPrefixToURI (S.startTag attrs).es p)
      = (S.startTag attrs').decode (mapPrefixToURI (S.startTag attrs').es p) := by
  intro S
  rw [startTag_sees_whole_tag xml11 ops attrs p, startTag_sees_whole_tag xml11 ops attrs' p]
  unfold inScopeG
  simp only [List.reverse_append, List.reverse_cons, List.reverse_nil, List.nil_append, List.cons_append, nearest,
    declOf_perm (declsOfRaw_perm hperm) hnd p]

-- ------------------------------------------------------------------------------------------ WFElemStack
/-- **WFElemStack, every history** (an exported sibling class — one shared map, a top index per level, levels popped
    by moving the index; no scanner of this version uses it).  After any sequence of addLevel / popTop / addPrefix, with at least one level open and no level
    declaring a prefix twice (a well-formed tag cannot), `WFElemStack::mapPrefixToURI` answers with `inScope`. -/
theorem wf_mapPrefix_eq_inScope_history (ops : List Op) (hng : XV.Lemmas.WFElemStack.NoGlobal ops) (p : String) :
    let S := WFScan.init.run ops
    let a := Abs.run {} ops
    a.stack ≠ [] → (∀ l ∈ a.stack, (l.map (·.pre)).Nodup) →
    (WF.mapPrefixToURI S.es p).map S.decode = some (inScope a.path p) := by
  intro S a hne hnd
  obtain ⟨hrep, _⟩ := XV.Lemmas.WFElemStack.wf_rep_run (a := {}) rfl XV.Lemmas.WFElemStack.wf_init_rep ops hng
  cases hst : (Abs.run {} ops).stack with
  | nil => exact absurd hst hne
  | cons l rest =>
    have h1 : XV.Lemmas.WFElemStack.RepWF (WFScan.init.run ops) (l :: rest) := hst ▸ hrep
    have h2 := XV.Lemmas.WFElemStack.wf_mapPrefix_of_rep h1 (by intro x hx; exact hnd x (by rw [show a.stack = l :: rest from hst]; exact hx)) p
    simpa [Abs.path, a, hst] using h2

/-- **Illegal bindings of `xml` / `xmlns` are rejected**: the checks of `updateNSMap` flag a declaration attribute
    exactly when the Spec finds a reserved-name constraint (or the XML 1.0 empty-URI rule) violated. -/
theorem illegal_bindings_rejected (s : Scan) (d : Decl) :
    updateNSMapErrors s (if d.pre = "" then ⟨"", xmlnsString, d.uri⟩ else ⟨xmlnsString, d.pre, d.uri⟩)
      = !(declErrors s.xml11 d).isEmpty := by
  have hx : xmlString = "xml" := by decide
  have hn : xmlnsString = "xmlns" := by decide
  have hxu : xmlURIName = xmlURI := by decide
  have hnu : xmlnsURIName = xmlnsURI := by decide
  have c1 : xmlURI ≠ xmlnsURI := by decide
  have c2 : xmlURI ≠ "" := by decide
  have c3 : xmlnsURI ≠ "" := by decide
  unfold updateNSMapErrors declErrors
  rw [hx, hn, hxu, hnu]
  by_cases p0 : d.pre = ""
  · simp only [p0, ↓reduceIte]
    by_cases u1 : d.uri = xmlURI <;> by_cases u2 : d.uri = xmlnsURI <;> simp_all
  · by_cases p1 : d.pre = "xmlns" <;> by_cases p2 : d.pre = "xml" <;>
    by_cases u1 : d.uri = xmlURI <;> by_cases u2 : d.uri = xmlnsURI <;> by_cases u3 : d.uri = "" <;>
    cases hv : s.xml11 <;> simp_all

-- ------------------------------------------------------------------------------------------ SAX2 prefix mapping events
/-- **Stack discipline and scoping.**  For ANY document tree (namespace-well-formed or not, any nesting, any number of
    declarations per element), whichever childless elements are written as empty-element tags, namespace-prefixes on or
    off: after the parse the reader's `fPrefixes` and `fPrefixCounts` are empty again, and the events it delivered are,
    up to namespace names and attribute lists, the Spec's event word: every element is preceded by startPrefixMapping
    for exactly its own declarations (in document order) and followed, right after its endElement, by endPrefixMapping
    for exactly those prefixes (innermost first). -/
theorem prefix_events_scoped (ue : Tag → Bool) (nsPrefixes v11 : Bool) (root : Node) (hok : TreeOK root) :
    let r := parseDocWith ue nsPrefixes v11 root
    r.fPrefixes = [] ∧ r.fPrefixCounts = [] ∧ r.out.map skM = (sax2Events nsPrefixes [] root).map skS := by
  obtain ⟨es, hw, hes⟩ := walk_spec nsPrefixes ue root hok (Scan.init v11) { fNamespacePrefix := nsPrefixes }
  intro r
  have hr : r = { fNamespacePrefix := nsPrefixes, out := [] ++ es } := hw
  rw [hr]
  exact ⟨rfl, rfl, by simpa using hes⟩

/-- **The start/endPrefixMapping events of any document form a well-nested word** (the grammar `WellNested`: scopes opened
    before an element, well-nested content, the same scopes closed right after the matching endElement). -/
theorem prefix_events_dyck (ue : Tag → Bool) (nsPrefixes v11 : Bool) (root : Node) (hok : TreeOK root) :
    WellNested ((parseDocWith ue nsPrefixes v11 root).out.map skM) := by
  rw [(prefix_events_scoped ue nsPrefixes v11 root hok).2.2]
  exact spec_wellNested nsPrefixes root []

/-- **For every namespace-well-formed document the modelled parse reports exactly what the Spec says**: the whole SAX2
    event sequence — prefix mappings, element names with their namespace names, attribute lists with theirs (filtered
    or not according to namespace-prefixes) — computed through the ElemStack model, `resolvePrefix`, the two-pass start
    tag and the reader's prefix stacks equals `sax2Events`, i.e. every name is bound to the URI `inScope` implies. -/
theorem sax2_events_eq_spec (ue : Tag → Bool) (nsPrefixes v11 : Bool) (root : Node) (hok : TreeOK root)
    (hwf : nsWellFormed v11 root = true) :
    (parseDocWith ue nsPrefixes v11 root).out.map normM = (sax2Events nsPrefixes [] root).map normS := by
  have hb : BoundN [] root := bound_of_wellFormed v11 root [] (by simpa [nsWellFormed] using hwf)
  obtain ⟨es, l, hw, hes, _, _⟩ := walk_full ue root hok (Scan.init v11) {} { fNamespacePrefix := nsPrefixes }
    (init_rep v11) rfl hb
  simp only [parseDocWith]
  rw [hw]
  simpa [Abs.path] using hes

/-- walking any subtree from ANY reader state restores both stacks (the per-element statement behind the above) -/
theorem reader_stack_discipline (b : Bool) (ue : Tag → Bool) (n : Node) (hok : TreeOK n) (s : Scan) (r : Reader) :
    ((walk ue s r n).2.fPrefixes = r.fPrefixes) ∧ ((walk ue s r n).2.fPrefixCounts = r.fPrefixCounts) ∧
    ∃ es, (walk ue s r n).2.out = r.out ++ es ∧ es.map skM = (sax2Events b [] n).map skS := by
  obtain ⟨es, hw, hes⟩ := walk_spec b ue n hok s r
  rw [hw]
  exact ⟨rfl, rfl, es, rfl, hes⟩

-- ------------------------------------------------------------------------------------------ DOM Level 3 lookups
/-- **lookupNamespaceURI on any node of a parsed tree** (element with its ancestors `rtags`, innermost first; text,
    comment, PI, CDATA and attribute nodes delegate to that element) answers with the in-scope binding of the prefix
    (`none` = null argument = default namespace), for every chain of tags without duplicate declarations. -/
theorem dom_lookup_eq_inScope (rtags : List Tag) (hok : ∀ t ∈ rtags, TagOK t) (sp : Option String) (hsp : sp ≠ some "") :
    XV.Model.DomLookup.lookupNamespaceURI (chainOf rtags) sp = inScope (pathOf rtags) (sp.getD "") :=
  lookupNS_chainOf rtags hok sp hsp

/-- **lookupPrefix is sound on parsed trees**: an answer is a prefix whose in-scope binding is the namespace name. -/
theorem lookupPrefix_sound (rtags : List Tag) (hok : ∀ t ∈ rtags, TagOK t) (u p : String)
    (h : XV.Model.DomLookup.lookupPrefix (chainOf rtags) (some u) = some p) : inScope (pathOf rtags) p = some u :=
  lookupPrefix_chainOf_sound rtags hok u p h

/-- … and on ANY DOM tree (parsed or built by hand) an answer is re-confirmed by lookupNamespaceURI at the same node. -/
theorem lookupPrefix_sound_any_tree (chain : List XV.Model.DomLookup.DElem) (u p : String)
    (h : XV.Model.DomLookup.lookupPrefix chain (some u) = some p) :
    XV.Model.DomLookup.lookupNamespaceURI chain (some p) = some u :=
  lookupPrefixFrom_sound u chain chain p h

/-- **isDefaultNamespace on parsed, namespace-well-formed trees** says whether `u` is the default namespace in scope. -/
theorem isDefaultNamespace_eq_inScope (rtags : List Tag) (hwf : ChainWF rtags) (u : String) (hu : u ≠ "") :
    XV.Model.DomLookup.isDefaultNamespace (chainOf rtags) (some u) = decide (inScope (pathOf rtags) "" = some u) :=
  isDefaultNamespace_chainOf rtags hwf u hu

-- ------------------------------------------------------------------------------------------ attribute collisions
/-- **collision detected ⇔ two attributes share (namespace id, local name)** -/
theorem collision_detected_iff (attrs : List XMLAttr) :
    dupExpanded attrs = true ↔ ¬ attrs.Pairwise (fun a b => ¬ (b.uriId = a.uriId ∧ b.name = a.name)) := by
  induction attrs with
  | nil => simp [dupExpanded]
  | cons a r ih =>
    simp only [dupExpanded, Bool.or_eq_true, List.any_eq_true, Bool.and_eq_true, beq_iff_eq, ih, List.pairwise_cons]
    constructor
    · rintro (⟨b, hb, h1, h2⟩ | h) ⟨hall, hp⟩
      · exact hall b hb ⟨h1, h2⟩
      · exact h hp
    · intro h
      by_cases hp : r.Pairwise (fun a b => ¬ (b.uriId = a.uriId ∧ b.name = a.name))
      · left
        apply Classical.byContradiction
        intro hne
        apply h
        refine ⟨?_, hp⟩
        intro a' ha' hc
        exact hne ⟨a', ha', hc.1, hc.2⟩
      · right; exact hp

-- ------------------------------------------------------------------------------------------ non-vacuity
/-- a history with shadowing, un-declaration, a pop, more than 16 prefixes on one level (map growth) -/
def demoOps : List Op :=
  [.addLevel, .addPrefix "" "u:a", .addPrefix "p" "u:b", .addLevel, .addPrefix "" "", .addPrefix "p" "u:c"] ++
  (List.range 18).map (fun i => .addPrefix ("q" ++ toString i) ("u:q" ++ toString i)) ++
  [.addLevel, .popTop]

example : let S := (Scan.init).run demoOps
    (S.decode (mapPrefixToURI S.es "p"), S.decode (mapPrefixToURI S.es ""), S.decode (mapPrefixToURI S.es "q17"),
     S.decode (mapPrefixToURI S.es "xml"), S.decode (mapPrefixToURI S.es "zz"))
    = (some "u:c", none, some "u:q17", some xmlURI, none) := by decide +kernel

example : inScope [[⟨"", "u:a"⟩, ⟨"p", "u:b"⟩], [⟨"", ""⟩]] "p" = some "u:b" ∧
          inScope [[⟨"", "u:a"⟩, ⟨"p", "u:b"⟩], [⟨"", ""⟩]] "" = none ∧
          inScope [[⟨"", "u:a"⟩, ⟨"p", "u:b"⟩]] "" = some "u:a" := by decide

example : relDepth 1 [.addPrefix "p" "u", .addLevel, .addPrefix "p" "v", .popTop] = some 1 := by decide

example : let S := ((Scan.init).run [.addLevel]).startTag [⟨"p", "a", "1"⟩, ⟨xmlnsString, "p", "u:late"⟩]
    S.decode (mapPrefixToURI S.es "p") = some "u:late" := by decide

example : ([⟨"p", "a", "1"⟩, ⟨xmlnsString, "p", "u"⟩] : List RawAttr).Perm [⟨xmlnsString, "p", "u"⟩, ⟨"p", "a", "1"⟩] :=
  List.Perm.swap _ _ _


-- SAX2: <a xmlns="u:a" xmlns:p="u:b"><p:b xmlns=""/></a>
def demoDoc : Node :=
  .elem ⟨"", "a", [.decl ⟨"", "u:a"⟩, .attr "p" "x", .decl ⟨"p", "u:b"⟩]⟩
    [.elem ⟨"p", "b", [.decl ⟨"", ""⟩]⟩ [], .text]

example : TreeOK demoDoc := by simp [demoDoc, TreeOK, TreesOK, ItemsOK]
example : (parseDoc true false demoDoc).map skM =
    [.spm "" "u:a", .spm "p" "u:b", .se "a", .spm "" "", .se "p:b", .ee "p:b", .epm "", .ee "a", .epm "p", .epm ""] := by
  decide +kernel
example : nestedCheck ((parseDoc true false demoDoc).map skM) [] [] none = true := by decide +kernel
example : nestedCheck [.spm "p" "u", .se "a", .ee "a"] [] [] none = false := by decide   -- a scope left open is rejected

-- DOM: the chain of <p:b xmlns=""> inside <a xmlns="u:a" xmlns:p="u:b">
def demoChain : List Tag := [⟨"p", "b", [.decl ⟨"", ""⟩]⟩, ⟨"", "a", [.decl ⟨"", "u:a"⟩, .attr "p" "x", .decl ⟨"p", "u:b"⟩]⟩]

example : ChainWF demoChain ∧ ∀ t ∈ demoChain, TagOK t := by
  simp [demoChain, ChainWF, TagOK, ItemsOK, declsOf, pathOf, levelsOf, elemNS, attrNS, inScope, inScopeG, nearest, declOf, xmlnsURI]
example : XV.Model.DomLookup.lookupNamespaceURI (chainOf demoChain) (some "p") = some "u:b" ∧
          XV.Model.DomLookup.lookupNamespaceURI (chainOf demoChain) none = none ∧
          XV.Model.DomLookup.lookupNamespaceURI (chainOf demoChain.tail) none = some "u:a" ∧
          XV.Model.DomLookup.lookupPrefix (chainOf demoChain) (some "u:b") = some "p" ∧
          XV.Model.DomLookup.isDefaultNamespace (chainOf demoChain.tail) (some "u:a") = true ∧
          XV.Model.DomLookup.isDefaultNamespace (chainOf demoChain) (some "u:a") = false := by decide +kernel

/-- The algorithm exactly as written in DOMNodeImpl.cpp (`lookupNamespaceURIElem`, without the reserved-prefix rule the
    model adds) does NOT satisfy the property for the pre-bound prefix `xml`: a concrete witness (reported as a defect). -/
example : XV.Model.DomLookup.lookupNamespaceURIElem (chainOf [⟨"", "a", []⟩]) (some "xml") = none ∧
          inScope (pathOf [⟨"", "a", []⟩]) "xml" = some xmlURI := by decide +kernel

example : dupExpanded [⟨5, "p", "x", "1"⟩, ⟨1, "", "y", "2"⟩, ⟨5, "q", "x", "3"⟩] = true ∧
          dupExpanded [⟨5, "p", "x", "1"⟩, ⟨6, "q", "x", "3"⟩] = false := by decide


example : let S := WFScan.init.run [.addLevel, .addPrefix "p" "u:a", .addLevel, .addPrefix "p" "u:b", .addLevel, .popTop]
    ((WF.mapPrefixToURI S.es "p").map S.decode, (WF.mapPrefixToURI S.es "").map S.decode) = (some (some "u:b"), some none) := by
  decide +kernel

example : updateNSMapErrors (Scan.init) ⟨xmlnsString, "xml", "u:wrong"⟩ = true ∧
          updateNSMapErrors (Scan.init) ⟨xmlnsString, "p", xmlURIName⟩ = true ∧
          updateNSMapErrors (Scan.init) ⟨xmlnsString, "p", ""⟩ = true ∧
          updateNSMapErrors (Scan.init true) ⟨xmlnsString, "p", ""⟩ = false ∧
          updateNSMapErrors (Scan.init) ⟨xmlnsString, "p", "u:fine"⟩ = false := by decide


example : nsWellFormed false demoDoc = true := by decide +kernel
example : (parseDoc true false demoDoc).map normM =
    [.spm "" "u:a", .spm "p" "u:b",
     .se ("u:a", "a", "a") [("", "xmlns", "xmlns"), ("u:b", "x", "p:x"), (xmlnsURI, "p", "xmlns:p")],
     .spm "" "", .se ("u:b", "b", "p:b") [("", "xmlns", "xmlns")], .ee ("u:b", "b", "p:b"), .epm "",
     .ee ("u:a", "a", "a"), .epm "p", .epm ""] := by decide +kernel


-- ====================================================================================================== second round
-- ------------------------------------------------------------------------------------------ lookupPrefix: completeness
/-- **lookupPrefix is complete on parsed trees.**  If some declared prefix `p` is in scope at the element and bound there to
    `u` (so it is not shadowed at the element), `lookupPrefix(u)` returns SOME prefix `p'`, and `p'` is bound to `u` in scope.
    (`p'` need not be `p`: the walk returns the first candidate that passes the re-check at the original element.)
    The reserved prefixes are excluded: `xml`/`xmlns` are in scope without any declaration attribute to find. -/
theorem lookupPrefix_complete (rtags : List Tag) (hok : ∀ t ∈ rtags, TagOK t) (u p : String)
    (hp0 : p ≠ "") (hp1 : p ≠ "xml") (hp2 : p ≠ "xmlns") (hin : inScope (pathOf rtags) p = some u) :
    ∃ p', XV.Model.DomLookup.lookupPrefix (chainOf rtags) (some u) = some p' ∧ inScope (pathOf rtags) p' = some u :=
  lookupPrefix_chainOf_complete rtags hok u p hp0 hp1 hp2 hin

/-- **… and on ANY DOM tree** (parsed or built by hand), with `lookupNamespaceURI` at the element as the meaning of "in
    scope": if the element or an ancestor is named with prefix `p` in namespace `u`, or carries `xmlns:p="u"`, and `p` is
    not shadowed at the element where the question is asked, the walk answers.  The C++ recursion is mirrored including the
    `originalElement` re-check: a candidate that fails it does not stop the attribute loop nor the walk to the ancestors —
    no shape on which the algorithm gives up early exists. -/
theorem lookupPrefix_complete_any_tree (chain : List XV.Model.DomLookup.DElem) (u : String)
    (h : ∃ e ∈ chain,
      (∃ p, e.ns = some u ∧ e.pre = some p ∧ XV.Model.DomLookup.lookupNamespaceURI chain (some p) = some u) ∨
      (∃ a ∈ e.attrs, isPrefixDeclFor u a = true ∧ XV.Model.DomLookup.lookupNamespaceURI chain (some a.loc) = some u)) :
    ∃ p', XV.Model.DomLookup.lookupPrefix chain (some u) = some p' ∧
          XV.Model.DomLookup.lookupNamespaceURI chain (some p') = some u := by
  obtain ⟨p', hp'⟩ := Option.isSome_iff_exists.mp (lookupPrefixFrom_complete u chain chain h)
  exact ⟨p', hp', lookupPrefixFrom_sound u chain chain p' hp'⟩

-- ------------------------------------------------------------------------------------------ the DOM node builder
/-- **build_names.**  For a namespace-well-formed start tag (every prefix it uses is bound; `path'` = the declarations in
    scope including its own), the element node that the model of `AbstractDOMParser::startElement` creates from what the
    scanner hands over carries namespaceURI = the Spec's `elemNS`, prefix = the written prefix (null when none),
    localName = the written local part; and its attribute nodes are, up to the NamedNodeMap's ordering, exactly the Spec's
    expansions `attrExpansion` (namespaceURI, prefix, localName) of the written attribute names. -/
theorem build_names {S : Scan} {a : Abs} (h : Rep S a) (hg : a.g = []) (t : Tag) (hok : ItemsOK t.items)
    (hb : TagBound (a.path ++ [declsOf t.items]) t) :
    let e := XV.Model.DomLookup.mkElem (startTagNS S t).1 t (startTagNS S t).2.1 (startTagNS S t).2.2.1
    let path' := a.path ++ [declsOf t.items]
    e.ns = elemNS path' t.pre ∧ e.pre = XV.Model.DomLookup.nullIfEmpty t.pre ∧ e.loc = t.loc ∧
    (e.attrs.map (fun x => (x.ns, x.pre, x.loc))).Perm (t.items.map (attrExpansion path')) := by
  intro e path'
  have he : e = specElem path' t := (mkElem_eq_specElem h hg t hok hb).1
  rw [he]
  exact specElem_names path' t hb.1

/-- **… all the way down a document**: the chain of element nodes built for a path of namespace-well-formed start tags
    (root first) is the chain the DOM lookup theorems speak about, so `dom_lookup_eq_inScope`, `lookupPrefix_sound`,
    `lookupPrefix_complete` and `isDefaultNamespace_eq_inScope` hold for the nodes the modelled parser builds. -/
theorem built_chain_eq_spec (v11 : Bool) (tags : List Tag) (hb : PathBound [] tags) :
    builtChain (Scan.init v11) [] tags = chainOf tags.reverse := by
  have := builtChain_eq tags (Scan.init v11) [] (init_rep v11) hb
  simpa [chainOf] using this

theorem dom_lookup_on_built_nodes (v11 : Bool) (tags : List Tag) (hb : PathBound [] tags)
    (hok : ∀ t ∈ tags, TagOK t) (sp : Option String) (hsp : sp ≠ some "") :
    XV.Model.DomLookup.lookupNamespaceURI (builtChain (Scan.init v11) [] tags) sp
      = inScope (pathOf tags.reverse) (sp.getD "") := by
  rw [built_chain_eq_spec v11 tags hb]
  exact lookupNS_chainOf tags.reverse (fun t ht => hok t (List.mem_reverse.mp ht)) sp hsp

-- ------------------------------------------------------------------------------------------ error detection = the Spec
/-- **below and above the hash threshold**: the duplicate check of the start tag is the quadratic loop for up to
    `attrDupHashThreshold` attributes and the registry loop above; with the registry as an abstract set of
    (name, uriId) keys both find the same collisions on every attribute list (hashing/rehashing not modelled). -/
theorem dup_check_threshold_independent (attrs : List XMLAttr) :
    dupCheck attrs = dupExpanded attrs ∧ dupRegistry [] attrs = dupExpanded attrs := by
  refine ⟨dupCheck_eq attrs, ?_⟩
  rw [dupRegistry_eq]; simp

/-- **error detection at a start tag ⇔ the Spec.**  The code-shaped two-pass start tag (declarations first with the
    `updateNSMap` checks, `resolvePrefix` for every attribute and for the element, then the duplicate check by either
    loop) emits an error iff `tagErrors` lists a violated namespace constraint for the tag.
    Side conditions: the tree describes the tag faithfully (`ItemsOK`); the tag does not repeat a declaration (that is a
    duplicate attribute, plain well-formedness, outside this model); the declarations of the enclosing elements passed
    their checks (otherwise the fatal error has already ended the parse). -/
theorem start_tag_error_iff {S : Scan} {a : Abs} (h : Rep S a) (hg : a.g = []) (t : Tag) (hok : ItemsOK t.items)
    (hnd : ((declsOf t.items).map (·.pre)).Nodup)
    (hanc : ∀ l ∈ a.stack, ∀ d ∈ l, declErrors S.xml11 d = []) :
    (startTagNS S t).2.2.2 = true ↔ tagErrors S.xml11 (a.path ++ [declsOf t.items]) t ≠ [] := by
  rw [startTag_error_iff h hg t hok hnd hanc]
  cases hte : tagErrors S.xml11 (a.path ++ [declsOf t.items]) t <;> simp

/-- **the modelled scan reports a namespace error iff the document is not namespace-well-formed** (whole documents, any
    nesting, attribute counts on both sides of the hash threshold), for trees that describe documents faithfully and do
    not repeat a declaration inside one tag. -/
theorem scan_errors_iff_not_wellformed (v11 : Bool) (root : Node) (hok : TreeOK root) (hnd : NoDupDecl root) :
    scanErrors v11 root = !nsWellFormed v11 root := by
  have hv : (Scan.init v11).xml11 = v11 := (init_facts v11).2.2.2.2.2.2.2.2.2.2.2.2.2.2.2.2
  have := scanErrors_eq v11 root hok hnd (Scan.init v11) {} (init_rep v11) rfl hv (by intro l hl; simp at hl)
  simpa [scanErrors, nsWellFormed, Abs.path] using this

/-- **collision detected ⇔ two attributes share an expanded name** (the Spec-level form of `collision_detected_iff`): for
    a tag whose prefixes are all bound, in a context where nothing is bound to the xmlns namespace name, the check on
    (uriId, name) keys over the whole attribute list agrees with the Spec's check on (namespace name, local name) of the
    ordinary attributes -/
theorem collision_detected_iff_spec {S : Scan} {a : Abs} (h : Rep S a) (hg : a.g = []) (items : List Item)
    (hok : ItemsOK items) (hb : ∀ p l, Item.attr p l ∈ items → p ≠ "" → attrNS a.path p ≠ none)
    (hk1 : ∀ l ∈ a.path, ∀ d ∈ l, d.uri ≠ xmlnsURI) (hnd : ((declsOf items).map (·.pre)).Nodup) :
    dupCheck (buildAttList S (rawOfItems items)).1 = hasDup (expandedAttrs a.path (attrsOf items)) := by
  rw [buildAttList_items, dupCheck_eq]
  exact dup_eq h hg items hok.mem hb hk1 hnd

-- non-vacuity -------------------------------------------------------------------------------------------------------
-- two prefixes for one namespace, the nearer one shadowed at the inner element:
--   <r xmlns:q="u"><a xmlns:p="u"><b xmlns:p="v"/></a></r>     (innermost first below)
def shadowChain : List Tag := [⟨"", "b", [.decl ⟨"p", "v"⟩]⟩, ⟨"", "a", [.decl ⟨"p", "u"⟩]⟩, ⟨"", "r", [.decl ⟨"q", "u"⟩]⟩]

example : (∀ t ∈ shadowChain, TagOK t) := by simp [shadowChain, TagOK, ItemsOK, declsOf]
/-- at `b` the candidate `p` (declared for "u" on `a`) fails the re-check because `b` re-declares it; the walk goes on and
    finds `q` on `r`; at `a` it answers `p` -/
example : inScope (pathOf shadowChain) "q" = some "u" ∧ inScope (pathOf shadowChain) "p" = some "v" ∧
          XV.Model.DomLookup.lookupPrefix (chainOf shadowChain) (some "u") = some "q" ∧
          XV.Model.DomLookup.lookupPrefix (chainOf shadowChain.tail) (some "u") = some "p" := by decide +kernel
example : ∃ p', XV.Model.DomLookup.lookupPrefix (chainOf shadowChain) (some "u") = some p' ∧ inScope (pathOf shadowChain) p' = some "u" :=
  lookupPrefix_complete shadowChain (by simp [shadowChain, TagOK, ItemsOK, declsOf]) "u" "q" (by decide) (by decide) (by decide)
    (by decide)

-- <a xmlns:p="u:b"><p:b x="v"/></a>, root first
def builtDemo : List Tag := [⟨"", "a", [.decl ⟨"p", "u:b"⟩]⟩, ⟨"p", "b", [.attr "" "x"]⟩]
example : PathBound [] builtDemo := by
  simp [builtDemo, PathBound, ItemsOK, TagBound, pathOf, levelsOf, declsOf, elemNS, attrNS, inScope, inScopeG, nearest, declOf]
example : (builtChain (Scan.init false) [] builtDemo).map (fun e => (e.ns, e.pre, e.loc)) =
            [(some "u:b", some "p", "b"), (none, none, "a")] ∧
          (builtChain (Scan.init false) [] builtDemo).map (fun e => e.attrs.map (fun x => (x.ns, x.pre, x.loc))) =
            [[(none, none, "x")], [(some xmlnsURI, some "xmlns", "p")]] := by
  decide +kernel

-- error detection: one erroneous and one well-formed document; collisions above the hash threshold
example : NoDupDecl demoDoc := by simp [demoDoc, NoDupDecl, NoDupDeclL, declsOf]
example : scanErrors false demoDoc = false ∧ nsWellFormed false demoDoc = true := by decide +kernel
example : scanErrors false (.elem ⟨"", "a", [.decl ⟨"p", "u"⟩, .decl ⟨"q", "u"⟩, .attr "p" "x", .attr "q" "x"]⟩ []) = true ∧
          scanErrors false (.elem ⟨"zz", "a", []⟩ []) = true ∧
          scanErrors false (.elem ⟨"", "a", [.decl ⟨"p", ""⟩]⟩ []) = true ∧
          scanErrors true (.elem ⟨"", "a", [.decl ⟨"p", ""⟩]⟩ []) = false := by decide +kernel

def manyAttrs : List XMLAttr := (List.range 120).map (fun i => ⟨1, "", "n" ++ toString i, "v"⟩)
example : manyAttrs.length > attrDupHashThreshold := by decide
example : dupCheck (manyAttrs ++ [⟨1, "", "n7", "v"⟩]) = true ∧ dupCheck manyAttrs = false := by decide +kernel


-- a prefixed attribute whose LOCAL name is `xmlns` is an ordinary attribute ({uri of p}xmlns), not a declaration: no prefix
-- mapping is announced for it and it stays in the attribute list with namespace-prefixes off
--   <a xmlns="u:d" xmlns:p="u:p" p:xmlns="v"><b/></a>
def lookalikeDoc : Node :=
  .elem ⟨"", "a", [.decl ⟨"", "u:d"⟩, .decl ⟨"p", "u:p"⟩, .attr "p" "xmlns"]⟩ [.elem ⟨"", "b", []⟩ []]

example : TreeOK lookalikeDoc ∧ nsWellFormed false lookalikeDoc = true := by
  refine ⟨by simp [lookalikeDoc, TreeOK, TreesOK, ItemsOK], by decide +kernel⟩
example : (parseDoc false false lookalikeDoc).map normM =
    [.spm "" "u:d", .spm "p" "u:p", .se ("u:d", "a", "a") [("u:p", "xmlns", "p:xmlns")],
     .se ("u:d", "b", "b") [], .ee ("u:d", "b", "b"), .ee ("u:d", "a", "a"), .epm "p", .epm ""] := by decide +kernel

end XV.Props.C06
