/-
C08 — XML Schema structure validation accepts exactly the schema-valid instances.
Property theorems only (+ non-vacuity examples).  Every statement quantifies over ALL particles / trees /
member lists / declarations and ALL child sequences (unbounded `List`s, unbounded occurrence counts); nothing
here is a bounded check.

  Spec    XV.Spec.Particle   `PLang` (declarative language of a particle: ranges as bounded repetition, all-groups
                             as permutations), `pMatch` (executable judge: derivatives with counters),
                             `NsConstraint.Allows`, `Substitutable`, `AttrsValid`
  Model   XV.Model.Particle  code-shaped ComplexTypeInfo::expandContentModel / convertContentSpecTree /
                             useRepeatingLeafNodes, AllContentModel (ctor + validateContent), the wildcard
                             branches of DFAContentModel::validateContent and anyAttributeValidation,
                             SubstitutionGroupComparator::isEquivalentTo, the schema part of buildAttList
          XV.Model.ContentModel (C07, imported)  DFAContentModel: buildSyntaxTree / buildDFA / validateContent
  NOT modelled: TraverseSchema (schema document -> components); UPA / particle-derivation checking (decision
  table in tools/props/c08.py only).  The counting states of DFAContentModel (`CMRepeatingLeaf`, `fCountingStates`,
  `handleRepetitions`) ARE modelled (XV.Model.ParticleDfa) and proved exact: `counting_eq_unrolled` below.
-/
import XV.Lemmas.Particle
import XV.Lemmas.ParticleExpand
import XV.Lemmas.ParticleAll
import XV.Lemmas.ParticleRules
import XV.Lemmas.DfaFinal
import XV.Lemmas.ParticleDfa
import XV.Lemmas.XsdValid
import XV.Lemmas.ParticleCountFinal
namespace XV.Props.C08
open XV.Spec.Particle XV.Model.Particle

/-! ### the executable judge is the declarative language -/

/-- `nullable` decides membership of the empty child sequence, for every particle -/
theorem nullable_iff {α β : Type} (M : β → α → Prop) (p : Particle α) :
    p.nullable = true ↔ PLang M p ([] : List β) :=
  XV.Lemmas.Particle.nullable_iff p

/-- one derivative step is exact (occurrence counters and all-groups included) -/
theorem deriv_step {α β : Type} [DecidableEq α] (M : β → α → Bool) (p : Particle α) (x : β) (w : List β) :
    PLang (fun x a => M x a = true) (p.deriv (fun a => M x a)) w ↔ PLang (fun x a => M x a = true) p (x :: w) :=
  XV.Lemmas.Particle.deriv_iff_cons (fun a => M x a) x (fun _ => Iff.rfl) p w

/-- `pMatch` decides `PLang`: for every particle (sequence / choice / all, element and wildcard leaves, every
    occurrence range incl. 0, n..m, unbounded and the ill-formed min > max) and every child sequence. -/
theorem pMatch_iff {α β : Type} [DecidableEq α] (M : β → α → Bool) (p : Particle α) (w : List β) :
    pMatch M p w = true ↔ PLang (fun x a => M x a = true) p w :=
  XV.Lemmas.Particle.pMatch_iff' M p w

-- non-vacuity: a{2,3} b? ; an all-group with an optional member; both verdicts occur
example : pMatch (fun (x a : Nat) => x == a) (.seq (.rep 2 (some 3) (.leaf 0)) (.rep 0 (some 1) (.leaf 1))) [0, 0, 0, 1] = true := by decide
example : PLang (fun (x a : Nat) => (x == a) = true) (.seq (.rep 2 (some 3) (.leaf 0)) (.rep 0 (some 1) (.leaf 1))) [0, 0, 0, 1] :=
  (pMatch_iff _ _ _).1 (by decide)
example : ¬ PLang (fun (x a : Nat) => (x == a) = true) (.seq (.rep 2 (some 3) (.leaf 0)) (.rep 0 (some 1) (.leaf 1))) [0, 1] :=
  fun h => absurd ((pMatch_iff _ _ _).2 h) (by decide)
example : PLang (fun (x a : Nat) => (x == a) = true) (.all [(0, false), (1, true), (2, false)]) [2, 0] :=
  (pMatch_iff _ _ _).1 (by decide)
example : ¬ PLang (fun (x a : Nat) => (x == a) = true) (.all [(0, false), (1, true), (2, false)]) [2, 1] :=
  fun h => absurd ((pMatch_iff _ _ _).2 h) (by decide)
example : PLang (fun (x a : Nat) => (x == a) = true) (.rep 2 none (.choice (.leaf 0) (.leaf 1))) [1, 0, 1, 1] :=
  (pMatch_iff _ _ _).1 (by decide)

/-! ### ComplexTypeInfo::expandContentModel / convertContentSpecTree -/

open XV.Lemmas.ParticleExpand in
/-- `expandContentModel(specNode, min, max, compact)` denotes `specNode{min,max}`: for every tree `specNode`,
    every Particle-Correct range (min ≤ max, max ≥ 1; §3.9.6) — `?`, `*`, `+`, the copies of the unfolding loops
    for n..m and n..unbounded, and the compact `Loop` node — and every child sequence, whatever the leaf
    matching relation `M`. -/
theorem expand_preserves {α β : Type} (M : β → α → Prop) (x : XNode α) (min : Nat) (max : Option Nat) (compact : Bool)
    (hocc : occOk min max = true) (w : List β) :
    PLang M (expand x min max compact).toParticle w ↔ PLang M (.rep min max x.toParticle) w :=
  expand_preserves' x min max compact hocc w

open XV.Lemmas.ParticleExpand in
/-- `convertContentSpecTree` preserves the language of every well-formed ContentSpecNode tree (nested groups,
    single-child groups, all-groups, ranges on leaves and on groups), with and without compact syntax; in
    particular for the flag `useRepeatingLeafNodes s && !hasRepeatedLeaf s` that `makeContentModel` computes (`makeTree`). -/
theorem convert_preserves {α β : Type} [DecidableEq α] (M : β → α → Prop) (s : SNode α) (hwf : s.wf = true) (w : List β) :
    PLang M (makeTree s).toParticle w ↔ PLang M s.toParticle w :=
  convert_preserves' _ s hwf w

-- non-vacuity: (a{2,4}, (b | c){0,unbounded}){1,2}  — not compact (range on a group of two) — and a compact one
example : (SNode.group2 .Sequence (.leaf 0 2 (some 4)) (.group2 .Choice (.leaf 1 1 (some 1)) (.leaf 2 1 (some 1)) 0 none) 1 (some 2)).wf = true := by decide
example : useRepeatingLeafNodes (SNode.group2 .Sequence (.leaf 0 2 (some 4)) (.leaf 1 1 (some 1)) 1 (some 1)) = true := by decide
example : makeTree (SNode.group2 .Sequence (.leaf 0 2 (some 4)) (.leaf 1 1 (some 1)) 1 (some 1))
    = .bin .Sequence (.loopRep .OneOrMore 2 (some 4) (.leaf 0)) (.leaf 1) := by decide
example : makeTree (SNode.group1 .Sequence (.group2 .Sequence (.leaf 0 1 (some 1)) (.leaf 1 1 (some 1)) 2 (some 3)) 1 (some 1))
    = .bin .Sequence (.bin .Sequence (.bin .Sequence (.leaf 0) (.leaf 1)) (.bin .Sequence (.leaf 0) (.leaf 1)))
        (.unary .ZeroOrOne (.bin .Sequence (.leaf 0) (.leaf 1))) := by decide
/-- the hypothesis of `expand_preserves` is necessary: for {0,0} (which "Particle Correct" excludes and
    TraverseSchema never passes on) the code returns `specNode?` -/
example : expand (XNode.leaf 7) 0 (some 0) false = .unary .ZeroOrOne (.leaf 7) := by decide

open XV.Lemmas.ParticleExpand XV.Spec.ContentModel XV.Model.ContentModel in
/-- Chain to C07: for a well-formed tree over leaf ids whose conversion contains no `All` / `Loop` node, the
    code-shaped `DFAContentModel` (C07 model: buildSyntaxTree, followpos, subset construction, table walk) run on
    the converted tree accepts exactly the declared particle language over leaf ids. -/
theorem expand_dfa_iff (s : SNode Nat) (hwf : s.wf = true) (c : CM) (hc : toCM (makeTree s) = some c) (π : List Nat) :
    (Model.dfa (nodeOfCM c)).validate π = .ok ↔ PLang SymM s.toParticle π := by
  rw [XV.Lemmas.DfaFinal.dfa_iff' c π, toCM_lang _ c hc π]
  exact convert_preserves' _ s hwf π

open XV.Lemmas.ParticleExpand XV.Spec.ContentModel XV.Model.ContentModel in
example : toCM (makeTree (SNode.group1 .Sequence (.group2 .Choice (.leaf 0 1 (some 1)) (.leaf 1 0 (some 1)) 2 (some 3)) 1 (some 1)))
    = some (.seq (.seq (.choice (.leaf 0) (.opt (.leaf 1))) (.choice (.leaf 0) (.opt (.leaf 1))))
        (.opt (.choice (.leaf 0) (.opt (.leaf 1))))) := by decide

/-! ### DFAContentModel with counting states (`CMRepeatingLeaf`, `handleRepetitions`) -/

open XV.Lemmas.ParticleExpand XV.Lemmas.ParticleDfa XV.Model.ParticleDfa XV.Spec.ContentModel in
/-- PARTIAL (kept; the full statement is `counting_eq_unrolled` below, which uses this theorem for the trees
    converted without compact syntax).  Full statement intended by DESIGN §4/C08: for every well-formed tree `s`
    without all-groups, `validateTree s w = .ok ↔ PLang SymM s.toParticle w`.
    What is proved HERE: the statement for every tree whose conversion contains no `Loop` node
    (`toCM (makeTree s) = some c`) — i.e. whenever `useRepeatingLeafNodes s && !hasRepeatedLeaf s` is false, or all
    ranges are ?, *, + — all child sequences, non-deterministic models included: there the schema-mode model
    with counting states (element map, `fCountingStates`, `handleRepetitions`) IS the C07 DFA model.
    Not covered here: trees converted WITH `Loop` nodes (every non-(1,1) range sits on a leaf and, since the repair
    `!hasRepeatedLeaf`, all leaves are pairwise different) — see `counting_eq_unrolled`.  Before the repair the
    statement was false there — (a{2,2}, b, a{3,3}) rejected a a b a a a, see `counting_repaired_witness`. -/
theorem counting_eq_unrolled_partial (s : SNode Nat) (hwf : s.wf = true) (c : CM) (hc : toCM (makeTree s) = some c)
    (π : List Nat) : validateTree s π = .ok ↔ PLang SymM s.toParticle π := by
  have h : validateTree s π = (XV.Model.ContentModel.Model.dfa (XV.Model.ContentModel.nodeOfCM c)).validate π :=
    counting_reduces (makeTree s) c hc π
  rw [h]
  exact expand_dfa_iff s hwf c hc π

/-- the content model (a{2,2}, b, a{3,3}) over leaf ids 0 (a) and 1 (b): deterministic (UPA-valid), well-formed;
    `useRepeatingLeafNodes` holds, but the name `a` occurs in two leaves -/
def countingWitness : SNode Nat :=
  .group2 .Sequence (.group2 .Sequence (.leaf 0 2 (some 2)) (.leaf 1 1 (some 1)) 1 (some 1)) (.leaf 0 3 (some 3)) 1 (some 1)

open XV.Lemmas.ParticleExpand XV.Model.ParticleDfa in
/-- Regression witness of the repaired defect (fix d7e638c): with `hasRepeatedLeaf` the conversion no longer uses
    `Loop` nodes for (a{2,2}, b, a{3,3}); the model — and `counting_eq_unrolled_partial` — now accept the valid
    a a b a a a and reject a a b a a.  (With the compact tree `convert true` the counting walk gets both wrong:
    one `Occurence` per element-map entry.) -/
theorem counting_repaired_witness :
    useRepeatingLeafNodes countingWitness = true ∧ hasRepeatedLeaf countingWitness = true ∧
    (toCM (makeTree countingWitness)).isSome = true ∧
    validateTree countingWitness [0, 0, 1, 0, 0, 0] = .ok ∧ validateTree countingWitness [0, 0, 1, 0, 0] = .fail 5 ∧
    (match buildCDFA (convert true countingWitness) with
     | some c => validate c (fun (x a : Nat) => x == a) [0, 0, 1, 0, 0, 0]
     | none => .ok) = .fail 5 := by
  decide

open XV.Model.ParticleDfa in
-- non-vacuity of the partial theorem: (a | b?){2,3} is expanded by copying; the model is executable
example : validateTree (.group1 .Sequence (.group2 .Choice (.leaf 0 1 (some 1)) (.leaf 1 0 (some 1)) 2 (some 3)) 1 (some 1)) [0, 1, 0] = .ok := by decide
open XV.Model.ParticleDfa in
-- a compact tree on which counting works: a{2,3} b
example : validateTree (.group2 .Sequence (.leaf 0 2 (some 3)) (.leaf 1 1 (some 1)) 1 (some 1)) [0, 0, 0, 1] = .ok ∧
    validateTree (.group2 .Sequence (.leaf 0 2 (some 3)) (.leaf 1 1 (some 1)) 1 (some 1)) [0, 1] = .fail 1 := by decide

open XV.Lemmas.ParticleExpand XV.Lemmas.ParticleCount XV.Model.ParticleDfa in
/-- FULL statement (DESIGN §4/C08 `counting_eq_unrolled`).  For EVERY ContentSpecNode tree `s` over leaf ids that is
    Particle-Correct (`s.wf`: every range has min ≤ max, max ≥ 1) and contains no all-group (`noAll s`: all-groups
    get an `AllContentModel`, never the DFA — `all_iff_permutation`), and EVERY child sequence `π`: the schema-mode
    `DFAContentModel` pipeline — `makeContentModel`'s choice of the compact syntax
    (`useRepeatingLeafNodes s && !hasRepeatedLeaf s`), `convertContentSpecTree` with `Loop` nodes for the ranges on
    leaves, `buildSyntaxTree` (`CMRepeatingLeaf` positions), the subset construction, `elemOccurenceMap`,
    `fCountingStates`, and the table walk of `validateContent` with the loop counter of `handleRepetitions`
    (maxOccurs test + search for an alternative entry, minOccurs test on leaving and at the end) — accepts `π`
    exactly when `π` is in the declared particle language of `s` (`PLang`, equivalently `pMatch` by `pMatch_iff`).
    Both branches are covered: trees converted WITH `Loop` nodes (all leaves pairwise different since fix d7e638c)
    and trees expanded by copying.
    Proof (XV.Lemmas.ParticleCount*): in a compact tree closures only surround single leaves, so the follow
    relation only goes forward (`fol_le`), a state has at most one self-loop entry, the follow set of a `+` leaf
    is shared with no earlier position (`plus_sep`: the subset construction never merges the state entered by a
    `Loop` leaf with minOccurs ≥ 1 with a state entered by another leaf), transitions never target state 0 and
    states ≥ 1 are pairwise different (`dfaLoop_extra`); hence the counting walk is the plain table walk plus a
    block check (`cwalk_iff`), and the particle language is the skeleton language plus the same block check
    (`compact_lang`). -/
theorem counting_eq_unrolled (s : SNode Nat) (hwf : s.wf = true) (hna : noAll s = true) (π : List Nat) :
    validateTree s π = .ok ↔ PLang SymM s.toParticle π := by
  cases hflag : (useRepeatingLeafNodes s && !hasRepeatedLeaf s) with
  | false =>
    have hmt : makeTree s = convert false s := by unfold makeTree; rw [hflag]
    have hok := okCM_convert s hna
    unfold okCM at hok
    cases hc : toCM (convert false s) with
    | none => rw [hc] at hok; cases hok
    | some c => exact counting_eq_unrolled_partial s hwf c (by rw [hmt]; exact hc) π
  | true =>
    simp only [Bool.and_eq_true, Bool.not_eq_true'] at hflag
    obtain ⟨hu, hrep⟩ := hflag
    have hmt : makeTree s = convert true s := by unfold makeTree; rw [hu, hrep]; rfl
    obtain ⟨hcomp, hnames⟩ := compact_convert s hwf hna hu
    have hnd : (XV.Lemmas.Glushkov.names (sk (convert true s))).Nodup := by
      rw [hnames]; exact (hasRepeatedLeafIn_false _).1 hrep
    have h1 : validateTree s π = (match buildCDFA (convert true s) with
        | some c => validate c (fun x a => x == a) π
        | none => XV.Model.ContentModel.Res.exc "dfa-fuel") := by
      unfold validateTree; rw [hmt]; rfl
    rw [h1]
    exact (counting_compact (convert true s) hcomp hnd π).trans (convert_preserves' true s hwf π)

/-- (a{2,3}, b{0,2}) over leaf ids 0 (a) and 1 (b): converted with two real `Loop` nodes -/
def countingLoops : SNode Nat := .group2 .Sequence (.leaf 0 2 (some 3)) (.leaf 1 0 (some 2)) 1 (some 1)

-- non-vacuity of `counting_eq_unrolled`: the hypotheses hold, the tree is converted with `Loop` nodes, the DFA has
-- counting states, both verdicts occur (too few / too many a's, too many b's), and the theorem transports them
open XV.Lemmas.ParticleCount in
example : countingLoops.wf = true ∧ noAll countingLoops = true ∧
    (useRepeatingLeafNodes countingLoops && !hasRepeatedLeaf countingLoops) = true := by decide
example : makeTree countingLoops
    = .bin .Sequence (.loopRep .OneOrMore 2 (some 3) (.leaf 0)) (.loopRep .ZeroOrMore 0 (some 2) (.leaf 1)) := by decide
open XV.Model.ParticleDfa in
example : (buildCDFA (makeTree countingLoops)).map (fun c => c.counting.isSome) = some true := by decide
open XV.Model.ParticleDfa in
example : validateTree countingLoops [0, 0, 1, 1] = .ok ∧ validateTree countingLoops [0, 0, 0] = .ok ∧
    validateTree countingLoops [0, 1] = .fail 1 ∧ validateTree countingLoops [0, 0, 0, 0] = .fail 3 ∧
    validateTree countingLoops [0, 0, 1, 1, 1] = .fail 4 := by decide
open XV.Lemmas.ParticleExpand in
example : PLang SymM countingLoops.toParticle [0, 0, 0, 1] :=
  (counting_eq_unrolled countingLoops (by decide) (by decide) _).1 (by decide)
open XV.Lemmas.ParticleExpand in
example : ¬ PLang SymM countingLoops.toParticle [0, 0, 1, 1, 1] :=
  fun h => absurd ((counting_eq_unrolled countingLoops (by decide) (by decide) _).2 h) (by decide)
-- a state entered by `b` that coincides with the counting state of `a{0,2}` (merged state sets, minOccurs = 0):
-- (b, a{0,2}, c)
open XV.Model.ParticleDfa in
example : validateTree (.group2 .Sequence (.leaf 1 1 (some 1)) (.group2 .Sequence (.leaf 0 0 (some 2)) (.leaf 2 1 (some 1)) 1 (some 1)) 1 (some 1)) [1, 2] = .ok ∧
    validateTree (.group2 .Sequence (.leaf 1 1 (some 1)) (.group2 .Sequence (.leaf 0 0 (some 2)) (.leaf 2 1 (some 1)) 1 (some 1)) 1 (some 1)) [1, 0, 0, 2] = .ok ∧
    validateTree (.group2 .Sequence (.leaf 1 1 (some 1)) (.group2 .Sequence (.leaf 0 0 (some 2)) (.leaf 2 1 (some 1)) 1 (some 1)) 1 (some 1)) [1, 0, 0, 0, 2] = .fail 3 := by decide
/-- the hypothesis `noAll` is necessary: the DFA model reads an `All` node as a sequence -/
example : (SNode.group2 .All (.leaf 0 1 (some 1)) (.leaf 1 1 (some 1)) 1 (some 1)).wf = true ∧
    XV.Model.ParticleDfa.validateTree (.group2 .All (.leaf 0 1 (some 1)) (.leaf 1 1 (some 1)) 1 (some 1)) [1, 0] = .fail 0 ∧
    pMatch (fun (x a : Nat) => x == a) (SNode.group2 .All (.leaf 0 1 (some 1)) (.leaf 1 1 (some 1)) 1 (some 1)).toParticle [1, 0] = true := by
  decide

/-! ### AllContentModel -/

open XV.Lemmas.ParticleAll in
/-- `AllContentModel::validateContent` (first-match lookup, `elementSeen`, `numRequiredSeen`) succeeds exactly
    on: the empty content when the all-group has minOccurs = 0, or a sequence that is a permutation of a
    selection of the members omitting only optional ones (`PLang (.all ms)`) — for every member list with
    distinct names (Element Declarations Consistent / UPA guarantee that) and every child sequence. -/
theorem all_iff_permutation {α : Type} [DecidableEq α] (ms : List (α × Bool)) (hasOptionalContent : Bool)
    (hnd : (ms.map (·.1)).Nodup) (w : List α) :
    allValidate (allModelOf ms hasOptionalContent) w = none ↔
      (w = [] ∧ hasOptionalContent = true) ∨ PLang EqM (.all ms) w :=
  allValidate_iff ms hasOptionalContent hnd w

open XV.Lemmas.ParticleAll in
/-- the constructor (`buildChildList`) builds exactly that model from the tree `convertContentSpecTree` leaves
    below an `All` node -/
theorem all_ctor {α : Type} (root : XNode α) (h : xAllShape root = true) (hoc : Bool) :
    mkAllModel root hoc = some (allModelOf root.allMembers hoc) :=
  mkAllModel_eq root h hoc

open XV.Lemmas.ParticleAll in
example : allValidate (allModelOf [(0, false), (1, true), (2, false)] false) [2, 0] = none := by decide
open XV.Lemmas.ParticleAll in
example : allValidate (allModelOf [(0, false), (1, true), (2, false)] false) [2, 0, 2] = some 2 := by decide
open XV.Lemmas.ParticleAll in
example : PLang EqM (.all [(0, false), (1, true), (2, false)]) [1, 2, 0] :=
  ((all_iff_permutation _ false (by decide) _).1 (by decide)).resolve_left (by simp)
example : mkAllModel (makeTree (SNode.group2 .All (.leaf 0 1 (some 1)) (.leaf 1 0 (some 1)) 1 (some 1))) false
    = some ⟨[0, 1], [false, true], 1, false⟩ := by decide

/-! ### wildcards -/

open XV.Lemmas.ParticleRules in
/-- The namespace test of the wildcard branches (`Any`: always; `Any_NS`: URI ids equal; `Any_Other`: child URI
    is not the empty-namespace id 1 and differs from the leaf's URI), applied to the leaves TraverseSchema creates
    for a {namespace constraint}, and the test of `anyAttributeValidation`, are both exactly §3.10.4
    "Wildcard allows Namespace Name" — under the id encoding `uriId` (absent namespace ↦ id 1). -/
theorem wildcard_spec (c : NsConstraint) (x : QName) :
    (wildAccepts c x = true ↔ c.Allows x.ns) ∧ (attWildAccepts c x = true ↔ c.Allows x.ns) := by
  rw [wildAccepts_eq, attWildAccepts_eq]
  exact ⟨allows_iff c x.ns, allows_iff c x.ns⟩

example : wildAccepts (.other 1) ⟨2, 5⟩ = true ∧ wildAccepts (.other 1) ⟨1, 5⟩ = false ∧ wildAccepts (.other 1) ⟨0, 5⟩ = false := by decide
example : (NsConstraint.list [0, 2]).Allows 0 ∧ ¬ (NsConstraint.list [0, 2]).Allows 1 := by
  constructor <;> simp [NsConstraint.Allows]
example : attWildAccepts (.list [0, 2]) ⟨0, 1⟩ = true ∧ attWildAccepts (.list [0, 2]) ⟨1, 1⟩ = false := by decide

/-! ### substitution groups -/

/-- no circular substitution groups (e-props-correct.6), as a checkable certificate: a rank on element names
    that decreases along every {substitution group affiliation} and is below the number of declarations -/
def elemRankOk (E : SubstEnv) (erank : QName → Nat) : Bool :=
  E.elems.all (fun d =>
    decide (erank d.name < E.elems.length) &&
    (match d.subst with
     | none => true
     | some hq => match E.findElem hq with
       | none => true
       | some h => decide (erank h.name < erank d.name)))

/-- no circular type definitions (ct-props-correct.3 / st-props-correct.2), as a checkable certificate -/
def typeRankOk (E : SubstEnv) (trank : Nat → Nat) : Bool :=
  E.types.all (fun td =>
    decide (trank td.name < E.types.length) &&
    (match td.base with
     | none => true
     | some m => decide (trank m < trank td.name)))

open XV.Lemmas.ParticleRules in
/-- `SubstitutionGroupComparator::isEquivalentTo(d, c)` holds exactly when `d` is `c` or `d` is substitutable
    for `c` per §3.3.6 (chain of affiliations up to `c`, `c` does not block substitution, the derivation methods
    between the types avoid `c`'s block and the prohibited substitutions of the types on the way) — for every
    schema without circular substitution groups / type definitions (rank certificates). -/
theorem substitution_closure_spec (E : SubstEnv) (erank : QName → Nat) (trank : Nat → Nat)
    (he : elemRankOk E erank = true) (ht : typeRankOk E trank = true)
    (dq cq : QName) : isEquivalentTo E dq cq = true ↔ dq = cq ∨ Substitutable E dq cq := by
  have he' := List.all_eq_true.1 he
  have ht' := List.all_eq_true.1 ht
  have hfindT : ∀ t td, E.findType t = some td → td ∈ E.types ∧ td.name = t := by
    intro t td h
    exact ⟨List.mem_of_find?_eq_some h, by simpa [SubstEnv.findType] using List.find?_some h⟩
  rw [isEquivalentTo_eq, Bool.or_eq_true, decide_eq_true_eq,
    substitutable_iff E erank trank ?_ ?_ ?_ ?_]
  · intro d hd hq h hs hf
    have := he' d hd
    simp only [Bool.and_eq_true, decide_eq_true_eq, hs, hf] at this
    exact this.2
  · intro d hd
    have := he' d hd
    simp only [Bool.and_eq_true, decide_eq_true_eq] at this
    exact this.1
  · intro t td m hft hb
    obtain ⟨hm, hn⟩ := hfindT t td hft
    have := ht' td hm
    simp only [Bool.and_eq_true, decide_eq_true_eq, hb, hn] at this
    exact this.2
  · intro t td hft
    obtain ⟨hm, hn⟩ := hfindT t td hft
    have := ht' td hm
    simp only [Bool.and_eq_true, decide_eq_true_eq, hn] at this
    exact this.1

/-- a small schema: head h (type 0), member m1 (type 1 = extension of 0) substitutes h, m2 substitutes m1;
    h2 blocks extension -/
def exEnv : SubstEnv :=
  { elems := [⟨⟨1, 0⟩, 0, none, true, {}, false⟩, ⟨⟨1, 1⟩, 1, some ⟨1, 0⟩, false, {}, false⟩,
              ⟨⟨1, 2⟩, 1, some ⟨1, 1⟩, false, {}, false⟩,
              ⟨⟨1, 3⟩, 0, none, false, { extension := true }, false⟩, ⟨⟨1, 4⟩, 1, some ⟨1, 3⟩, false, {}, false⟩],
    types := [⟨0, none, .restriction, {}, false⟩, ⟨1, some 0, .extension, {}, false⟩] }

example : isEquivalentTo exEnv ⟨1, 2⟩ ⟨1, 0⟩ = true ∧ isEquivalentTo exEnv ⟨1, 4⟩ ⟨1, 3⟩ = false := by decide
example : substitutionMembers exEnv ⟨1, 0⟩ = [⟨1, 1⟩, ⟨1, 2⟩] := by decide
example : Substitutable exEnv ⟨1, 2⟩ ⟨1, 0⟩ := by
  have h := (substitution_closure_spec exEnv (fun q => if q.name = 2 then 2 else if q.name = 1 ∨ q.name = 4 then 1 else 0)
    (fun t => t) (by decide) (by decide) ⟨1, 2⟩ ⟨1, 0⟩).1 (by decide)
  exact h.resolve_left (by decide)

/-! ### attribute uses -/

open XV.Lemmas.ParticleRules in
/-- the Spec's executable `attrViolations` is empty exactly when the attributes are valid (§3.4.4 clauses 3, 4) -/
theorem attr_spec_iff (uses : List AttrUse) (wc : Option AttrWildcard) (globals : List AttrDecl) (attrs : List Attr) :
    attrViolations uses wc globals attrs = [] ↔ AttrsValid uses wc globals attrs :=
  attrViolations_nil_iff uses wc globals attrs

open XV.Lemmas.ParticleRules in
/-- The schema part of `buildAttList` (lookup of the attribute definition — a PROHIBITED definition admitted by the
    type's wildcard counts as absent, fix a55f890 —, attribute wildcard with skip / lax / strict, fixed-value check,
    then required / prohibited over the declared list) reports nothing exactly when the attribute set is valid: every
    attribute is allowed by a (non-prohibited) use or by the wildcard, fixed values agree, every required attribute is
    present — for every type whose uses have distinct names (ct-props-correct.4), every wildcard, every attribute set. -/
theorem attr_uses_iff (uses : List AttrUse) (hnd : (uses.map (·.name)).Nodup) (wc : Option AttrWildcard)
    (globals : List AttrDecl) (attrs : List Attr) :
    buildAttList (uses.map attDefOf) wc globals attrs = [] ↔ AttrsValid uses wc globals attrs :=
  buildAttList_nil_iff uses hnd wc globals attrs

-- the formerly deviating case: a prohibited use and a skip wildcard admitting the same name — accepted through the
-- wildcard (3.4.4 clause 3.2); with a wildcard that does not admit it: ProhibitedAttributePresent
example : AttrsValid [⟨⟨0, 1⟩, .prohibited, .none⟩] (some ⟨.any, .skip⟩) [] [(⟨0, 1⟩, 5)] ∧
    buildAttList ([⟨⟨0, 1⟩, .prohibited, .none⟩].map attDefOf) (some ⟨.any, .skip⟩) [] [(⟨0, 1⟩, 5)] = [] ∧
    buildAttList ([⟨⟨0, 1⟩, .prohibited, .none⟩].map attDefOf) (some ⟨.other 1, .skip⟩) [] [(⟨0, 1⟩, 5)]
      = ["ProhibitedAttributePresent"] := by
  refine ⟨(attr_spec_iff _ _ _ _).1 (by decide), by decide, by decide⟩

example : buildAttList ([⟨⟨0, 1⟩, .required, .none⟩, ⟨⟨0, 2⟩, .optional, .fixed 7⟩, ⟨⟨0, 3⟩, .prohibited, .none⟩].map attDefOf)
    (some ⟨.other 1, .lax⟩) [⟨⟨2, 9⟩, .fixed 4⟩] [(⟨0, 2⟩, 8), (⟨2, 9⟩, 4), (⟨0, 3⟩, 1), (⟨1, 1⟩, 0)]
    = ["NotSameAsFixedValue", "AttNotDefinedForElement", "RequiredAttrNotProvided", "ProhibitedAttributePresent"] := by decide
example : AttrsValid [⟨⟨0, 1⟩, .required, .none⟩, ⟨⟨0, 2⟩, .optional, .fixed 7⟩] (some ⟨.other 1, .lax⟩) [⟨⟨2, 9⟩, .fixed 4⟩]
    [(⟨0, 1⟩, 3), (⟨0, 2⟩, 7), (⟨2, 9⟩, 4), (⟨3, 3⟩, 1)] :=
  (attr_uses_iff _ (by decide) _ _ _).1 (by decide)
example : attrsWithDefaults [⟨⟨0, 1⟩, .optional, .default 3⟩, ⟨⟨0, 2⟩, .optional, .fixed 7⟩, ⟨⟨0, 3⟩, .optional, .none⟩] [(⟨0, 2⟩, 7)]
    = [((⟨0, 2⟩, 7), false), ((⟨0, 1⟩, 3), true)] := by decide

/-! ### element level (executable Spec `violations`, XV.Spec.XsdValid — the judge of the document tier) -/

open XV.Spec.XsdValid XV.Lemmas.XsdValid in
/-- PARTIAL.  Full statement intended by DESIGN §4/C08 (not proved: there is no code-shaped model of the scanners'
    element handling — SGXMLScanner/IGXMLScanner::scanStartTag, SchemaValidator::validateElement / checkContent —
    to state it about):  `validElem_iff : validateElem S e = [] ↔ ValidElem S e`.
    What is proved, about the executable Spec that judges the implementation in the document tier: whenever
    `assess` reports no violation for an element `e` against declaration `d` — and `assess` is applied to EVERY
    element it descends into, so this holds at every assessed element of a document the Spec calls valid — then the
    declaration is not abstract, the xsi:type / abstract-type rules raised nothing, and for the governing type:
    simple type ⇒ no element children and no attributes; complex type ⇒ the attributes satisfy the declarative
    `AttrsValid` and, unless the element is nilled, the content matches the content type: empty ⇒ nothing,
    simple ⇒ no element children, element-only ⇒ no character data and the child names are in the declarative
    particle language `PLang`, mixed ⇒ child names in `PLang`. -/
theorem validElem_iff_partial (S : Schema) (fuel : Nat) (d : Decl) (e : Elem) (infos : List Info)
    (h : assess S (fuel + 1) d e = ([], infos)) : LocallyValid S d e :=
  assess_sound S fuel d e infos h

open XV.Spec.XsdValid XV.Lemmas.XsdValid in
/-- document level: a valid document has a globally declared root that is locally valid -/
theorem validDoc_root (S : Schema) (root : Elem) (infos : List Info) (h : violations S root = ([], infos)) :
    ∃ d, S.globalDecl root.name = some d ∧ LocallyValid S d root := by
  unfold violations at h
  cases hd : S.globalDecl root.name with
  | none => rw [hd] at h; simp at h
  | some d =>
    rw [hd] at h
    exact ⟨d, rfl, assess_sound S root.depth d root infos h⟩

open XV.Spec.XsdValid in
/-- a schema for the examples: type 0 = sequence(a{2,3}, any ##other lax ?) with a required and a defaulted
    attribute; global elements r (1:1, type 0) and a (1:2, xs:string = type 900) -/
def exSchema : Schema :=
  { env := { elems := [⟨⟨1, 1⟩, 0, none, false, {}, false⟩, ⟨⟨1, 2⟩, 900, none, false, {}, false⟩],
             types := [⟨900, none, .restriction, {}, false⟩, ⟨0, none, .restriction, {}, false⟩] },
    ctypes := [⟨0, some ⟨1, 10⟩, .elementOnly (.seq (.rep 2 (some 3) (.leaf 0)) (.rep 0 (some 1) (.leaf 1))),
                [⟨⟨0, 1⟩, .required, .none⟩, ⟨⟨0, 2⟩, .optional, .default 7⟩], none⟩],
    decls := [⟨⟨1, 2⟩, true, 900, .none⟩, ⟨⟨1, 1⟩, true, 0, .none⟩],
    leaves := [.decl 0, .wild (.other 1) .lax],
    typeNames := [(⟨1, 10⟩, 0)], gattrs := [] }

open XV.Spec.XsdValid in
example : violations exSchema (.mk 0 ⟨1, 1⟩ [(⟨0, 1⟩, 5)] none none none
    [.mk 1 ⟨1, 2⟩ [] none none (some 3) [], .mk 2 ⟨1, 2⟩ [] none none none [], .mk 3 ⟨2, 9⟩ [] none none none []])
    = ([], [⟨0, ⟨1, 1⟩, 0, [((⟨0, 1⟩, 5), false), ((⟨0, 2⟩, 7), true)], none⟩,
            ⟨1, ⟨1, 2⟩, 900, [], some 3⟩, ⟨2, ⟨1, 2⟩, 900, [], none⟩]) := by decide
open XV.Spec.XsdValid in
example : (violations exSchema (.mk 0 ⟨1, 1⟩ [] none none (some 1) [.mk 1 ⟨1, 2⟩ [] none none none []])).1
    = ["attr-required-missing", "text-in-element-only", "content-model"] := by decide

end XV.Props.C08
