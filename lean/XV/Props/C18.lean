/-
C18 — MemoryManager discipline and Initialize/Terminate lifecycle.  Property theorems only.
Spec:   XV.Spec.Ledger (Disciplined / Balanced over alloc/free traces), XV.Spec.Arena (ArenaOk).
Models: XV.Model.Ledger (streaming monitor = the oracle that judges recorded traces),
        XV.Model.Lifecycle (Initialize/Terminate counter machine), XV.Model.Arena (DOMDocumentImpl::allocate).
Constants: XV.Gen.DomHeap (regenerated from DOMDocumentImpl.cpp / PlatformUtils.cpp each run).
What is *not* proved here: that the C++ parser code emits disciplined traces — that part is explored
(recorded runs judged by `monitor`), see tools/props/c18.py.
-/
import XV.Lemmas.Ledger
import XV.Model.XMemory
import XV.Lemmas.Lifecycle
import XV.Lemmas.Arena
import XV.Model.DomHeapGen
namespace XV.Props.C18

/-! ## 1. the ledger monitor -/
section Ledger
open XV.Spec.Ledger XV.Spec.Ledger.Event XV.Model.Ledger XV.Lemmas.Ledger

/-- The monitor accepts exactly the traces in which every release matches one earlier, still live allocation of
the same manager (no foreign pointer, no double free, no wrong manager, no block handed out twice) and nothing is
left at the end.  All traces, any length; pointer values may be re-used after release. -/
theorem monitor_iff (tr : List Event) : monitor tr = .ok () ↔ Disciplined tr ∧ Balanced tr := by
  have := monitorFrom_ok tr {} [] inv_init disciplined_nil
  simpa [monitor] using this

/-- When the monitor rejects, what it reports is the *first* breach and it is classified correctly:
either `index` is the position of an event `e` such that the events before it are disciplined and `e` breaks the
discipline in the reported way (so no shorter prefix is at fault and every extension stays undisciplined), or the whole
trace is disciplined, `index` is its length and `leak ids` lists exactly the blocks still live. -/
theorem monitor_first_violation (tr : List Event) (v : Violation) (h : monitor tr = .error v) :
    FirstViolation tr v ∧
    ((∀ ids, v.kind ≠ .leak ids) → ∃ pre e post, tr = pre ++ e :: post ∧ v.index = pre.length ∧
        Disciplined pre ∧ Breaks pre e v.kind ∧ ¬ OkEvent pre e ∧ ∀ post', ¬ Disciplined (pre ++ e :: post')) := by
  have hf : FirstViolation (([] : List Event) ++ tr) v :=
    monitorFrom_error tr {} [] v inv_init disciplined_nil (by simpa [monitor] using h)
  simp only [List.nil_append] at hf
  refine ⟨hf, ?_⟩
  intro hk
  have key : ∃ pre e post, tr = pre ++ e :: post ∧ v.index = pre.length ∧ Disciplined pre ∧ Breaks pre e v.kind := by
    unfold FirstViolation at hf
    cases hkind : v.kind with
    | leak l => exact (hk l hkind).elim
    | foreignFree => rw [hkind] at hf; exact hf
    | doubleFree => rw [hkind] at hf; exact hf
    | wrongManager o => rw [hkind] at hf; exact hf
    | dupAlloc o => rw [hkind] at hf; exact hf
  obtain ⟨pre, e, post, htr, hi, hd, hb⟩ := key
  have hno := breaks_not_ok hd hb
  exact ⟨pre, e, post, htr, hi, hd, hb, hno, fun post' hD => hno (hD pre e post' rfl)⟩

/-- A block has one owner at a time in a disciplined history (so "the same manager" is well defined). -/
theorem owner_unique (pre : List Event) (hd : Disciplined pre) (p m m' : Nat)
    (h1 : LiveAfter pre p m) (h2 : LiveAfter pre p m') : m = m' :=
  XV.Lemmas.Ledger.owner_unique hd h1 h2

-- non-vacuity of owner_unique: block 7 is live after this disciplined history, and its only owner is manager 2
example : LiveAfter [alloc 1 7 16, free 1 7, alloc 2 7 8] 7 2 := ⟨[alloc 1 7 16, free 1 7], [], 8, rfl, by simp⟩
example : ∀ m, LiveAfter [alloc 1 7 16, free 1 7, alloc 2 7 8] 7 m → m = 2 := fun m h =>
  owner_unique _ (disciplined_prefix (post := [free 2 7]) ((monitor_iff [alloc 1 7 16, free 1 7, alloc 2 7 8, free 2 7]).mp rfl).1) 7 m 2 h
    ⟨[alloc 1 7 16, free 1 7], [], 8, rfl, by simp⟩

-- non-vacuity: address 7 is re-used by another manager after it was released — accepted, hence disciplined and balanced
example : monitor [alloc 1 7 16, alloc 1 9 4, free 1 7, alloc 2 7 8, free 2 7, free 1 9] = .ok () := rfl
example : Disciplined [alloc 1 7 16, alloc 1 9 4, free 1 7, alloc 2 7 8, free 2 7, free 1 9] ∧
    Balanced [alloc 1 7 16, alloc 1 9 4, free 1 7, alloc 2 7 8, free 2 7, free 1 9] :=
  (monitor_iff _).mp rfl
-- every kind of breach is reported, at the first offending index
example : monitor [alloc 1 7 16, free 1 7, free 1 7] = .error ⟨2, .doubleFree⟩ := rfl
example : monitor [alloc 1 7 16, free 1 8] = .error ⟨1, .foreignFree⟩ := rfl
example : monitor [alloc 1 7 16, free 2 7] = .error ⟨1, .wrongManager 1⟩ := rfl
example : monitor [alloc 1 7 16, alloc 2 7 16] = .error ⟨1, .dupAlloc 1⟩ := rfl
example : monitor [alloc 1 7 16, alloc 1 8 1, free 1 7] = .error ⟨3, .leak [8]⟩ := rfl
example : ¬ Disciplined [alloc 1 7 16, free 1 7, free 1 7] := by
  obtain ⟨_, h⟩ := monitor_first_violation [alloc 1 7 16, free 1 7, free 1 7] ⟨2, .doubleFree⟩ rfl
  obtain ⟨pre, e, post, htr, _, _, _, _, hno⟩ := h (by intro ids; simp)
  rw [htr]; exact hno post

/-- `XMemory`: the object pointer handed out by `operator new(size, manager)` leads `operator delete` back to the
raw block and to the manager that allocated it, provided the header word is not overwritten in between (`hkeep`).
So the release event names the allocating manager — which is what `Disciplined` demands. -/
theorem header_roundtrip (header : Nat) (mem : XV.Model.XMemory.Mem) (tr : List Event) (mgr block size : Nat)
    (mem' : XV.Model.XMemory.Mem) (tr' : List Event)
    (hkeep : mem' block = (XV.Model.XMemory.xnew header mem tr mgr block size).1 block) :
    XV.Model.XMemory.xdelete header mem' tr' (XV.Model.XMemory.xnew header mem tr mgr block size).2.2 =
      tr' ++ [free mgr block] := by
  simp [XV.Model.XMemory.xdelete, XV.Model.XMemory.xnew, XV.Model.XMemory.store] at hkeep ⊢
  exact hkeep

-- non-vacuity: new then delete through the header is a disciplined, balanced trace
example : monitor (XV.Model.XMemory.xdelete 8 (XV.Model.XMemory.xnew 8 (fun _ => 0) [] 3 1000 40).1
    (XV.Model.XMemory.xnew 8 (fun _ => 0) [] 3 1000 40).2.1 (XV.Model.XMemory.xnew 8 (fun _ => 0) [] 3 1000 40).2.2) = .ok () := rfl

end Ledger

/-! ## 2. Initialize / Terminate -/
section Lifecycle
open XV.Model.Lifecycle XV.Lemmas.Lifecycle XV.Model.DomHeapGen

/-- the statics before the first `Initialize` -/
def start (h : Heap) : St := { heap := h }

/-- Any balanced nesting of Initialize/Terminate (either overload, any arguments, any depth — including depths
that saturate the LONG_MAX guard) ends in the initial state: flag 0, no manager, `fgMemMgrAdopted` back to true,
subsystems down; every manager the library created itself has been deleted exactly once and no application
manager was ever deleted.  If `Terminate` resets the DOM heap sizes they are the defaults again. -/
theorem init_term_balanced (c : Cfg) (h : Heap) (ops : List Op) (hb : balanced ops = true) :
    let s := run c (start h) ops
    s.flag = 0 ∧ s.mgr = none ∧ s.adopted = true ∧ s.up = false ∧
    s.deleted = allDefaults s.made ∧ (∀ u, Mgr.user u ∉ s.deleted) ∧
    (1 < c.longMax → c.reset = some h → s.heap = h) := by
  intro s
  have hz : s.flag = 0 := balanced_flag_zero c ops 0 (start h) (by simp [start]) hb
  have w : WF s := wf_run c ops _ (wf_init h)
  obtain ⟨h1, h2, h3, h4⟩ := w.down hz
  refine ⟨hz, h1, h2, h3, h4, ?_, ?_⟩
  · intro u hu
    rw [h4] at hu
    simp [allDefaults] at hu
  · intro hl hr
    exact heapDown_run c hl ops (start h) (by intro d hd _; simp [start] at *; rw [hr] at hd; cases hd; rfl) h hr hz

/-- The outermost `Terminate` deletes the manager iff the library adopted (created) it. -/
theorem terminate_deletes_iff_adopted (c : Cfg) (s : St) (w : WF s) (h1 : s.flag = 1) :
    ∃ m, s.mgr = some m ∧
      (termLib c s).deleted = (if s.adopted then m :: s.deleted else s.deleted) ∧
      (s.adopted = true ↔ ∃ k, m = .dflt k) ∧ (termLib c s).mgr = none ∧ (termLib c s).adopted = true := by
  rw [termLib_last c s h1]
  cases ha : s.adopted with
  | true =>
    obtain ⟨_, _, hm, _⟩ := w.upA (by omega) ha
    exact ⟨_, hm, by simp [hm], by simp, rfl, rfl⟩
  | false =>
    obtain ⟨_, ⟨u, hm⟩, _⟩ := w.upU (by omega) ha
    exact ⟨_, hm, by simp, by simp, rfl, rfl⟩

/-- Inside an initialised library only the counter moves: a nested `Initialize` ignores every argument (manager,
heap sizes), a nested `Terminate` releases nothing. -/
theorem nested_only_outermost_works (c : Cfg) (s : St) (hl : 1 < c.longMax) (h0 : 0 < s.flag) :
    (∀ a, step c s (.init a) = { s with flag := if s.flag = c.longMax then s.flag else s.flag + 1 }) ∧
    (∀ hp a, step c s (.initHeap hp a) = { s with flag := if s.flag = c.longMax then s.flag else s.flag + 1 }) ∧
    (1 < s.flag → step c s .term = { s with flag := s.flag - 1 }) := by
  refine ⟨?_, ?_, ?_⟩
  · intro a
    by_cases hs : s.flag = c.longMax
    · simp [step, initLib_sat c s a hs, hs]
      cases s; simp_all
    · simp [step, initLib_nested c s a h0 hs, hs]
  · intro hp a
    by_cases hs : s.flag = c.longMax
    · have : ¬ (c.longMax = 1) := by omega
      simp [step, initLibHeap, initLib_sat c s a hs, hs, this]
      cases s; simp_all
    · simp [step, initLibHeap, initLib_nested c s a h0 hs, hs]
      intro h; omega
  · intro h1
    simp [step, termLib_nested c s h1]

/-- `Terminate` on a library that is not initialised does nothing, any number of times. -/
theorem extra_terminate_harmless (c : Cfg) (s : St) (h : s.flag = 0) (n : Nat) :
    run c s (List.replicate n .term) = s := by
  induction n with
  | zero => rfl
  | succ n ih =>
    simp only [List.replicate_succ, run, List.foldl_cons, step]
    rw [termLib_zero c s h]
    exact ih

/-- The pinned code (no reset in `Terminate`): the DOM heap sizes given to one `Initialize` survive `Terminate`
and govern the next, default, `Initialize` — so a re-initialised library does *not* behave identically.
(Negative statement about the unchanged code; witnessed on the real library by the C18 check.) -/
theorem heap_survives_terminate (lm : Nat) (hl : 1 < lm) (h0 h : Heap) (a b : Option Nat) :
    (run ⟨lm, none⟩ (start h0) [.initHeap h a, .term, .init b]).heap = h := by
  have e2 : ¬ (0 = lm) := by omega
  cases a <;> cases b <;> simp [run, step, initLibHeap, initLib, termLib, start, e2]

theorem gen_longMax_ok : 1 < genCfg.longMax := by decide

-- non-vacuity: nested, with and without a custom manager, different arguments
example : balanced [.init (some 5), .initHeap ⟨64, 128, 40⟩ none, .term, .term, .init none, .term] = true := by decide
example : (run genCfg (start genDefaults)
    [.init (some 5), .initHeap ⟨64, 128, 40⟩ none, .term, .term, .init none, .term]).deleted = [.dflt 0] := by decide
example : (run genCfg (start genDefaults) [.init (some 5), .init (some 6)]).mgr = some (.user 5) := by decide
example : WF (run genCfg (start genDefaults) [.init (some 5)]) ∧ (run genCfg (start genDefaults) [.init (some 5)]).flag = 1 :=
  ⟨wf_run _ _ _ (wf_init _), by decide⟩
-- the outermost Terminate of a library running on an application manager deletes nothing; on its own manager, that manager
example : (termLib genCfg (run genCfg (start genDefaults) [.init (some 5)])).deleted = [] := by decide
example : (termLib genCfg (run genCfg (start genDefaults) [.init none])).deleted = [.dflt 0] := by decide
-- nested: flag 2, a further Initialize with other arguments only moves the counter
example : (run genCfg (start genDefaults) [.init (some 5), .init none, .initHeap ⟨64, 128, 40⟩ (some 6)]).heap = genDefaults ∧
    (run genCfg (start genDefaults) [.init (some 5), .init none, .initHeap ⟨64, 128, 40⟩ (some 6)]).flag = 3 := by decide
example : run genCfg (start genDefaults) [.term, .term, .term] = start genDefaults := by decide

end Lifecycle

/-! ## 3. the DOM document arena -/
section Arena
open XV.Model.Arena XV.Spec.Arena XV.Lemmas.Arena XV.Model.DomHeapGen

/-- All regions handed out by `DOMDocumentImpl::allocate` and not released lie in the payload of raw blocks the
document owns and are pairwise disjoint — for every operation history (allocate / release /
setMemoryAllocationBlockSize), provided the system allocator never returns a block overlapping one the document still
owns (`Valid`), and provided **either** `allocate` re-checks the fit (`c.recheck`) **or** `Fits`:
`alignDown(maxDOMSubAllocationSize) = 0 ∨ alignDown(maxDOMSubAllocationSize) + sizeOfHeader ≤ initialDOMHeapAllocSize`
(`maxDOMHeapAllocSize` does not matter).  `Valid` asks the same of every size passed to
setMemoryAllocationBlockSize. -/
theorem arena_disjoint (c : Consts) (P : Params) (hal : 0 < c.align) (hg : 1 ≤ c.grow)
    (hfit : c.recheck = true ∨ Fits c P) (ops : List Op) (hv : Valid c P (init P) ops) :
    let a := run c P (init P) ops
    ArenaOk c.header ((owned a).map blk) a.subs := by
  intro a
  have h0 : SizeOk c P P.initial := by
    rcases hfit with h | h | h
    · exact Or.inl h
    · exact Or.inr (Or.inl h)
    · exact Or.inr (Or.inr h)
  exact ainv_ok (ainv_run hal hg ops _ (ainv_init c P h0) hv)

/-- The hypothesis is exactly what is needed: without the re-check, whenever `Fits` fails one allocation of
`alignDown(maxSub)` bytes on a fresh document is carved past the end of its block. -/
theorem arena_hypothesis_necessary (c : Consts) (P : Params) (hr : c.recheck = false)
    (hnf : ¬ Fits c P) :
    ∃ ops, Valid c P (init P) ops ∧
      ¬ ArenaOk c.header ((owned (run c P (init P) ops)).map blk) (run c P (init P) ops).subs := by
  have hA : alignDown c.align P.maxSub ≠ 0 := fun h => hnf (Or.inl h)
  have hB : ¬ (alignDown c.align P.maxSub + c.header ≤ P.initial) := fun h => hnf (Or.inr h)
  have hle := alignDown_le c.align P.maxSub
  have hup : alignUp c.align (alignDown c.align P.maxSub) = alignDown c.align P.maxSub :=
    alignUp_of_mod (alignDown_mod _ _)
  have hov : oversize c P (init P) (alignDown c.align P.maxSub) = false := by
    simp [oversize, hr]; omega
  have hgt : alignDown c.align P.maxSub > (init P).freeRem := by simp [init]; omega
  refine ⟨[.alloc (alignDown c.align P.maxSub) 0], ⟨?_, trivial⟩, ?_⟩
  · simp only [SysOk]
    cases takes c P (init P) (alignDown c.align P.maxSub) 0 with
    | none => trivial
    | some b => intro o ho; simp [owned, init] at ho
  · rintro ⟨hin, _⟩
    have hrun : run c P (init P) [.alloc (alignDown c.align P.maxSub) 0] =
        carve (newBlock c P (init P) 0) (alignDown c.align P.maxSub) := by
      simp only [run, List.foldl_cons, List.foldl_nil, step, allocate_eq, hup, hov, hgt]
      simp
    rw [hrun] at hin
    have := hin (c.header, alignDown c.align P.maxSub) (by simp [carve, newBlock, init]) (by simp; omega)
    obtain ⟨b, hb, h1, h2⟩ := this
    simp [carve, newBlock, owned, init, blk] at hb
    subst hb
    simp at h1 h2
    omega

/-- Same for `setMemoryAllocationBlockSize`: the guard `size > maxSub` in the pinned code is too weak. -/
theorem setblock_hypothesis_necessary (c : Consts) (P : Params) (hr : c.recheck = false)
    (sz : Nat) (h1 : P.maxSub < sz) (h2 : sz < alignDown c.align P.maxSub + c.header)
    (hA : alignDown c.align P.maxSub ≠ 0) :
    ¬ ArenaOk c.header ((owned (run c P (init P) [.setBlock sz, .alloc (alignDown c.align P.maxSub) 0])).map blk)
        (run c P (init P) [.setBlock sz, .alloc (alignDown c.align P.maxSub) 0]).subs := by
  have hle := alignDown_le c.align P.maxSub
  have hup : alignUp c.align (alignDown c.align P.maxSub) = alignDown c.align P.maxSub :=
    alignUp_of_mod (alignDown_mod _ _)
  have hs : setBlockSize P (init P) sz = { init P with heapSize := sz } := by simp [setBlockSize, h1]
  have hov : oversize c P { init P with heapSize := sz } (alignDown c.align P.maxSub) = false := by
    simp [oversize, hr]; omega
  have hgt : alignDown c.align P.maxSub > ({ init P with heapSize := sz } : Arena).freeRem := by simp [init]; omega
  rintro ⟨hin, _⟩
  have hrun : run c P (init P) [.setBlock sz, .alloc (alignDown c.align P.maxSub) 0] =
      carve (newBlock c P { init P with heapSize := sz } 0) (alignDown c.align P.maxSub) := by
    simp only [run, List.foldl_cons, List.foldl_nil, step, hs, allocate_eq, hup, hov, hgt]
    simp
  rw [hrun] at hin
  have := hin (c.header, alignDown c.align P.maxSub) (by simp [carve, newBlock, init]) (by simp; omega)
  obtain ⟨b, hb, h3, h4⟩ := this
  simp [carve, newBlock, owned, init, blk] at hb
  subst hb
  simp at h3 h4
  omega

/-- `deleteHeap` hands every owned raw block back, each once, and leaves nothing owned. -/
theorem arena_all_freed_on_delete (a : Arena) :
    (deleteHeap a).1 = owned a ∧ owned (deleteHeap a).2 = [] ∧ (deleteHeap a).2.subs = [] := by
  simp [deleteHeap, owned]

/-- the executable judge that the driver applies to what the real `DOMDocumentImpl` returned is `ArenaOk` -/
theorem regionsOk_iff (hdr : Nat) (bs : List Block) (rs : List Region) :
    regionsOk hdr bs rs = true ↔ ArenaOk hdr bs rs := XV.Lemmas.Arena.regionsOk_iff hdr bs rs

/-- With the constants of the sources as they are: the default sizes are safe, and so is every triple passed to
`Initialize` that satisfies `Fits` (or any triple at all once `allocate` re-checks). -/
theorem arena_disjoint_gen (P : Params) (hfit : genConsts.recheck = true ∨ Fits genConsts P) (ops : List Op)
    (hv : Valid genConsts P (init P) ops) :
    ArenaOk genConsts.header ((owned (run genConsts P (init P) ops)).map blk) (run genConsts P (init P) ops).subs :=
  arena_disjoint genConsts P (by decide) (by decide) hfit ops hv

theorem gen_defaults_fit : Fits genConsts genParams := by decide

-- non-vacuity: a history with sub-allocations, an oversize block, a release and block growth satisfies `Valid`
example : Valid genConsts ⟨64, 128, 40⟩ (init ⟨64, 128, 40⟩)
    [.alloc 24 1000, .alloc 30 2000, .alloc 100 3000, .release 3008, .alloc 40 4000, .setBlock 200, .alloc 8 5000] := by
  decide
example : (run genConsts ⟨64, 128, 40⟩ (init ⟨64, 128, 40⟩)
    [.alloc 24 1000, .alloc 30 2000, .alloc 100 3000, .alloc 40 4000]).subs = [(4008, 40), (3008, 104), (1032, 32), (1008, 24)] := by
  decide
-- the region excluded by `Fits` is inhabited by arguments the public API accepts (F17: Initialize(64,128,256))
example : ¬ Fits genConsts ⟨64, 128, 256⟩ := by decide
-- the two necessity theorems apply to the pinned shape of the code (no re-check) with the platform constants 8/8/2
example : ∃ ops, Valid ⟨8, 8, 2, false⟩ ⟨64, 128, 256⟩ (init ⟨64, 128, 256⟩) ops ∧
    ¬ ArenaOk 8 ((owned (run ⟨8, 8, 2, false⟩ ⟨64, 128, 256⟩ (init ⟨64, 128, 256⟩) ops)).map blk)
      (run ⟨8, 8, 2, false⟩ ⟨64, 128, 256⟩ (init ⟨64, 128, 256⟩) ops).subs :=
  arena_hypothesis_necessary ⟨8, 8, 2, false⟩ ⟨64, 128, 256⟩ rfl (by decide)
example : ¬ ArenaOk 8 ((owned (run ⟨8, 8, 2, false⟩ ⟨16384, 524288, 256⟩ (init ⟨16384, 524288, 256⟩) [.setBlock 260, .alloc 256 0])).map blk)
      (run ⟨8, 8, 2, false⟩ ⟨16384, 524288, 256⟩ (init ⟨16384, 524288, 256⟩) [.setBlock 260, .alloc 256 0]).subs :=
  setblock_hypothesis_necessary ⟨8, 8, 2, false⟩ ⟨16384, 524288, 256⟩ rfl 260 (by decide) (by decide) (by decide)
-- with the re-check the same histories are fine (what fixes/C18-dom-arena-recheck-fit.diff buys)
example : regionsOk 8 ((owned (run ⟨8, 8, 2, true⟩ ⟨64, 128, 256⟩ (init ⟨64, 128, 256⟩) [.alloc 256 0])).map blk)
      (run ⟨8, 8, 2, true⟩ ⟨64, 128, 256⟩ (init ⟨64, 128, 256⟩) [.alloc 256 0]).subs = true := by decide
example : regionsOk 8 [(0, 64)] [(8, 256)] = false := by decide

end Arena

end XV.Props.C18
