/- C10 — identity constraints (xs:unique, xs:key, xs:keyref) are enforced in the value space.

   Objects: XV.Spec.Identity (XPath subset semantics `pathMatches`, value spaces, node tables, `ICValid`, executable
   `icCheck`) and the code-shaped models of XV.Model.Identity (XPathMatcher per location path = `run1`; ValueStore
   `startValueScope / addValue / endValueScope` composed per selected node = `storeRun`; `keyrefCheck`).
   Every statement is unbounded in the tree, the path and the number of tuples unless it is a named witness. -/
import XV.Lemmas.Identity
namespace XV.Props.C10
open XV.Spec.Identity XV.Model.Identity XV.Lemmas.Identity XV.Gen.ValidityCodes

/-! ## tie to the generated error-code table -/

/-- the identity-constraint codes of XMLValid::Codes are errors (neither warnings nor fatal) and pairwise distinct -/
theorem ic_codes_are_errors :
    (∀ c ∈ icCodes, E_LowBounds < c.2 ∧ c.2 < E_HighBounds ∧ ¬ (W_LowBounds ≤ c.2 ∧ c.2 ≤ W_HighBounds) ∧
        ¬ (F_LowBounds ≤ c.2 ∧ c.2 ≤ F_HighBounds)) ∧
    (icCodes.map (·.2)).Nodup ∧
    icCodes.map (·.2) = [IC_FieldMultipleMatch, IC_UnknownField, IC_AbsentKeyValue, IC_KeyNotEnoughValues,
      IC_KeyMatchesNillable, IC_DuplicateUnique, IC_DuplicateKey, IC_KeyRefOutOfScope, IC_KeyNotFound] := by
  decide

/-! ## value space -/

/-- lexically different decimals are the same value iff their normal forms coincide: `m₁/10^s₁ = m₂/10^s₂` -/
theorem decimal_eq_value (m1 : Int) (s1 : Nat) (m2 : Int) (s2 : Nat) :
    normDec m1 s1 = normDec m2 s2 ↔ m1 * 10 ^ s2 = m2 * 10 ^ s1 :=
  normDec_eq_iff m1 s1 m2 s2

private def str (x : String) : List Nat := x.toList.map Char.toNat

example : valueOf .decimal (str "1.0") 0 = valueOf .decimal (str "1.00") 0 ∧
    valueOf .decimal (str "1.00") 0 = valueOf .decimal (str " +1") 0 ∧
    valueOf .integer (str "+1") 0 = valueOf .decimal (str "01.") 0 ∧
    valueOf .decimal (str "1.0") 0 ≠ valueOf .decimal (str "1.01") 0 ∧
    valueOf .token (str " a  b ") 0 = valueOf .string (str "a b") 0 ∧
    valueOf .date (str "2000-01-01+14:00") 0 = valueOf .date (str "1999-12-31-10:00") 0 ∧
    valueOf .date (str "2000-01-01Z") 0 ≠ valueOf .date (str "2000-01-01") 0 := by decide
example : normDec 100 2 = normDec 10 1 ∧ (100 : Int) * 10 ^ 1 = 10 * 10 ^ 2 := by decide

/-- ICValueHasher::isDuplicateOf (common-ancestor rule, `compare` of the ancestor) decides equality in the value
    space, for valid non-empty values of any two of the six field types -/
theorem isDuplicateOf_value (a b : TV) (ha : a.val ≠ none) (hb : b.val ≠ none)
    (hna : wsNorm a.ty a.lex ≠ []) (hnb : wsNorm b.ty b.lex ≠ []) :
    isDuplicateOf (SV.ofTV a) (SV.ofTV b) = decide (a.val = b.val) :=
  isDuplicateOf_tv a b ha hb hna hnb

example : isDuplicateOf (SV.ofTV ⟨.integer, str "+1", 0⟩) (SV.ofTV ⟨.decimal, str "1.00", 0⟩) = true ∧
    isDuplicateOf (SV.ofTV ⟨.integer, str "1", 0⟩) (SV.ofTV ⟨.string, str "1", 0⟩) = false ∧
    (⟨.integer, str "+1", 0⟩ : TV).val ≠ none := by decide

/-- ICValueHasher::equals on tuples of valid non-empty typed values is equality of the sequences of denoted values:
    the instance of `EqVia` under which `dup_iff`, `key_iff`, `keyref_iff`, `perm_invariant` speak about the value space -/
theorem tupleEquals_value : EqVia ValidTuple tupleVals := tupleEquals_value'

example : ValidTuple [SV.ofTV ⟨.integer, str "+1", 0⟩, SV.ofTV ⟨.token, str " a  b", 0⟩] :=
  ⟨[⟨.integer, str "+1", 0⟩, ⟨.token, str " a  b", 0⟩], rfl, by decide⟩

/-- the one place where isDuplicateOf leaves the value space: empty values of different (related) types -/
theorem isDuplicateOf_empty_cross_type_witness :
    isDuplicateOf (SV.ofTV ⟨.string, [], 0⟩) (SV.ofTV ⟨.token, [], 0⟩) = false ∧
    (⟨.string, [], 0⟩ : TV).val = (⟨.token, [], 0⟩ : TV).val := by decide

/-! ## XPathMatcher = XPath semantics -/

/-- `./t₁/…/tₙ` (n ≥ 0, any name tests): driven over ANY tree from the context element, the incremental matcher
    (per-path step stack, fNoMatchDepth, fMatched) calls `matched()` exactly for the elements the path selects,
    in document order, and is back in its initial state afterwards -/
theorem matcher_eq_path (ts : List NameTest) (ctx : Node) :
    (run1 (simplePath ts) {} ctx).1 = {} ∧
    (run1 (simplePath ts) {} ctx).2.2 =
      ((ctx.descs.filter fun p => pathMatches (simplePath ts) p.1 none).map fun p => (p.2.id, none)) := by
  obtain ⟨h1, h2⟩ := run1_ctx ts ctx
  refine ⟨h1, ?_⟩
  rw [h2, ← ctxHits_spec ts ctx, List.map_map]
  rfl

private def nd (i : Nat) (n : Nat) (kids : List Node) : Node := .mk i ⟨0, n⟩ false false [] none kids
private def qn (n : Nat) : NameTest := .name ⟨0, n⟩
private def callIds (p : Path) (ctx : Node) : List Nat := (run1 p {} ctx).2.2.map (·.1)
private def specIds (p : Path) (ctx : Node) : List Nat := (ctx.descs.filter fun x => pathMatches p x.1 none).map (·.2.id)

-- non-vacuity: a/b on  c( a(b, c(b)), b, a(b) )  selects the two b children of the a children
example : callIds (simplePath [qn 0, qn 1]) (nd 0 2 [nd 1 0 [nd 2 1 [], nd 3 2 [nd 4 1 []]], nd 5 1 [], nd 6 0 [nd 7 1 []]]) = [2, 7] := by
  decide

/-- `.//t` (selector use): for every element of ANY tree — nested matches included — the match flag after
    startElement is XP_MATCHED_D exactly when the path selects the element, provided the context element itself does
    not pass the test (see `matcher_deviations` for what happens otherwise) -/
theorem matcher_desc_eq_path (t : NameTest) (ctx : Node) (h : t.ok ctx.name = false) :
    (run1 (descPath t) {} ctx).1 = {} ∧
    (run1 (descPath t) {} ctx).2.1.map (fun s => s.matched == XP_MATCHED_D)
      = ctx.descs.map (fun p => pathMatches (descPath t) p.1 none) :=
  run1_desc_ctx t ctx h

example : (run1 (descPath (qn 0)) {} (nd 0 2 [nd 1 0 [nd 2 0 [], nd 3 1 [nd 4 0 []]]])).2.1.map (fun s => s.matched == XP_MATCHED_D)
    = [false, true, true, false, true] := by decide

/-- Outside the two classes above the incremental matcher is NOT the XPath semantics (kernel-checked witnesses; the
    same inputs are driven through the real XPathMatcher by the check):
    1. an interior `.` step: `a/./b` on c/a/b/b reports the inner b instead of the outer one;
    2. several steps after `.//`: `.//a/b` misses c/a/a/b;
    3. `.//a` started on a context element named a selects the context element itself;
    4. two members of a union that select the same node call `matched()` twice (`.|.//*` … here `a|*`). -/
theorem matcher_deviations :
    (callIds [.self, .child (qn 0), .self, .child (qn 1)] (nd 0 2 [nd 1 0 [nd 2 1 [nd 3 1 []]]]) = [3] ∧
     specIds [.self, .child (qn 0), .self, .child (qn 1)] (nd 0 2 [nd 1 0 [nd 2 1 [nd 3 1 []]]]) = [2]) ∧
    (callIds [.self, .desc, .child (qn 0), .child (qn 1)] (nd 0 2 [nd 1 0 [nd 2 0 [nd 3 1 []]]]) = [] ∧
     specIds [.self, .desc, .child (qn 0), .child (qn 1)] (nd 0 2 [nd 1 0 [nd 2 0 [nd 3 1 []]]]) = [3]) ∧
    ((run1 (descPath (qn 0)) {} (nd 0 0 [nd 1 0 []])).2.1.map (fun s => s.matched == XP_MATCHED_D) = [true, true] ∧
     (nd 0 0 [nd 1 0 []]).descs.map (fun p => pathMatches (descPath (qn 0)) p.1 none) = [false, true]) ∧
    ((drive [simplePath [qn 0], simplePath [.any]] (nd 0 2 [nd 1 0 []])).2.map (·.1) = [1, 1] ∧
     ((nd 0 2 [nd 1 0 []]).descs.filter fun x => xpathMatches [simplePath [qn 0], simplePath [.any]] x.1 none).map (·.2.id) = [1]) := by
  decide

/-! ## ValueStore: duplicates, keys, references (one scope element, any number of selected nodes) -/

/-- `dup_iff`: a duplicate is reported (IC_DuplicateUnique / IC_DuplicateKey) iff two selected nodes at positions
    i < j carry complete tuples that are equal — equality being `f`, which on the tuples in question (`P`) is what
    ICValueHasher::equals decides (`EqVia`; by `isDuplicateOf_value` this is equality of the denoted values) -/
theorem dup_iff {β : Type} (P : List SV → Prop) (f : List SV → β) (hf : EqVia P f) (kind : Kind) (c : Nat)
    (hc : dupCode kind = [c]) (n : Nat) (hn : 0 < n) (rows : List (List (Option SV)))
    (hlen : ∀ r ∈ rows, r.length = n) (hP : ∀ t ∈ fullTuples rows, P t) :
    c ∈ (storeRun { kind := kind, nFields := n } rows).2 ↔
      ∃ i j, ∃ (hi : i < (fullTuples rows).length) (hj : j < (fullTuples rows).length),
        i < j ∧ f (fullTuples rows)[i] = f (fullTuples rows)[j] := by
  have sp := storeRun_spec rows { kind := kind, nFields := n } hlen hn
  obtain ⟨hca, hcn⟩ := dupCode_ne kind c hc
  rw [sp.1, foldErrs_dup P f hf kind c hc hca hcn rows [] (by simp) hP]
  simp only [List.map_nil, List.not_mem_nil, and_false, exists_false, false_or]
  rw [not_nodup_iff]
  simp only [List.length_map, List.getElem_map]

/-- `key_iff`: a key scope reports nothing iff every selected node has every field and the tuples are pairwise
    distinct -/
theorem key_iff {β : Type} (P : List SV → Prop) (f : List SV → β) (hf : EqVia P f) (n : Nat) (hn : 0 < n)
    (rows : List (List (Option SV))) (hlen : ∀ r ∈ rows, r.length = n) (hP : ∀ t ∈ fullTuples rows, P t) :
    (storeRun { kind := .key, nFields := n } rows).2 = [] ↔
      (∀ r ∈ rows, allPresent r ≠ none) ∧ ((fullTuples rows).map f).Nodup := by
  have sp := storeRun_spec rows { kind := .key, nFields := n } hlen hn
  rw [sp.1]
  have hd := foldErrs_dup P f hf .key IC_DuplicateKey rfl (by decide) (by decide) rows [] (by simp) hP
  simp only [List.map_nil, List.not_mem_nil, and_false, exists_false, false_or] at hd
  have ha := foldErrs_missing .key IC_AbsentKeyValue (by decide) rows []
  have hne := foldErrs_missing .key IC_KeyNotEnoughValues (by decide) rows []
  constructor
  · intro h
    rw [h] at hd ha hne
    refine ⟨?_, ?_⟩
    · intro r hr hnone
      by_cases h0 : somes r = 0
      · exact (List.not_mem_nil (a := IC_AbsentKeyValue)) (ha.mpr ⟨rfl, r, hr, hnone, Or.inl ⟨h0, rfl⟩⟩)
      · exact (List.not_mem_nil (a := IC_KeyNotEnoughValues)) (hne.mpr ⟨rfl, r, hr, hnone, Or.inr ⟨h0, rfl⟩⟩)
    · apply Classical.byContradiction
      intro hnd
      exact (List.not_mem_nil (a := IC_DuplicateKey)) (hd.mpr hnd)
  · rintro ⟨h1, h2⟩
    apply List.eq_nil_iff_forall_not_mem.mpr
    intro c hcm
    by_cases hcd : c ∈ dupCode .key
    · have : c = IC_DuplicateKey := by simpa [dupCode] using hcd
      subst this
      exact hd.mp hcm h2
    · obtain ⟨_, r, hr, hnone, _⟩ := (foldErrs_missing .key c hcd rows []).mp hcm
      exact h1 r hr hnone

/-- `keyref_iff`: IC_KeyNotFound is reported iff some complete reference tuple equals no complete key tuple of the
    scope — independent of how many tuples there are and of the hash-table representation -/
theorem keyref_iff {β : Type} (P : List SV → Prop) (f : List SV → β) (hf : EqVia P f) (kkind : Kind) (refer : Nat)
    (n : Nat) (hn : 0 < n) (keyRows refRows : List (List (Option SV)))
    (hk : ∀ r ∈ keyRows, r.length = n) (hr : ∀ r ∈ refRows, r.length = n)
    (hPk : ∀ t ∈ fullTuples keyRows, P t) (hPr : ∀ t ∈ fullTuples refRows, P t) :
    IC_KeyNotFound ∈ keyrefCheck (storeRun { kind := .keyref refer, nFields := n } refRows).1.tuples
        (some (storeRun { kind := kkind, nFields := n } keyRows).1.tuples) ↔
      ∃ r ∈ fullTuples refRows, f r ∉ (fullTuples keyRows).map f := by
  have spk := storeRun_spec keyRows { kind := kkind, nFields := n } hk hn
  have spr := storeRun_spec refRows { kind := .keyref refer, nFields := n } hr hn
  rw [spk.2, spr.2]
  obtain ⟨kP, kM⟩ := foldTuples_mem P f hf keyRows [] (by simp) hPk
  obtain ⟨rP, rM⟩ := foldTuples_mem P f hf refRows [] (by simp) hPr
  simp only [List.map_nil, List.not_mem_nil, false_or] at kM rM
  have hmem : ∀ (L : List (List SV)) (p : List SV → Bool),
      IC_KeyNotFound ∈ (L.filter p).map (fun _ => IC_KeyNotFound) ↔ ∃ t, t ∈ L ∧ p t = true := by
    intro L p
    simp only [List.mem_map, List.mem_filter, and_true]
  unfold keyrefCheck
  simp only []
  rw [hmem]
  simp only [Bool.not_eq_true']
  constructor
  · rintro ⟨t, ht, hc⟩
    have hnc : ¬ f t ∈ (foldTuples [] keyRows).map f := by
      intro hin
      have := (containsTuple_iff P f hf _ kP t (rP t ht)).mpr hin
      rw [this] at hc; cases hc
    obtain ⟨u, hu, he⟩ := List.mem_map.mp ((rM (f t)).mp (List.mem_map.mpr ⟨t, ht, rfl⟩))
    refine ⟨u, hu, ?_⟩
    intro hin
    rw [he] at hin
    exact hnc ((kM (f t)).mpr hin)
  · rintro ⟨u, hu, hnin⟩
    obtain ⟨t, ht, he⟩ := List.mem_map.mp ((rM (f u)).mpr (List.mem_map.mpr ⟨u, hu, rfl⟩))
    refine ⟨t, ht, ?_⟩
    cases hc : containsTuple (foldTuples [] keyRows) t with
    | false => rfl
    | true =>
      exfalso
      have := (containsTuple_iff P f hf _ kP t (rP t ht)).mp hc
      rw [he] at this
      exact hnin ((kM (f u)).mp this)

/-- `perm_invariant`: the set of violation classes of a scope does not depend on the document order of the selected
    nodes -/
theorem perm_invariant {β : Type} (P : List SV → Prop) (f : List SV → β) (hf : EqVia P f) (kind : Kind) (n : Nat)
    (hn : 0 < n) (rows rows' : List (List (Option SV))) (hperm : rows.Perm rows')
    (hlen : ∀ r ∈ rows, r.length = n) (hP : ∀ t ∈ fullTuples rows, P t) (c : Nat) :
    c ∈ (storeRun { kind := kind, nFields := n } rows).2 ↔ c ∈ (storeRun { kind := kind, nFields := n } rows').2 := by
  have hlen' : ∀ r ∈ rows', r.length = n := fun r hr => hlen r (hperm.mem_iff.mpr hr)
  have hfp : (fullTuples rows).Perm (fullTuples rows') := hperm.filterMap _
  have hP' : ∀ t ∈ fullTuples rows', P t := fun t ht => hP t (hfp.mem_iff.mpr ht)
  rw [(storeRun_spec rows _ hlen hn).1, (storeRun_spec rows' _ hlen' hn).1]
  by_cases hcd : c ∈ dupCode kind
  · have hc : dupCode kind = [c] := by
      cases kind <;> simp [dupCode] at hcd ⊢ <;> exact hcd.symm
    obtain ⟨hca, hcn⟩ := dupCode_ne kind c hc
    rw [foldErrs_dup P f hf kind c hc hca hcn rows [] (by simp) hP,
        foldErrs_dup P f hf kind c hc hca hcn rows' [] (by simp) hP']
    simp only [List.map_nil, List.not_mem_nil, and_false, exists_false, false_or]
    rw [(hfp.map f).nodup_iff]
  · rw [foldErrs_missing kind c hcd rows [], foldErrs_missing kind c hcd rows' []]
    constructor
    · rintro ⟨hk, r, hr, h⟩
      exact ⟨hk, r, hperm.mem_iff.mp hr, h⟩
    · rintro ⟨hk, r, hr, h⟩
      exact ⟨hk, r, hperm.mem_iff.mpr hr, h⟩

/-- `keyorder_invariant`: the keyref verdict of a scope does not depend on how key nodes and referring nodes are
    interleaved in the document (keys after their references included) -/
theorem keyorder_invariant (ks rs : VStore) (evs evs' : List (Bool × List (Option SV)))
    (hk : (evs.filterMap fun e => if e.1 then some e.2 else none) = evs'.filterMap fun e => if e.1 then some e.2 else none)
    (hr : (evs.filterMap fun e => if e.1 then none else some e.2) = evs'.filterMap fun e => if e.1 then none else some e.2) :
    keyrefCheck (interleavedRun ks rs evs).2.tuples (some (interleavedRun ks rs evs).1.tuples) =
    keyrefCheck (interleavedRun ks rs evs').2.tuples (some (interleavedRun ks rs evs').1.tuples) := by
  rw [interleavedRun_eq, interleavedRun_eq, hk, hr]

/-! non-vacuity of the ValueStore theorems: integer / decimal tuples compared in the value space -/

private def sv (t : Ty) (x : String) : SV := SV.ofTV ⟨t, str x, 0⟩
private def tuplesEx : List (List SV) :=
  [[sv .integer "1", sv .decimal "2.0"], [sv .integer "+1", sv .decimal "2.00"], [sv .integer "1", sv .decimal "2.5"], [sv .integer "7", sv .decimal "2"]]
private abbrev PEx (t : List SV) : Prop := t ∈ tuplesEx
private def fEx (t : List SV) : List (Option Val) := t.map fun v => valueOfNorm v.dv.cmpTy v.lex v.ns

private theorem eqViaEx : EqVia PEx fEx := by
  intro t u ht hu
  simp only [PEx, tuplesEx, List.mem_cons, List.not_mem_nil, or_false] at ht hu
  rcases ht with rfl | rfl | rfl | rfl <;> rcases hu with rfl | rfl | rfl | rfl <;> decide

private def rowsEx : List (List (Option SV)) :=
  [[some (sv .integer "1"), some (sv .decimal "2.0")], [some (sv .integer "7"), none],
   [some (sv .integer "+1"), some (sv .decimal "2.00")], [some (sv .integer "1"), some (sv .decimal "2.5")]]

example : IC_DuplicateUnique ∈ (storeRun { kind := .unique, nFields := 2 } rowsEx).2 :=
  (dup_iff PEx fEx eqViaEx .unique IC_DuplicateUnique rfl 2 (by decide) rowsEx (by decide) (by decide)).mpr
    ⟨0, 1, by decide, by decide, by decide, by decide⟩
example : (storeRun { kind := .key, nFields := 2 } rowsEx).2 = [IC_KeyNotEnoughValues, IC_DuplicateKey] := by decide
example : (storeRun { kind := .key, nFields := 2 } [rowsEx[0]!, rowsEx[3]!]).2 = [] := by decide
example : keyrefCheck (storeRun { kind := .keyref 0, nFields := 2 } [[some (sv .decimal "1.0"), some (sv .integer "2")],
      [some (sv .integer "7"), some (sv .decimal "2.0")]]).1.tuples
    (some (storeRun { kind := .key, nFields := 2 } rowsEx).1.tuples) = [IC_KeyNotFound] := by decide
example : rowsEx.Perm [rowsEx[3]!, rowsEx[1]!, rowsEx[0]!, rowsEx[2]!] := by decide
example : (interleavedRun {kind := .key, nFields := 1} {kind := .keyref 0, nFields := 1}
      [(false, [some (sv .integer "1")]), (true, [some (sv .decimal "1.0")])]).2.tuples.length = 1 := by decide

/-! ## the executable judge is the declarative statement; single-scope node tables -/

/-- `icCheck` (the judge of the correspondence) reports nothing iff the instance satisfies every definition:
    cvc-identity-constraint clauses 3 and 4 with the node tables of §3.11.5 -/
theorem icCheck_iff_ICValid (cs : List IC) (root : Node) (hf : ∀ ic ∈ cs, ic.fields ≠ []) :
    icCheck cs root = [] ↔ ICValid cs root :=
  icCheck_nil_iff cs root hf

/-- when no descendant of the scope element declares the key, the key's node table at that element is exactly its
    own qualified node set (no propagation, no conflicts) -/
theorem table_single_scope (k : IC) (e : Node) (hs : k.scope = e.name)
    (hd : ∀ p ∈ descsKids e.kids, p.2.name ≠ k.scope) : table k e = entries k e :=
  table_single_scope' k e hs hd

/-- nested scopes — PARTIAL.  Full statement intended: the global map the model's ValueStoreCache holds for a key at the
    end of an element = the key-sequences of `table k e` (§3.11.5, conflicting propagated entries removed).  Proved here:
    what the Spec itself says for two sibling scopes — entries propagate to the parent unless they conflict — on a
    witness; the model (`cacheEndElement`, `appendTuples`) keeps one copy of a conflicting key instead of dropping
    both, which the check reports as a known deviation of the code. -/
theorem table_sibling_scopes_partial :
    let k : IC := { id := 0, kind := .key, scope := ⟨0, 1⟩, sel := [[.self, .child (.name ⟨0, 3⟩)]], fields := [[[.self, .attr (.name ⟨0, 10⟩)]]] }
    let item (i : Nat) (v : String) : Node := .mk i ⟨0, 3⟩ false false [(⟨0, 10⟩, ⟨.integer, str v, 0⟩)] none []
    let grp (i : Nat) (ks : List Node) : Node := .mk i ⟨0, 1⟩ false false [] none ks
    ((table k (.mk 0 ⟨0, 0⟩ false false [] none [grp 1 [item 2 "1"], grp 3 [item 4 "2"]])).map (·.1) = [[.dec 1 0], [.dec 2 0]]) ∧
    ((table k (.mk 0 ⟨0, 0⟩ false false [] none [grp 1 [item 2 "1"], grp 3 [item 4 "+1"]])).map (·.1) = []) := by
  decide

example : icCheck [{ id := 0, kind := .unique, scope := ⟨0, 0⟩, sel := [simplePath [qn 1]], fields := [[[.self, .attr (.name ⟨0, 10⟩)]]] }]
    (.mk 0 ⟨0, 0⟩ false false [] none
      [.mk 1 ⟨0, 1⟩ false false [(⟨0, 10⟩, ⟨.decimal, str "1.0", 0⟩)] none [],
       .mk 2 ⟨0, 1⟩ false false [(⟨0, 10⟩, ⟨.decimal, str "1.00", 0⟩)] none []]) = [(0, IC_DuplicateUnique)] := by decide

end XV.Props.C10
