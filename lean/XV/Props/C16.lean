/-
C16 — a serialised grammar pool restores to a behaviourally identical pool.  Property theorems only.
Model: XV.Model.SerEngine (code-shaped XSerializeEngine; constants, sizes and operator descriptors regenerated from the
source), XV.Model.SerOps (symmetry of the per-class operation lists regenerated from every serialize method).
All statements quantify over unbounded value lists, all buffer sizes ≥ `minBuf base` and all buffer addresses.
-/
import XV.Lemmas.SerEngine
import XV.Lemmas.SerLayout
import XV.Lemmas.SerGraph
import XV.Model.SerOps
namespace XV.Props.C16
open XV.Model.SerEngine XV.Model.SerOps XV.Gen.SerConsts XV.Gen.SerializeOps XV.Lemmas.SerEngine
open XV.Lemmas.SerLayout XV.Spec.SerStream XV.Lemmas.SerGraph

/-- The extracted operator tables: every `operator<<`/`writeX` checks, aligns and advances by the size of the type it
transfers, aligned operators align to exactly that size, and `operator>>`/`readX` has the same descriptor. -/
theorem engine_tables_ok : ∀ t : Ty, DescOK t.w ∧ t.r = t.w := desc_tables

/-- Reading back what a sequence of typed primitive writes produced yields the same values — for every value list,
every buffer size ≥ the minimum, every buffer address (store and load buffers congruent mod 8; `malloc` gives 16),
i.e. at every starting alignment and across every block boundary. -/
theorem prim_roundtrip (baseS baseL B : Nat) (tvs : List (Ty × Nat)) (hB : minBuf baseS ≤ B)
    (hbase : baseL % 8 = baseS % 8) (hok : ∀ p ∈ tvs, p.2 < 256 ^ p.1.w.xfer) :
    loadVals baseL B (storeVals baseS B (tvs.map fun p => Val.prim p.1 p.2)) (tvs.map fun p => Shape.prim p.1)
      = .ok (tvs.map fun p => Val.prim p.1 p.2) := by
  have := vals_roundtrip baseS baseL B (tvs.map fun p => Val.prim p.1 p.2) hB hbase (by
    intro v hv; obtain ⟨p, hp, rfl⟩ := List.mem_map.1 hv; exact hok p hp)
  simpa [List.map_map, Function.comp_def, Val.shape] using this

/-- `writeString`/`readString` in all encodings (null pointer ↦ `noDataFollowed`, with and without buffer length,
XMLCh and XMLByte), interleaved with any other values.  `Val.ok` demands `strLen < bufferLen` for the
with-buffer-length form: otherwise `readString` writes its terminator outside the allocation. -/
theorem string_roundtrip (baseS baseL B : Nat) (vs : List Val) (hB : minBuf baseS ≤ B)
    (hbase : baseL % 8 = baseS % 8) (hok : ∀ v ∈ vs, v.ok) :
    loadVals baseL B (storeVals baseS B vs) (vs.map Val.shape) = .ok vs :=
  vals_roundtrip baseS baseL B vs hB hbase hok

/-- The byte stream does not depend on the buffer size: for every buffer size that is a multiple of 8 (and an 8-aligned
buffer) the stream of any sequence of aligned primitives, bytes, raw blocks and strings IS the declarative layout
`XV.Spec.SerStream.layout` (each item at the next multiple of its size, zero padded), and the output is that layout
followed by the zero fill of the last block.  Hence two engines with different buffer sizes produce the same stream. -/
theorem buffer_boundary_invariant (base B : Nat) (vs : List Val) (hb : base % 8 = 0) (hB : B % 8 = 0) (hp : 0 < B)
    (hf : ∀ v ∈ vs, flat v) :
    ((SBuf.init base B).putVals vs).stream = layout vs ∧
    (∃ pad, pad ≤ B ∧ storeVals base B vs = layout vs ++ zeros pad) ∧
    (∀ base' B', base' % 8 = 0 → B' % 8 = 0 → 0 < B' →
      ((SBuf.init base' B').putVals vs).stream = ((SBuf.init base B).putVals vs).stream) := by
  have h1 : ((SBuf.init base B).putVals vs).stream = layout vs := stream_vals vs _ hf (init_inv base B hb hB hp)
  refine ⟨h1, ⟨B - ((SBuf.init base B).putVals vs).buf.length, Nat.sub_le _ _, ?_⟩, ?_⟩
  · have hsz : ((SBuf.init base B).putVals vs).bufSize = B := (stepper_vals vs _ (inv_wf (init_inv base B hb hB hp))).1
    rw [← h1]; simp only [storeVals, SBuf.finish, SBuf.flush, SBuf.stream, hsz]
  · intro base' B' hb' hB' hp'
    rw [h1]; exact stream_vals vs _ hf (init_inv base' B' hb' hB' hp')

/-- … but NOT for the unaligned 8-byte `writeSize`/`writeInt64`/`writeUInt64`: a block boundary inserts padding before
them, so their position depends on the buffer size (harmless as long as writer and reader use the same size, which
`prim_roundtrip` assumes; recorded because the claim "independent of the buffer size" is false in general). -/
theorem buffer_size_matters_for_unaligned :
    ((SBuf.init 0 8).putVals [.prim .byte 1, .prim .size 2]).stream ≠
    ((SBuf.init 0 16).putVals [.prim .byte 1, .prim .size 2]).stream := by decide

/-- Any stream whose level word differs from the loader's level is rejected with XSer_Storer_Loader_Mismatch,
whatever follows. -/
theorem level_mismatch_rejected (baseL B : Nat) (stream : List Nat) (loaderLevel : Nat) (hb : baseL % 8 = 0)
    (hB : 8 ≤ B) (hlen : B ≤ stream.length) (hne : fromLE (stream.take 4) ≠ loaderLevel) :
    (LBuf.init baseL B stream >>= fun l => loadHeader l loaderLevel) = .error .levelMismatch := by
  unfold LBuf.init
  rw [fill_ok _ (by simpa using hlen)]
  simp only [bind, Except.bind, loadHeader]
  have hd := (desc_tables .uint).1
  have hadv : Ty.uint.r.adv = 4 := by decide
  have hpad : padOf Ty.uint.r (baseL + 0) = 0 := by
    have : Ty.uint.r.align = 4 := by decide
    unfold padOf alignAdjust; rw [this]; simp; omega
  rw [getPrim_nofill _ _ (by rw [(desc_tables .uint).2]; exact hd) (by
    simp only [hpad, hadv, List.length_take]; omega)]
  have hpad' : padOf Ty.uint.r baseL = 0 := by simpa using hpad
  have : min 4 B = 4 := by omega
  simp only [hpad', hadv, Nat.add_zero, Nat.zero_add, List.drop_zero, List.take_take, this]
  simp [hne]

/-- … and the header written by `serializeGrammars` with the same level is accepted and yields the lock flag. -/
theorem level_match_accepted (baseS baseL B level : Nat) (locked : Bool) (rest : List Val) (hB : minBuf baseS ≤ B)
    (hbase : baseL % 8 = baseS % 8) (hl : level < 256 ^ Ty.uint.w.xfer) :
    ∃ l', (LBuf.init baseL B ((storeHeader (SBuf.init baseS B) level locked).putVals rest).finish
            >>= fun l => loadHeader l level) = .ok (locked, l') := by
  have hwf := wf_init baseS B hB
  have e : (storeHeader (SBuf.init baseS B) level locked).putVals rest
      = (SBuf.init baseS B).putVals (.prim .uint level :: .prim .bool (if locked then 1 else 0) :: rest) := rfl
  rw [e]
  have st := stepper_vals (.prim .uint level :: .prim .bool (if locked then 1 else 0) :: rest) _ hwf
  have hfin := finish_ext _ st.2.2.1
  obtain ⟨l, hl0, hs⟩ := init_sync baseS baseL B _ hbase (st.2.2.2 _ hfin)
  have st1 := stepper_val (.prim .uint level) _ hwf
  have st2 := stepper_val (.prim .bool (if locked then 1 else 0)) _ st1.2.2.1
  have st3 := stepper_vals rest _ st2.2.2.1
  obtain ⟨l1, hg1, hs1⟩ := rt_prim _ l _ Ty.uint.w level (desc_tables .uint).1 (by
    rw [← (desc_tables .uint).1.xfer]; exact hl) hwf hs (st2.2.2.2 _ (st3.2.2.2 _ hfin))
  obtain ⟨l2, hg2, _⟩ := rt_prim _ l1 _ Ty.bool.w (if locked then 1 else 0) (desc_tables .bool).1 (by
    cases locked <;> decide) st1.2.2.1 hs1 (st3.2.2.2 _ hfin)
  refine ⟨l2, ?_⟩
  rw [(desc_tables .uint).2.symm] at hg1
  rw [(desc_tables .bool).2.symm] at hg2
  simp only [hl0, bind, Except.bind, loadHeader, hg1, bne_self_eq_false, Bool.false_eq_true, if_false, hg2]
  cases locked <;> simp

-- ------------------------------------------------------------------ per-class operation lists
/-- Every instantiable serialisable class: each operation sequence its storing branch can execute (base-class calls
inlined) is matched, operation by operation, by a sequence its loading branch can follow.  A field written but not read,
read in another order or with another type or kind, or a method the translator could not parse, makes this fail. -/
theorem all_classes_symmetric :
    ∀ c ∈ classes, c.concrete = true → Symmetric c.flatStore c.flatLoad = true := by decide

/-- Abstract classes are symmetric on their own or are inlined into an instantiable class checked above
(AbstractNumericFacetValidator / DateTimeValidator read a number-type word that their derivatives write). -/
theorem abstract_classes_covered : ∀ c ∈ classes, c.concrete = false →
    (Symmetric c.store c.load = true ∨ ∃ d ∈ classes, d.concrete = true ∧ c.id ∈ d.bases) := by decide

/-- The static helper pairs storeDV/loadDV, storeIC/loadIC, storeElementDecl/loadElementDecl, storeGrammar/loadGrammar,
storeClusive/loadClusive(+loadNumber). -/
theorem all_helpers_symmetric : ∀ c ∈ helpers, Symmetric c.store c.load = true := by decide

/-- Every XTemplateSerializer::storeObject / loadObject overload pair. -/
theorem all_templates_symmetric : ∀ c ∈ templates, Symmetric c.store c.load = true := by decide

theorem nothing_uncovered : uncoveredCount = 0 := by decide

theorem pairs_value_eq (h : List (Nat × List Nat)) (s l : Atom) (hv : atomIsValue s = true) (hp : pairs h s l = true) :
    s = l := by
  cases s <;> simp [atomIsValue] at hv <;> cases l <;> simp_all [pairs]

/-- What symmetry buys, for straight-line lists of value operations: if the load list pairs with the store list, then
executing the load list on the stream produced by the store list from ANY conforming field values returns exactly those
values (induction over the operation lists; every buffer size and address as in `prim_roundtrip`). -/
theorem symmetric_ops_roundtrip (h : List (Nat × List Nat)) (st ld : List Atom) (flds : List Val)
    (baseS baseL B : Nat) (hB : minBuf baseS ≤ B) (hbase : baseL % 8 = baseS % 8)
    (hsym : pairsAll h st ld = true) (hval : ∀ a ∈ st, atomIsValue a = true)
    (hconf : st.map atomShape = flds.map (fun v => some v.shape)) (hok : ∀ v ∈ flds, v.ok) :
    loadOps baseL B ld (storeOps baseS B flds) = .ok flds := by
  have heq : st = ld := by
    clear hconf
    induction st generalizing ld with
    | nil => cases ld <;> simp_all [pairsAll]
    | cons a st ih =>
      cases ld with
      | nil => simp [pairsAll] at hsym
      | cons b ld =>
        simp only [pairsAll, Bool.and_eq_true] at hsym
        rw [pairs_value_eq h a b (hval a (by simp)) hsym.1, ih ld hsym.2 (fun x hx => hval x (by simp [hx]))]
  subst heq
  have hsh : st.filterMap atomShape = flds.map Val.shape := by
    clear hsym hval hok
    induction st generalizing flds with
    | nil => cases flds <;> simp_all
    | cons a st ih =>
      cases flds with
      | nil => simp at hconf
      | cons v flds =>
        simp only [List.map_cons, List.cons.injEq] at hconf
        simp only [List.filterMap_cons, hconf.1, List.map_cons, ih flds hconf.2]
  unfold loadOps storeOps
  rw [hsh]
  exact vals_roundtrip baseS baseL B flds hB hbase hok

/-- References to datatype validators: storeDV writes a validator BY NAME only if it IS the built-in registered under its
local name (identity test, as extracted from the source), and then loadDV returns that same shared object; every other
validator — for EVERY state of the registry, including user types whose local name equals a built-in's ({urn:t}token) —
comes back as its own copy, never as the built-in of the same name. -/
theorem dv_reference_identity :
    storeDVBuiltinTest = 1 ∧
    ∀ (reg : Registry) (dv : Option DV), loadDV reg (storeDV storeDVBuiltinTest reg dv) = dvExpected reg dv := by
  refine ⟨by decide, ?_⟩
  intro reg dv
  have h1 : storeDVBuiltinTest = 1 := by decide
  rw [h1]
  cases dv with
  | none => rfl
  | some d =>
    simp only [storeDV, dvExpected]
    by_cases h : regGet reg d.localName = some d.id
    · simp [h, loadDV]
    · simp [h, loadDV]

/-- … whereas deciding by name ("a built-in with this local name exists") is wrong as soon as a user type is named like a
built-in: the user type is restored as the built-in. -/
theorem dv_name_test_unsound :
    ∃ (reg : Registry) (dv : DV), loadDV reg (storeDV 2 reg (some dv)) ≠ dvExpected reg (some dv) :=
  ⟨[(5, 1)], ⟨7, 5, 9⟩, by decide⟩

-- ------------------------------------------------------------------ object graphs
/-- `write(XSerializable*)` / `read(XProtoType*)` on ARBITRARY object graphs — DAGs with sharing AND cycles (an object is
put into the store / load pool before its `serialize` runs): if the storing engine terminates on the heap (`storeRun … = some`;
fuel only bounds the model's work list) then the loading engine, reading the produced stream with the class table, succeeds
and rebuilds exactly the index-level trace `ti` the storer emitted: every object with its class and field values, every
pointer field as the pool index of its target; and `ti` IS the heap-level trace `tp` with every pointer renamed by the
final store pool (`rename sF.pool`): an object written twice is restored as ONE object referenced twice. -/
theorem graph_roundtrip (sch : Schema) (h : Heap) (hheap : HeapOK sch h)
    (hnames : ∀ c, (sch c).name.length < noDataFollowed)
    (fuel root rootCls baseS baseL B : Nat) (hB : minBuf baseS ≤ B) (hbase : baseL % 8 = baseS % 8)
    (hroot : root = 0 ∨ ∃ n, heapLookup h root = some n ∧ n.cls = rootCls)
    (sF : Store) (tp ti : List (Nat × Fld))
    (hrun : storeRun sch h fuel [(0, 0, .ptr root)] (Store.init baseS B) [] [] = some (sF, tp, ti)) :
    (∃ lF, (Load.init baseL B sF.b.finish >>= fun l => loadRun sch fuel [(0, .ptr rootCls)] l []) = .ok (lF, ti)) ∧
    ti = tp.map (rename sF.pool) := by
  refine ⟨graph_roundtrip_lemma sch h hheap hnames fuel root rootCls baseS baseL B hB hbase hroot sF tp ti hrun, ?_⟩
  have := storeRun_sem sch h fuel _ _ _ _ _ _ _ hrun
    ⟨⟨fun k => by simp [Store.init, poolLookup], fun k1 k2 _ hne => by simp [Store.init, poolLookup] at hne,
        by simp [Store.init, poolLookup]⟩,
      fun w hw => by simp only [List.mem_singleton] at hw; subst hw; exact ⟨by simp [idx, Store.init, poolLookup], Or.inl rfl⟩,
      rfl, fun e he => by simp at he⟩
  exact this.2.1

/-- the renaming is injective on stored objects: distinct objects get distinct pool indices (nothing is merged) -/
theorem pool_index_injective (sch : Schema) (h : Heap) (fuel root baseS B : Nat)
    (sF : Store) (tp ti : List (Nat × Fld))
    (hrun : storeRun sch h fuel [(0, 0, .ptr root)] (Store.init baseS B) [] [] = some (sF, tp, ti)) (p q : Nat)
    (he : idx sF.pool p = idx sF.pool q) (hne : idx sF.pool p ≠ 0) : p = q := by
  have := storeRun_sem sch h fuel _ _ _ _ _ _ _ hrun
    ⟨⟨fun k => by simp [Store.init, poolLookup], fun k1 k2 _ hne => by simp [Store.init, poolLookup] at hne,
        by simp [Store.init, poolLookup]⟩,
      fun w hw => by simp only [List.mem_singleton] at hw; subst hw; exact ⟨by simp [idx, Store.init, poolLookup], Or.inl rfl⟩,
      rfl, fun e he => by simp at he⟩
  have hk := this.1.inj (.obj p) (.obj q) he hne
  cases hk; rfl

-- ------------------------------------------------------------------ non-vacuity
example : loadDV [(5, 1)] (storeDV storeDVBuiltinTest [(5, 1)] (some ⟨7, 5, 9⟩)) = .copy ⟨7, 5, 9⟩ ∧
    loadDV [(5, 1)] (storeDV storeDVBuiltinTest [(5, 1)] (some ⟨1, 5, 0⟩)) = .shared 1 := by decide
/-- two classes; object 1 points to itself (cycle) and to 2; object 2 points back to 1 twice (sharing) and to 3 -/
def exSchema : Schema := fun c =>
  if c == 1 then ⟨[72, 120, 65], [.val (.prim .int), .val .str, .ptr 1, .ptr 2]⟩
  else ⟨[72, 120, 66], [.val (.prim .byte), .ptr 2, .ptr 1, .val (.prim .size), .ptr 1]⟩
def exHeap : Heap :=
  [(1, ⟨1, [.val (.prim .int 7), .val (.str (some [0x61, 0x62])), .ptr 1, .ptr 2]⟩),
   (2, ⟨2, [.val (.prim .byte 9), .ptr 3, .ptr 1, .val (.prim .size 255), .ptr 1]⟩),
   (3, ⟨2, [.val (.prim .byte 1), .ptr 0, .ptr 0, .val (.prim .size 0), .ptr 1]⟩)]
example : heapOKb exSchema exHeap = true := by decide
example : (storeRun exSchema exHeap 40 [(0, 0, .ptr 1)] (Store.init 0 32) [] []).isSome = true := by decide
example : ((storeRun exSchema exHeap 40 [(0, 0, .ptr 1)] (Store.init 0 32) [] []).map (·.2.2)) =
    some [(0, .ptr 2), (2, .val (.prim .int 7)), (2, .val (.str (some [0x61, 0x62]))), (2, .ptr 2), (2, .ptr 4),
          (4, .val (.prim .byte 9)), (4, .ptr 5), (5, .val (.prim .byte 1)), (5, .ptr 0), (5, .ptr 0),
          (5, .val (.prim .size 0)), (5, .ptr 2), (4, .ptr 2), (4, .val (.prim .size 255)), (4, .ptr 2)] := by decide
example := prim_roundtrip 0 16 16 [(.int, 0x11223344), (.byte, 5), (.size, 7), (.xmlch, 0x263A), (.double, 1)]
    (by decide) (by decide) (by decide)
example : okOf (loadVals 0 16 (storeVals 0 16 [.prim .byte 1, .prim .long 2, .str (some [0x61, 0x62, 0x63, 0x64, 0x65]), .str none,
      .strL (some ([0x41], 9)), .prim .size 3]) [.prim .byte, .prim .long, .str, .str, .strL, .prim .size])
    = some [.prim .byte 1, .prim .long 2, .str (some [0x61, 0x62, 0x63, 0x64, 0x65]), .str none, .strL (some ([0x41], 9)), .prim .size 3] := by decide
example : errOf (LBuf.init 0 16 ((storeHeader (SBuf.init 0 16) 6 true).finish) >>= fun l => loadHeader l 7)
    = some .levelMismatch := by decide
example : flat (.prim .int 5) ∧ flat (.str (some [0x61])) ∧ ¬ flat (.prim .size 1) := by decide
example := buffer_boundary_invariant 0 8 [.prim .byte 1, .prim .int 2, .str (some [0x61, 0x62, 0x63, 0x64, 0x65, 0x66, 0x67])] rfl rfl (by decide) (by decide)
example : (classes.filter (·.concrete)).length ≥ 60 ∧ helpers.length ≥ 5 ∧ templates.length ≥ 25 := by decide
/-- a dropped field, a swapped pair and an unparsed body are NOT symmetric -/
example : Symmetric (ops [.atom (.prim .int), .atom .str]) (ops [.atom (.prim .int)]) = false := by decide
example : Symmetric (ops [.atom (.prim .int), .atom .str]) (ops [.atom .str, .atom (.prim .int)]) = false := by decide
example : Symmetric (ops [.atom (.prim .int)]) (ops [.atom (.prim .uint)]) = false := by decide
example : Symmetric (ops [.atom .unparsed]) (ops [.atom .unparsed]) = false := by decide
example : Symmetric (ops [.atom (.prim .int), .cond (alts [ops [.atom .str], ops []])])
    (ops [.atom (.prim .int), .cond (alts [ops [], ops [.atom .str], ops [.atom .str, .atom .str]])]) = true := by decide
example : okOf (loadOps 8 24 [.prim .int, .str, .size] (storeOps 0 24 [.prim .int 7, .str (some [0x78]), .prim .size 9]))
    = some [.prim .int 7, .str (some [0x78]), .prim .size 9] := by decide

end XV.Props.C16
