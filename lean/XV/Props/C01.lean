import XV.Gen.SafetyConsts
import XV.Model.Growth
import XV.Model.CharRef
import XV.Model.MsgFormat
import XV.Model.ReaderStack
import XV.Model.Expansion
import XV.Model.DomHeap
import XV.Lemmas.MsgTables
import XV.Model.DomParserReset
/-!
# C01 — arbitrary input never causes memory errors, UB, hangs or foreign exceptions  (PARTIAL)

What is proved here is the index / size / ownership arithmetic that memory safety of the parser rests on, for
code-shaped models whose constants are regenerated from the C++ text (`XV.Gen.Safety`, `XV.Gen.SafetyMsgs`):

* (a) growth: `XMLBuffer`, `ElemStack`/`WFElemStack` (stack, prefix map, child array), `RangeToken`,
  `ValueVectorOf`, `BaseRefVectorOf`, `DOMBuffer`: `…_grow_sufficient`, `grow_strict_iff`, `…_append_in_bounds`
  for arbitrary operation sequences, no-wrap bounds;
* (b) `scanCharRef` accumulator: `charref_no_wrap`, `charref_value_exact` for digit strings of any length;
* (c) `emitError` / `loadMsg` / `replaceTokens`: `emitError_bounded` for all replacement lengths;
* (d) `ReaderMgr` ownership: `readerStack_balanced`, `never_pop_below_base`, `recursion_detected`;
* (e) `expansion_work_bound`;
* DOM heap sub-allocation and the UCS-4 BOM loop as conditional statements with their negative witnesses.

The whole-parser claim (no memory error anywhere in 260 kLOC) is NOT a theorem; it is searched by the sanitizer
harness (`tools/props/c01.py`).
-/
namespace XV.Props.C01
open XV.Gen.Safety

section Growth
open XV.Model.Growth

/-! ## (a) growth arithmetic -/

theorem scale_five_quarters (cap : Nat) : scale 5 4 cap = cap * 5 / 4 := rfl

/-- `⌊1.25·cap⌋ > cap` exactly from 4 on … -/
theorem grow_strict_iff (cap : Nat) : cap < scale 5 4 cap ↔ 4 ≤ cap := by
  unfold scale; omega

/-- … and below 4 the "expanded" capacity equals the old one (the stuck case) -/
theorem grow_stuck_below_four : ∀ cap, cap < 4 → scale 5 4 cap = cap := by
  intro cap h; unfold scale; omega

/-- what a `Quarter` container needs of its constants -/
structure QGood (q : Quarter) : Prop where
  den_pos : 0 < q.den
  strict : ∀ c, 4 ≤ c → c < scale q.num q.den c
  zero_ok : ∀ z, q.zeroInit = some z → 4 ≤ z
  init_ok : 4 ≤ q.init ∨ (q.init = 0 ∧ q.zeroInit.isSome)

def QInv (q : Quarter) (v : QVec) : Prop :=
  v.count ≤ v.cap ∧ (4 ≤ v.cap ∨ (v.cap = 0 ∧ q.zeroInit.isSome))

theorem qnext_gt {q : Quarter} (g : QGood q) {cap : Nat} (h : 4 ≤ cap ∨ (cap = 0 ∧ q.zeroInit.isSome)) :
    cap < qnext q cap ∧ 4 ≤ qnext q cap := by
  unfold qnext
  rcases h with h | ⟨h0, hz⟩
  · have := g.strict cap h
    cases hq : q.zeroInit with
    | none => simp; omega
    | some z => simp; have : cap ≠ 0 := by omega
                simp [this]; omega
  · cases hq : q.zeroInit with
    | none => simp [hq] at hz
    | some z => have := g.zero_ok z hq; simp [h0]; omega

theorem qstep_ok {q : Quarter} (g : QGood q) {v : QVec} (hv : QInv q v) (op : QOp) :
    QInv q (qstep q v op).1 ∧ ∀ a ∈ (qstep q v op).2, a.ok := by
  obtain ⟨h1, h2⟩ := hv
  cases op with
  | push =>
    unfold qstep
    by_cases hc : v.count = v.cap
    · have ⟨h3, h4⟩ := qnext_gt g h2
      simp only [hc, if_true]
      refine ⟨⟨by simp; omega, Or.inl h4⟩, ?_⟩
      intro a ha
      simp at ha
      rcases ha with rfl | rfl | rfl | rfl <;> simp [Access.ok] <;> omega
    · simp only [hc, if_false]
      refine ⟨⟨by simp; omega, h2⟩, ?_⟩
      intro a ha; simp at ha; subst ha; simp [Access.ok]; omega
  | pop => exact ⟨⟨by simp [qstep]; omega, h2⟩, by simp [qstep]⟩
  | truncate n => exact ⟨⟨by simp [qstep]; omega, h2⟩, by simp [qstep]⟩
  | clear => exact ⟨⟨by simp [qstep], h2⟩, by simp [qstep]⟩

theorem quarter_append_in_bounds {q : Quarter} (g : QGood q) :
    ∀ (ops : List QOp) (v : QVec), QInv q v → ∀ a ∈ qrun q v ops, a.ok := by
  intro ops
  induction ops with
  | nil => intro v _ a ha; simp [qrun] at ha
  | cons op ops ih =>
    intro v hv a ha
    have ⟨hi, ha'⟩ := qstep_ok g hv op
    simp only [qrun, List.mem_append] at ha
    rcases ha with ha | ha
    · exact ha' a ha
    · exact ih _ hi a ha

theorem quarter_init_inv {q : Quarter} (g : QGood q) : QInv q (QVec.init q) := by
  unfold QInv QVec.init
  rcases g.init_ok with h | ⟨h, hz⟩
  · exact ⟨by simp, Or.inl h⟩
  · exact ⟨by simp, Or.inr ⟨h, hz⟩⟩

/-! ### XMLBuffer -/
def XInv (b : XBuf) : Prop := b.index ≤ b.cap ∧ b.cap + 1 ≤ b.alloc

/-- `grow_sufficient` for `XMLBuffer::ensureCapacity`: afterwards `fIndex + extraNeeded ≤ fCapacity`,
the invariant is kept and the copy stays inside both blocks. -/
theorem xmlBuffer_grow_sufficient {b b' : XBuf} {extra : Nat} {r : Reply} {acc : List Access}
    (hb : XInv b) (h : ensureCapacity b extra r = some (b', acc)) :
    b'.index + extra ≤ b'.cap ∧ XInv b' ∧ b'.index ≤ b.index ∧ (∀ a ∈ acc, a.ok) := by
  obtain ⟨h1, h2⟩ := hb
  unfold ensureCapacity at h
  simp only [xmlBufferGrowMul, xmlBufferGrowSlack] at h
  split at h
  · simp at h
  · rename_i newCap idx hsel
    have key : idx + extra ≤ newCap ∧ idx ≤ b.index := by
      split at hsel
      · rename_i fs hf
        split at hsel
        · split at hsel
          · simp at hsel; omega
          · split at hsel
            · rename_i hh
              simp at hsel hh
              obtain ⟨rfl, rfl⟩ := hsel
              omega
            · simp at hsel
        · simp at hsel; omega
      · simp at hsel; omega
    split at h
    · simp at h
      obtain ⟨rfl, rfl⟩ := h
      refine ⟨by simp; omega, ⟨by simp; omega, by simp⟩, by simp; omega, ?_⟩
      intro a ha; simp at ha
      rcases ha with rfl | rfl <;> simp [Access.ok] <;> omega
    · simp at h
      obtain ⟨rfl, rfl⟩ := h
      refine ⟨by simp; omega, ⟨by simp; omega, by simp; omega⟩, by simp; omega, by simp⟩

theorem xstep_ok {b b' : XBuf} {op : XOp} {acc : List Access} (hb : XInv b) (h : xstep b op = some (b', acc)) :
    XInv b' ∧ ∀ a ∈ acc, a.ok := by
  have hb0 := hb
  obtain ⟨h1, h2⟩ := hb
  cases op with
  | appendCh r =>
    simp only [xstep] at h
    split at h
    · split at h
      · simp at h
      · rename_i b1 acc1 he
        have ⟨g1, ⟨g2, g3⟩, _, g4⟩ := xmlBuffer_grow_sufficient hb0 he
        simp at h; obtain ⟨rfl, rfl⟩ := h
        refine ⟨⟨by simp; omega, by simp; omega⟩, ?_⟩
        intro a ha; simp at ha
        rcases ha with ha | rfl
        · exact g4 a ha
        · simp [Access.ok]; omega
    · simp at h; obtain ⟨rfl, rfl⟩ := h
      refine ⟨⟨by simp; omega, by simp; omega⟩, ?_⟩
      intro a ha; simp at ha; subst ha; simp [Access.ok]; omega
  | appendN count r =>
    simp only [xstep] at h
    split at h
    · simp at h; obtain ⟨rfl, rfl⟩ := h; exact ⟨hb0, by simp⟩
    · split at h
      · split at h
        · simp at h
        · rename_i b1 acc1 he
          have ⟨g1, ⟨g2, g3⟩, _, g4⟩ := xmlBuffer_grow_sufficient hb0 he
          simp at h; obtain ⟨rfl, rfl⟩ := h
          refine ⟨⟨by simp; omega, by simp; omega⟩, ?_⟩
          intro a ha; simp at ha
          rcases ha with ha | rfl
          · exact g4 a ha
          · simp [Access.ok]; omega
      · simp at h; obtain ⟨rfl, rfl⟩ := h
        refine ⟨⟨by simp; omega, by simp; omega⟩, ?_⟩
        intro a ha; simp at ha; subst ha; simp [Access.ok]; omega
  | set count r =>
    simp only [xstep] at h
    have hb1 : XInv { b with index := 0 } := ⟨by simp, by simp; omega⟩
    split at h
    · simp at h; obtain ⟨rfl, rfl⟩ := h; exact ⟨hb1, by simp⟩
    · split at h
      · split at h
        · simp at h
        · rename_i b1 acc1 he
          have ⟨g1, ⟨g2, g3⟩, _, g4⟩ := xmlBuffer_grow_sufficient hb1 he
          simp at h; obtain ⟨rfl, rfl⟩ := h
          refine ⟨⟨by simp; omega, by simp; omega⟩, ?_⟩
          intro a ha; simp at ha
          rcases ha with ha | rfl
          · exact g4 a ha
          · simp [Access.ok]; omega
      · simp at h; obtain ⟨rfl, rfl⟩ := h
        rename_i hc0 hc
        simp at hc
        refine ⟨⟨by simp; omega, by simp; omega⟩, ?_⟩
        intro a ha; simp at ha; subst ha; simp [Access.ok]; omega
  | reset =>
    simp [xstep] at h; obtain ⟨rfl, rfl⟩ := h
    exact ⟨⟨by simp, by simp; omega⟩, by simp⟩
  | getRaw =>
    simp [xstep] at h; obtain ⟨rfl, rfl⟩ := h
    refine ⟨hb0, ?_⟩
    intro a ha; simp at ha; subst ha; simp [Access.ok]; omega

theorem xmlBuffer_append_in_bounds :
    ∀ (ops : List XOp) (b : XBuf), XInv b → ∀ a ∈ xrun b ops, a.ok := by
  intro ops
  induction ops with
  | nil => intro b _ a ha; simp [xrun] at ha
  | cons op ops ih =>
    intro b hb a ha
    simp only [xrun] at ha
    split at ha
    · simp at ha
    · rename_i b' acc he
      have ⟨hi, hacc⟩ := xstep_ok hb he
      simp only [List.mem_append] at ha
      rcases ha with ha | ha
      · exact hacc a ha
      · exact ih _ hi a ha

theorem xmlBuffer_new_inv (capacity : Nat) : XInv (XBuf.new capacity) := by
  simp [XInv, XBuf.new, xmlBufferCtorSlack]
theorem xmlBuffer_newFull_inv (capacity fullSize : Nat) : XInv (XBuf.newFull capacity fullSize) := by
  unfold XBuf.newFull
  split
  · exact xmlBuffer_new_inv capacity
  · simp [XInv, xmlBufferCtorSlack]; split <;> omega

/-- no wrap: below 2^62 characters the 64-bit `newCap` and the byte count `(newCap+1)*sizeof(XMLCh)` are the
mathematical values -/
theorem xmlBuffer_no_wrap (index extra : Nat) (h : index + extra < 2^62) :
    newCapMachine index extra = (index + extra) * xmlBufferGrowMul ∧
    ((index + extra) * xmlBufferGrowMul + xmlBufferGrowSlack) * 2 < 2^64 := by
  unfold newCapMachine
  simp only [xmlBufferGrowMul, xmlBufferGrowSlack]
  omega

def VInv (v : QVec) : Prop := v.count ≤ v.cap

/-- an `ensureExtraCapacity` is adequate if it keeps the count, makes room and stays in bounds -/
def EnsOK (ens : QVec → Nat → QVec × List Access) : Prop :=
  ∀ v len, VInv v → (ens v len).1.count = v.count ∧ v.count + len ≤ (ens v len).1.cap ∧ ∀ a ∈ (ens v len).2, a.ok

/-- `grow_sufficient` for `ValueVectorOf::ensureExtraCapacity`, whatever the growth factor -/
theorem valueVector_grow_sufficient (num den : Nat) : EnsOK (vvEnsure num den) := by
  intro v len hv
  unfold VInv at hv
  unfold vvEnsure
  simp only
  split
  · refine ⟨rfl, ?_, ?_⟩
    · simp; omega
    · intro a ha; simp at ha
      rcases ha with rfl | rfl <;> simp [Access.ok] <;> omega
  · exact ⟨rfl, by simp; omega, by simp⟩

/-- `grow_sufficient` for `BaseRefVectorOf::ensureExtraCapacity` -/
theorem refVector_grow_sufficient (div : Nat) : EnsOK (rvEnsure div) := by
  intro v len hv
  unfold VInv at hv
  unfold rvEnsure
  simp only
  split
  · exact ⟨rfl, by simp; omega, by simp⟩
  · refine ⟨rfl, ?_, ?_⟩
    · simp; omega
    · intro a ha; simp at ha
      rcases ha with rfl | rfl | rfl <;> simp [Access.ok] <;> omega

theorem vstep_ok {ens} (he : EnsOK ens) {v : QVec} (hv : VInv v) (op : VOp) :
    VInv (vstep ens v op).1 ∧ ∀ a ∈ (vstep ens v op).2, a.ok := by
  cases op with
  | add =>
    have ⟨e1, e2, e3⟩ := he v 1 hv
    simp only [vstep]
    refine ⟨by simp [VInv]; omega, ?_⟩
    intro a ha; simp at ha
    rcases ha with ha | rfl
    · exact e3 a ha
    · simp [Access.ok]; omega
  | insertAt i =>
    simp only [vstep]
    split
    · exact ⟨hv, by simp⟩
    · have ⟨e1, e2, e3⟩ := he v 1 hv
      refine ⟨by simp [VInv]; omega, ?_⟩
      intro a ha; simp at ha
      rcases ha with ha | rfl
      · exact e3 a ha
      · simp [Access.ok]; omega
  | removeAt i =>
    simp only [vstep]
    unfold VInv at hv
    split
    · exact ⟨hv, by simp⟩
    · refine ⟨by simp [VInv]; omega, ?_⟩
      intro a ha; simp at ha; subst ha; simp [Access.ok]; omega
  | removeAll => exact ⟨by simp [vstep, VInv], by simp [vstep]⟩
  | ensure n =>
    have ⟨e1, e2, e3⟩ := he v n hv
    simp only [vstep]
    exact ⟨by unfold VInv; omega, e3⟩

theorem vector_append_in_bounds {ens} (he : EnsOK ens) :
    ∀ (ops : List VOp) (v : QVec), VInv v → ∀ a ∈ vrun ens v ops, a.ok := by
  intro ops
  induction ops with
  | nil => intro v _ a ha; simp [vrun] at ha
  | cons op ops ih =>
    intro v hv a ha
    have ⟨hi, ha'⟩ := vstep_ok he hv op
    simp only [vrun, List.mem_append] at ha
    rcases ha with ha | ha
    · exact ha' a ha
    · exact ih _ hi a ha

/-! RangeToken -/
theorem rtAdd_ok {v : QVec} (hv : VInv v) (h1 : 1 ≤ v.count) (b : Bool) (i : Nat) :
    VInv (rtAdd v b i).1 ∧ 1 ≤ (rtAdd v b i).1.count ∧ ∀ a ∈ (rtAdd v b i).2, a.ok := by
  unfold VInv at hv
  unfold rtAdd
  cases b with
  | true => simp [VInv, Access.ok]; omega
  | false =>
    simp only [rangeTokenGuardStrict, rangeTokenGuardAdd, rangeTokenExpandBy, rtExpand, Bool.false_eq_true, if_false]
    by_cases ht : v.count + 2 ≥ v.cap
    · simp only [ht, decide_true, if_true]
      refine ⟨by simp [VInv]; omega, by simp, ?_⟩
      intro a ha; simp at ha
      rcases ha with rfl | rfl | rfl <;> simp [Access.ok] <;> omega
    · simp only [ht, decide_false]
      refine ⟨by simp [VInv]; omega, by simp, ?_⟩
      intro a ha; simp at ha; subst ha; simp [Access.ok]; omega

theorem rangeToken_append_in_bounds :
    ∀ (ops : List (Bool × Nat)) (v : QVec), VInv v → 1 ≤ v.count → ∀ a ∈ rtRun v ops, a.ok := by
  intro ops
  induction ops with
  | nil => intro v _ _ a ha; simp [rtRun] at ha
  | cons op ops ih =>
    intro v hv h1 a ha
    obtain ⟨b, i⟩ := op
    have ⟨hi, hc, ha'⟩ := rtAdd_ok hv h1 b i
    simp only [rtRun, List.mem_append] at ha
    rcases ha with ha | ha
    · exact ha' a ha
    · exact ih _ hi hc a ha

theorem rangeToken_first_ok : VInv rtFirst.1 ∧ 1 ≤ rtFirst.1.count ∧ ∀ a ∈ rtFirst.2, a.ok := by
  simp [rtFirst, VInv, rangeTokenInit, Access.ok]

/-- 32-bit `unsigned int`: nothing wraps below 2^31 elements -/
theorem rangeToken_no_wrap (count len : Nat) (h : count < 2^31) (hl : len ≤ 2) :
    count + len < 2^32 ∧ scale rangeTokenNum rangeTokenDen count < 2^32 ∧
    (max (count + len) (scale rangeTokenNum rangeTokenDen count)) * 4 < 2^64 := by
  simp only [scale, rangeTokenNum, rangeTokenDen]; omega

/-! DOMBuffer -/
def DInv (b : DBuf) : Prop := b.index ≤ b.cap ∧ b.cap + 1 ≤ b.alloc

theorem domBuffer_grow_sufficient {b : DBuf} (hb : DInv b) (extra : Nat) (hx : b.index + extra ≥ b.cap) :
    (dExpand b extra).1.index = b.index ∧ b.index + extra ≤ (dExpand b extra).1.cap ∧ DInv (dExpand b extra).1 ∧
    ∀ a ∈ (dExpand b extra).2, a.ok := by
  obtain ⟨h1, h2⟩ := hb
  simp only [dExpand, scale, domBufferNum, domBufferDen, domBufferSlack]
  refine ⟨trivial, by omega, ⟨by simp; omega, by simp⟩, ?_⟩
  intro a ha; simp at ha
  rcases ha with rfl | rfl <;> simp [Access.ok] <;> omega

theorem dstep_ok {b : DBuf} (hb : DInv b) (op : DOp) : DInv (dstep b op).1 ∧ ∀ a ∈ (dstep b op).2, a.ok := by
  have hb0 := hb
  obtain ⟨h1, h2⟩ := hb
  cases op with
  | append count =>
    simp only [dstep]
    by_cases hx : b.index + count ≥ b.cap
    · have ⟨e0, e1, ⟨e2, e3⟩, e4⟩ := domBuffer_grow_sufficient hb0 count hx
      simp only [hx, if_true]
      refine ⟨⟨by simp; omega, by simp; omega⟩, ?_⟩
      intro a ha; simp at ha
      rcases ha with ha | rfl | rfl
      · exact e4 a ha
      · simp [Access.ok]; omega
      · simp [Access.ok]; omega
    · simp only [hx, if_false]
      refine ⟨⟨by simp; omega, by simp; omega⟩, ?_⟩
      intro a ha; simp at ha
      rcases ha with rfl | rfl <;> simp [Access.ok] <;> omega
  | set count =>
    simp only [dstep]
    have hb1 : DInv ⟨0, b.cap, b.alloc⟩ := ⟨by simp, by simp; omega⟩
    by_cases hx : count ≥ b.cap
    · have ⟨e0, e1, ⟨e2, e3⟩, e4⟩ := domBuffer_grow_sufficient hb1 count (by simpa using hx)
      simp only [hx, if_true]
      simp at e1
      refine ⟨⟨by simp; omega, by simp; omega⟩, ?_⟩
      intro a ha; simp at ha
      rcases ha with ha | rfl | rfl
      · exact e4 a ha
      · simp [Access.ok]; omega
      · simp [Access.ok]; omega
    · simp only [hx, if_false]
      refine ⟨⟨by simp; omega, by simp; omega⟩, ?_⟩
      intro a ha; simp at ha
      rcases ha with rfl | rfl <;> simp [Access.ok] <;> omega
  | reset =>
    refine ⟨⟨by simp [dstep], by simp [dstep]; omega⟩, ?_⟩
    intro a ha; simp [dstep] at ha; subst ha; simp [Access.ok]; omega
  | getRaw =>
    refine ⟨hb0, ?_⟩
    intro a ha; simp [dstep] at ha; subst ha; simp [Access.ok]; omega

theorem domBuffer_append_in_bounds :
    ∀ (ops : List DOp) (b : DBuf), DInv b → ∀ a ∈ drun b ops, a.ok := by
  intro ops
  induction ops with
  | nil => intro b _ a ha; simp [drun] at ha
  | cons op ops ih =>
    intro b hb a ha
    have ⟨hi, ha'⟩ := dstep_ok hb op
    simp only [drun, List.mem_append] at ha
    rcases ha with ha | ha
    · exact ha' a ha
    · exact ih _ hi a ha

/-! ### the containers with the constants extracted from the source -/

theorem elemStack_good : QGood elemStack :=
  ⟨by decide, by intro c h; show c < c * 5 / 4; omega, by intro z h; simp [elemStack] at h, by decide⟩
theorem elemMap_good : QGood elemMap :=
  ⟨by decide, by intro c h; show c < c * 5 / 4; omega, by intro z h; simp [elemMap] at h; omega, by decide⟩
theorem elemChild_good : QGood elemChild :=
  ⟨by decide, by intro c h; show c < c * 5 / 4; omega, by intro z h; simp [elemChild] at h; omega, by decide⟩
theorem wfElemStack_good : QGood wfElemStack :=
  ⟨by decide, by intro c h; show c < c * 5 / 4; omega, by intro z h; simp [wfElemStack] at h, by decide⟩
theorem wfElemMap_good : QGood wfElemMap :=
  ⟨by decide, by intro c h; show c < c * 5 / 4; omega, by intro z h; simp [wfElemMap] at h; omega, by decide⟩

theorem nsScopeStack_good : QGood nsScopeStack :=
  ⟨by decide, by intro c h; show c < c * 5 / 4; omega, by intro z h; simp [nsScopeStack] at h, by decide⟩
theorem nsScopeMap_good : QGood nsScopeMap :=
  ⟨by decide, by intro c h; show c < c * 5 / 4; omega, by intro z h; simp [nsScopeMap] at h; omega, by decide⟩

/-- `grow_strict` with the real precondition: every capacity these containers can have is `0` (not yet
allocated, replaced by 16/32) or at least the generated initial capacity `≥ 4`, where `⌊1.25·cap⌋ > cap` -/
theorem grow_strict : ∀ q ∈ quarters, QGood q.2 := by
  intro q hq
  simp [quarters] at hq
  rcases hq with rfl | rfl | rfl | rfl | rfl | rfl | rfl
  · exact elemStack_good
  · exact elemMap_good
  · exact elemChild_good
  · exact wfElemStack_good
  · exact wfElemMap_good
  · exact nsScopeStack_good
  · exact nsScopeMap_good

/-- `append_in_bounds` for the `ElemStack`/`WFElemStack`/`NamespaceScope` stack, prefix map and child array: every access of every
push/pop/truncate/clear sequence from the constructed state is inside its block -/
theorem elemStack_append_in_bounds : ∀ q ∈ quarters, ∀ (ops : List QOp), ∀ a ∈ qrun q.2 (QVec.init q.2) ops, a.ok := by
  intro q hq ops
  exact quarter_append_in_bounds (grow_strict q hq) ops _ (quarter_init_inv (grow_strict q hq))

/-- the stuck case, exhibited: with an initial capacity of 3 the same code writes one cell past the block on the
fourth push (`⌊3·1.25⌋ = 3`) -/
theorem quarter_stuck_witness :
    ∃ a ∈ qrun ⟨3, 5, 4, none⟩ (QVec.init ⟨3, 5, 4, none⟩) [.push, .push, .push, .push], ¬ a.ok := by
  refine ⟨⟨3, 4, 3⟩, by decide, by decide⟩

/-- no wrap and exactness range: below 2^50 elements `cap·5` is far below 2^53 (so the `double` product
`cap * 1.25` is exact and the cast is `⌊cap·5/4⌋`) and the byte count of the new block fits 64 bits -/
theorem scale_exact_range (cap : Nat) (h : cap < 2^50) :
    cap * 5 < 2^53 ∧ scale 5 4 cap < 2^51 ∧ scale 5 4 cap * 64 < 2^64 := by
  unfold scale; omega

theorem valueVector_append_in_bounds (ops : List VOp) (v : QVec) (hv : VInv v) :
    ∀ a ∈ vrun (vvEnsure valueVectorNum valueVectorDen) v ops, a.ok :=
  vector_append_in_bounds (valueVector_grow_sufficient _ _) ops v hv

theorem refVector_append_in_bounds (ops : List VOp) (v : QVec) (hv : VInv v) :
    ∀ a ∈ vrun (rvEnsure refVectorHalfDiv) v ops, a.ok :=
  vector_append_in_bounds (refVector_grow_sufficient _) ops v hv

/-- sizing of `mergeRanges` / `subtractRanges` / `intersectRanges` results:
`newMax = (count + other.count >= max) ? max + other.max : max` always holds `count + other.count` entries -/
theorem rangeToken_merge_capacity (count max ocount omax : Nat) (h1 : count ≤ max) (h2 : ocount ≤ omax) :
    count + ocount ≤ (if count + ocount ≥ max then max + omax else max) := by
  split <;> omega

/-! non-vacuity: concrete runs crossing several growth steps -/
example : (qfinal elemStack (QVec.init elemStack) (List.replicate 100 .push)) = ⟨100, 120⟩ := by decide +kernel
example : (qfinal wfElemMap (QVec.init wfElemMap) (List.replicate 40 .push)) = ⟨40, 47⟩ := by decide +kernel
example : xfinal (XBuf.new 4) [.appendN 3 (false, 0), .appendCh (false, 0), .appendCh (false, 0), .getRaw]
    = some ⟨5, 10, 11, none⟩ := by decide
example : xfinal (XBuf.newFull 1023 8) [.appendN 8 (true, 0), .appendCh (true, 0)] = some ⟨1, 8, 1024, some 8⟩ := by decide
example : xfinal (XBuf.newFull 1023 8) [.appendN 8 (true, 0), .appendCh (false, 0)] = none := by decide
example : vfinal (vvEnsure valueVectorNum valueVectorDen) ⟨0, 0⟩ (List.replicate 10 .add) = ⟨10, 10⟩ := by decide
example : dfinal (DBuf.new domBufferDefaultCap) [.append 30, .append 5, .set 100] = ⟨100, 125, 126⟩ := by decide

end Growth

section CharRef
open XV.Model.CharRef

/-! ## (b) character-reference accumulator -/

theorem numeral_mono (radix : Nat) (hr : 1 ≤ radix) : ∀ (ds : List Nat) (v : Nat), v ≤ numeral radix v ds := by
  intro ds
  induction ds with
  | nil => intro v; simp [numeral]
  | cons d ds ih =>
    intro v
    simp only [numeral]
    have := ih (v * radix + d)
    have : v ≤ v * radix := Nat.le_mul_of_pos_right v hr
    omega

/-- one guarded step never wraps: the un-reduced result is below 2^32 -/
theorem charref_step_no_wrap {g radix v d : Nat} (hg : g ≤ 0x10FFFF) (hr : radix ≤ 16) (hv : v ≤ g) (hd : d < radix) :
    v * radix + d < 2^32 := by
  have h1 : v * radix ≤ 0x10FFFF * 16 := Nat.mul_le_mul (by omega) hr
  omega

/-- `charref_value_exact`, general form: from any accumulator value `v ≤ g`, the guarded loop returns the
mathematical value when it does not exceed the guard and signals the error otherwise — for digit strings of
every length. -/
theorem charref_scan_exact {g radix : Nat} (hg : g ≤ 0x10FFFF) (hr1 : 1 ≤ radix) (hr : radix ≤ 16) :
    ∀ (ds : List Nat) (v : Nat), v ≤ g → (∀ d ∈ ds, d < radix) →
      scan (some g) radix v ds = if numeral radix v ds ≤ g then some (numeral radix v ds) else none := by
  intro ds
  induction ds with
  | nil => intro v hv _; simp [scan, numeral, hv]
  | cons d ds ih =>
    intro v hv hd
    have hdr : d < radix := hd d (by simp)
    have hnw := charref_step_no_wrap hg hr hv hdr
    have hmod : ((v * radix) % W + d) % W = v * radix + d := by
      unfold W
      have : v * radix < 2^32 := by omega
      rw [Nat.mod_eq_of_lt this, Nat.mod_eq_of_lt hnw]
    simp only [scan, step, hmod, numeral]
    by_cases hgt : v * radix + d > g
    · have := numeral_mono radix hr1 ds (v * radix + d)
      have hn : ¬ numeral radix (v * radix + d) ds ≤ g := by omega
      simp [hgt, hn]
    · simp only [hgt, if_false]
      exact ih (v * radix + d) (by omega) (fun x hx => hd x (by simp [hx]))

/-- `charref_no_wrap`: every intermediate value computed by the guarded loop is below 2^32 -/
theorem charref_no_wrap_gen {g radix : Nat} (hg : g ≤ 0x10FFFF) (hr : radix ≤ 16) :
    ∀ (ds : List Nat) (v : Nat), v ≤ g → (∀ d ∈ ds, d < radix) → ∀ x ∈ raws (some g) radix v ds, x < 2^32 := by
  intro ds
  induction ds with
  | nil => intro v _ _ x hx; simp [raws] at hx
  | cons d ds ih =>
    intro v hv hd x hx
    have hdr : d < radix := hd d (by simp)
    have hnw := charref_step_no_wrap hg hr hv hdr
    simp only [raws, List.mem_cons] at hx
    rcases hx with rfl | hx
    · exact hnw
    · have hmod : ((v * radix) % W + d) % W = v * radix + d := by
        unfold W
        have : v * radix < 2^32 := by omega
        rw [Nat.mod_eq_of_lt this, Nat.mod_eq_of_lt hnw]
      simp only [step, hmod] at hx
      by_cases hgt : v * radix + d > g
      · simp [hgt] at hx
      · simp only [hgt, if_false] at hx
        exact ih (v * radix + d) (by omega) (fun y hy => hd y (by simp [hy])) x hx

/-- the loop of `XMLScanner::scanCharRef` as extracted (guard constant from the source) -/
theorem charref_value_exact (radix : Nat) (hr : radix = xmlScannerRadixDec ∨ radix = xmlScannerRadixHex)
    (ds : List Nat) (hd : ∀ d ∈ ds, d < radix) :
    scan xmlScannerGuard radix 0 ds = if numeral radix 0 ds ≤ 0x10FFFF then some (numeral radix 0 ds) else none := by
  have h16 : 1 ≤ radix ∧ radix ≤ 16 := by
    rcases hr with rfl | rfl <;> simp [xmlScannerRadixDec, xmlScannerRadixHex]
  show scan (some 0x10FFFF) radix 0 ds = _
  exact charref_scan_exact (by omega) h16.1 h16.2 ds 0 (by omega) hd

theorem charref_no_wrap (radix : Nat) (hr : radix = xmlScannerRadixDec ∨ radix = xmlScannerRadixHex)
    (ds : List Nat) (hd : ∀ d ∈ ds, d < radix) : ∀ x ∈ raws xmlScannerGuard radix 0 ds, x < 2^32 := by
  have h16 : radix ≤ 16 := by
    rcases hr with rfl | rfl <;> simp [xmlScannerRadixDec, xmlScannerRadixHex]
  show ∀ x ∈ raws (some 0x10FFFF) radix 0 ds, x < 2^32
  exact charref_no_wrap_gen (by omega) h16 ds 0 (by omega) hd

/-- the code after the loop yields what XML 1.0 asks of the number: a well-formed surrogate pair that encodes
exactly `n`, a single unit `≤ 0xFFFD`, or the error -/
theorem charref_finish_exact (n : Nat) :
    finish xmlScannerPairLo xmlScannerPairHi xmlScannerSingleMax xmlScannerSurr n = specOut n := by
  simp only [finish, xmlScannerSurr, xmlScannerPairLo, xmlScannerPairHi, xmlScannerSingleMax, specOut]
  rfl

theorem charref_pair_wellformed (n : Nat) (h : 0x10000 ≤ n ∧ n ≤ 0x10FFFF) :
    ∃ hi lo, specOut n = .pair hi lo ∧ 0xD800 ≤ hi ∧ hi ≤ 0xDBFF ∧ 0xDC00 ≤ lo ∧ lo ≤ 0xDFFF ∧
      (hi - 0xD800) * 1024 + (lo - 0xDC00) + 0x10000 = n := by
  refine ⟨(n - 0x10000) / 1024 + 0xD800, (n - 0x10000) % 1024 + 0xDC00, by simp [specOut, h], ?_⟩
  omega

/-- an unguarded accumulator wraps: a nine-digit hexadecimal reference is taken for `A` -/
theorem charref_unguarded_wraps :
    scan none 16 0 [1, 0, 0, 0, 0, 0, 0, 4, 1] = some 0x41 ∧ numeral 16 0 [1, 0, 0, 0, 0, 0, 0, 4, 1] = 0x100000041 := by
  decide

/-- status of `DTDScanner::scanCharRef` relative to the extracted guard: exact when guarded like the scanner's,
and wrapping to a legal character when it has no guard -/
theorem dtd_charref_exact_of_guarded (h : dtdScannerGuard = some 0x10FFFF) (radix : Nat)
    (hr : radix = dtdScannerRadixDec ∨ radix = dtdScannerRadixHex) (ds : List Nat) (hd : ∀ d ∈ ds, d < radix) :
    scan dtdScannerGuard radix 0 ds = if numeral radix 0 ds ≤ 0x10FFFF then some (numeral radix 0 ds) else none := by
  have h16 : 1 ≤ radix ∧ radix ≤ 16 := by
    rcases hr with rfl | rfl <;> simp [dtdScannerRadixDec, dtdScannerRadixHex]
  rw [h]
  exact charref_scan_exact (by omega) h16.1 h16.2 ds 0 (by omega) hd

theorem dtd_charref_wraps_of_unguarded (h : dtdScannerGuard = none) :
    ∃ ds, (∀ d ∈ ds, d < dtdScannerRadixHex) ∧ numeral dtdScannerRadixHex 0 ds > 0x10FFFF ∧
      charRef dtdScannerGuard dtdScannerRadixHex dtdScannerPairLo dtdScannerPairHi dtdScannerSingleMax dtdScannerSurr ds
        = .single 0x41 := by
  rw [h]
  exact ⟨[1, 0, 0, 0, 0, 0, 0, 4, 1], by decide, by decide, by decide⟩

example : scan xmlScannerGuard 16 0 [1, 0, 15, 15, 15, 15] = some 0x10FFFF := by decide
example : scan xmlScannerGuard 16 0 [1, 1, 0, 0, 0, 0] = none := by decide
example : scan xmlScannerGuard 10 0 ([0, 0, 0, 0, 0, 0, 0, 0, 0, 0, 0, 0, 6, 5]) = some 65 := by decide

end CharRef

section Msg
open XV.Model.MsgFormat XV.Lemmas.MsgTables

/-! ## (c) error-message formatting -/

theorem loadMsg_bounded (src : List Nat) (maxChars : Nat) : loadMsgCells src maxChars ≤ maxChars + 1 := by
  simp [loadMsgCells, loadMsg, List.length_take]; omega

theorem bare_le {guarded : Bool} {maxChars out : Nat} {k : Nat → Nat} (B : Nat)
    (hk : k (out + 1) ≤ B) (h1 : out + 1 ≤ B) (h0 : out ≤ B) : bare guarded maxChars out k ≤ B := by
  unfold bare
  split
  · exact h0
  · split
    · exact h1
    · exact hk

theorem inner_cons_ne (guarded : Bool) (maxChars : Nat) (rep : Nat → Nat) {c : Nat} (hc : c ≠ cOpen)
    (rest : List Nat) (out : Nat) :
    inner guarded maxChars rep (c :: rest) out =
      if out < maxChars then inner guarded maxChars rep rest (out + 1) else out := by
  cases rest with
  | nil => simp [inner, hc]
  | cons d r => cases r <;> simp [inner, hc]

theorem hasBare_cons_ne {c : Nat} (hc : c ≠ cOpen) (rest : List Nat) : hasBare (c :: rest) = hasBare rest := by
  cases rest with
  | nil => simp [hasBare, hc]
  | cons d r => cases r <;> simp [hasBare, hc]

theorem tokenThenBare_cons_ne {c : Nat} (hc : c ≠ cOpen) (rest : List Nat) :
    tokenThenBare (c :: rest) = tokenThenBare rest := by
  cases rest with
  | nil => simp [tokenThenBare, hc]
  | cons d r => cases r <;> simp [tokenThenBare, hc]

/-- (A) a text without bare braces never moves `curOutInd` past `maxChars`, whatever the replacement lengths -/
theorem inner_noBare (guarded : Bool) (maxChars : Nat) (rep : Nat → Nat) (src : List Nat) (out : Nat) :
    hasBare src = false → out ≤ maxChars → inner guarded maxChars rep src out ≤ maxChars := by
  induction src, out using inner.induct maxChars rep with
  | case1 out => intro _ h; simpa [inner] using h
  | case2 c rest out hc hlt ih =>
    intro hb ho
    rw [inner_cons_ne _ _ _ hc]; simp only [hlt, if_true]
    apply ih
    · rwa [hasBare_cons_ne hc] at hb
    · omega
  | case3 c rest out hc hlt =>
    intro _ ho; rw [inner_cons_ne _ _ _ hc]; simp only [hlt, if_false]; exact ho
  | case4 c out hc _ => intro hb; simp [hasBare, hc] at hb
  | case5 c out hc d _ => intro hb; simp [hasBare, hc] at hb
  | case6 c out hc d e rest' ht out' hge =>
    intro _ ho
    rw [inner]; simp only [hc, ht, if_true, if_false]
    simp only [out'] at hge
    simp only [hge, if_true]; omega
  | case7 c out hc d e rest' ht out' hge ih =>
    intro hb ho
    rw [inner]; simp only [hc, ht, if_true, if_false]
    simp only [out'] at hge ih
    simp only [hge, if_false]
    apply ih
    · simpa [hasBare, hc, ht] using hb
    · omega
  | case8 c out hc d e rest' ht _ =>
    intro hb; simp [hasBare, hc, ht] at hb

/-- (A') with the guard on the brace copy (the repair) the bound holds for every text -/
theorem inner_guarded (maxChars : Nat) (rep : Nat → Nat) (src : List Nat) (out : Nat) :
    out ≤ maxChars → inner true maxChars rep src out ≤ maxChars := by
  induction src, out using inner.induct maxChars rep with
  | case1 out => intro h; simpa [inner] using h
  | case2 c rest out hc hlt ih =>
    intro ho; rw [inner_cons_ne _ _ _ hc]; simp only [hlt, if_true]; exact ih (by omega)
  | case3 c rest out hc hlt =>
    intro ho; rw [inner_cons_ne _ _ _ hc]; simp only [hlt, if_false]; exact ho
  | case4 c out hc ih =>
    intro ho; rw [inner]; simp only [hc, if_false]
    unfold bare
    by_cases h : out ≥ maxChars
    · simp [h]; exact ho
    · simp [h]; split
      · omega
      · exact ih _ (by omega)
  | case5 c out hc d ih =>
    intro ho; rw [inner]; simp only [hc, if_false]
    unfold bare
    by_cases h : out ≥ maxChars
    · simp [h]; exact ho
    · simp [h]; split
      · omega
      · exact ih _ (by omega)
  | case6 c out hc d e rest' ht out' hge =>
    intro ho
    rw [inner]; simp only [hc, ht, if_true, if_false]
    simp only [out'] at hge
    simp only [hge, if_true]; omega
  | case7 c out hc d e rest' ht out' hge ih =>
    intro ho
    rw [inner]; simp only [hc, ht, if_true, if_false]
    simp only [out'] at hge ih
    simp only [hge, if_false]
    exact ih (by omega)
  | case8 c out hc d e rest' ht ih =>
    intro ho; rw [inner]; simp only [hc, ht, if_false]
    unfold bare
    by_cases h : out ≥ maxChars
    · simp [h]; exact ho
    · simp [h]; split
      · omega
      · exact ih _ (by omega)

/-- (B) as the code stands: no bare brace after a token, and the text itself fits -/
theorem inner_noTokenThenBare (guarded : Bool) (maxChars : Nat) (rep : Nat → Nat) (src : List Nat) (out : Nat) :
    tokenThenBare src = false → out + src.length ≤ maxChars → inner guarded maxChars rep src out ≤ maxChars := by
  induction src, out using inner.induct maxChars rep with
  | case1 out => intro _ h; simp [inner]; simp at h; exact h
  | case2 c rest out hc hlt ih =>
    intro hb ho
    rw [inner_cons_ne _ _ _ hc]; simp only [hlt, if_true]
    apply ih
    · rwa [tokenThenBare_cons_ne hc] at hb
    · simp at ho; omega
  | case3 c rest out hc hlt =>
    intro _ ho; rw [inner_cons_ne _ _ _ hc]; simp only [hlt, if_false]; simp at ho; omega
  | case4 c out hc ih =>
    intro hb ho; rw [inner]; simp only [hc, if_false]
    simp at ho
    exact bare_le maxChars (by simp [inner]; omega) (by omega) (by omega)
  | case5 c out hc d ih =>
    intro hb ho; rw [inner]; simp only [hc, if_false]
    simp at ho
    refine bare_le maxChars (ih _ ?_ ?_) (by omega) (by omega)
    · simpa [tokenThenBare, hc] using hb
    · simp; omega
  | case6 c out hc d e rest' ht out' hge =>
    intro _ ho
    rw [inner]; simp only [hc, ht, if_true, if_false]
    simp only [out'] at hge
    simp only [hge, if_true]; simp at ho; omega
  | case7 c out hc d e rest' ht out' hge ih =>
    intro hb ho
    rw [inner]; simp only [hc, ht, if_true, if_false]
    simp only [out'] at hge
    simp only [hge, if_false]
    apply inner_noBare
    · simpa [tokenThenBare, hc, ht] using hb
    · simp at ho; omega
  | case8 c out hc d e rest' ht ih =>
    intro hb ho; rw [inner]; simp only [hc, ht, if_false]
    simp at ho
    refine bare_le maxChars (ih _ ?_ ?_) (by omega) (by omega)
    · simpa [tokenThenBare, hc, ht] using hb
    · simp; omega

/-- `replaceTokens` touches at most `maxChars + 1` cells when the text is of the shipped shape or the loop is guarded -/
theorem replaceTokens_bounded (guarded : Bool) (maxChars : Nat) (rep : Nat → Nat) (src : List Nat)
    (h : guarded = true ∨ (tokenThenBare src = false ∧ src.length ≤ maxChars)) :
    replaceTokensCells guarded maxChars rep src ≤ maxChars + 1 := by
  unfold replaceTokensCells replaceTokens
  split
  · omega
  · rcases h with rfl | ⟨h1, h2⟩
    · have := inner_guarded maxChars rep src 0 (by omega); omega
    · have := inner_noTokenThenBare guarded maxChars rep src 0 h1 (by omega); omega

/-- the unguarded loop does overrun for a text with a token, a character and then a bare brace: with
`maxChars = 10` and a 9-character replacement it touches 12 cells of an 11-cell buffer -/
theorem replaceTokens_overrun_witness :
    replaceTokensCells false 10 (fun _ => 9) [cOpen, c0, cClose, 65, cOpen] = 10 + 2 := by decide

/-- every `errText` array is one cell larger than the limit passed to the loader -/
theorem errText_sites_sized : ∀ s ∈ errTextSites, siteSized s = true := by decide +kernel

theorem errText_sites_min : ∀ s ∈ errTextSites, 128 ≤ s.2.2.2 := by decide +kernel

/-- `emitError_bounded`: for every call site (`XMLScanner::emitError`, `XMLValidator::emitError`,
`XSDErrorReporter`, `XMLException::loadExceptText`, …), every shipped message and every choice of replacement-text
lengths, loading and token replacement stay inside `errText` -/
theorem emitError_bounded (s) (hs : s ∈ errTextSites) (t) (ht : t ∈ XV.Gen.SafetyMsgs.messageTables) (m) (hm : m ∈ t.2.2.2)
    (rep : Nat → Nat) :
    loadMsgCells m s.2.2.2 ≤ s.2.2.1 ∧
    replaceTokensCells replaceTokensBraceGuarded s.2.2.2 rep (loadMsg m s.2.2.2) ≤ s.2.2.1 := by
  have h1 := errText_sites_sized s hs
  have h2 := errText_sites_min s hs
  have h3 := shipped_messages_safe t ht
  have h4 := tables_dim t ht
  simp only [siteSized, decide_eq_true_eq] at h1
  simp only [tableSafe, List.all_eq_true] at h3
  have h5 := h3 m hm
  simp only [msgSafe, Bool.and_eq_true, decide_eq_true_eq, Bool.not_eq_true'] at h5
  have hl : loadMsg m s.2.2.2 = m := by
    unfold loadMsg; apply List.take_of_length_le; omega
  refine ⟨?_, ?_⟩
  · have := loadMsg_bounded m s.2.2.2; omega
  · rw [hl]
    have := replaceTokens_bounded replaceTokensBraceGuarded s.2.2.2 rep m (Or.inr ⟨h5.2, by omega⟩)
    omega

/-- `XMLString::replaceTokens` as a public function, for *arbitrary* texts: bounded iff the brace copy is guarded.
As extracted it is not (`replaceTokensBraceGuarded = false`), and `replaceTokens_overrun_witness` is the overrun. -/
theorem replaceTokens_public_status :
    (replaceTokensBraceGuarded = true →
      ∀ maxChars rep src, replaceTokensCells replaceTokensBraceGuarded maxChars rep src ≤ maxChars + 1) ∧
    (replaceTokensBraceGuarded = false →
      ∃ maxChars rep src, replaceTokensCells replaceTokensBraceGuarded maxChars rep src > maxChars + 1) := by
  refine ⟨?_, ?_⟩
  · intro h maxChars rep src; exact replaceTokens_bounded _ _ _ _ (Or.inl h)
  · intro h; rw [h]; exact ⟨10, fun _ => 9, [cOpen, c0, cClose, 65, cOpen], by decide⟩

example : replaceTokensCells false 2047 (fun k => if k = 0 then 100000 else 3)
    [0x65, 0x20, cOpen, c0, cClose, 0x20, cOpen, c0 + 1, cClose] ≤ 2048 := by decide

end Msg

section Reader
open XV.Model.ReaderStack

/-! ## (d) reader-stack ownership ledger -/

def ownsAll (l : List RD) : List Obj := l.flatMap RD.owns

theorem live_eq (s : St) : s.live = ownsAll (curList s ++ s.stack) ++ s.ents.map Obj.entity := by
  simp [St.live, ownsAll, List.flatMap_append]

/-- bookkeeping invariant: every created object is either deleted or still owned, never both, never twice -/
structure LInv (s : St) : Prop where
  bal : ∀ o, s.created.count o = s.deleted.count o + s.live.count o
  once : ∀ o, s.created.count o ≤ 1
  fresh : ∀ o ∈ s.created, o.id < s.next

/-- an operation that creates nothing only moves objects from "owned" to "deleted" -/
def Conserves (s s' : St) : Prop :=
  s'.created = s.created ∧ s'.next = s.next ∧
  ∀ o, s'.deleted.count o + s'.live.count o = s.deleted.count o + s.live.count o

theorem LInv.of_conserves {s s' : St} (h : LInv s) (c : Conserves s s') : LInv s' := by
  obtain ⟨c1, c2, c3⟩ := c
  exact ⟨by intro o; rw [c1, c3 o]; exact h.bal o, by intro o; rw [c1]; exact h.once o,
         by intro o ho; rw [c1] at ho; rw [c2]; exact h.fresh o ho⟩

theorem popLoop_conserves (o : Obj) : ∀ (fl : List Bool) (cur : RD) (stack : List RD) (del : List Obj),
    (popLoop cur stack del fl).2.2.count o + (ownsAll ((popLoop cur stack del fl).1 :: (popLoop cur stack del fl).2.1)).count o
      = del.count o + (ownsAll (cur :: stack)).count o := by
  intro fl
  induction fl with
  | nil => intro cur stack del; simp [popLoop]
  | cons f fl ih =>
    intro cur stack del
    cases f with
    | true => simp [popLoop]
    | false =>
      cases stack with
      | nil => simp [popLoop]
      | cons d st =>
        simp only [popLoop]
        rw [ih d st (cur.owns ++ del)]
        simp [ownsAll, List.flatMap_cons, List.count_append]; omega

theorem cleanLoop_conserves (o : Obj) (n : Nat) : ∀ (stack : List RD) (cur : RD) (del : List Obj),
    (cleanLoop n cur stack del).2.2.count o + (ownsAll ((cleanLoop n cur stack del).1 :: (cleanLoop n cur stack del).2.1)).count o
      = del.count o + (ownsAll (cur :: stack)).count o := by
  intro stack
  induction stack with
  | nil => intro cur del; simp [cleanLoop]
  | cons d st ih =>
    intro cur del
    simp only [cleanLoop]
    split
    · rfl
    · rw [ih d (cur.owns ++ del)]
      simp [ownsAll, List.flatMap_cons, List.count_append]; omega

theorem pop_conserves (s : St) (t : Bool) (fl : List Bool) : Conserves s (pop s t fl) := by
  unfold pop
  split
  · rename_i prev top st hc hs
    split
    · split
      · rename_i e he
        refine ⟨rfl, rfl, ?_⟩
        intro o
        simp [live_eq, curList, hc, hs, ownsAll, List.flatMap_cons, List.count_append, RD.owns, he, List.count_cons]
        omega
      · rename_i he
        refine ⟨rfl, rfl, ?_⟩
        intro o
        simp [live_eq, curList, hc, hs, ownsAll, List.flatMap_cons, List.count_append]
        omega
    · refine ⟨rfl, rfl, ?_⟩
      intro o
      have := popLoop_conserves o fl top st (prev.owns ++ s.deleted)
      simp [live_eq, curList, hc, hs, List.count_append] at this ⊢
      simp [ownsAll, List.flatMap_cons, List.count_append] at this ⊢
      omega
  · exact ⟨rfl, rfl, fun _ => rfl⟩

theorem cleanBackTo_conserves (s : St) (n : Nat) : Conserves s (cleanBackTo s n) := by
  unfold cleanBackTo
  split
  · rename_i c hc
    refine ⟨rfl, rfl, ?_⟩
    intro o
    have := cleanLoop_conserves o n s.stack c s.deleted
    simp [live_eq, curList, hc, List.count_append] at this ⊢
    simp [ownsAll, List.flatMap_cons, List.count_append] at this ⊢
    omega
  · exact ⟨rfl, rfl, fun _ => rfl⟩

theorem reset_conserves (s : St) : Conserves s (reset s) := by
  refine ⟨rfl, rfl, ?_⟩
  intro o
  simp [reset, live_eq, curList, ownsAll, List.flatMap_append, List.count_append]
  omega

theorem destroy_conserves (s : St) : Conserves s (destroy s) := by
  refine ⟨rfl, rfl, ?_⟩
  intro o
  simp [destroy, reset, live_eq, curList, ownsAll, List.flatMap_append, List.count_append]
  omega

theorem count_owns_fresh {s : St} (h : LInv s) (d : RD) (hd : d.reader = s.next) (ha : ∀ e, d.adopted = some e → e = s.next)
    (o : Obj) : d.owns.count o ≤ 1 ∧ (0 < d.owns.count o → s.created.count o = 0) := by
  have hfresh : ∀ o' ∈ d.owns, s.created.count o' = 0 := by
    intro o' ho'
    apply List.count_eq_zero.mpr
    intro hmem
    have := h.fresh o' hmem
    simp only [RD.owns] at ho'
    cases hda : d.adopted with
    | none => simp [hda] at ho'; subst ho'; simp [Obj.id] at this; omega
    | some e =>
      have := ha e hda
      simp [hda] at ho'
      rcases ho' with rfl | rfl <;> simp [Obj.id] at * <;> omega
  constructor
  · simp only [RD.owns]
    cases hda : d.adopted with
    | none => simp [List.count_cons]; split <;> omega
    | some e => cases o <;> simp [List.count_cons] <;> split <;> omega
  · intro hpos
    exact hfresh o (List.count_pos_iff.mp hpos)

theorem push_inv {s : St} (h : LInv s) (n : Option Nat) (a : Bool) : LInv (push s n a) := by
  unfold push
  simp only
  generalize hd : (⟨s.next, n, if (a && n.isSome) = true then some s.next else none⟩ : RD) = d
  have hdr : d.reader = s.next := by subst hd; rfl
  have hda : ∀ e, d.adopted = some e → e = s.next := by
    subst hd; intro e he; simp at he; exact he.2.symm
  have hid : ∀ o' ∈ d.owns, o'.id = s.next := by
    intro o' ho'
    simp only [RD.owns] at ho'
    cases hx : d.adopted with
    | none => simp [hx] at ho'; subst ho'; simp [Obj.id, hdr]
    | some e => have := hda e hx; simp [hx] at ho'; rcases ho' with rfl | rfl <;> simp [Obj.id, hdr, this]
  split
  · -- recursive expansion refused: reader (and adopted entity) deleted at once
    refine ⟨?_, ?_, ?_⟩
    · intro o
      have := h.bal o
      simp [live_eq, curList, List.count_append] at this ⊢
      omega
    · intro o
      have ⟨c1, c2⟩ := count_owns_fresh h d hdr hda o
      have := h.once o
      simp [List.count_append]
      by_cases hp : 0 < d.owns.count o
      · have := c2 hp; omega
      · omega
    · intro o ho
      simp at ho
      rcases ho with ho | ho
      · have := hid o ho; simp; omega
      · have := h.fresh o ho; simp; omega
  · refine ⟨?_, ?_, ?_⟩
    · intro o
      have := h.bal o
      simp [live_eq, curList, ownsAll, List.flatMap_append, List.flatMap_cons, List.count_append] at this ⊢
      omega
    · intro o
      have ⟨c1, c2⟩ := count_owns_fresh h d hdr hda o
      have := h.once o
      simp [List.count_append]
      by_cases hp : 0 < d.owns.count o
      · have := c2 hp; omega
      · omega
    · intro o ho
      simp at ho
      rcases ho with ho | ho
      · have := hid o ho; simp; omega
      · have := h.fresh o ho; simp; omega

theorem step_inv {s : St} (h : LInv s) (op : Op) : LInv (step s op) := by
  cases op with
  | push n a => exact push_inv h n a
  | pop t fl => exact h.of_conserves (pop_conserves s t fl)
  | cleanBackTo n => exact h.of_conserves (cleanBackTo_conserves s n)
  | reset => exact h.of_conserves (reset_conserves s)

theorem run_inv : ∀ (ops : List Op) (s : St), LInv s → LInv (run s ops) := by
  intro ops
  induction ops with
  | nil => intro s h; exact h
  | cons op ops ih => intro s h; exact ih _ (step_inv h op)

theorem init_inv : LInv St.init := ⟨by intro o; simp [St.init, St.live, curList], by intro o; simp [St.init], by intro o ho; simp [St.init] at ho⟩

/-- `readerStack_balanced`: for every operation sequence, once the manager is reset and destroyed every object
that was created (reader or adopted entity) has been deleted exactly once, and nothing else was deleted. -/
theorem readerStack_balanced (ops : List Op) (o : Obj) :
    let s := destroy (run St.init ops)
    s.deleted.count o = s.created.count o ∧ s.created.count o ≤ 1 := by
  intro s
  have h : LInv s := (run_inv ops _ init_inv).of_conserves (destroy_conserves _)
  have hl : s.live = [] := by simp [s, destroy, reset, St.live, curList]
  have := h.bal o
  rw [hl] at this
  exact ⟨by simp at this; omega, h.once o⟩

/-- after `reset` alone every *reader* is already gone exactly once (adopted entities whose expansion ended with an
end-of-entity exception stay parked on `fEntityStack` until the manager is destroyed) -/
theorem readerStack_balanced_reset (ops : List Op) (n : Nat) :
    let s := reset (run St.init ops)
    s.deleted.count (.reader n) = s.created.count (.reader n) ∧ s.created.count (.reader n) ≤ 1 := by
  intro s
  have h : LInv s := (run_inv ops _ init_inv).of_conserves (reset_conserves _)
  have hl : s.live.count (.reader n) = 0 := by
    simp [s, reset, St.live, curList, List.count_eq_zero]
  have := h.bal (.reader n)
  exact ⟨by omega, h.once _⟩

/-- at no time is an object deleted twice, or deleted while the manager still owns it -/
theorem readerStack_no_double_delete (ops : List Op) (o : Obj) :
    (run St.init ops).deleted.count o + (run St.init ops).live.count o ≤ 1 := by
  have h := run_inv ops _ init_inv
  have := h.bal o; have := h.once o; omega

/-- `never_pop_below_base`: `popReader` / `cleanStackBackTo` never remove the last reader: with an empty stack
they change nothing, and in every case a current reader remains -/
theorem never_pop_below_base (s : St) (h : s.cur.isSome) :
    (∀ t fl, (pop s t fl).cur.isSome) ∧ (∀ n, (cleanBackTo s n).cur.isSome) ∧
    (s.stack = [] → (∀ t fl, pop s t fl = s) ∧ (∀ n, (cleanBackTo s n).deleted = s.deleted)) := by
  refine ⟨?_, ?_, ?_⟩
  · intro t fl; unfold pop
    split
    · split
      · split <;> simp
      · simp
    · exact h
  · intro n; unfold cleanBackTo
    split
    · simp
    · exact h
  · intro hs
    refine ⟨?_, ?_⟩
    · intro t fl; unfold pop; rw [hs]; cases s.cur <;> rfl
    · intro n; unfold cleanBackTo; rw [hs]; cases s.cur <;> simp [cleanLoop]

/-- recursion check: an entity whose name is already on the stack is refused, the stack is unchanged and the
reader made for it is deleted on the spot -/
theorem recursion_detected (s : St) (name : Nat) (adopt : Bool) (h : onStack name s.stack = true) :
    (push s (some name) adopt).stack = s.stack ∧ (push s (some name) adopt).cur = s.cur ∧
    .reader s.next ∈ (push s (some name) adopt).deleted := by
  simp [push, isRecursive, h, RD.owns]

/-! non-vacuity: a history with an adopted entity whose expansion ends in an end-of-entity exception, a refused
recursive expansion, a clean-back and a reset: 5 objects created, the adopted entity parked until destruction -/
example :
    let ops : List Op := [.push none false, .push (some 1) true, .push (some 2) false, .push (some 1) false,
                          .pop true [], .pop true [], .push (some 3) false, .cleanBackTo 1, .reset]
    (run St.init ops).created.length = 6 ∧ (run St.init ops).ents = [2] ∧ (run St.init ops).live = [.entity 2] ∧
    (destroy (run St.init ops)).deleted.length = 6 := by decide

end Reader

section Expansion
open XV.Model.Expansion

/-! ## (e) entity-expansion work bound -/

theorem expansion_bound_gen (table : Nat → List Tok) (M L : Nat) (hM : ∀ n, (table n).length ≤ M) :
    ∀ (fuel : Nat) (q : List Tok) (count k delivered steps : Nat), count + k = L →
      let r := run table (some L) fuel q count delivered steps
      r.delivered ≤ delivered + q.length + k * M ∧ r.steps ≤ steps + q.length + k * M ∧
      delivered ≤ r.delivered ∧
      (fuel > q.length + k * M → r.outcome ≠ .outOfFuel) := by
  intro fuel
  induction fuel with
  | zero => intro q count k d st _; simp [run]; omega
  | succ fuel ih =>
    intro q count k d st hk
    cases q with
    | nil => simp [run]
    | cons t q =>
      cases t with
      | ch =>
        have := ih q count k (d + 1) (st + 1) hk
        simp only [run, List.length_cons] at this ⊢
        refine ⟨by omega, by omega, by omega, ?_⟩
        intro hf; exact this.2.2.2 (by omega)
      | ref n =>
        simp only [run, List.length_cons]
        by_cases hl : count + 1 > L
        · simp [hl]; omega
        · simp only [hl, if_false]
          obtain ⟨k', rfl⟩ : ∃ k', k = k' + 1 := ⟨k - 1, by omega⟩
          have := ih (table n ++ q) (count + 1) k' d (st + 1) (by omega)
          have hm := hM n
          simp only [List.length_append] at this
          rw [Nat.succ_mul]
          refine ⟨by omega, by omega, by omega, ?_⟩
          intro hf; exact this.2.2.2 (by omega)

/-- `expansion_work_bound`: with an expansion limit `L` and replacement texts of at most `M` tokens (the table may
be recursive), a document of `n` tokens delivers at most `n + L·M` characters, takes at most `n + L·M` scanner
steps, and that much fuel always suffices: the run ends by finishing or by the limit error. -/
theorem expansion_work_bound (table : Nat → List Tok) (M L : Nat) (hM : ∀ n, (table n).length ≤ M)
    (doc : List Tok) (fuel : Nat) :
    (run table (some L) fuel doc 0 0 0).delivered ≤ doc.length + L * M ∧
    (run table (some L) fuel doc 0 0 0).steps ≤ doc.length + L * M ∧
    (fuel > doc.length + L * M → (run table (some L) fuel doc 0 0 0).outcome ≠ .outOfFuel) := by
  have := expansion_bound_gen table M L hM fuel doc 0 L 0 0 (by omega)
  simp only at this
  exact ⟨by omega, by omega, this.2.2.2⟩

/-- non-vacuity and the contrast: a self-referencing entity `e = "x&e;"` is cut off by the limit after exactly
`L` characters, and runs for as long as the fuel lasts when no limit is set -/
example : run (fun _ => [.ch, .ref 0]) (some 5) 20 [.ref 0] 0 0 0 = ⟨.limitExceeded, 5, 11⟩ := by decide
example : (run (fun _ => [.ch, .ref 0]) none 40 [.ref 0] 0 0 0).outcome = .outOfFuel := by decide
/-- "billion laughs" two levels deep, 3×3: 9 characters from a 1-token document, within `1 + 4·3` -/
example : run (fun n => if n = 1 then [.ref 0, .ref 0, .ref 0] else [.ch, .ch, .ch]) (some 4) 100 [.ref 1] 0 0 0
    = ⟨.finished, 9, 13⟩ := by decide


end Expansion

section Heap
open XV.Model.DomHeap

/-! ## DOM document heap (`DOMDocumentImpl::allocate`) and the UCS-4 BOM loop -/

/-- `safe` = one of the two repairs is in place; otherwise every block must be able to hold the header and the
largest sub-allocation -/
def HInv (safe : Bool) (maxSub : Nat) (h : Heap) : Prop :=
  (safe = true ∨ header + maxSub ≤ h.heapAllocSize) ∧ h.freeOff + h.freeRemaining = h.blockSize ∧ h.blockSize < 2^63 ∧
  h.heapAllocSize < 2^62

theorem newBlockSize_ok {clamped : Bool} {hs amount : Nat} (h : clamped = true ∨ header + amount ≤ hs)
    (h4 : hs < 2^62) (ha : amount ≤ 2^61) :
    header + amount ≤ newBlockSize clamped hs amount ∧ newBlockSize clamped hs amount < 2^63 := by
  unfold newBlockSize header at *
  by_cases hc : hs < 8 + amount
  · rcases h with h | h
    · simp [h, hc]; omega
    · omega
  · cases clamped <;> simp [hc] <;> omega

theorem domAllocate_ok {maxSub maxHeap : Nat} {h : Heap} (clamped routed : Bool) (hi : HInv (clamped || routed) maxSub h)
    (amount : Nat) (hmax : maxHeap ≤ 2^61) (hsub : maxSub ≤ 2^61) :
    HInv (clamped || routed) maxSub (allocate clamped routed maxSub maxHeap h amount).1 ∧
    (∀ c, (allocate clamped routed maxSub maxHeap h amount).2 = some c → c.ok) := by
  obtain ⟨h1, h2, h3, h4⟩ := hi
  unfold allocate
  by_cases hb : amount > maxSub
  · simp [hb]; exact ⟨h1, h2, h3, h4⟩
  · simp only [hb, if_false]
    by_cases hr : (routed && decide (amount > h.freeRemaining) &&
        (decide (h.heapAllocSize < header) || decide (amount > h.heapAllocSize - header))) = true
    · simp only [hr, if_true]; exact ⟨⟨h1, h2, h3, h4⟩, by simp⟩
    · simp only [hr, if_false]
      by_cases hf : amount > h.freeRemaining
      · simp only [hf, if_true]
        have key : clamped = true ∨ header + amount ≤ h.heapAllocSize := by
          cases hcl : clamped with
          | true => exact Or.inl rfl
          | false =>
            right
            cases hro : routed with
            | true =>
              simp [hro, hf] at hr
              omega
            | false =>
              rcases h1 with h1 | h1
              · simp [hcl, hro] at h1
              · omega
        have ⟨g1, g2⟩ := newBlockSize_ok (clamped := clamped) key h4 (by omega)
        generalize newBlockSize clamped h.heapAllocSize amount = size at g1 g2 ⊢
        unfold header at g1
        have e1 : (size + 2^64 - header) % 2^64 = size - 8 := by unfold header; omega
        simp only [e1]
        have e2 : (size - 8 + 2^64 - amount) % 2^64 = size - 8 - amount := by omega
        simp only [e2]
        refine ⟨⟨?_, by simp [header]; omega, by simp; omega, ?_⟩, ?_⟩
        · rcases h1 with h1 | h1
          · exact Or.inl h1
          · right; simp; split <;> omega
        · simp; split <;> omega
        · intro c hc; simp at hc; subst hc; simp [Carve.ok, header]; omega
      · simp only [hf, if_false]
        have e2 : (h.freeRemaining + 2^64 - amount) % 2^64 = h.freeRemaining - amount := by omega
        simp only [e2]
        refine ⟨⟨h1, by simp; omega, h3, h4⟩, ?_⟩
        intro c hc; simp at hc; subst hc; simp [Carve.ok]; omega

/-- every sub-allocation of every request sequence stays inside its block, provided one of the repairs is in place
or a block can hold the header and the largest sub-allocation -/
theorem domHeap_in_bounds {maxSub maxHeap : Nat} (clamped routed : Bool) (hmax : maxHeap ≤ 2^61) (hsub : maxSub ≤ 2^61) :
    ∀ (reqs : List Nat) (h : Heap), HInv (clamped || routed) maxSub h →
      ∀ c ∈ carves clamped routed maxSub maxHeap h reqs, c.ok := by
  intro reqs
  induction reqs with
  | nil => intro h _ c hc; simp [carves] at hc
  | cons a as ih =>
    intro h hi c hc
    have ⟨hi', hc'⟩ := domAllocate_ok clamped routed hi a hmax hsub
    simp only [carves, List.mem_append] at hc
    rcases hc with hc | hc
    · cases hr : (allocate clamped routed maxSub maxHeap h a).2 with
      | none => simp [hr] at hc
      | some c0 => simp [hr] at hc; rw [hc]; exact hc' c0 hr
    · exact ih _ hi' c hc

/-- the shipped defaults (`kInitialHeapAllocSize`, `kMaxHeapAllocSize`, `kMaxSubAllocationSize`) satisfy the precondition
even without a repair -/
theorem domHeap_default_ok : HInv false domMaxSub (Heap.new domInitialHeap) ∧ domMaxHeap ≤ 2^61 ∧ domMaxSub ≤ 2^61 := by
  simp [HInv, Heap.new, domMaxSub, domInitialHeap, domMaxHeap, header]

theorem domHeap_default_in_bounds (reqs : List Nat) :
    ∀ c ∈ carves (!domAllocateBlockUnclamped) domAllocateRoutesMisfit domMaxSub domMaxHeap (Heap.new domInitialHeap) reqs, c.ok := by
  have ⟨d1, d2, d3⟩ := domHeap_default_ok
  refine domHeap_in_bounds _ _ d2 d3 reqs _ ⟨Or.inr ?_, d1.2⟩
  rcases d1.1 with h | h
  · simp at h
  · exact h

/-- as extracted: with a repair in place *every* configuration accepted by `Initialize` / `setMemoryAllocationBlockSize`
is safe; without one there is a configuration that is not (`domAllocate_oob_small_heap`) -/
theorem domHeap_as_extracted (initial : Nat) (hi : initial < 2^62) (reqs : List Nat)
    (hsafe : (!domAllocateBlockUnclamped || domAllocateRoutesMisfit) = true) :
    ∀ c ∈ carves (!domAllocateBlockUnclamped) domAllocateRoutesMisfit domMaxSub domMaxHeap (Heap.new initial) reqs, c.ok := by
  have ⟨_, d2, d3⟩ := domHeap_default_ok
  exact domHeap_in_bounds _ _ d2 d3 reqs _ ⟨Or.inl hsafe, by simp [Heap.new], by simp [Heap.new], by simpa [Heap.new] using hi⟩

/-- F17, the negative witness for the unrepaired code: a block size that `setMemoryAllocationBlockSize` /
`Initialize(initialDOMHeapAllocSize, …)` accept (`size > kMaxSubAllocationSize`, here 257) makes the very first 256-byte
request run 7 bytes past its block, and `fFreeBytesRemaining` wraps to 2^64 − 7 so no later request opens a new block. -/
theorem domAllocate_oob_small_heap :
    (allocate false false 256 524288 (Heap.new 257) 256).2 = some ⟨8, 256, 257⟩ ∧ ¬ (Carve.ok ⟨8, 256, 257⟩) ∧
    (allocate false false 256 524288 (Heap.new 257) 256).1.freeRemaining = 2^64 - 7 := by
  decide +kernel

/-- the same request under either repair -/
theorem domAllocate_clamped_witness :
    (allocate true false 256 524288 (Heap.new 257) 256).2 = some ⟨8, 256, 264⟩ ∧ Carve.ok ⟨8, 256, 264⟩ ∧
    (allocate false true 256 524288 (Heap.new 257) 256).2 = none := by
  decide +kernel

/-- UCS-4 BOM removal `for (i = 0; i < fRawBytesAvail - slack; i++) buf[i] = buf[i + shift]` over a raw buffer of
`size` bytes: in bounds for every fill level iff the loop stops `shift` bytes early. As extracted `slack = 0`:
the full-buffer case (any UCS-4 document with BOM of at least 48 KiB) reads `size + 3`. -/
theorem ucs4_bom_shift_status (size slack shift : Nat) (hs : shift ≤ size) :
    (shift ≤ slack → ∀ avail, avail ≤ size → ∀ r, bomShiftMaxRead slack shift avail = some r → r < size) ∧
    (slack < shift → ∃ r, bomShiftMaxRead slack shift size = some r ∧ size ≤ r) := by
  refine ⟨?_, ?_⟩
  · intro h avail ha r hr
    unfold bomShiftMaxRead at hr
    split at hr
    · simp at hr
    · simp at hr; omega
  · intro h
    unfold bomShiftMaxRead
    have : ¬ (size - slack = 0) := by omega
    simp only [this, if_false]
    exact ⟨_, rfl, by omega⟩

theorem ucs4_bom_shift_as_extracted :
    (ucs4BomLoopShift ≤ ucs4BomLoopSlack → ∀ avail, avail ≤ rawBufSize →
        ∀ r, bomShiftMaxRead ucs4BomLoopSlack ucs4BomLoopShift avail = some r → r < rawBufSize) ∧
    (ucs4BomLoopSlack < ucs4BomLoopShift →
        ∃ r, bomShiftMaxRead ucs4BomLoopSlack ucs4BomLoopShift rawBufSize = some r ∧ rawBufSize ≤ r) :=
  ucs4_bom_shift_status rawBufSize ucs4BomLoopSlack ucs4BomLoopShift (by decide)

end Heap

section DomParserReset
open XV.Gen.DomParserFields XV.Model.DomParserReset

/-! ## reused DOM parser: no pointer into a released document survives `reset()` -/

/-- `domParser_reset_complete`: every data member of `AbstractDOMParser` that is a raw pointer to a DOM node class is
set to 0 by `reset()` or a same-object method it calls (as extracted; path-insensitive) -/
theorem domParser_reset_complete : ∀ m ∈ members, m.docPointer = true → m.name ∈ assignedNullInReset := by
  decide

/-- … and that `reset()` is reached before any callback of the next parse: `resetDocument()` and `parseReset()` call it,
and every scanner's `scanReset(const InputSource&)` calls `fDocHandler->resetDocument()` -/
theorem domParser_reset_reached :
    resetDocumentCallsReset = true ∧ parseResetCallsReset = true ∧ ∀ s ∈ scanResetAnnounces, s.2 = true := by
  decide

/-- hence, whatever the parser pointed at and whichever documents were released in between, after `reset()` no
document-pointing member points into a released document -/
theorem domParser_no_stale_pointer_after_reset (st : PState) (released : Nat → Bool) :
    stale (reset assignedNullInReset st) released = [] := by
  unfold stale
  apply List.filter_eq_nil_iff.mpr
  intro n hn
  simp only [List.mem_map, List.mem_filter] at hn
  obtain ⟨m, ⟨hm, hd⟩, rfl⟩ := hn
  have := domParser_reset_complete m hm hd
  simp [reset, this]

/-- the statement is not vacuous (there are such members, `fCurrentEntity` among them), and a `reset()` that skips one
member does leave a stale pointer -/
theorem domParser_reset_nonvacuous :
    (∃ m ∈ members, m.docPointer = true ∧ m.name = "fCurrentEntity") ∧
    stale (reset (assignedNullInReset.filter (· ≠ "fCurrentEntity")) (fun _ => some 7)) (fun d => d == 7) = ["fCurrentEntity"] := by
  decide

end DomParserReset

end XV.Props.C01
