/-
C02 — well-formedness verdict.  Part 1: the character-class tables of xerces-c and the severity partition of
its error codes, over the GENERATED tables (`XV.Gen.CharTables`, `XV.Gen.ErrCodes`).
-/
import XV.Gen.CharTables
import XV.Gen.ErrCodes
import XV.Spec.XmlChar
import XV.Model.XmlChar
import XV.Lemmas.CharTable
import XV.Lemmas.XmlDocE
namespace XV.Props.C02
open XV.Spec.XmlChar XV.Model.XmlChar XV.Gen.CharTables XV.Lemmas.CharTable

/-- which generated mask constant carries which class (names as in util/XMLChar.hpp) -/
def maskOf : CharClass → Nat
  | .ncName => gNCNameCharMask | .firstName => gFirstNameCharMask | .name => gNameCharMask
  | .plainContent => gPlainContentCharMask | .specialStartTag => gSpecialStartTagCharMask
  | .control => gControlCharMask | .xmlChar => gXMLCharMask | .whitespace => gWhitespaceCharMask

def classes (v : Version) : List (Nat × CSet) := CharClass.all.map fun k => (maskOf k, classSet v k)

theorem mem_classes (v : Version) (k : CharClass) : (maskOf k, classSet v k) ∈ classes v := by
  unfold classes
  exact List.mem_map.mpr ⟨k, by cases k <;> simp [CharClass.all], rfl⟩

theorem table10_checks : checkTable pages10 (classes .v10) = true := by decide +kernel
theorem table11_checks : checkTable pages11 (classes .v11) = true := by decide +kernel

/-- Every entry of `XMLChar1_0::fgCharCharsTable1_0` carries exactly the flags that the productions of XML 1.0
    (5th ed. name classes) prescribe: for all 65536 code units and all eight masks. -/
theorem charTable10_eq_spec : ∀ c, c < 65536 → ∀ k : CharClass,
    flag (tbl10 c) (maskOf k) = specClass .v10 k c :=
  fun c hc k => checkTable_spec pages10 (classes .v10) table10_checks c hc _ (mem_classes .v10 k)

/-- The same for `XMLChar1_1::fgCharCharsTable1_1` and the XML 1.1 productions. -/
theorem charTable11_eq_spec : ∀ c, c < 65536 → ∀ k : CharClass,
    flag (tbl11 c) (maskOf k) = specClass .v11 k c :=
  fun c hc k => checkTable_spec pages11 (classes .v11) table11_checks c hc _ (mem_classes .v11 k)

/-- the generated mask list is exactly the eight classes (no flag of the table is left unspecified) -/
theorem masks_are_classes : masks = CharClass.all.map maskOf := by decide

/-- XML 1.1: the flag pair used by the char-ref check (`isXMLChar || isControlChar`) is production [2], and
    control-but-not-xmlChar is production [2a] RestrictedChar. -/
theorem flags11_productions : ∀ c, c < 65536 →
    ((flag (tbl11 c) gXMLCharMask || flag (tbl11 c) gControlCharMask) = isChar11 c) ∧
    ((flag (tbl11 c) gControlCharMask && !flag (tbl11 c) gXMLCharMask) = isRestricted11 c) := by
  intro c hc
  have h1 := charTable11_eq_spec c hc .xmlChar
  have h2 := charTable11_eq_spec c hc .control
  simp only [maskOf] at h1 h2
  rw [h1, h2]
  simp only [specClass, classSet, literalSet, CSet.mem, isChar11, isRestricted11, inRanges, char11, restricted11,
    List.any_cons, List.any_nil, inR, Bool.or_false]
  constructor <;> rw [Bool.eq_iff_iff] <;>
    simp only [Bool.or_eq_true, Bool.and_eq_true, Bool.not_eq_true', ← Bool.not_eq_true, Nat.ble_eq] <;> omega

-- non-vacuity: concrete entries
example : flag (tbl10 0x41) gFirstNameCharMask = true ∧ flag (tbl10 0x2D) gFirstNameCharMask = false ∧
          flag (tbl10 0xFFFE) gXMLCharMask = false ∧ flag (tbl11 0x85) gWhitespaceCharMask = true ∧
          flag (tbl11 0x7F) gXMLCharMask = false ∧ flag (tbl10 0x7F) gXMLCharMask = true := by decide +kernel
example : specClass .v10 .firstName 0x132 = true ∧ specClass .v10 .name 0xB7 = true ∧
          specClass .v11 .xmlChar 0x1 = false ∧ specClass .v11 .control 0x1 = true := by decide

/-! ### error-code severities -/
open XV.Gen.ErrCodes

/-- values of `NoError` and of the six bound markers (which are never emitted) -/
def markerVals : List Nat := [0, XMLErrs.W_LowBounds, XMLErrs.W_HighBounds, XMLErrs.E_LowBounds, XMLErrs.E_HighBounds,
  XMLErrs.F_LowBounds, XMLErrs.F_HighBounds]

/-- `XMLErrs::isFatal` holds of a real code (not a bound marker) exactly when it lies strictly between the
    generated markers `F_LowBounds` and `F_HighBounds`; the same for errors and warnings; every real code has
    exactly one severity. -/
theorem fatal_partition : ∀ nc ∈ XMLErrs.codes, markerVals.contains nc.2 = false →
    ((XMLErrs.isFatal nc.2 = true ↔ (XMLErrs.F_LowBounds < nc.2 ∧ nc.2 < XMLErrs.F_HighBounds)) ∧
     (XMLErrs.isError nc.2 = true ↔ (XMLErrs.E_LowBounds < nc.2 ∧ nc.2 < XMLErrs.E_HighBounds)) ∧
     (XMLErrs.isWarning nc.2 = true ↔ (XMLErrs.W_LowBounds < nc.2 ∧ nc.2 < XMLErrs.W_HighBounds)) ∧
     ((XMLErrs.isFatal nc.2).toNat + (XMLErrs.isError nc.2).toNat + (XMLErrs.isWarning nc.2).toNat = 1)) := by
  decide +kernel

open XMLErrs in
/-- the fatal codes that the scanners raise for well-formedness / namespace violations of the modelled fragment (by name;
    the same list is the coverage target of the correspondence run, `REACHABLE` in tools/props/c02.py) -/
def wfCodes : List Nat := [
  C.ExpectedCommentOrCDATA, C.ExpectedAttrName, C.ExpectedEqSign, C.ExpectedQuotedString, C.UnterminatedXMLDecl,
  C.ExpectedDeclString, C.InvalidDocumentStructure, C.UnterminatedEndTag, C.ExpectedWhitespace, C.IllegalSequenceInComment,
  C.UnterminatedComment, C.InvalidCharacter, C.PINameExpected, C.UnterminatedPI, C.InvalidCharacterInAttrValue,
  C.ExpectedEndOfTagX, C.UnterminatedStartTag, C.UnterminatedCDATASection, C.ExpectedCommentOrPI, C.NotValidAfterContent,
  C.ExpectedAttrValue, C.BadSequenceInCharData, C.BadDigitForRadix, C.UnterminatedCharRef, C.ExpectedEntityRefName,
  C.EntityNotFound, C.UnterminatedEntityRef, C.BracketInAttrValue, C.AttrAlreadyUsedInSTag, C.ExpectedElementName,
  C.NoPIStartsWithXML, C.XMLDeclMustBeFirst, C.XMLVersionRequired, C.StandaloneNotLegal, C.EncodingRequired,
  C.BadXMLEncoding, C.BadStandalone, C.UnsupportedXMLVersion, C.DeclStringRep, C.DeclStringsInWrongOrder,
  C.EndedWithTagsOnStack, C.InvalidElementName, C.InvalidAttrName, C.UnknownPrefix, C.ColonNotLegalWithNS,
  C.NoEmptyStrNamespace, C.NoUseOfxmlnsAsPrefix, C.NoUseOfxmlnsURI, C.PrefixXMLNotMatchXMLURI, C.XMLURINotMatchXMLPrefix,
  C.NoXMLNSAsElementPrefix, C.XMLException_Fatal, C.MoreEndThanStartTags, C.EmptyMainEntity, C.InvalidCharacterRef,
  C.PartialTagMarkupError, C.PartialMarkupInEntity, C.RecursiveEntity, C.NoUnparsedEntityRefs, C.NoExtRefsInAttValue,
  C.UnterminatedDOCTYPE, C.ExpectedContentSpecExpr, C.ExpectedAsterisk, C.ExpectedChoiceOrCloseParen, C.ExpectedSeqOrCloseParen,
  C.ExpectedDefAttrDecl, C.ExpectedAttributeType, C.ExpectedEnumValue, C.ExpectedEntityValue, C.ExpectedMarkupDecl,
  C.UnterminatedElementDecl, C.UnterminatedEntityDecl, C.UnterminatedNotationDecl, C.UnterminatedEntityLiteral, C.ExpectedSystemOrPublicId,
  C.ExpectedPublicId, C.InvalidPublicIdChar, C.ExpectedNotationName, C.ExpectedNDATA, C.ExpectedEnumSepOrParen,
  C.DuplicateDocTypeDecl, C.PERefInMarkupInIntSubset, C.NoRootElemInDOCTYPE, C.UnterminatedContentModel, C.ExpectedSeqChoiceLeaf,
  C.ExpectedOpenParen, C.ExpectedMarkup, C.ExpectedComment]

/-- every code the scanners attach to a well-formedness / namespace violation is in the fatal range: an error code moved
    across `F_LowBounds`/`F_HighBounds` (or renamed away) breaks this theorem -/
theorem wf_codes_fatal : ∀ c ∈ wfCodes, XMLErrs.isFatal c = true ∧ XMLErrs.isError c = false ∧ XMLErrs.isWarning c = false := by
  decide

/-! ## Part 2 — the reference recogniser accepts exactly the renderings of well-formed trees

Fragment of the main theorems (`entOnlyDoc c`): ALL documents of the grammar — optional XML declaration with every
pseudo-attribute, white-space and quote alternative, Misc before and after the root, elements with attributes,
empty-element tags, character data, character and entity references, CDATA sections, comments, processing instructions,
of unbounded size and nesting depth — without DOCTYPE, or with a DOCTYPE whose internal subset holds internal general
ENTITY declarations, comments, PIs and white space (the declarations the well-formedness constraints depend on:
Entity Declared, Parsed Entity, No Recursion, No < in Attribute Values through entities are all inside the theorems).
ELEMENT / ATTLIST / NOTATION / external-entity declarations: see the `_partial` section.
`WF c = lexDoc c ∧ semOk c` (XV.Spec.Xml.WF). -/
open XV.Spec.Xml XV.Lemmas.Xml

theorem semDoc_of_semOk (c : Doc) (h : semOk c = true) : semDoc c = .ok () := by
  unfold semOk at h
  cases hs : semDoc c with
  | error e => rw [hs] at h; cases h
  | ok u => rfl

theorem entOnlyDoc_of_none (c : Doc) (h : c.doctype = none) : entOnlyDoc c = true := by simp [entOnlyDoc, h]

/-- accept side: every well-formed tree is accepted from its rendering, and reconstructed exactly -/
theorem parse_render (c : Doc) (hwf : WF c) (he : entOnlyDoc c = true) : parse (render c) = .ok c := by
  simp only [parse, parseSyn_renderE c hwf.1 he, semDoc_of_semOk c hwf.2]

/-- reject side: anything accepted is the rendering of a well-formed tree (the one returned) -/
theorem parse_sound (s : Str) (c : Doc) (h : parse s = .ok c) (he : entOnlyDoc c = true) : WF c ∧ render c = s := by
  simp only [parse] at h
  cases h1 : parseSyn s with
  | error e => simp [h1] at h
  | ok d =>
    simp only [h1] at h
    cases h2 : semDoc d with
    | error e => simp [h2] at h
    | ok u =>
      simp only [h2, Except.ok.injEq] at h
      subst h
      obtain ⟨l1, l2⟩ := parseSyn_soundE s d h1 he
      exact ⟨⟨l1, by simp [semOk, h2]⟩, l2⟩

/-- the accepted language is exactly the set of renderings of well-formed trees (on the fragment) -/
theorem accepted_iff (s : Str) :
    (∃ c, parse s = .ok c ∧ entOnlyDoc c = true) ↔ (∃ c, WF c ∧ entOnlyDoc c = true ∧ render c = s) := by
  constructor
  · rintro ⟨c, h, he⟩
    exact ⟨c, (parse_sound s c h he).1, he, (parse_sound s c h he).2⟩
  · rintro ⟨c, hwf, he, rfl⟩
    exact ⟨c, parse_render c hwf he, he⟩

/-- the rendering of a lexically valid tree that violates a constraint is rejected (never accepted silently) -/
theorem violation_fatal (c : Doc) (hl : lexDoc c = true) (he : entOnlyDoc c = true) (hbad : semOk c = false) :
    ∃ e, parse (render c) = .error e := by
  simp only [parse, parseSyn_renderE c hl he]
  unfold semOk at hbad
  cases hs : semDoc c with
  | error e => exact ⟨e, rfl⟩
  | ok u => rw [hs] at hbad; cases hbad

/-- `render` is injective on lexically valid trees of the fragment (no two trees print the same text) -/
theorem render_injective (c c' : Doc) (h : lexDoc c = true) (h' : lexDoc c' = true) (hd : entOnlyDoc c = true)
    (hd' : entOnlyDoc c' = true) (e : render c = render c') : c = c' := by
  have a := parseSyn_renderE c h hd
  have b := parseSyn_renderE c' h' hd'
  rw [e, b] at a
  exact (Except.ok.inj a).symm

/-! ### per-constraint corollaries -/

mutual
/-- all nodes of a tree (the node itself first) -/
def subnodes : Node → List Node
  | .leaf l => [.leaf l]
  | .empty t => [.empty t]
  | .elem t kids en ew => .elem t kids en ew :: subnodesL kids
def subnodesL : List Node → List Node
  | [] => []
  | n :: ns => subnodes n ++ subnodesL ns
end

/-- the constraints checked at one node -/
def localSem (v : XV.Spec.XmlChar.Version) : Node → Bool
  | .leaf l => semLeaf v l
  | .empty t => semTag v t
  | .elem t kids en _ => semTag v t && t.name == en && noCdataEnd kids

mutual
theorem semNode_local (v : XV.Spec.XmlChar.Version) : (n : Node) → semNode v n = true → ∀ m ∈ subnodes n, localSem v m = true
  | .leaf l, h => by simpa [subnodes, localSem, semNode] using h
  | .empty t, h => by simpa [subnodes, localSem, semNode] using h
  | .elem t kids en ew, h => by
    simp only [semNode, Bool.and_eq_true] at h
    intro m hm
    simp only [subnodes, List.mem_cons] at hm
    rcases hm with rfl | hm
    · simp [localSem, h.1.1.1, h.1.1.2, h.1.2]
    · exact semNodes_local v kids h.2 m hm
theorem semNodes_local (v : XV.Spec.XmlChar.Version) : (ns : List Node) → semNodes v ns = true → ∀ m ∈ subnodesL ns, localSem v m = true
  | [], _ => by simp [subnodesL]
  | n :: ns, h => by
    simp only [semNodes, Bool.and_eq_true] at h
    intro m hm
    simp only [subnodesL, List.mem_append] at hm
    rcases hm with hm | hm
    · exact semNode_local v n h.1 m hm
    · exact semNodes_local v ns h.2 m hm
end

theorem semOk_local (c : Doc) (h : semOk c = true) : ∀ m ∈ subnodes c.root, localSem c.version m = true := by
  have := semDoc_of_semOk c h
  unfold semDoc at this
  by_cases hb : semDocBool c = true
  · simp only [semDocBool, Bool.and_eq_true] at hb
    exact semNode_local c.version c.root hb.1.2
  · simp [hb] at this

/-- a node that violates its local constraints makes the whole document fatal -/
theorem local_violation_fatal (c : Doc) (hl : lexDoc c = true) (hdt : entOnlyDoc c = true) (m : Node)
    (hm : m ∈ subnodes c.root) (hbad : localSem c.version m = false) : ∃ e, parse (render c) = .error e := by
  apply violation_fatal c hl hdt
  cases hs : semOk c with
  | false => rfl
  | true => have := semOk_local c hs m hm; rw [hbad] at this; cases this

/-- WFC Element Type Match -/
theorem mismatched_tag_fatal (c : Doc) (hl : lexDoc c = true) (hdt : entOnlyDoc c = true) (t : Tag) (kids : List Node) (en ew : Str)
    (hm : .elem t kids en ew ∈ subnodes c.root) (hne : t.name ≠ en) : ∃ e, parse (render c) = .error e :=
  local_violation_fatal c hl hdt _ hm (by simp [localSem, hne])

/-- WFC Unique Att Spec -/
theorem dup_attr_fatal (c : Doc) (hl : lexDoc c = true) (hdt : entOnlyDoc c = true) (m : Node) (t : Tag)
    (hm : m ∈ subnodes c.root) (ht : (∃ k e w, m = .elem t k e w) ∨ m = .empty t)
    (hdup : noDup (t.atts.map (·.name)) = false) : ∃ e, parse (render c) = .error e := by
  apply local_violation_fatal c hl hdt m hm
  rcases ht with ⟨k, e, w, rfl⟩ | rfl <;> simp [localSem, semTag, hdup]

/-- WFC No < in Attribute Values (literal `<`) -/
theorem lt_in_attvalue_fatal (c : Doc) (hl : lexDoc c = true) (hdt : entOnlyDoc c = true) (m : Node) (t : Tag) (a : Attr)
    (hm : m ∈ subnodes c.root) (ht : (∃ k e w, m = .elem t k e w) ∨ m = .empty t)
    (ha : a ∈ t.atts) (hlt : AttPiece.ch '<' ∈ a.val) : ∃ e, parse (render c) = .error e := by
  apply local_violation_fatal c hl hdt m hm
  have hf : (t.atts.all fun a => a.val.all (semPiece c.version)) = false := by
    rw [Bool.eq_false_iff]
    intro h
    rw [List.all_eq_true] at h
    have := h a ha
    rw [List.all_eq_true] at this
    have := this _ hlt
    simp [semPiece] at this
  rcases ht with ⟨k, e, w, rfl⟩ | rfl <;> simp [localSem, semTag, hf]

/-- `]]>` in character data ([14] CharData) -/
theorem cdata_end_in_text_fatal (c : Doc) (hl : lexDoc c = true) (hdt : entOnlyDoc c = true) (t : Tag) (kids : List Node) (en ew : Str)
    (hm : .elem t kids en ew ∈ subnodes c.root) (hbad : noCdataEnd kids = false) : ∃ e, parse (render c) = .error e :=
  local_violation_fatal c hl hdt _ hm (by simp [localSem, hbad])

/-- WFC Legal Character (character references) -/
theorem bad_charref_fatal (c : Doc) (hl : lexDoc c = true) (hdt : entOnlyDoc c = true) (r : CharRef)
    (hm : .leaf (.cref r) ∈ subnodes c.root) (hbad : XV.Spec.XmlChar.isRefChar c.version r.value = false) :
    ∃ e, parse (render c) = .error e :=
  local_violation_fatal c hl hdt _ hm (by simp [localSem, semLeaf, semCharRef, hbad])

/-- [2] Char: a literal character that is not legal for the document's version -/
theorem illegal_char_fatal (c : Doc) (hl : lexDoc c = true) (hdt : entOnlyDoc c = true) (x : Char)
    (hx : x ∈ render c) (hbad : XV.Spec.XmlChar.isLiteralChar c.version x.toNat = false) :
    ∃ e, parse (render c) = .error e := by
  apply violation_fatal c hl hdt
  cases hs : semOk c with
  | false => rfl
  | true =>
    have := semDoc_of_semOk c hs
    unfold semDoc at this
    by_cases hb : semDocBool c = true
    · simp only [semDocBool, semLegal, Bool.and_eq_true, List.all_eq_true] at hb
      have := hb.1.1.1.1 x hx
      rw [hbad] at this; cases this
    · simp [hb] at this

mutual
theorem eref_mem_contentRefs : (m : Node) → (n : Str) → .leaf (.eref n) ∈ subnodes m → n ∈ contentRefs m
  | .leaf l, n, h => by
    simp only [subnodes, List.mem_cons, List.not_mem_nil, or_false] at h
    cases h; simp [contentRefs]
  | .empty t, n, h => by simp [subnodes] at h
  | .elem t kids en ew, n, h => by
    simp only [subnodes, List.mem_cons] at h
    rcases h with h | h
    · cases h
    · simp only [contentRefs]; exact eref_mem_contentRefsL kids n h
theorem eref_mem_contentRefsL : (ms : List Node) → (n : Str) → .leaf (.eref n) ∈ subnodesL ms → n ∈ contentRefsL ms
  | [], n, h => by simp [subnodesL] at h
  | m :: ms, n, h => by
    simp only [subnodesL, List.mem_append] at h
    simp only [contentRefsL, List.mem_append]
    rcases h with h | h
    · exact Or.inl (eref_mem_contentRefs m n h)
    · exact Or.inr (eref_mem_contentRefsL ms n h)
end

/-- without declarations, the reachability closure fails as soon as a non-predefined name is to be examined -/
theorem closure_no_env (v : XV.Spec.XmlChar.Version) : ∀ (todo : List (Str × Use)) (fuel : Nat) (seen : List (Str × Use))
    (edges : List ((Str × Use) × (Str × Use))), todo.length < fuel →
    (∀ x ∈ seen, predefined.contains x.1 = true) → (∃ x ∈ todo, predefined.contains x.1 = false) →
    ∃ e, entityClosure [] v fuel todo seen edges = .error e
  | [], _, _, _, _, _, hbad => by obtain ⟨x, hx, _⟩ := hbad; simp at hx
  | (n, u) :: rest, fuel, seen, edges, hf, hseen, hbad => by
    cases fuel with
    | zero => simp at hf
    | succ f =>
      have hf' : rest.length < f := by simpa using hf
      simp only [entityClosure]
      by_cases h1 : seen.contains (n, u) = true
      · rw [if_pos h1]
        have hp : predefined.contains n = true := hseen (n, u) (by simpa using h1)
        apply closure_no_env v rest f seen edges hf' hseen
        obtain ⟨x, hx, hxb⟩ := hbad
        rcases List.mem_cons.mp hx with rfl | hx
        · rw [hp] at hxb; cases hxb
        · exact ⟨x, hx, hxb⟩
      · rw [if_neg h1]
        by_cases h2 : predefined.contains n = true
        · rw [if_pos h2]
          apply closure_no_env v rest f ((n, u) :: seen) edges hf'
          · intro x hx
            rcases List.mem_cons.mp hx with rfl | hx
            · exact h2
            · exact hseen x hx
          · obtain ⟨x, hx, hxb⟩ := hbad
            rcases List.mem_cons.mp hx with rfl | hx
            · rw [h2] at hxb; cases hxb
            · exact ⟨x, hx, hxb⟩
        · rw [if_neg h2]
          exact ⟨_, rfl⟩

/-- WFC Entity Declared: a reference to an entity other than the five predefined ones, in a document without declarations -/
theorem undeclared_entity_fatal (c : Doc) (hl : lexDoc c = true) (hdt : c.doctype = none) (n : Str)
    (hm : .leaf (.eref n) ∈ subnodes c.root) (hn : predefined.contains n = false) : ∃ e, parse (render c) = .error e := by
  apply violation_fatal c hl (entOnlyDoc_of_none c hdt)
  unfold semOk
  have hmem : n ∈ contentRefs c.root := eref_mem_contentRefs c.root n hm
  have henv : c.env = [] := by simp [Doc.env, hdt]
  have key : ∃ e, semEntities [] c.version c.root = .error e := by
    unfold semEntities
    generalize hs : (contentRefs c.root).map (fun m => (m, Use.content)) ++ (attRefs c.root).map (fun m => (m, Use.attr)) = start
    have hin : (n, Use.content) ∈ start := by
      rw [← hs]; exact List.mem_append_left _ (List.mem_map.mpr ⟨n, hmem, rfl⟩)
    have hne : start.isEmpty = false := by
      cases start with
      | nil => simp at hin
      | cons _ _ => rfl
    simp only [hne, Bool.false_eq_true, if_false]
    generalize hb : (([] : EntEnv).length + 6) * 2 + start.length = bound
    have hfuel : start.length < bound * (bound + 2) + 16 := by
      have h1 : start.length ≤ bound := by rw [← hb]; omega
      have h2 : bound * 1 ≤ bound * (bound + 2) := Nat.mul_le_mul_left bound (by omega)
      omega
    obtain ⟨e, he⟩ := closure_no_env c.version start _ [] [] hfuel (by simp) ⟨(n, Use.content), hin, hn⟩
    exact ⟨e, by rw [he]⟩
  obtain ⟨e, he⟩ := key
  unfold semDoc
  by_cases hb : semDocBool c = true
  · simp [hb, hdt, henv, he]
  · simp [hb]

/-- the soundness reading of the same constraints: no accepted document contains a violation -/
theorem accepted_has_no_violation (s : Str) (c : Doc) (h : parse s = .ok c) (hdt : entOnlyDoc c = true) :
    (∀ m ∈ subnodes c.root, localSem c.version m = true) ∧
    (∀ x ∈ s, XV.Spec.XmlChar.isLiteralChar c.version x.toNat = true) := by
  obtain ⟨hwf, hr⟩ := parse_sound s c h hdt
  refine ⟨semOk_local c hwf.2, ?_⟩
  have := semDoc_of_semOk c hwf.2
  unfold semDoc at this
  by_cases hb : semDocBool c = true
  · simp only [semDocBool, semLegal, Bool.and_eq_true, List.all_eq_true] at hb
    rw [← hr]; exact hb.1.1.1.1
  · simp [hb] at this

/-! ### documents whose internal subset also holds ELEMENT / ATTLIST / NOTATION / external-ENTITY declarations: partial

FULL STATEMENTS (not proved; proved above under the hypothesis `entOnlyDoc c`):
  `parse_render_dtd : WF c → parse (render c) = .ok c`                       for every `c`
  `parse_sound_dtd  : parse s = .ok c → WF c ∧ render c = s`                 for every `s`, `c`
What is missing is the round trip of those four kinds of declaration inside the DOCTYPE token: they keep content
specifications, attribute types and external identifiers as raw text recognised by `scanContentSpec` / `scanAttType` /
`parseExternalID`, whose inverse lemmas are not done (`XV.Lemmas.Xml.parseDecl_render/_sound` cover white space, comments,
PIs and internal general entities).  Proved below for ALL documents, DOCTYPE included: whatever is accepted satisfies every constraint of `semDoc`
(legal characters, Element Type Match, Unique Att Spec, No < in Attribute Values incl. through entities, Legal
Character, Entity Declared, Parsed Entity, No Recursion, No External Entity References, PI targets, `]]>`), has an
element as root, and its tree is exactly the token stream that the tokenizer produced from the text after the XML
declaration.  The verdicts on DOCTYPE documents are tied to the library by the correspondence run only. -/
theorem parse_sound_dtd_partial (s : Str) (c : Doc) (h : parse s = .ok c) :
    semOk c = true ∧ c.root.isElement = true ∧
    (∃ body : Str, tokenize (body.length + 1) body = .ok c.toks ∧
      (c.decl = none → body = s) ∧ (∀ x, c.decl = some x → ∃ r, startsWithDecl s = some r ∧ parseXmlDecl r = .ok (x, body))) := by
  simp only [parse] at h
  cases h1 : parseSyn s with
  | error e => simp [h1] at h
  | ok d =>
    simp only [h1] at h
    cases h2 : semDoc d with
    | error e => simp [h2] at h
    | ok u =>
      simp only [h2, Except.ok.injEq] at h
      subst h
      refine ⟨by simp [semOk, h2], ?_⟩
      simp only [parseSyn] at h1
      cases hs : startsWithDecl s with
      | none =>
        simp only [hs] at h1
        cases ht : tokenize (s.length + 1) s with
        | error e => simp [ht] at h1
        | ok ts =>
          simp only [ht] at h1
          obtain ⟨b1, b2, b3⟩ := buildDoc_sound none ts d h1
          refine ⟨b3, s, by rw [b2]; exact ht, fun _ => rfl, ?_⟩
          intro x hx; rw [b1] at hx; cases hx
      | some r =>
        simp only [hs] at h1
        cases hd : parseXmlDecl r with
        | error e => simp [hd] at h1
        | ok xr =>
          obtain ⟨x, r'⟩ := xr
          simp only [hd] at h1
          cases ht : tokenize (r'.length + 1) r' with
          | error e => simp [ht] at h1
          | ok ts =>
            simp only [ht] at h1
            obtain ⟨b1, b2, b3⟩ := buildDoc_sound (some x) ts d h1
            refine ⟨b3, r', by rw [b2]; exact ht, ?_, ?_⟩
            · intro hn; rw [b1] at hn; cases hn
            · intro y hy
              rw [b1] at hy
              cases hy
              exact ⟨r, rfl, hd⟩

-- non-vacuity with a DOCTYPE: entities used in content (with markup) and in an attribute value
def doc1 : Doc :=
  ⟨none, [],
   some (⟨[' '], ['a'], [' '], some ([.entity [' '] ['e'] [' '] (.internal .dq [.ch '<', .ch 'b', .ch '>', .ch 't', .cref ⟨false, ['3', '8']⟩, .ch '#', .ch '6', .ch '0', .ch ';', .ch '<', .ch '/', .ch 'b', .ch '>']) [],
                                       .ws '\n', .comment ['c'], .pi ['p'] [] [],
                                       .entity [' '] ['f'] [' '] (.internal .sq [.ch 'v', .eref ['g']]) [' '],
                                       .entity [' '] ['g'] [' '] (.internal .sq [.cref ⟨true, ['2', '6']⟩, .ch '#', .ch '6', .ch '0', .ch ';']) []], [])⟩, [.ch '\n']),
   .elem ⟨['a'], [⟨[' '], ['x'], ⟨[], []⟩, .dq, [.eref ['f']]⟩], []⟩ [.leaf (.eref ['e']), .leaf (.eref ['f'])] ['a'] [], []⟩
example : WF doc1 ∧ entOnlyDoc doc1 = true := by decide
set_option maxRecDepth 100000 in
example : render doc1 = ("<!DOCTYPE a [<!ENTITY e \"<b>t&#38;#60;</b>\">\n<!--c--><?p?><!ENTITY f 'v&g;' ><!ENTITY g '&#x26;#60;'>]>\n" ++
    "<a x=\"&f;\">&e;&f;</a>").toList := by decide
example : parse (render doc1) = .ok doc1 := parse_render doc1 (by decide) rfl
-- the same document with `g` made recursive is rejected: WFC No Recursion
example : ∃ e, parse ("<!DOCTYPE a [<!ENTITY f 'v&g;'><!ENTITY g '&f;'>]><a>&f;</a>").toList = .error e :=
  violation_fatal ⟨none, [], some (⟨[' '], ['a'], [' '], some ([.entity [' '] ['f'] [' '] (.internal .sq [.ch 'v', .eref ['g']]) [],
      .entity [' '] ['g'] [' '] (.internal .sq [.eref ['f']]) []], [])⟩, []), .elem ⟨['a'], [], []⟩ [.leaf (.eref ['f'])] ['a'] [], []⟩
    (by decide) rfl (by decide)

-- non-vacuity: a document using most constructors
def doc0 : Doc :=
  ⟨some ⟨⟨[' '], ⟨[], [' ']⟩, .sq⟩, ['0'], some (⟨['\n'], ⟨[], []⟩, .dq⟩, ['U', 'T', 'F', '-', '8']), some (⟨[' '], ⟨[], []⟩, .dq⟩, true), [' ']⟩,
   [.comment ['c'], .ch '\n', .pi ['p'] [' '] ['d']], none,
   .elem ⟨['a'], [⟨[' '], ['b'], ⟨[], []⟩, .dq, [.ch 'x', .eref ['l', 't'], .cref ⟨false, ['6', '5']⟩]⟩], []⟩
     [.leaf (.ch 't'), .empty ⟨['c', ':', 'd'], [], [' ']⟩, .leaf (.cref ⟨true, ['4', '1']⟩), .leaf (.cdata [']', ']']),
      .elem ⟨['e'], [], []⟩ [.leaf (.eref ['a', 'm', 'p'])] ['e'] [' ']] ['a'] [],
   [.comment ['-', 'x']]⟩
example : WF doc0 ∧ doc0.doctype = none := by decide
set_option maxRecDepth 100000 in
example : render doc0 = ("<?xml version= '1.0'\nencoding=\"UTF-8\" standalone=\"yes\" ?><!--c-->\n<?p d?>" ++
    "<a b=\"x&lt;&#65;\">t<c:d />&#x41;<![CDATA[]]]]><e>&amp;</e ></a><!---x-->").toList := by decide
example : parse (render doc0) = .ok doc0 := parse_render doc0 (by decide) rfl
example : ∃ e, parse "<a></b>".toList = .error e :=
  mismatched_tag_fatal ⟨none, [], none, .elem ⟨['a'], [], []⟩ [] ['b'] [], []⟩ (by decide) rfl ⟨['a'], [], []⟩ [] ['b'] []
    (by simp [subnodes]) (by decide)
example : ∃ e, parse "<a b='<'/>".toList = .error e :=
  lt_in_attvalue_fatal ⟨none, [], none, .empty ⟨['a'], [⟨[' '], ['b'], ⟨[], []⟩, .sq, [.ch '<']⟩], []⟩, []⟩ (by decide) rfl
    (.empty ⟨['a'], [⟨[' '], ['b'], ⟨[], []⟩, .sq, [.ch '<']⟩], []⟩) ⟨['a'], [⟨[' '], ['b'], ⟨[], []⟩, .sq, [.ch '<']⟩], []⟩
    ⟨[' '], ['b'], ⟨[], []⟩, .sq, [.ch '<']⟩ (by simp [subnodes]) (Or.inr rfl) (List.mem_cons_self ..) (List.mem_cons_self ..)
example : ∃ e, parse "<a b='1' b='2'/>".toList = .error e :=
  dup_attr_fatal ⟨none, [], none, .empty ⟨['a'], [⟨[' '], ['b'], ⟨[], []⟩, .sq, [.ch '1']⟩, ⟨[' '], ['b'], ⟨[], []⟩, .sq, [.ch '2']⟩], []⟩, []⟩
    (by decide) rfl _ ⟨['a'], [⟨[' '], ['b'], ⟨[], []⟩, .sq, [.ch '1']⟩, ⟨[' '], ['b'], ⟨[], []⟩, .sq, [.ch '2']⟩], []⟩
    (by simp [subnodes]) (Or.inr rfl) (by decide)
example : ∃ e, parse "<a>]]></a>".toList = .error e :=
  cdata_end_in_text_fatal ⟨none, [], none, .elem ⟨['a'], [], []⟩ [.leaf (.ch ']'), .leaf (.ch ']'), .leaf (.ch '>')] ['a'] [], []⟩
    (by decide) rfl ⟨['a'], [], []⟩ [.leaf (.ch ']'), .leaf (.ch ']'), .leaf (.ch '>')] ['a'] [] (by simp [subnodes]) (by decide)
example : ∃ e, parse ['<', 'a', '>', Char.ofNat 1, '<', '/', 'a', '>'] = .error e :=
  illegal_char_fatal ⟨none, [], none, .elem ⟨['a'], [], []⟩ [.leaf (.ch (Char.ofNat 1))] ['a'] [], []⟩ (by decide) rfl (Char.ofNat 1)
    (by decide) (by decide)
example : ∃ c, parse "<a/>".toList = .ok c ∧ c.doctype = none := ⟨⟨none, [], none, .empty ⟨['a'], [], []⟩, []⟩, rfl, rfl⟩
example : (parse_sound "<a/>".toList ⟨none, [], none, .empty ⟨['a'], [], []⟩, []⟩ rfl rfl).2 = rfl := rfl
example : wfCodes.length = 88 ∧ XMLErrs.isFatal XMLErrs.C.FeatureUnsupported = false := by decide
example : ∃ nc ∈ XMLErrs.codes, markerVals.contains nc.2 = false ∧ XMLErrs.isFatal nc.2 = true := ⟨("ExpectedEndOfTagX", XMLErrs.C.ExpectedEndOfTagX), by decide⟩
example : ∃ e, parse "<a>&nbsp;</a>".toList = .error e :=
  undeclared_entity_fatal ⟨none, [], none, .elem ⟨['a'], [], []⟩ [.leaf (.eref ['n', 'b', 's', 'p'])] ['a'] [], []⟩ (by decide) rfl
    ['n', 'b', 's', 'p'] (by simp [subnodes, subnodesL]) (by decide)
example : ∃ e, parse "<a>&#0;</a>".toList = .error e :=
  bad_charref_fatal ⟨none, [], none, .elem ⟨['a'], [], []⟩ [.leaf (.cref ⟨false, ['0']⟩)] ['a'] [], []⟩ (by decide) rfl
    ⟨false, ['0']⟩ (by simp [subnodes, subnodesL]) (by decide)

end XV.Props.C02
