/-
C18 — executable streaming monitor for allocation traces (the oracle used by `xvdriver ledger`).
No Mathlib.  State: the live set as an association list `ptr ↦ (mgr, size)` plus the list of every
pointer ever handed out (only used to tell a double free from a foreign pointer).
-/
import XV.Spec.Ledger
namespace XV.Model.Ledger
open XV.Spec.Ledger XV.Spec.Ledger.Event

structure Entry where
  ptr : Nat
  mgr : Nat
  size : Nat
deriving DecidableEq, Repr, Inhabited

structure State where
  live : List Entry := []
  ever : List Nat := []
deriving Repr, Inhabited

structure Violation where
  index : Nat      -- position of the offending event (trace length for a leak)
  kind : Kind
deriving DecidableEq, Repr, Inhabited

def lookup (l : List Entry) (p : Nat) : Option Entry := l.find? (fun e => e.ptr == p)

/-- One event.  `Except.error k` = the event breaks the discipline in the way `k`. -/
def step (st : State) : Event → Except Kind State
  | alloc m p n =>
    match lookup st.live p with
    | some e => .error (.dupAlloc e.mgr)
    | none => .ok { live := ⟨p, m, n⟩ :: st.live, ever := p :: st.ever }
  | free m p =>
    match lookup st.live p with
    | some e =>
      if e.mgr = m then .ok { st with live := st.live.filter (fun x => x.ptr != p) }
      else .error (.wrongManager e.mgr)
    | none => if st.ever.contains p then .error .doubleFree else .error .foreignFree

/-- Run from state `st`, the next event having index `i`. -/
def monitorFrom (st : State) (i : Nat) : List Event → Except Violation Unit
  | [] => if st.live.isEmpty then .ok () else .error ⟨i, .leak (st.live.map (·.ptr)).reverse⟩
  | e :: es =>
    match step st e with
    | .error k => .error ⟨i, k⟩
    | .ok st' => monitorFrom st' (i + 1) es

def monitor (tr : List Event) : Except Violation Unit := monitorFrom {} 0 tr

/-- Number of allocation events / peak number of live blocks (statistics for the evidence file). -/
def countAllocs (tr : List Event) : Nat := (tr.filter fun e => match e with | alloc .. => true | _ => false).length

end XV.Model.Ledger
