import XV.Gen.SafetyConsts
/-!
Two small index programs whose bounds depend on constants:

* `DOMDocumentImpl::allocate` (dom/impl/DOMDocumentImpl.cpp): sub-allocation from the current heap block.
* the UCS-4 BOM removal loop of `XMLReader::doInitDecode` (internal/XMLReader.cpp).
-/
namespace XV.Model.DomHeap

/-- `sizeOfHeader = alignPointerForNewBlockAllocation(sizeof(void*))` on LP64 -/
def header : Nat := 8

structure Heap where
  heapAllocSize : Nat        -- fHeapAllocSize: size of the next block
  blockSize : Nat            -- ghost: size of the current block (0 = none yet)
  freeOff : Nat              -- fFreePtr - (char*)fCurrentBlock
  freeRemaining : Nat        -- fFreeBytesRemaining (64-bit unsigned)
  deriving Repr, DecidableEq

def Heap.new (initial : Nat) : Heap := ⟨initial, 0, 0, 0⟩

/-- one carve: bytes `[off, off + amount)` of a block of `size` bytes; `none` = handed to the system allocator -/
structure Carve where
  off : Nat
  amount : Nat
  size : Nat
  deriving Repr, DecidableEq

def Carve.ok (c : Carve) : Prop := c.off + c.amount ≤ c.size
instance (c : Carve) : Decidable c.ok := by unfold Carve.ok; exact inferInstance

/-- size of a fresh block -/
def newBlockSize (clamped : Bool) (heapAllocSize amount : Nat) : Nat :=
  if clamped && decide (heapAllocSize < header + amount) then header + amount else heapAllocSize

/-- `allocate(amount)` for an already aligned amount. Two repairs are expressible:
`clamped` = a fresh block is made at least `header + amount` bytes;
`routed` = a request that fits neither in the current block nor in a fresh block of the current size goes to the
system allocator like a big block. With both off it is the original code. -/
def allocate (clamped routed : Bool) (maxSub maxHeap : Nat) (h : Heap) (amount : Nat) : Heap × Option Carve :=
  if amount > maxSub then (h, none)
  else if routed && decide (amount > h.freeRemaining) &&
          (decide (h.heapAllocSize < header) || decide (amount > h.heapAllocSize - header)) then (h, none)
  else
    let h1 : Heap :=
      if amount > h.freeRemaining then
        let size := newBlockSize clamped h.heapAllocSize amount
        { heapAllocSize := if h.heapAllocSize < maxHeap then h.heapAllocSize * 2 else h.heapAllocSize,
          blockSize := size, freeOff := header,
          freeRemaining := (size + 2^64 - header) % 2^64 }     -- unsigned subtraction
      else h
    ({ h1 with freeOff := h1.freeOff + amount, freeRemaining := (h1.freeRemaining + 2^64 - amount) % 2^64 },
     some ⟨h1.freeOff, amount, h1.blockSize⟩)

def carves (clamped routed : Bool) (maxSub maxHeap : Nat) : Heap → List Nat → List Carve
  | _, [] => []
  | h, a :: as =>
    let (h', c) := allocate clamped routed maxSub maxHeap h a
    (match c with | some c => [c] | none => []) ++ carves clamped routed maxSub maxHeap h' as

/-- `for (i = 0; i < avail - slack; i++) buf[i] = buf[i + shift]`: largest index read (none: loop body never runs) -/
def bomShiftMaxRead (slack shift avail : Nat) : Option Nat :=
  if avail - slack = 0 then none else some (avail - slack - 1 + shift)

end XV.Model.DomHeap
