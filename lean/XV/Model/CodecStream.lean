/-
Whole-input decoding by repeated `transcodeFrom` calls — the loop every consumer of an XMLTranscoder
runs (XMLReader::xcodeMoreChars: hand the transcoder the unconsumed bytes of the raw buffer and the
free room of the character buffer, append what it delivers, advance by bytesEaten, repeat).
`blk` bounds the bytes offered per call (the raw buffer), `maxChars` the room per call.
-/
import XV.Model.ByteCodec
namespace XV.Model.CodecStream
open XV.Model.ByteCodec

inductive SRes
  /-- every byte consumed; the delivered units -/
  | done (out : List Nat)
  /-- a call threw: units delivered by the calls before it, byte offset at which the throwing call started -/
  | exc (out : List Nat) (pos : Nat) (name : String)
  /-- a call consumed nothing although bytes remain (or the fuel ran out) -/
  | stalled (out : List Nat) (pos : Nat)
  deriving DecidableEq, Repr

def stream (f : List Nat → Nat → CRes) (blk maxChars : Nat) : Nat → List Nat → List Nat → Nat → SRes
  | 0, _, out, pos => .stalled out pos
  | fuel + 1, src, out, pos =>
    if src = [] then .done out
    else match f (src.take blk) maxChars with
      | .exc n => .exc out pos n
      | .ok o _ e =>
        if e = 0 then .stalled out pos
        else stream f blk maxChars fuel (src.drop e) (out ++ o) (pos + e)

/-- decode a whole input; fuel `length + 1` suffices because every non-stalling call eats ≥ 1 byte -/
def decodeStream (f : List Nat → Nat → CRes) (blk maxChars : Nat) (src : List Nat) : SRes :=
  stream f blk maxChars (src.length + 1) src [] 0

def asciiStream (blk maxChars : Nat) (src : List Nat) : SRes := decodeStream asciiFrom blk maxChars src

/-- XMLASCIITranscoder::canTranscodeTo -/
def asciiCan (c : Nat) : Bool := decide (c < 0x80)

end XV.Model.CodecStream
