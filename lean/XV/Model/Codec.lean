/-
Model of util/HexBin.cpp and util/Base64.cpp, written after the C++.  Tables, masks, shift counts,
BASELENGTH, quadsPerLine come from XV.Gen.Codec (regenerated from the sources on every run).
XMLCh units and XMLByte octets are `Nat`s.

`repaired = true` adds the guards the C++ lacks:
  * Base64::decodeToXMLByte / getCanonicalRepresentation narrow every XMLCh with `(XMLByte)` — U+0141 becomes 'A',
    U+0100 becomes the terminator.  Repaired: a unit ≥ BASELENGTH makes the function return 0.
  * Base64::isData indexes base64Inverse[255] with an octet 0..255.  Repaired: `octet < BASELENGTH &&`.
  * HexBin::decodeToXMLByte indexes hexNumberTable[255] with an XMLCh.  Repaired: uses isHex (bounds-checked).
`repaired = false` keeps the narrowing (the out-of-bounds reads have no model: they are reported by the sanitizers).
-/
import XV.Gen.Codec
namespace XV.Model.Codec
open XV.Gen.Codec

/-! ### HexBin -/

def hexNum (c : Nat) : Nat := hexNumberTable.getD c 0xFF

/-- `HexBin::isHex` -/
def isHex (octet : Nat) : Bool :=
  if octet ≥ hexBaseLength then false else hexNum octet != 0xFF

/-- `HexBin::isArrayByteHex` -/
def isArrayByteHex (s : List Nat) : Bool :=
  if s.isEmpty then true
  else if s.length % 2 != 0 then false
  else s.all isHex

/-- `HexBin::getDataLength`; `none` = -1 -/
def hexDataLength (s : List Nat) : Option Nat :=
  if !isArrayByteHex s then none else some (s.length / 2)

/-- `XMLString::upperCaseASCII` on one unit -/
def upperCaseASCII (c : Nat) : Nat := if c ≥ 0x61 ∧ c ≤ 0x7A then c - 0x61 + 0x41 else c

/-- `HexBin::getCanonicalRepresentation`; `none` = returns 0 -/
def hexCanonical (s : List Nat) : Option (List Nat) :=
  match hexDataLength s with
  | none => none
  | some _ => some (s.map upperCaseASCII)

/-- the `for` loop of `HexBin::decodeToXMLByte` (repaired: bounds-checked look-ups) -/
def hexDecodeLoop : List Nat → Option (List Nat)
  | c1 :: c2 :: r =>
    if !isHex c1 then none
    else if !isHex c2 then none
    else match hexDecodeLoop r with
      | some v => some ((((hexNum c1) <<< 4) ||| hexNum c2) % 256 :: v)
      | none => none
  | _ => some []

/-- `HexBin::decodeToXMLByte`; `none` = returns 0 (also for the empty string) -/
def hexDecode (s : List Nat) : Option (List Nat) :=
  if s.isEmpty then none
  else if s.length % 2 != 0 then none
  else hexDecodeLoop s

/-! ### Base64 -/

def alpha (v : Nat) : Nat := base64Alphabet.getD v 0
def inv (c : Nat) : Nat := base64Inverse.getD c 0xFF

/-- `Base64::isData` (repaired: with the bound check) -/
def isData (octet : Nat) : Bool := octet < b64BaseLength && inv octet != 0xFF
def isPad (octet : Nat) : Bool := octet == base64Padding

def set1stOctet (b1 b2 : Nat) : Nat := ((b1 <<< set1st.getD 0 0) ||| (b2 >>> set1st.getD 1 0)) % 256
def set2ndOctet (b2 b3 : Nat) : Nat := ((b2 <<< set2nd.getD 0 0) ||| (b3 >>> set2nd.getD 1 0)) % 256
def set3rdOctet (b3 b4 : Nat) : Nat := ((b3 <<< set3rd.getD 0 0) ||| b4) % 256

/-- `split1stOctet(ch, b1, b2)`: (b1, b2) -/
def split1stOctet (ch : Nat) : Nat × Nat :=
  (ch >>> split1st.getD 0 0, ((ch &&& split1st.getD 1 0) <<< split1st.getD 2 0) % 256)
/-- `split2ndOctet(ch, b2, b3)`: (b2 | .., b3) -/
def split2ndOctet (ch b2 : Nat) : Nat × Nat :=
  (b2 ||| (ch >>> split2nd.getD 0 0), ((ch &&& split2nd.getD 1 0) <<< split2nd.getD 2 0) % 256)
/-- `split3rdOctet(ch, b3, b4)`: (b3 | .., b4) -/
def split3rdOctet (ch b3 : Nat) : Nat × Nat :=
  (b3 ||| (ch >>> split3rd.getD 0 0), ch &&& split3rd.getD 1 0)

/-- `Base64::encode`, the quartet loop and the last quartet; `quad` is the 1-based loop counter. -/
def encodeLoop : List Nat → Nat → List Nat
  | [], _ => []
  | [a], _ =>
    let (b1, b2) := split1stOctet a
    [alpha b1, alpha b2, base64Padding, base64Padding, chLF]
  | [a, b], _ =>
    let (b1, b2) := split1stOctet a
    let (b2, b3) := split2ndOctet b b2
    [alpha b1, alpha b2, alpha b3, base64Padding, chLF]
  | [a, b, c], _ =>
    let (b1, b2) := split1stOctet a
    let (b2, b3) := split2ndOctet b b2
    let (b3, b4) := split3rdOctet c b3
    [alpha b1, alpha b2, alpha b3, alpha b4, chLF]
  | a :: b :: c :: rest, quad =>
    let (b1, b2) := split1stOctet a
    let (b2, b3) := split2ndOctet b b2
    let (b3, b4) := split3rdOctet c b3
    [alpha b1, alpha b2, alpha b3, alpha b4] ++ (if quad % quadsPerLine == 0 then [chLF] else [])
      ++ encodeLoop rest (quad + 1)

/-- `Base64::encode(inputData, inputLength, &outputLength)`; `none` = returns 0 -/
def encode (input : List Nat) : Option (List Nat) :=
  if (input.length + 2) / 3 == 0 then none else some (encodeLoop input 1)

inductive Conformance | schema | rfc2045
  deriving DecidableEq, Repr

def isWhitespace (c : Nat) : Bool := c == 0x20 || c == 0x9 || c == 0xA || c == 0xD

/-- Conf_Schema white-space loop: `none` = `return 0` (two #x20 in a row) ; result (raw, inWhiteSpace) -/
def stripSchema : List Nat → Bool → List Nat → Option (List Nat × Bool)
  | [], inWs, raw => some (raw.reverse, inWs)
  | c :: r, inWs, raw =>
    if c != chSpace then stripSchema r false (c :: raw)
    else if inWs then none
    else stripSchema r true raw

/-- all quartets: the `for` loop over all but the last, then the last one -/
def decodeQuads : List Nat → Option (List Nat)
  | [d1, d2, d3, d4] =>
    if !isData d1 || !isData d2 then none
    else
      let b1 := inv d1
      let b2 := inv d2
      if !isData d3 || !isData d4 then
        if isPad d3 && isPad d4 then
          if (b2 &&& pad2Mask) != 0 then none
          else some [set1stOctet b1 b2]
        else if !isPad d3 && isPad d4 then
          let b3 := inv d3
          if (b3 &&& pad1Mask) != 0 then none
          else some [set1stOctet b1 b2, set2ndOctet b2 b3]
        else none
      else
        let b3 := inv d3
        let b4 := inv d4
        some [set1stOctet b1 b2, set2ndOctet b2 b3, set3rdOctet b3 b4]
  | d1 :: d2 :: d3 :: d4 :: rest =>
    if !isData d1 || !isData d2 || !isData d3 || !isData d4 then none
    else
      let b1 := inv d1
      let b2 := inv d2
      let b3 := inv d3
      let b4 := inv d4
      match decodeQuads rest with
      | some v => some (set1stOctet b1 b2 :: set2ndOctet b2 b3 :: set3rdOctet b3 b4 :: v)
      | none => none
  | _ => none

/-- `Base64::decode(inputData, decodedLength, canRepData, memMgr, conform)` on an octet string:
`some (decoded, canRep)`; `none` = returns 0 -/
def decode (conf : Conformance) (input : List Nat) : Option (List Nat × List Nat) :=
  if input.isEmpty then none
  else
    let raw? : Option (List Nat) :=
      match conf with
      | .rfc2045 => some (input.filter (fun c => !isWhitespace c))
      | .schema =>
        if input.head? == some chSpace then none
        else match stripSchema input false [] with
          | none => none
          | some (raw, inWs) => if inWs then none else some raw
    match raw? with
    | none => none
    | some raw =>
      if raw.length % fourByte != 0 then none
      else if raw.length / fourByte == 0 then none
      else match decodeQuads raw with
        | some v => some (v, raw)
        | none => none

/-- `strlen((char*)dataInByte)` after the narrowing copy -/
def cstr (l : List Nat) : List Nat := l.takeWhile (· != 0)

/-- `Base64::decodeToXMLByte` / `getCanonicalRepresentation` on an XMLCh string -/
def decodeX (repaired : Bool) (conf : Conformance) (s : List Nat) : Option (List Nat × List Nat) :=
  if s.isEmpty then none
  else if repaired then
    if s.any (· ≥ b64BaseLength) then none else decode conf s
  else decode conf (cstr (s.map (· % 256)))

end XV.Model.Codec
