/-
C17 — code-shaped model of XMLSynchronizedStringPool (util/SynchronizedStringPool.cpp) over XMLStringPool
(util/StringPool.hpp/.cpp).  Core Lean only.

  XMLStringPool: ids 1,2,3,… in insertion order, fCurId = number of strings + 1, id 0 is never legal.
  XMLSynchronizedStringPool(constPool): every operation first consults the *const* pool WITHOUT the mutex
  (the const pool is the grammar pool's own string pool, immutable while the grammar pool is locked) and only
  if that does not settle the answer takes `fMutex` and works on its own (overflow) pool; ids of the overflow
  pool are shifted by the const pool's string count.

`phase1` is the unlocked part, `phase2` the part executed under `XMLMutexLock lockInit(&fMutex)`.
`atomic` is the single-threaded semantics of an operation.  `Sys` is the fine-grained concurrent system in
which the two phases of different threads interleave arbitrarily.

One deviation from the code as it is: `getId` of a string that is in neither pool.  The C++ returns
`XMLStringPool::getId(toFind)+constCount`, i.e. `constCount` (the id of the LAST CONST STRING) instead of 0.
`phase2` models the repaired behaviour (0); `phase2AsIs` is the code as written (see Props.C17
`getId_asIs_not_stable`).
-/
namespace XV.Model.SyncPool

/-- 1-based position of the first occurrence, 0 if absent -/
def idOf : List String → String → Nat
  | [], _ => 0
  | x :: xs, s => if x = s then 1 else match idOf xs s with
    | 0 => 0
    | k + 1 => k + 2

structure Pool where
  strs : List String
  deriving Repr, DecidableEq

namespace Pool
def count (p : Pool) : Nat := p.strs.length                      -- getStringCount() = fCurId - 1
def getId (p : Pool) (s : String) : Nat := idOf p.strs s
def existsStr (p : Pool) (s : String) : Bool := idOf p.strs s != 0
/-- `none` = IllegalArgumentException(StrPool_IllegalId) -/
def valueForId (p : Pool) (id : Nat) : Option String := if id = 0 then none else p.strs[id - 1]?
def addOrFind (p : Pool) (s : String) : Pool × Nat :=
  if idOf p.strs s = 0 then (⟨p.strs ++ [s]⟩, p.count + 1) else (p, idOf p.strs s)
end Pool

structure SSP where
  const : Pool
  over : Pool
  deriving Repr, DecidableEq

inductive Op where
  | addOrFind (s : String) | getId (s : String) | valueForId (id : Nat)
  | existsStr (s : String) | existsId (id : Nat) | count
  deriving Repr, DecidableEq

inductive Res where
  | id (n : Nat) | str (s : String) | illegalId | bool (b : Bool)
  deriving Repr, DecidableEq

def resOfValue : Option String → Res
  | some s => .str s
  | none => .illegalId

/-- the part of an operation that runs WITHOUT the mutex; reads the const pool only.
`some r`: finished; `none`: must continue under the mutex. -/
def phase1 (c : Pool) : Op → Option Res
  | .addOrFind s => if c.getId s ≠ 0 then some (.id (c.getId s)) else none
  | .getId s => if c.getId s ≠ 0 then some (.id (c.getId s)) else none
  | .valueForId id => if id ≤ c.count then some (resOfValue (c.valueForId id)) else none
  | .existsStr s => if c.existsStr s then some (.bool true) else none
  | .existsId id => if id = 0 then some (.bool false) else if id ≤ c.count then some (.bool true) else none
  | .count => none

/-- the part that runs under `fMutex`; `cc` = const pool's string count -/
def phase2 (cc : Nat) (o : Pool) : Op → Pool × Res
  | .addOrFind s => ((o.addOrFind s).1, .id ((o.addOrFind s).2 + cc))
  | .getId s => (o, .id (if o.getId s = 0 then 0 else o.getId s + cc))
  | .valueForId id => (o, resOfValue (o.valueForId (id - cc)))
  | .existsStr s => (o, .bool (o.existsStr s))
  | .existsId id => (o, .bool (decide (id < o.count + 1 + cc)))
  | .count => (o, .id (o.count + 1 + cc - 1))

/-- `getId` exactly as written in the C++ (`XMLStringPool::getId(toFind)+constCount`) -/
def phase2AsIs (cc : Nat) (o : Pool) : Op → Pool × Res
  | .getId s => (o, .id (o.getId s + cc))
  | op => phase2 cc o op

/-- single-threaded semantics of one operation -/
def atomic (p : SSP) (op : Op) : SSP × Res :=
  match phase1 p.const op with
  | some r => (p, r)
  | none => ({ p with over := (phase2 p.const.count p.over op).1 }, (phase2 p.const.count p.over op).2)

def atomicAsIs (p : SSP) (op : Op) : SSP × Res :=
  match phase1 p.const op with
  | some r => (p, r)
  | none => ({ p with over := (phase2AsIs p.const.count p.over op).1 }, (phase2AsIs p.const.count p.over op).2)

/-- sequential execution of a list of operations: final pool and the list of results -/
def runAtomic (p : SSP) : List Op → SSP × List Res
  | [] => (p, [])
  | op :: ops => let r := atomic p op; let rest := runAtomic r.1 ops; (rest.1, r.2 :: rest.2)

/-- what an id denotes (`none`: not a legal id) -/
def valueOf (p : SSP) (id : Nat) : Option String :=
  if id = 0 then none else if id ≤ p.const.count then p.const.strs[id - 1]? else p.over.strs[id - p.const.count - 1]?

/-! ### fine-grained concurrent system -/

abbrev Thread := Nat

structure Sys where
  pool : SSP
  /-- operations each thread still has to start -/
  prog : Thread → List Op
  /-- operation of a thread that has finished its unlocked phase and waits for / holds the mutex -/
  pending : Thread → Option Op
  /-- completed operations in completion order -/
  log : List (Thread × Op × Res)

def updF {α : Type} (f : Thread → α) (t : Thread) (a : α) : Thread → α := fun t' => if t' = t then a else f t'

/-- one step of thread `t`: either the unlocked phase of its next operation, or the whole locked phase of
its pending operation (atomic thanks to the mutex: XV.Props.C17.lockset_implies_drf) -/
def Sys.step (t : Thread) (s : Sys) : Sys :=
  match s.pending t with
  | some op =>
    { s with pool := { s.pool with over := (phase2 s.pool.const.count s.pool.over op).1 },
             pending := updF s.pending t none,
             log := s.log ++ [(t, op, (phase2 s.pool.const.count s.pool.over op).2)] }
  | none =>
    match s.prog t with
    | [] => s
    | op :: rest =>
      match phase1 s.pool.const op with
      | some r => { s with prog := updF s.prog t rest, log := s.log ++ [(t, op, r)] }
      | none => { s with prog := updF s.prog t rest, pending := updF s.pending t (some op) }

def Sys.run (sched : List Thread) (s : Sys) : Sys := sched.foldl (fun s t => s.step t) s

def Sys.init (p : SSP) (prog : Thread → List Op) : Sys :=
  { pool := p, prog := prog, pending := fun _ => none, log := [] }

end XV.Model.SyncPool
