/-
C17 — lazy initialisation as a transition system for any number of threads (core Lean only).

The protocol is the one used in the library wherever something shared is created on first use:

  RangeTokenMap::getRange (util/regx/RangeTokenMap.cpp)
      rangeTok = elemMap->getRangeToken(complement);            -- `check`   (first check, no lock)
      if (!rangeTok) {
          XMLMutexLock lockInit(&fMutex);                        -- `lock`
          rangeTok = elemMap->getRangeToken(complement);         -- `recheck`
          if (!rangeTok) {
              ... build the token ...                            -- `build`    (initBegin)
              elemMap->setRangeToken(rangeTok, complement);      -- `publish`  (initEnd)
          }
      }                                                          -- `unlock`
      return rangeTok;                                           -- `use`

  DOMImplementationRegistry::getDOMImplementation (dom/impl/DOMImplementationRegistry.cpp) enters at `lock`
  (there is no unlocked first check): lock; `if (len == 0) addElement(default source)`; use; unlock.

Static data that is created inside XMLPlatformUtils::Initialize (XMLInitializer::initializeStaticData:
RangeTokenMap instance and category ranges, DOMDocumentTypeImpl::sDocument, the registry vector, the scanner
mutex, the local-code-page transcoder) is not lazy: it is complete before any worker thread exists.

`flag`/`data` are modelled as two separate shared cells written in two separate steps, reads and writes are
atomic and sequentially consistent (see ASSUMPTIONS in tools/props/c17.py: the memory model is not modelled).
Mutated variants (`Variant`) are defined beside the real one so that the theorems can be shown to be non-vacuous
and the mutations to break them.
-/
namespace XV.Model.LazyInit

abbrev Thread := Nat

inductive PC where
  | check | lock | recheck | build | publish | unlock | use
  | done (v : Nat)
  deriving DecidableEq, Repr

structure State where
  lock : Option Thread
  flag : Bool
  data : Nat
  /-- ghost: number of completed initialisations (initEnd events) -/
  inits : Nat
  pc : Thread → PC

def upd (f : Thread → PC) (t : Thread) (p : PC) : Thread → PC := fun t' => if t' = t then p else f t'

structure Variant where
  /-- re-check the flag after taking the lock -/
  recheck : Bool
  /-- the mutex really excludes (false = the lock was deleted) -/
  excl : Bool
  /-- false = correct order (data, then flag); true = flag stored before the data is written -/
  flagFirst : Bool

def good : Variant := ⟨true, true, false⟩

/-- one step of thread `t`; a thread that cannot move (blocked on the mutex, or finished) leaves the state
unchanged -/
def stepV (V : Variant) (val : Nat) (t : Thread) (s : State) : State :=
  match s.pc t with
  | .check => if s.flag then { s with pc := upd s.pc t .use } else { s with pc := upd s.pc t .lock }
  | .lock =>
    if s.lock = none ∨ V.excl = false then { s with lock := some t, pc := upd s.pc t .recheck } else s
  | .recheck =>
    if s.flag && V.recheck then { s with pc := upd s.pc t .unlock } else { s with pc := upd s.pc t .build }
  | .build =>
    if V.flagFirst then { s with flag := true, inits := s.inits + 1, pc := upd s.pc t .publish }
    else { s with data := val, pc := upd s.pc t .publish }
  | .publish =>
    if V.flagFirst then { s with data := val, pc := upd s.pc t .unlock }
    else { s with flag := true, inits := s.inits + 1, pc := upd s.pc t .unlock }
  | .unlock => { s with lock := none, pc := upd s.pc t .use }
  | .use => { s with pc := upd s.pc t (.done s.data) }
  | .done _ => s

def step (val : Nat) (t : Thread) (s : State) : State := stepV good val t s

/-- every thread starts either at the unlocked first check (`entry t = true`) or directly at the lock -/
def init (entry : Thread → Bool) : State :=
  { lock := none, flag := false, data := 0, inits := 0, pc := fun t => if entry t then .check else .lock }

def runV (V : Variant) (val : Nat) (sched : List Thread) (s : State) : State :=
  sched.foldl (fun s t => stepV V val t s) s

def run (val : Nat) (sched : List Thread) (s : State) : State := runV good val sched s

end XV.Model.LazyInit
