/-
C15 — a parser object as a state machine.

  Parser := { cfg, perParse, res (GrammarResolver + pool), docs, scannerId, seq, … }

Operations: setFeature/setProperty, parse, parse with a handler exception at callback k, parseFirst / parseNext /
parseReset (progressive scan with tokens), loadGrammar, resetDocumentPool, resetCachedGrammarPool, adoptDocument,
pool lock / unlock, useScanner.

What a scan *does* to the outside world is an abstract parameter (`World`): the theorems are about how the parser
object threads configuration, per-parse state, the grammar pool, tokens and documents through a history, not about
XML.  Code-shaped parts: the sequence-id logic of `XMLScanner::scanFirst / scanNext / scanReset(token) /
isLegalToken / scanDocument` (src/xercesc/internal/XMLScanner.cpp, IGXMLScanner.cpp), the grammar traffic of
`scanReset` / `loadGrammar` through `GrammarResolver`, and `AbstractDOMParser::reset / resetPool / adoptDocument /
~AbstractDOMParser` (src/xercesc/parsers/AbstractDOMParser.cpp).                                   No Mathlib.
-/
import XV.Model.GrammarPool
namespace XV.Model.ParserState
open XV.Model.GrammarPool

abbrev Key := Nat
abbrev Val := Nat
abbrev Config := Key → Val
abbrev Doc := Nat

/-- plain last-writer-wins update -/
def upd (c : Config) (k : Key) (v : Val) : Config := fun k' => if k' = k then v else c k'

/-- how far a scan is driven -/
inductive Mode where
  | full                    -- parse(): to the end (or first fatal error)
  | throwAt (k : Nat)       -- a handler throws at callback number k
  | first                   -- parseFirst(): prolog only
deriving DecidableEq, Repr

/-- what the resolver lets a scan see of the cached grammars -/
structure PoolView where
  grammars : List Gram
  locked : Bool
deriving DecidableEq, Repr

abbrev PoolDelta := List Gram      -- grammars the scan hands to GrammarResolver::putGrammar, in order

/-- The part of the world the theorems are parametric in. -/
structure World where
  PerParse : Type
  Outcome : Type
  cfg0 : Config                                   -- configuration of a freshly constructed parser
  setter : Key → Val → Config → Config            -- setFeature / setProperty
  resetCfg : Config → Config                      -- what scanReset does to *configuration* members
  init : PerParse                                 -- per-parse members after construction
  reset : Config → PerParse → PerParse            -- what scanReset does to per-parse members
  scan : Config → PerParse → PoolView → Doc → Mode → Outcome × PerParse × PoolDelta × Bool  -- Bool: scanFirst succeeded
  next : Config → PerParse → PoolView → Outcome × PerParse × PoolDelta       -- one scanNext step
  abandon : PerParse → PerParse                   -- scanReset(token): reader manager reset, error count 0
  load : Config → PerParse → PoolView → Gram → Bool → PerParse × Bool        -- loadGrammar: new per-parse state, success

/-- `XMLPScanToken` -/
structure Token where
  scannerId : Nat
  seq : Nat
deriving DecidableEq, Repr

def seqMod : Nat := 4294967296      -- XMLUInt32

/-- `AbstractDOMParser` document bookkeeping (ghost fields record what was released and what was handed out) -/
structure DocPool where
  current : Option Nat := none       -- fDocument
  adoptedByUser : Bool := false      -- fDocumentAdoptedByUser
  vector : List Nat := []            -- fDocumentVector (owned)
  released : List Nat := []          -- ghost: documents released so far
  adopted : List Nat := []           -- ghost: documents returned by adoptDocument()
  nextId : Nat := 0                  -- ghost: next fresh document
deriving DecidableEq, Repr

/-- AbstractDOMParser::reset() followed by the creation of the new document in startDocument() -/
def DocPool.startParse (p : DocPool) : DocPool :=
  let v := match p.current with
    | some d => if !p.adoptedByUser then p.vector ++ [d] else p.vector
    | none => p.vector
  { p with vector := v, current := some p.nextId, adoptedByUser := false, nextId := p.nextId + 1 }

/-- AbstractDOMParser::parseReset: scanReset(token) followed by reset() - the document under construction goes to the
owned vector (unless it was adopted) and there is no current document any more -/
def DocPool.abandon (p : DocPool) : DocPool :=
  let v := match p.current with
    | some d => if !p.adoptedByUser then p.vector ++ [d] else p.vector
    | none => p.vector
  { p with vector := v, current := none, adoptedByUser := false }

/-- DOMDocument* adoptDocument() -/
def DocPool.adopt (p : DocPool) : DocPool :=
  { p with adoptedByUser := true,
           adopted := match p.current with | some d => d :: p.adopted | none => p.adopted }

/-- void resetPool()   (resetDocumentPool) -/
def DocPool.resetPool (p : DocPool) : DocPool :=
  let rel := p.released ++ p.vector
  let rel := match p.current with
    | some d => if !p.adoptedByUser then rel ++ [d] else rel
    | none => rel
  { p with vector := [], released := rel, current := none }

/-- ~AbstractDOMParser(): delete fDocumentVector; if (!fDocumentAdoptedByUser) delete fDocument -/
def DocPool.destroy (p : DocPool) : DocPool := p.resetPool

inductive Op where
  | set (k : Key) (v : Val)
  | parse (d : Doc)
  | parseThrow (d : Doc) (k : Nat)
  | parseFirst (d : Doc)
  | parseNext (t : Nat)          -- with the t-th token handed out so far
  | parseReset (t : Nat)
  | loadGrammar (g : Gram) (toCache : Bool)
  | resetDocPool
  | resetGrammarPool
  | adopt
  | lock
  | unlock
  | useScanner                   -- a new scanner object replaces the old one (setProperty scanner-name)
deriving DecidableEq, Repr

/-- what an operation lets the caller observe -/
inductive Obs (O : Type) where
  | none
  | outcome (o : O)
  | first (o : O) (ok : Bool)
  | rejected                      -- RuntimeException Scan_BadPScanToken
  | loaded (ok : Bool)
  | doc (d : Option Nat)

structure Parser (w : World) where
  cfg : Config
  perParse : w.PerParse
  res : Resolver := {}
  docs : DocPool := {}
  scannerId : Nat := 1            -- fScannerId
  seq : Nat := 0                  -- fSequenceId (XMLUInt32)
  bumps : Nat := 0                -- ghost: how many times fSequenceId was incremented since construction of this scanner
  nextScannerId : Nat := 2        -- gScannerId + 1
  tokens : List Token := []       -- tokens handed out, oldest first
  log : List (Obs w.Outcome) := []

def fresh (w : World) : Parser w := { cfg := w.cfg0, perParse := w.init }

/-- the keys whose meaning the machine itself needs -/
def kCache : Key := 11        -- cacheGrammarFromParse (fToCacheGrammar); index in the harness feature list
def kUse : Key := 12          -- useCachedGrammarInParse (fUseCachedGrammar)

def viewOf (r : Resolver) : PoolView := { grammars := r.pool.registry, locked := r.pool.locked }

/-- bool isLegalToken(const XMLPScanToken&) -/
def isLegalToken {w : World} (p : Parser w) (t : Token) : Bool :=
  p.scannerId == t.scannerId && p.seq == t.seq

/-- fSequenceId++ -/
def bump {w : World} (p : Parser w) : Parser w := { p with seq := (p.seq + 1) % seqMod, bumps := p.bumps + 1 }

/-- grammar traffic of scanReset: re-derive the resolver flags from the configuration (this empties the bucket) -/
def resolverForScan (r : Resolver) (c : Config) : Resolver :=
  useCachedGrammarInParse (cacheGrammarFromParse r (c kCache != 0)) (c kUse != 0)

def applyDelta (r : Resolver) (δ : PoolDelta) : Resolver := δ.foldl putGrammar r

/-- one scan entry (scanDocument / scanFirst): `useInit` selects the reference semantics in which the per-parse
state handed to scanReset is that of a freshly constructed scanner -/
def startScan {w : World} (useInit : Bool) (p : Parser w) (d : Doc) (m : Mode) : Parser w × w.Outcome × Bool :=
  let p := bump p
  let cfg := w.resetCfg p.cfg
  let pp0 := if useInit then w.init else p.perParse
  let pp1 := w.reset cfg pp0
  let r1 := resolverForScan p.res cfg
  let (o, pp2, δ, ok) := w.scan cfg pp1 (viewOf r1) d m
  ({ p with cfg := cfg, perParse := pp2, res := applyDelta r1 δ, docs := p.docs.startParse }, o, ok)

def step {w : World} (useInit : Bool) (p : Parser w) : Op → Parser w
  | .set k v => { p with cfg := w.setter k v p.cfg, log := p.log ++ [.none] }
  | .parse d =>
      let (p1, o, _) := startScan useInit p d .full
      { p1 with log := p1.log ++ [.outcome o] }
  | .parseThrow d k =>
      let (p1, o, _) := startScan useInit p d (.throwAt k)
      { p1 with log := p1.log ++ [.outcome o] }
  | .parseFirst d =>
      let (p1, o, ok) := startScan useInit p d .first
      -- toFill.set(fScannerId, fSequenceId) only on success
      let tok : Token := if ok then { scannerId := p1.scannerId, seq := p1.seq } else { scannerId := 0, seq := 0 }
      { p1 with tokens := p1.tokens ++ [tok], log := p1.log ++ [.first o ok] }
  | .parseNext t =>
      match p.tokens[t]? with
      | none => { p with log := p.log ++ [.rejected] }
      | some tok =>
        if !isLegalToken p tok then { p with log := p.log ++ [.rejected] }
        else
          let (o, pp, δ) := w.next p.cfg p.perParse (viewOf p.res)
          { p with perParse := pp, res := applyDelta p.res δ, log := p.log ++ [.outcome o] }
  | .parseReset t =>
      match p.tokens[t]? with
      | none => { p with log := p.log ++ [.rejected] }
      | some tok =>
        if !isLegalToken p tok then { p with log := p.log ++ [.rejected] }
        else
          let p1 := bump p
          { p1 with perParse := w.abandon p1.perParse, docs := p1.docs.abandon, log := p1.log ++ [.none] }
  | .loadGrammar g toCache =>
      -- cacheGrammarFromParse(false); useCachedGrammarInParse(toCache); [put the grammar under its key]; scan it;
      -- if (toCache) cacheGrammars()
      let r1 := useCachedGrammarInParse (cacheGrammarFromParse p.res false) toCache
      let (pp, ok) := w.load p.cfg p.perParse (viewOf r1) g toCache
      let r2 := if toCache then putGrammar r1 g else r1
      let r3 := if toCache && ok then cacheGrammars r2 else r2
      -- the scanner sends resetDocument() to its document handler: a DOM parser drops its current document
      { p with perParse := pp, res := r3, docs := p.docs.abandon, log := p.log ++ [.loaded ok] }
  | .resetDocPool => { p with docs := p.docs.resetPool, log := p.log ++ [.none] }
  | .resetGrammarPool => { p with res := resetCachedGrammar p.res, log := p.log ++ [.none] }
  | .adopt => { p with docs := p.docs.adopt, log := p.log ++ [.doc p.docs.current] }
  | .lock => { p with res := { p.res with pool := lockPool p.res.pool }, log := p.log ++ [.none] }
  | .unlock => { p with res := { p.res with pool := unlockPool p.res.pool }, log := p.log ++ [.none] }
  | .useScanner =>
      { p with perParse := w.init, scannerId := p.nextScannerId, nextScannerId := p.nextScannerId + 1,
               seq := 0, bumps := 0, log := p.log ++ [.none] }

def exec {w : World} (useInit : Bool) (h : List Op) (p : Parser w) : Parser w := h.foldl (step useInit) p

/-- the real machine: per-parse members persist -/
def run (w : World) (h : List Op) : Parser w := exec false h (fresh w)
/-- the reference machine: every scan starts from the per-parse state of a new scanner -/
def runRef (w : World) (h : List Op) : Parser w := exec true h (fresh w)

/-- last-writer-wins configuration of a history: only setters count -/
def cfgOf (w : World) (h : List Op) : Config :=
  h.foldl (fun c op => match op with | .set k v => w.setter k v c | _ => c) w.cfg0

/-- the grammar pool a history leaves behind, computed by the reference machine -/
def poolOf (w : World) (h : List Op) : Resolver := (runRef w h).res

/-- the outcome of parsing `d` with a *freshly constructed* parser configured `c` that sees resolver state `r` -/
def freshOutcome (w : World) (c : Config) (r : Resolver) (d : Doc) (m : Mode) : w.Outcome :=
  let cfg := w.resetCfg c
  (w.scan cfg (w.reset cfg w.init) (viewOf (resolverForScan r cfg)) d m).1

/-- what the last operation of a history let the caller observe -/
def lastObs {w : World} (p : Parser w) : Obs w.Outcome := p.log.getLast?.getD .none

/-- scanReset is complete: the per-parse state it produces does not depend on the previous per-parse state, and what
it does to configuration members cannot be told apart from doing it on a fresh object (idempotent, and absorbed by
later setters - true of assignments of constants, false of `fSkipDTDValidation = fSkipDTDValidation && fDoSchema`). -/
structure ResetComplete (w : World) : Prop where
  perParse : ∀ c pp, w.reset c pp = w.reset c w.init
  idem : ∀ c, w.resetCfg (w.resetCfg c) = w.resetCfg c
  absorbed : ∀ k v c, w.resetCfg (w.setter k v (w.resetCfg c)) = w.resetCfg (w.setter k v c)

/-! ### the field-level instance: a scanner class as generated by the translator -/

/-- Field-level description of a scanner class: which members are configuration, which are per-parse, which of each
kind scanReset assigns, with which value (`resetVal` may read configuration only). -/
structure FieldClass where
  perParse : List Nat
  config : List Nat
  resetSet : List Nat             -- members scanReset re-initialises
  constCfg : List (Nat × Nat)     -- configuration members scanReset overwrites with a constant

abbrev FState := Nat → Nat

def FieldClass.reset (fc : FieldClass) (resetVal : Config → Nat → Nat) (c : Config) (pp : FState) : FState :=
  fun f => if f ∈ fc.perParse then (if f ∈ fc.resetSet then resetVal c f else pp f) else 0

def FieldClass.resetCfg (fc : FieldClass) (c : Config) : Config :=
  fun k => match fc.constCfg.find? (fun e => e.1 == k) with
    | some e => e.2
    | none => c k

end XV.Model.ParserState
