/-
C03 — code-shaped models of the normalisation code of the scanners.

* `readChars` — `XMLReader::getNextChar` + `XMLReader::handleEOL` (src/xercesc/internal/XMLReader.hpp/.cpp) on an
  external entity, iterated to the end of input.  The character buffer (`fCharBuf`, `kCharBufSize` characters) is
  refilled by `refreshCharBuffer`; the look-ahead after a CR may need a refill, which is the interesting case.
* `normalizeAttValue` / `normalizeAttRawValue` — `IGXMLScanner::normalizeAttValue` / `::normalizeAttRawValue`
  (src/xercesc/internal/IGXMLScanner2.cpp).  The raw value produced by `basicAttrValueScan` marks every character
  that came from a character reference (or predefined entity) by a preceding 0xFFFF.
  `fixed := false` is the code as it stands; `fixed := true` is the code after the minimal repair reported with C03
  (fixes/c03-tokenized-attr-referenced-whitespace.diff: a character that was written as a reference takes part in the
  trimming/collapsing of the tokenised types only if it is #x20 — the test `DGXMLScanner::scanAttValue` already makes).
* `charRefUnits` — the result handling at the end of `XMLScanner::scanCharRef`.

Constants come from XV.Gen.NormConsts (regenerated from the sources).  Definitions only; no Mathlib.
-/
import XV.Gen.NormConsts
namespace XV.Model.Normalize
open XV.Gen.NormConsts

abbrev Str := List Char

def cCR : Char := Char.ofNat chCR
def cLF : Char := Char.ofNat chLF
def cNEL : Char := Char.ofNat chNEL
def cLS : Char := Char.ofNat chLineSeparator
def cSpace : Char := Char.ofNat chSpace
def cTab : Char := Char.ofNat chHTab
/-- the escape marker -/
def cEsc : Char := Char.ofNat escapeMarker

/-! ### XMLReader::getNextChar / handleEOL -/

/-- `buf`  = the unread part of `fCharBuf` (`fCharBuf[fCharIndex .. fCharsAvail)`),
    `more` = what the following calls of `refreshCharBuffer()` will put into the buffer (an empty refill = no more data),
    `nel`  = `fNEL` (XML 1.1).  Result: the characters handed out by successive `getNextChar` calls. -/
def readChars (nel : Bool) : Nat → Str → List Str → Str
  | 0, _, _ => []
  | fuel + 1, [], more =>
    -- if (fCharIndex >= fCharsAvail) { if (fNoMore) return false; if (!refreshCharBuffer()) return false; }
    match more with
    | [] => []
    | b :: more' => if b = [] then [] else readChars nel fuel b more'
  | fuel + 1, c :: buf, more =>
    -- chGotten = fCharBuf[fCharIndex++];  handleEOL(chGotten)
    if c == cCR then
      -- case chCR: fCurLine++; if ((fCharIndex < fCharsAvail) || refreshCharBuffer())
      --                          if (fCharBuf[fCharIndex] == chLF || (fCharBuf[fCharIndex] == chNEL && fNEL)) fCharIndex++;
      --            curCh = chLF;
      match buf with
      | d :: buf' =>
        if d == cLF || (d == cNEL && nel) then cLF :: readChars nel fuel buf' more
        else cLF :: readChars nel fuel (d :: buf') more
      | [] =>
        match more with
        | [] => [cLF]
        | b :: more' =>
          match b with
          | [] => [cLF]
          | d :: b' =>
            if d == cLF || (d == cNEL && nel) then cLF :: readChars nel fuel b' more'
            else cLF :: readChars nel fuel (d :: b') more'
    else if (c == cNEL || c == cLS) && nel then
      -- case chNEL, chLineSeparator: if (fNEL && fSource == Source_External) { fCurLine++; curCh = chLF; }
      cLF :: readChars nel fuel buf more
    else
      c :: readChars nel fuel buf more

/-- enough fuel for `readChars`: one step per character and one per refill -/
def readFuel (buf : Str) (more : List Str) : Nat :=
  buf.length + (more.map (fun b => b.length + 1)).sum + 1

/-- `fCurLine` after the same reads (starts at 1): incremented in `case chCR`, `case chLF` and the NEL/LS case -/
def countLines (nel : Bool) : Nat → Str → List Str → Nat → Nat
  | 0, _, _, line => line
  | fuel + 1, [], more, line =>
    match more with
    | [] => line
    | b :: more' => if b = [] then line else countLines nel fuel b more' line
  | fuel + 1, c :: buf, more, line =>
    if c == cCR then
      match buf with
      | d :: buf' =>
        if d == cLF || (d == cNEL && nel) then countLines nel fuel buf' more (line + 1)
        else countLines nel fuel (d :: buf') more (line + 1)
      | [] =>
        match more with
        | [] => line + 1
        | b :: more' =>
          match b with
          | [] => line + 1
          | d :: b' =>
            if d == cLF || (d == cNEL && nel) then countLines nel fuel b' more' (line + 1)
            else countLines nel fuel (d :: b') more' (line + 1)
    else if c == cLF then countLines nel fuel buf more (line + 1)
    else if (c == cNEL || c == cLS) && nel then countLines nel fuel buf more (line + 1)
    else countLines nel fuel buf more line

/-! ### IGXMLScanner::normalizeAttValue / normalizeAttRawValue -/

/-- `XMLReader::isWhitespace` of the current reader: S, and under XML 1.1 also NEL and LS -/
def readerIsWhitespace (nel : Bool) (c : Char) : Bool :=
  c == cSpace || c == cTab || c == cLF || c == cCR || (nel && (c == cNEL || c == cLS))

/-- the four S characters -/
def isS4 (c : Char) : Bool := c == cSpace || c == cTab || c == cLF || c == cCR

/-- `type == XMLAttDef::CData || type > XMLAttDef::Enumeration` (an undeclared attribute has type CData) -/
def isCDataBranch (type : Nat) : Bool := type == attCData || type > attEnumeration

/-- the CDATA branch: `case 0xFFFF: nextCh = *srcPtr++; break; case 0x09: case 0x0A: case 0x0D: nextCh = chSpace;` -/
def normCData : Str → Str
  | [] => []
  | c :: t =>
    if c == cEsc then
      match t with
      | [] => []                      -- the scanner never ends a raw value with the marker
      | e :: t' => e :: normCData t'
    else if c == cTab || c == cLF || c == cCR then cSpace :: normCData t
    else c :: normCData t

/-- is `nextCh` white space for the tokenised-type state machine?
    as it stands: `isWhitespace(nextCh)`;
    repaired: InWhitespace `!((escaped && nextCh != chSpace) || !isWhitespace(nextCh))`,
              InContent    `(nextCh == chSpace) || (isWhitespace(nextCh) && !escaped)`   — the same predicate -/
def tokWs (fixed nel escaped : Bool) (c : Char) : Bool :=
  if fixed && escaped then c == cSpace else readerIsWhitespace nel c

/-- the tokenised branch: `curState` (`inWs` = InWhitespace), `firstNonWS` -/
def normTokenized (fixed nel : Bool) : Bool → Bool → Str → Str
  | _, _, [] => []
  | inWs, firstNonWS, c :: t =>
    if c == cEsc then
      match t with
      | [] => []
      | e :: t' =>
        if inWs then
          if !tokWs fixed nel true e then
            (if firstNonWS then [cSpace] else []) ++ e :: normTokenized fixed nel false true t'
          else normTokenized fixed nel true firstNonWS t'
        else
          if tokWs fixed nel true e then normTokenized fixed nel true firstNonWS t'
          else e :: normTokenized fixed nel false true t'
    else
      if inWs then
        if !tokWs fixed nel false c then
          (if firstNonWS then [cSpace] else []) ++ c :: normTokenized fixed nel false true t
        else normTokenized fixed nel true firstNonWS t
      else
        if tokWs fixed nel false c then normTokenized fixed nel true firstNonWS t
        else c :: normTokenized fixed nel false true t

/-- `IGXMLScanner::normalizeAttValue(attDef, attName, value, toFill)`; `type` = `attDef ? attDef->getType() : CData` -/
def normalizeAttValue (fixed nel : Bool) (type : Nat) (value : Str) : Str :=
  if isCDataBranch type then normCData value else normTokenized fixed nel false false value

/-- `IGXMLScanner::normalizeAttRawValue`: unescaped white space becomes a space -/
def normalizeAttRawValue (nel : Bool) : Str → Str
  | [] => []
  | c :: t =>
    if c == cEsc then
      match t with
      | [] => []
      | e :: t' => e :: normalizeAttRawValue nel t'
    else (if readerIsWhitespace nel c then cSpace else c) :: normalizeAttRawValue nel t

/-! ### XMLScanner::scanCharRef: the value becomes one or two UTF-16 code units -/

/-- `(toFill, second)`, or `none` when the reference is rejected by its range (`isXMLChar`/`isControlChar` is checked
    separately for one-unit results).  `>> 10` and `& 0x3FF` are written `/ 1024` and `% 1024`. -/
def charRefUnits (value : Nat) : Option (Nat × Nat) :=
  if value ≥ 0x10000 ∧ value ≤ 0x10FFFF then
    some ((value - 0x10000) / 1024 + 0xD800, (value - 0x10000) % 1024 + 0xDC00)
  else if value ≤ 0xFFFD then some (value, 0)
  else none

end XV.Model.Normalize
