import XV.Gen.SafetyConsts
/-!
Code-shaped models of the growable containers whose index arithmetic the parser relies on (C01).

Every model keeps, beside the fields of the C++ object, a ghost field `alloc` = number of cells of the
current heap block, and every operation returns the list of memory accesses it performs
(`Access lo hi alloc` = cells `[lo, hi)` of a block of `alloc` cells).  "In bounds" is then a statement
about those lists, proved in `XV.Props.C01` for arbitrary operation sequences.

Numbers come from `XV.Gen.Safety` (regenerated from the C++ text on every run).
`(XMLSize_t)(cap * 1.25)` is modelled as `cap * 5 / 4` on `Nat` (`scale`): the double product is exact while
`cap * 5 < 2^53`, which `scale_exact_range` states as the bound under which the model is the code.
-/
namespace XV.Model.Growth
open XV.Gen.Safety

/-- `(XMLSize_t)(cap * f)`, `f = num/den` a decimal literal -/
def scale (num den cap : Nat) : Nat := cap * num / den

/-- cells `[lo, hi)` of a block of `alloc` cells are read or written -/
structure Access where
  lo : Nat
  hi : Nat
  alloc : Nat
  deriving Repr, DecidableEq

/-- the access stays inside the block (and `hi - lo` did not wrap) -/
def Access.ok (a : Access) : Prop := a.lo ≤ a.hi ∧ a.hi ≤ a.alloc

instance (a : Access) : Decidable a.ok := by unfold Access.ok; exact inferInstance

/-! ### framework/XMLBuffer -/

structure XBuf where
  index : Nat
  cap : Nat
  alloc : Nat            -- ghost: cells of the current block (`capacity + 1`)
  full : Option Nat      -- `fFullSize` when a full-handler is registered
  deriving Repr, DecidableEq

/-- `XMLBuffer(capacity)` -/
def XBuf.new (capacity : Nat) : XBuf := ⟨0, capacity, capacity + xmlBufferCtorSlack, none⟩

/-- `XMLBuffer(capacity)` followed by `setFullHandler(h, fullSize)` on the still empty buffer -/
def XBuf.newFull (capacity fullSize : Nat) : XBuf :=
  if fullSize = 0 then XBuf.new capacity
  else ⟨0, if fullSize < capacity then fullSize else capacity, capacity + xmlBufferCtorSlack, some fullSize⟩

/-- what `fFullHandler->bufferFull(*this)` answers: (claims success, value it leaves in `fIndex`).
The handler only ever consumes buffered characters, so the model clamps the new index to the old one. -/
abbrev Reply := Bool × Nat

/-- `XMLBuffer::ensureCapacity(extraNeeded)`; `none` = `RuntimeException(Array_BadNewSize)` -/
def ensureCapacity (b : XBuf) (extra : Nat) (r : Reply) : Option (XBuf × List Access) :=
  let newCap0 := (b.index + extra) * xmlBufferGrowMul
  let sel : Option (Nat × Nat) :=
    match b.full with
    | some fs =>
      if newCap0 > fs then
        if b.index + extra ≤ fs then some (fs, b.index)
        else
          let ni := min r.2 b.index
          if r.1 && decide (ni + extra ≤ fs) then some (fs, ni) else none
      else some (newCap0, b.index)
    | none => some (newCap0, b.index)
  match sel with
  | none => none
  | some (newCap, idx) =>
    if newCap > b.cap then
      let na := newCap + xmlBufferGrowSlack
      -- memcpy(newBuf, fBuffer, fIndex * sizeof(XMLCh))
      some ({ b with index := idx, cap := newCap, alloc := na }, [⟨0, idx, b.alloc⟩, ⟨0, idx, na⟩])
    else some ({ b with index := idx }, [])

inductive XOp where
  | appendCh (r : Reply)
  | appendN (count : Nat) (r : Reply)   -- `append(chars, count)` / `append(chars)` with `count = strlen`
  | set (count : Nat) (r : Reply)
  | reset
  | getRaw
  deriving Repr

/-- one public operation; `none` = exception escaped (the buffer is not used further in that parse) -/
def xstep (b : XBuf) : XOp → Option (XBuf × List Access)
  | .appendCh r =>
    if b.index = b.cap then
      match ensureCapacity b 1 r with
      | none => none
      | some (b', acc) => some ({ b' with index := b'.index + 1 }, acc ++ [⟨b'.index, b'.index + 1, b'.alloc⟩])
    else some ({ b with index := b.index + 1 }, [⟨b.index, b.index + 1, b.alloc⟩])
  | .appendN count r =>
    if count = 0 then some (b, [])
    else if b.index + count ≥ b.cap then
      match ensureCapacity b count r with
      | none => none
      | some (b', acc) => some ({ b' with index := b'.index + count }, acc ++ [⟨b'.index, b'.index + count, b'.alloc⟩])
    else some ({ b with index := b.index + count }, [⟨b.index, b.index + count, b.alloc⟩])
  | .set count r =>
    let b0 := { b with index := 0 }
    if count = 0 then some (b0, [])
    else if count ≥ b0.cap then
      match ensureCapacity b0 count r with
      | none => none
      | some (b', acc) => some ({ b' with index := b'.index + count }, acc ++ [⟨b'.index, b'.index + count, b'.alloc⟩])
    else some ({ b0 with index := count }, [⟨0, count, b0.alloc⟩])
  | .reset => some ({ b with index := 0 }, [])
  | .getRaw => some (b, [⟨b.index, b.index + 1, b.alloc⟩])   -- fBuffer[fIndex] = 0

/-- all accesses of an operation sequence (stops at the first exception) -/
def xrun : XBuf → List XOp → List Access
  | _, [] => []
  | b, op :: ops =>
    match xstep b op with
    | none => []
    | some (b', acc) => acc ++ xrun b' ops

/-- final state (for the driver) -/
def xfinal : XBuf → List XOp → Option XBuf
  | b, [] => some b
  | b, op :: ops =>
    match xstep b op with
    | none => none
    | some (b', _) => xfinal b' ops

/-- the same `newCap` on 64-bit `XMLSize_t` -/
def newCapMachine (index extra : Nat) : Nat := ((index + extra) % 2^64 * xmlBufferGrowMul) % 2^64

/-! ### `cap * 1.25` containers: ElemStack / WFElemStack stacks, prefix maps, child arrays -/

structure QVec where
  count : Nat
  cap : Nat          -- the block has exactly `cap` cells
  deriving Repr, DecidableEq

def qnext (q : Quarter) (cap : Nat) : Nat :=
  match q.zeroInit with
  | some z => if cap = 0 then z else scale q.num q.den cap
  | none => scale q.num q.den cap

def QVec.init (q : Quarter) : QVec := ⟨0, q.init⟩

inductive QOp where
  | push
  | pop
  | truncate (n : Nat)     -- WFElemStack: the prefix-map top reverts to the parent's `fTopPrefix`
  | clear
  deriving Repr

/-- `if (count == cap) expand(); block[count++] = x;` -/
def qstep (q : Quarter) (v : QVec) : QOp → QVec × List Access
  | .push =>
    if v.count = v.cap then
      let nc := qnext q v.cap
      -- memcpy(new, old, cap); memset(&new[cap], 0, newCap - cap); new[count] = x
      (⟨v.count + 1, nc⟩, [⟨0, v.cap, v.cap⟩, ⟨0, v.cap, nc⟩, ⟨v.cap, nc, nc⟩, ⟨v.count, v.count + 1, nc⟩])
    else (⟨v.count + 1, v.cap⟩, [⟨v.count, v.count + 1, v.cap⟩])
  | .pop => (⟨v.count - 1, v.cap⟩, [])
  | .truncate n => (⟨min n v.count, v.cap⟩, [])
  | .clear => (⟨0, v.cap⟩, [])

def qrun (q : Quarter) : QVec → List QOp → List Access
  | _, [] => []
  | v, op :: ops => (qstep q v op).2 ++ qrun q (qstep q v op).1 ops

def qfinal (q : Quarter) : QVec → List QOp → QVec
  | v, [] => v
  | v, op :: ops => qfinal q (qstep q v op).1 ops

/-! ### `max(count + n, count * 1.25)` vectors: ValueVectorOf, RangeToken; BaseRefVectorOf (`cap + cap/2`) -/

/-- `ValueVectorOf::ensureExtraCapacity(length)` -/
def vvEnsure (num den : Nat) (v : QVec) (len : Nat) : QVec × List Access :=
  let newMax := v.count + len
  if newMax > v.cap then
    let m := scale num den v.count
    let nm := max newMax m     -- if (newMax < minNewMax) newMax = minNewMax
    (⟨v.count, nm⟩, [⟨0, v.count, v.cap⟩, ⟨0, v.count, nm⟩])
  else (v, [])

/-- `BaseRefVectorOf::ensureExtraCapacity(length)` -/
def rvEnsure (div : Nat) (v : QVec) (len : Nat) : QVec × List Access :=
  let newMax := v.count + len
  if newMax ≤ v.cap then (v, [])
  else
    let g := v.cap + v.cap / div
    let nm := max newMax g     -- if (newMax < cap + cap/2) newMax = cap + cap/2
    -- copy, then zero the rest: for (; index < newMax; index++) newList[index] = 0
    (⟨v.count, nm⟩, [⟨0, v.count, v.cap⟩, ⟨0, v.count, nm⟩, ⟨v.count, nm, nm⟩])

inductive VOp where
  | add
  | insertAt (i : Nat)
  | removeAt (i : Nat)
  | removeAll
  | ensure (n : Nat)
  deriving Repr

def vstep (ens : QVec → Nat → QVec × List Access) (v : QVec) : VOp → QVec × List Access
  | .add =>
    let (v', acc) := ens v 1
    (⟨v'.count + 1, v'.cap⟩, acc ++ [⟨v'.count, v'.count + 1, v'.cap⟩])
  | .insertAt i =>
    if i > v.count then (v, [])         -- ArrayIndexOutOfBoundsException
    else
      let (v', acc) := ens v 1
      -- for (index = count; index > i; index--) list[index] = list[index-1]; list[i] = x
      (⟨v'.count + 1, v'.cap⟩, acc ++ [⟨i, v'.count + 1, v'.cap⟩])
  | .removeAt i =>
    if i ≥ v.count then (v, [])
    else (⟨v.count - 1, v.cap⟩, [⟨i, v.count, v.cap⟩])
  | .removeAll => (⟨0, v.cap⟩, [])
  | .ensure n => ens v n

def vrun (ens : QVec → Nat → QVec × List Access) : QVec → List VOp → List Access
  | _, [] => []
  | v, op :: ops => (vstep ens v op).2 ++ vrun ens (vstep ens v op).1 ops

def vfinal (ens : QVec → Nat → QVec × List Access) : QVec → List VOp → QVec
  | v, [] => v
  | v, op :: ops => vfinal ens (vstep ens v op).1 ops

/-- `RangeToken::expand(length)` -/
def rtExpand (v : QVec) (len : Nat) : QVec × List Access :=
  let newMax := v.count + len
  let m := scale rangeTokenNum rangeTokenDen v.count
  let nm := max newMax m     -- if (newMax < minNewMax) newMax = minNewMax
  (⟨v.count, nm⟩, [⟨0, v.count, v.cap⟩, ⟨0, v.count, nm⟩])

/-- the growth part of `RangeToken::addRange` once `fRanges` exists: guard, `expand(2)`, then two cells are
appended or everything from some even position `i ≤ count` is moved up by two (`inPlace` = the value was merged
into the last range and nothing is added). -/
def rtAdd (v : QVec) (inPlace : Bool) (i : Nat) : QVec × List Access :=
  if inPlace then (v, [⟨v.count - 1, v.count, v.cap⟩])
  else
    let trig := if rangeTokenGuardStrict then decide (v.count + rangeTokenGuardAdd > v.cap)
                else decide (v.count + rangeTokenGuardAdd ≥ v.cap)
    let (v', acc) := if trig then rtExpand v rangeTokenExpandBy else (v, [])
    let p := min i v'.count
    (⟨v'.count + 2, v'.cap⟩, acc ++ [⟨p, v'.count + 2, v'.cap⟩])

def rtRun : QVec → List (Bool × Nat) → List Access
  | _, [] => []
  | v, (b, i) :: ops => (rtAdd v b i).2 ++ rtRun (rtAdd v b i).1 ops

/-- first `addRange` on a fresh token: `fRanges = allocate(fMaxCount)`; `fRanges[0]`, `fRanges[1]` written -/
def rtFirst : QVec × List Access := (⟨2, rangeTokenInit⟩, [⟨0, 2, rangeTokenInit⟩])

/-! ### dom/impl DOMBuffer -/

structure DBuf where
  index : Nat
  cap : Nat
  alloc : Nat
  deriving Repr, DecidableEq

def DBuf.new (capacity : Nat) : DBuf := ⟨0, capacity, capacity + 1⟩

/-- `DOMBuffer::expandCapacity(extraNeeded)` -/
def dExpand (b : DBuf) (extra : Nat) : DBuf × List Access :=
  let newCap := scale domBufferNum domBufferDen (b.index + extra)
  let na := newCap + domBufferSlack
  -- memcpy(newBuf, fBuffer, fCapacity * sizeof(XMLCh))
  (⟨b.index, newCap, na⟩, [⟨0, b.cap, b.alloc⟩, ⟨0, b.cap, na⟩])

inductive DOp where
  | append (count : Nat)
  | set (count : Nat)
  | reset
  | getRaw
  deriving Repr

def dstep (b : DBuf) : DOp → DBuf × List Access
  | .append count =>
    let (b', acc) := if b.index + count ≥ b.cap then dExpand b count else (b, [])
    (⟨b'.index + count, b'.cap, b'.alloc⟩,
      acc ++ [⟨b'.index, b'.index + count, b'.alloc⟩, ⟨b'.index + count, b'.index + count + 1, b'.alloc⟩])
  | .set count =>
    let b0 : DBuf := ⟨0, b.cap, b.alloc⟩
    let (b', acc) := if count ≥ b0.cap then dExpand b0 count else (b0, [])
    (⟨count, b'.cap, b'.alloc⟩, acc ++ [⟨0, count, b'.alloc⟩, ⟨count, count + 1, b'.alloc⟩])
  | .reset => (⟨0, b.cap, b.alloc⟩, [⟨0, 1, b.alloc⟩])
  | .getRaw => (b, [⟨b.index, b.index + 1, b.alloc⟩])

def drun : DBuf → List DOp → List Access
  | _, [] => []
  | b, op :: ops => (dstep b op).2 ++ drun (dstep b op).1 ops

def dfinal : DBuf → List DOp → DBuf
  | b, [] => b
  | b, op :: ops => dfinal (dstep b op).1 ops

end XV.Model.Growth
