/-
Code-shaped model of DOMLSSerializerImpl::procCdataSection / procUnrepCharInCdataSection
(split-cdata-sections = true), the non-splitting branch of the CDATA_SECTION_NODE case, and the
repaired splitter (fixes/c12-cdata-split.diff).  Literals from the GENERATED XV.Gen.Escapes.  No Mathlib.
-/
import XV.Model.Formatter
namespace XV.Model.Cdata
open XV.Gen.Escapes XV.Model.Formatter

/-- `XMLString::patternMatch(cur, gEndCDATA)`: the text before the first `]]>` and the text after it -/
def splitAtEnd : List Nat → Option (List Nat × List Nat)
  | [] => none
  | c :: t =>
    if gEndCDATA.isPrefixOf (c :: t) then some ([], t.drop 2)
    else (splitAtEnd t).map (fun p => (c :: p.1, p.2))

/-- `*fFormatter << XMLFormatter::NoEscapes << …` inside TRY_CATCH_THROW (UnRep_Fail) -/
def raw (cd : Coder) (us : List Nat) : Out := handleUnEscapedChars cd .UnRep_Fail us

def seq2 (a b : Out) : Out := seq3 a b (.ok [])

/-- a run of representable units becomes one CDATA section -/
def flushCdata (cd : Coder) (run : List Nat) : Out :=
  if run.isEmpty then .ok []
  else seq3 (raw cd gStartCDATA) (handleUnEscapedChars cd .UnRep_Fail run) (raw cd gEndCDATA)

/-- `procUnrepCharInCdataSection`: representable runs as CDATA sections, every other UNIT as `&#xH;`
(`binToText(*srcPtr, …)` — per unit, surrogates included) -/
def unrepLoop (cd : Coder) : List Nat → List Nat → Out
  | [], run => flushCdata cd run
  | c :: t, run =>
    if cd.rep c then unrepLoop cd t (run ++ [c])
    else seq3 (flushCdata cd run) (writeCharRef cd c) (unrepLoop cd t [])

def procUnrep (cd : Coder) (piece : List Nat) : Out := unrepLoop cd piece []

/-- the pieces `procCdataSection` cuts `nodeValue ++ "]]>"` into (the `]]>` found is skipped) -/
def piecesAsIs : Nat → List Nat → List (List Nat)
  | 0, _ => []
  | f + 1, cur =>
    match splitAtEnd cur with
    | none => [cur]
    | some (piece, rest) => piece :: piecesAsIs f rest

def writePiece (cd : Coder) (piece : List Nat) : Out :=
  if piece.isEmpty then raw cd (gStartCDATA ++ gEndCDATA)    -- `if (endTagPos == 0)`
  else procUnrep cd piece

def seqAll : List Out → Out
  | [] => .ok []
  | a :: t => seq2 a (seqAll t)

/-- `procCdataSection` as it is: after the last `]]>` (the appended one) an empty tail remains, which
`procUnrepCharInCdataSection("")` writes nothing for. -/
def procCdataSection (cd : Coder) (v : List Nat) : Out :=
  let ps := piecesAsIs (v.length + 4) (v ++ gEndCDATA)
  seqAll ((ps.dropLast.map (writePiece cd)) ++ [procUnrep cd (ps.getLastD [])])

/-! ### the repaired splitter: cut every `]]>` between `]]` and `>` -/

def endsWith2 : List Nat → Bool
  | [] => false
  | [_] => false
  | [a, b] => a == 93 && b == 93
  | _ :: b :: c :: t => endsWith2 (b :: c :: t)

def splitFixed : List Nat → List Nat → List (List Nat)
  | [], cur => [cur]
  | c :: t, cur =>
    if c == 62 && endsWith2 cur then cur :: splitFixed t [62]
    else splitFixed t (cur ++ [c])

def procCdataFixed (cd : Coder) (v : List Nat) : Out :=
  seqAll ((splitFixed v []).map (writePiece cd))

/-- CDATA_SECTION_NODE with split-cdata-sections = false: `]]>` inside ⇒ fatal error (nothing of the section
written), otherwise the section as one piece; an unrepresentable unit ⇒ TranscodingException -/
def cdataNoSplit (cd : Coder) (v : List Nat) : Out :=
  if (splitAtEnd v).isSome then .error (.exc "Writer_NestedCDATA")
  else raw cd (gStartCDATA ++ v ++ gEndCDATA)

end XV.Model.Cdata
