/-
C18 — `XMemory::operator new(size, manager)` / `operator delete(p)` (util/XMemory.cpp), code-shaped over a
word-addressed memory `Nat → Nat` and the event trace of XV.Spec.Ledger.  No Mathlib.
The manager pointer is stored at the start of the raw block; the object lives `header` bytes further on.
-/
import XV.Spec.Ledger
namespace XV.Model.XMemory
open XV.Spec.Ledger

abbrev Mem := Nat → Nat

def store (m : Mem) (a v : Nat) : Mem := fun x => if x = a then v else m x

/-- `operator new(size, manager)`: `block` is what `manager->allocate(header + size)` returned. -/
def xnew (header : Nat) (mem : Mem) (tr : List Event) (mgr block size : Nat) : Mem × List Event × Nat :=
  (store mem block mgr,                                  -- *(MemoryManager**)block = manager;
   tr ++ [Event.alloc mgr block (header + size)],
   block + header)                                       -- return (char*)block + headerSize;

/-- `operator delete(p)` for non-null `p`: the manager is read back from the header. -/
def xdelete (header : Nat) (mem : Mem) (tr : List Event) (p : Nat) : List Event :=
  let block := p - header                                -- char* const block = (char*)p - headerSize;
  let mgr := mem block                                   -- MemoryManager* const manager = *(MemoryManager**)block;
  tr ++ [Event.free mgr block]                           -- manager->deallocate(block);

end XV.Model.XMemory
