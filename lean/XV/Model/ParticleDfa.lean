/-
C08 — code-shaped model of the schema-mode `DFAContentModel` with counting states (definitions only; no Mathlib).

  src/xercesc/validators/common/DFAContentModel.cpp
      buildDFA            element map, `elemOccurenceMap` (one `Occurence` per element-map entry, taken from the
                          leaf that CREATED the entry), `fCountingStates` (first self-loop transition of a state)
      buildSyntaxTree     `Loop` nodes become one `CMRepeatingLeaf` position under the `*` / `+` the
                          expansion wrapped around them
      validateContent     first element-map entry that accepts the child and has a valid transition
      handleRepetitions   loop counter, alternative entry after `maxOccurs`, `minOccurs` when leaving

The position automaton, subset construction and table layout are the C07 model (`XV.Model.ContentModel.buildDFA`),
reused unchanged: leaf ids play the role of raw names (the element map merges leaves with equal
(type, URI, local part), i.e. equal leaf id).
-/
import XV.Model.ContentModel
import XV.Model.Particle
namespace XV.Model.ParticleDfa
open XV.Model.Particle
open XV.Model.ContentModel (Node QN DFA Res)

/-- the `ContentSpecNode` tree as `buildSyntaxTree` reads it: a `Loop` is a leaf position below its `*` / `+` -/
def toNode : XNode Nat → Node
  | .leaf a => .leaf (.elem a)
  | .unary .ZeroOrOne x => .unary .ZeroOrOne (toNode x)
  | .unary .ZeroOrMore x => .unary .ZeroOrMore (toNode x)
  | .unary .OneOrMore x => .unary .OneOrMore (toNode x)
  | .bin .Choice x y => .binary .Choice (toNode x) (toNode y)
  | .bin _ x y => .binary .Sequence (toNode x) (toNode y)
  | .loopRep .ZeroOrOne _ _ x => .unary .ZeroOrOne (toNode x)
  | .loopRep .ZeroOrMore _ _ x => .unary .ZeroOrMore (toNode x)
  | .loopRep .OneOrMore _ _ x => .unary .OneOrMore (toNode x)

/-- the leaves in position order with the occurrence range of `CMRepeatingLeaf`s -/
def leafInfos : XNode Nat → List (Nat × Option (Nat × Option Nat))
  | .leaf a => [(a, none)]
  | .unary _ x => leafInfos x
  | .bin _ x y => leafInfos x ++ leafInfos y
  | .loopRep _ mn mx (.leaf a) => [(a, some (mn, mx))]
  | .loopRep _ _ _ x => leafInfos x

/-- `Occurence` (minOccurs, maxOccurs, elemIndex) -/
structure Occ where
  min : Nat
  max : Option Nat
  elemIndex : Nat
  deriving Repr, DecidableEq, Inhabited

structure CDFA where
  dfa : DFA
  /-- `fCountingStates` (`none` = the array was never allocated: no element-map entry was created by a repeating leaf) -/
  counting : Option (List (Option Occ))
  deriving Repr, Inhabited

/-- `elemOccurenceMap[j]`: set when entry `j` is added to the element map, from the leaf that adds it -/
def elemOccurrence (infos : List (Nat × Option (Nat × Option Nat))) (elemMap : List (Option Nat)) : List (Option Occ) :=
  elemMap.mapIdx (fun j e =>
    match e with
    | none => none
    | some a =>
      match infos.find? (fun i => i.1 == a) with
      | some (_, some (mn, mx)) => some ⟨mn, mx, j⟩
      | _ => none)

/-- "Fill in the occurence information for each looping state": the FIRST `j` with `transitions[j] == i`
    decides (`break`), whether or not it carries an occurrence -/
def countingStates (d : DFA) (eo : List (Option Occ)) : List (Option Occ) :=
  d.transTable.mapIdx (fun i row =>
    match (List.range row.length).find? (fun j => row.getD j none == some i) with
    | none => none
    | some j => eo.getD j none)

def buildCDFA (x : XNode Nat) : Option CDFA :=
  match XV.Model.ContentModel.buildDFA (toNode x) with
  | none => none
  | some d =>
    let eo := elemOccurrence (leafInfos x) d.elemMap
    some { dfa := d, counting := if eo.any Option.isSome then some (countingStates d eo) else none }

variable {β : Type}

/-- the `for (; elemIndex < fElemMapSize; elemIndex++)` search over the element map and the transition row of the
    current state, starting at entry `from_`: first entry that accepts the child and has a valid transition -/
def findTransGo (acc : β → Nat → Bool) (child : β) : List (Option Nat) → List (Option Nat) → Nat → Nat → Option (Nat × Nat)
  | e :: es, t :: ts, idx, from_ =>
    if idx < from_ then findTransGo acc child es ts (idx + 1) from_
    else
      match e with
      | some a =>
        if acc child a then
          match t with
          | some next => some (idx, next)
          | none => findTransGo acc child es ts (idx + 1) from_
        else findTransGo acc child es ts (idx + 1) from_
      | none => findTransGo acc child es ts (idx + 1) from_
  | _, _, _, _ => none

def findTrans (d : DFA) (acc : β → Nat → Bool) (child : β) (curState : Nat) (from_ : Nat) : Option (Nat × Nat) :=
  findTransGo acc child d.elemMap (d.transTable.getD curState []) 0 from_

def enterLoop (cs : List (Option Occ)) (nextState elemIndex : Nat) (nextLoop : Nat) : Nat :=
  match cs.getD nextState none with
  | some o => if elemIndex = o.elemIndex then 1 else 0
  | none => nextLoop

/-- `DFAContentModel::handleRepetitions`: `none` = return false; `some (nextState, nextLoop)` -/
def handleRepetitions (c : CDFA) (acc : β → Nat → Bool) (child : β) (curState currentLoop nextState elemIndex : Nat) :
    Option (Nat × Nat) :=
  match c.counting with
  | none => some (nextState, 0)
  | some cs =>
    match cs.getD curState none with
    | some o =>
      if curState = nextState then
        let nextLoop := currentLoop + 1
        if (match o.max with | some m => decide (nextLoop > m) | none => false) then
          -- looped too many times: perhaps another particle allows the same name
          match findTrans c.dfa acc child curState (elemIndex + 1) with
          | none => none
          | some (e2, temp) => some (temp, enterLoop cs temp e2 nextLoop)
        else some (nextState, nextLoop)
      else if currentLoop < o.min then none
      else some (nextState, enterLoop cs nextState elemIndex currentLoop)
    | none => some (nextState, enterLoop cs nextState elemIndex currentLoop)

def walk (c : CDFA) (acc : β → Nat → Bool) : List β → Nat → Nat → Nat → Res
  | [], curState, loopCount, childIndex =>
    if !(c.dfa.finalFlags.getD curState false) then .fail childIndex
    else match c.counting with
      | none => .ok
      | some cs =>
        match cs.getD curState none with
        | some o => if loopCount < o.min then .fail childIndex else .ok
        | none => .ok
  | child :: rest, curState, loopCount, childIndex =>
    match findTrans c.dfa acc child curState 0 with
    | none => .fail childIndex
    | some (e, next) =>
      match handleRepetitions c acc child curState loopCount next e with
      | none => .fail childIndex
      | some (next', loop') => walk c acc rest next' loop' (childIndex + 1)

/-- `DFAContentModel::validateContent` (schema, not mixed) -/
def validate (c : CDFA) (acc : β → Nat → Bool) (children : List β) : Res :=
  match children with
  | [] => if c.dfa.emptyOk then .ok else .fail 0
  | _ => walk c acc children 0 0 0

/-- the whole pipeline for a ContentSpecNode tree over leaf ids: `makeContentModel`'s conversion, DFA build, walk;
    children are leaf ids (each child is accepted by exactly the leaf with its id) -/
def validateTree (s : SNode Nat) (children : List Nat) : Res :=
  match buildCDFA (makeTree s) with
  | some c => validate c (fun x a => x == a) children
  | none => .exc "dfa-fuel"

end XV.Model.ParticleDfa
