/-
Model of util/regx/RangeToken.cpp (range algebra), written after the C++.
A token's `fRanges` array (flat pairs of XMLInt32) is a `List (Int × Int)`; `fSorted`/`fCompacted` are flags.
`sortRanges` (a bubble sort on (start,end) pairs) is modelled by insertion sort on the same total
lexicographic order: equal keys are identical pairs, so the resulting array is the same.
-/
namespace XV.Model.RangeTok

abbrev R := List (Int × Int)

def UTF16_MAX : Int := 0x10FFFF
def MAPSIZE : Int := 256

def lexLe (p q : Int × Int) : Bool := p.1 < q.1 || (p.1 == q.1 && p.2 ≤ q.2)

def insertSorted (p : Int × Int) : R → R
  | [] => [p]
  | q :: t => if lexLe p q then p :: q :: t else q :: insertSorted p t

def sortRanges : R → R
  | [] => []
  | p :: t => insertSorted p (sortRanges t)

/-- the `for (i …)` scan of the `fSorted && fRanges[fElemCount-1] >= val1` branch of `addRange`;
falling off the end appends (the repaired behaviour: the unrepaired code dropped the range). -/
def scanInsert (v1 v2 : Int) : R → R
  | [] => [(v1, v2)]
  | (a, b) :: t =>
    if a ≤ v1 ∧ b ≥ v2 then (a, b) :: t
    else if a = v1 ∧ b < v2 then (a, v2) :: t
    else if a > v1 ∨ (a = v1 ∧ b > v2) then (v1, v2) :: (a, b) :: t
    else (a, b) :: scanInsert v1 v2 t

def setLastEnd (v : Int) : R → R
  | [] => []
  | [(a, _)] => [(a, v)]
  | p :: t => p :: setLastEnd v t

def lastEnd : R → Int
  | [] => 0
  | [(_, b)] => b
  | _ :: t => lastEnd t

structure Tok where
  ranges : R := []
  sorted : Bool := false
  compacted : Bool := false
  deriving Repr, DecidableEq

def addRange (t : Tok) (start stop : Int) : Tok :=
  let v1 := if start ≤ stop then start else stop
  let v2 := if start ≤ stop then stop else start
  match t.ranges with
  | [] => { t with ranges := [(v1, v2)], sorted := true }
  | rs =>
    if lastEnd rs + 1 = v1 then { t with ranges := setLastEnd v2 rs }
    else if t.sorted ∧ lastEnd rs ≥ v1 then { t with ranges := scanInsert v1 v2 rs }
    else
      let sorted' := if lastEnd rs ≥ v1 then false else t.sorted
      let rs' := rs ++ [(v1, v2)]
      if !sorted' then { t with ranges := sortRanges rs', sorted := true }
      else { t with ranges := rs', sorted := sorted' }

def doSort (t : Tok) : Tok :=
  if t.sorted ∨ t.ranges = [] then t else { t with ranges := sortRanges t.ranges, sorted := true }

/-- inner `while` of compactRanges: absorb following ranges into the base range (a, b) -/
def absorb (a b : Int) : R → R
  | [] => [(a, b)]
  | (s, e) :: t =>
    if b + 1 < s then (a, b) :: absorb s e t
    else if b + 1 = s ∨ b < e then absorb a e t
    else absorb a b t

def compact : R → R
  | [] => []
  | (a, b) :: t => absorb a b t

def doCompact (t : Tok) : Tok :=
  if t.compacted ∨ t.ranges.length ≤ 1 then t else { t with ranges := compact t.ranges, compacted := true }

/-- the three-index merge loop of mergeRanges -/
def mergeL : R → R → R
  | [], ys => ys
  | xs, [] => xs
  | x :: xs, y :: ys =>
    if y.1 < x.1 || (y.1 == x.1 && y.2 < x.2) then y :: mergeL (x :: xs) ys
    else x :: mergeL xs (y :: ys)

def mergeRanges (t o : Tok) : Tok × Tok :=
  if o.ranges = [] then (t, o) else
  let t1 := doSort t
  let o1 := doSort o
  if t1.ranges = [] then ({ t1 with ranges := o1.ranges, sorted := true }, o1)
  else ({ t1 with ranges := mergeL t1.ranges o1.ranges }, o1)

/-- the `while (srcCount < fElemCount && subCount < tok->fElemCount)` loop of subtractRanges;
`fRanges[srcCount] = subEnd + 1` is the replaced head. fuel ≥ src.length + sub.length suffices. -/
def subLoop : Nat → R → R → R
  | 0, src, _ => src
  | _ + 1, [], _ => []
  | _ + 1, src, [] => src
  | fuel + 1, (sb, se) :: st, (ub, ue) :: ut =>
    if se < ub then (sb, se) :: subLoop fuel st ((ub, ue) :: ut)
    else if se ≥ ub ∧ sb ≤ ue then
      if ub ≤ sb ∧ se ≤ ue then subLoop fuel st ((ub, ue) :: ut)
      else if ub ≤ sb then subLoop fuel ((ue + 1, se) :: st) ut
      else if se ≤ ue then (sb, ub - 1) :: subLoop fuel st ((ub, ue) :: ut)
      else (sb, ub - 1) :: subLoop fuel ((ue + 1, se) :: st) ut
    else subLoop fuel ((sb, se) :: st) ut        -- `subEnd < srcBegin`

def subtractL (a b : R) : R := subLoop (a.length + b.length) a b

def intLoop : Nat → R → R → R
  | 0, _, _ => []
  | _ + 1, [], _ => []
  | _ + 1, _, [] => []
  | fuel + 1, (sb, se) :: st, (tb, te) :: tt =>
    if se < tb then intLoop fuel st ((tb, te) :: tt)
    else if se ≥ tb ∧ sb ≤ te then
      if tb ≤ sb ∧ se ≤ te then (sb, se) :: intLoop fuel st ((tb, te) :: tt)
      else if tb ≤ sb then
        (sb, te) :: (if tt ≠ [] then intLoop fuel ((te + 1, se) :: st) tt else intLoop fuel st tt)
      else if se ≤ te then (tb, se) :: intLoop fuel st ((tb, te) :: tt)
      else (tb, te) :: (if tt ≠ [] then intLoop fuel ((te + 1, se) :: st) tt else intLoop fuel st tt)
    else  -- tokEnd < srcBegin
      if tt ≠ [] then intLoop fuel ((sb, se) :: st) tt else intLoop fuel st tt

def intersectL (a b : R) : R := intLoop (a.length + b.length) a b

/-- subtractRanges for two T_RANGE tokens (sort+compact both, then the loop) -/
def subtractRanges (t o : Tok) : Tok × Tok :=
  if t.ranges = [] ∨ o.ranges = [] then (t, o) else
  let t1 := doCompact (doSort t)
  let o1 := doCompact (doSort o)
  ({ t1 with ranges := subtractL t1.ranges o1.ranges }, o1)

def intersectRanges (t o : Tok) : Tok × Tok :=
  if t.ranges = [] ∨ o.ranges = [] then (t, o) else
  let t1 := doCompact (doSort t)
  let o1 := doCompact (doSort o)
  ({ t1 with ranges := intersectL t1.ranges o1.ranges }, o1)

/-- the `for (i = 1; i < fElemCount - 2; i += 2)` loop of complementRanges: gaps between ranges -/
def addGaps (acc : Tok) : R → Tok
  | (_, b) :: (a', b') :: t => addGaps (addRange acc (b + 1) (a' - 1)) ((a', b') :: t)
  | _ => acc

def complementL : R → Tok
  | [] => {}      -- C++ would read fRanges[-1]; never called with an empty token
  | (a, b) :: t =>
    let r0 : Tok := {}
    let r1 := if a > 0 then addRange r0 0 (a - 1) else r0
    let r2 := addGaps r1 ((a, b) :: t)
    let last := lastEnd ((a, b) :: t)
    let r3 := if last ≠ UTF16_MAX then addRange r2 (last + 1) UTF16_MAX else r2
    { r3 with compacted := true }

def complementRanges (o : Tok) : Tok × Tok :=
  let o1 := doCompact (doSort o)
  (complementL o1.ranges, o1)

/-- bits of `fMap` as decided by doCreateMap -/
def mapCovers (k : Int) : R → Bool
  | [] => false
  | (b, e) :: t =>
    if b < MAPSIZE then (b ≤ k && k ≤ e && k < MAPSIZE) || (if e ≥ MAPSIZE then false else mapCovers k t)
    else false

/-- `fRanges[fNonMapIndex ..]` -/
def nonMap : R → R
  | [] => []
  | (b, e) :: t => if b < MAPSIZE then (if e ≥ MAPSIZE then (b, e) :: t else nonMap t) else (b, e) :: t

def scan (ch : Int) : R → Bool
  | [] => false
  | (b, e) :: t => (b ≤ ch && ch ≤ e) || scan ch t

/-- RangeToken::match for T_RANGE (`neg = false`) / T_NRANGE (`neg = true`), ch ≥ 0 -/
def matchCh (neg : Bool) (rs : R) (ch : Int) : Bool :=
  let r := if ch < MAPSIZE then mapCovers ch rs else scan ch (nonMap rs)
  if neg then !r else r

end XV.Model.RangeTok
